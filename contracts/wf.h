/* wf.h -- shared specification vocabulary (macros only; expanded into clause text before weaving,
 * because the translation unit the clauses are inserted into is already preprocessed). */
#ifndef VERIF_WF_H
#define VERIF_WF_H
#define EMPTY (-1)
#define FA(k,lim,body) __CPROVER_forall { int_t k; (0 <= k && k < (lim)) ==> (body) }
#define EX(k,lim,body) __CPROVER_exists { int_t k; (0 <= k && k < (lim)) && (body) }
#define FRESH(p,n) __CPROVER_is_fresh(p, (n)*sizeof(*(p)))
#define WHOLE(p) __CPROVER_object_whole(p)
#define OLD(e) __CPROVER_old(e)
#define LE(e) __CPROVER_loop_entry(e)
#define RET __CPROVER_return_value
#endif
