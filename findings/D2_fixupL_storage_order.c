/* D2 witness: supernode numbers (NewNsuper, NSUPER_LOCK) and subscript storage (Glu_alloc(LSUB), LLOCK) are obtained in two separate
 * critical sections; fixupL compacts lsub[] IN PLACE in supernode-NUMBER order and is only correct when the storage order is the same.
 * Schedule forced here (a legal one: a thread may be delayed arbitrarily long when it asks for a lock): thread A takes the first leaf
 * (many rows) and gets number 0, thread B takes the second leaf (few rows), gets number 1 and allocates its subscripts FIRST.
 * No library code is modified: pthread_mutex_lock is wrapped at link time (-Wl,--wrap=pthread_mutex_lock).
 * build: gcc -I/repo/SRC d2.c <lib> -Wl,--wrap=pthread_mutex_lock -lopenblas -lpthread -lm */
#include <stdio.h>
#include <stdlib.h>
#include <math.h>
#include <unistd.h>
#include <pthread.h>
#include "slu_mt_ddefs.h"
int __real_pthread_mutex_lock(pthread_mutex_t *m);
static pthread_t tid[8]; static int nlock[8], ntid; static pthread_mutex_t me = PTHREAD_MUTEX_INITIALIZER; static int force = 0, verbose = 0;
int __wrap_pthread_mutex_lock(pthread_mutex_t *m) {
  if (force && m != &me) {
    int t, k; pthread_t self = pthread_self();
    __real_pthread_mutex_lock(&me);
    for (t = 0; t < ntid; t++) if (pthread_equal(tid[t], self)) break;
    if (t == ntid) { tid[ntid++] = self; }
    k = ++nlock[t];
    pthread_mutex_unlock(&me);
    if (verbose) fprintf(stderr, "thread %d lock #%d %p\n", t, k, (void *)m);
    if (t == 1 && k == 1) usleep(100000);      /* B starts late: A takes the first leaf and supernode number 0 */
    if (t == 0 && k == 3) usleep(400000);      /* A: 1 = scheduler, 2 = NewNsuper, 3 = Glu_alloc(LSUB) -> delayed; B allocates first */
  }
  return __real_pthread_mutex_lock(m);
}
#define N 10
int main(int argc, char **argv) {
  /* columns 0..5: dense 6x6 block; columns 6,7: 2x2 block; columns 8,9 couple everything (root of the etree) */
  static double D[N][N]; int i, j, k = 0, nnz = 0; int_t info;
  int_t *colptr, *rowind, *perm_c, *perm_r; double *a, *b, *xtrue; SuperMatrix A, L, U, B;
  verbose = argc > 2; force = argc > 1 ? atoi(argv[1]) : 1;
  for (i = 0; i < 6; i++) for (j = 0; j < 6; j++) D[i][j] = (i == j) ? 10 + i : 1.0 / (1 + i + j);
  for (i = 6; i < 8; i++) for (j = 6; j < 8; j++) D[i][j] = (i == j) ? 20 + i : 0.5;
  for (i = 0; i < N; i++) for (j = 8; j < N; j++) D[i][j] = (i == j) ? 30 + i : 0.25, D[j][j] = 30 + j;
  for (j = 8; j < N; j++) for (i = 0; i < 8; i++) D[j][i] = (i == 5 || i == 7) ? 0.125 : 0;   /* last rows touch the two block roots only */
  for (i = 0; i < N; i++) for (j = 0; j < N; j++) if (D[i][j] != 0) nnz++;
  colptr = intMalloc(N + 1); rowind = intMalloc(nnz); a = doubleMalloc(nnz); perm_c = intMalloc(N); perm_r = intMalloc(N);
  b = doubleMalloc(N); xtrue = doubleMalloc(N);
  for (j = 0; j < N; j++) { colptr[j] = k; for (i = 0; i < N; i++) if (D[i][j] != 0) { rowind[k] = i; a[k++] = D[i][j]; } }
  colptr[N] = k;
  for (i = 0; i < N; i++) { perm_c[i] = i; xtrue[i] = 1 + i; }
  for (i = 0; i < N; i++) { b[i] = 0; for (j = 0; j < N; j++) b[i] += D[i][j] * xtrue[j]; }
  dCreate_CompCol_Matrix(&A, N, N, nnz, a, rowind, colptr, SLU_NC, SLU_D, SLU_GE);
  dCreate_Dense_Matrix(&B, N, 1, b, N, SLU_DN, SLU_D, SLU_GE);
  pdgssv(2, &A, perm_c, perm_r, &L, &U, &B, &info);
  force = 0;
  printf("pdgssv info = %d\n", (int)info);
  /* C09: each supernode's row list begins with its own columns in order */
  SCPformat *Ls = L.Store; int bad = 0; double err = 0;
  for (k = 0; k <= Ls->nsuper; k++) {
    int f = Ls->sup_to_colbeg[k], e = Ls->sup_to_colend[k];
    printf("supernode %d: columns %d..%d rows:", k, f, e - 1);
    for (i = Ls->rowind_colbeg[f]; i < Ls->rowind_colend[f]; i++) printf(" %d", (int)Ls->rowind[i]);
    for (j = f; j < e; j++) if (Ls->rowind_colend[f] - Ls->rowind_colbeg[f] < e - f || Ls->rowind[Ls->rowind_colbeg[f] + (j - f)] != j) bad = 1;
    printf("\n");
  }
  for (i = 0; i < N; i++) err = fmax(err, fabs(b[i] - xtrue[i]));
  printf("row lists well-formed: %s   max |x - xtrue| = %g\n", bad ? "NO" : "yes", err);
  return (bad || !(err < 1e-8)) ? 1 : 0;
}
