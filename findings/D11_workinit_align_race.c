/* D11 witness (C14/C05, needs a schedule): p?gstrf_WorkInit obtains a thread's dwork block from the user workspace in one critical
 * section (?user_malloc) and aligns it in a SECOND one (pointer moved DOWN by `extra` bytes, then stack.top2 lowered).  A thread that
 * allocates in between gets the bytes directly below the unaligned block; the first thread's aligned dwork then overlaps them.
 * Every worker of p?gstrf starts with exactly this call (p?gstrf_thread.c:179), so with nprocs >= 2 and a user workspace whose
 * TAIL is not 8-byte aligned (lwork % 8 != 0 - any lwork > 0 is legal) two threads' work arrays can share bytes.
 * The schedule is forced by wrapping pthread_mutex_lock at link time; the library is not modified.
 * build: gcc -D__PTHREAD -DAdd_ -I/repo/SRC D11_workinit_align_race.c <lib> -Wl,--wrap=pthread_mutex_lock -lpthread -lm */
#include <stdio.h>
#include <stdlib.h>
#include <unistd.h>
#include <pthread.h>
#include "slu_mt_ddefs.h"
extern void pdgstrf_SetupSpace(void *, int_t);
extern int_t pdgstrf_WorkInit(int_t, int_t, int_t **, double **);
int __real_pthread_mutex_lock(pthread_mutex_t *m);
static pthread_t tA; static volatile int a_locks, a_has_dwork, force;
int __wrap_pthread_mutex_lock(pthread_mutex_t *m) {
  if (force && pthread_equal(pthread_self(), tA)) {
    int k = ++a_locks;                 /* A: 1 = iwork request, 2 = dwork request, 3 = alignment fix-up */
    if (k == 3) { a_has_dwork = 1; usleep(300000); }     /* A is delayed when it asks for the lock the second time for dwork */

  }
  return __real_pthread_mutex_lock(m);
}
static int_t m = 5, w = 2, *iw[2]; static double *dw[2]; static int_t inf[2];
static void *worker(void *arg) {
  long t = (long)arg;
  if (t == 1) { int waited = 0; while (force && !a_has_dwork && waited++ < 500) usleep(1000); }   /* B starts its requests once A holds its unaligned dwork block (repaired library: A never asks a third time -> B starts after 0.5 s) */
  inf[t] = pdgstrf_WorkInit(m, w, &iw[t], &dw[t]);
  return 0;
}
int main(int argc, char **argv) {
  int_t maxsuper = sp_ienv(3), rowblk = sp_ienv(4);
  int_t isize = (2*w + 5 + NO_MARKER) * m * sizeof(int_t);
  int_t ntempv = 2*m > (maxsuper + rowblk)*w ? 2*m : (maxsuper + rowblk)*w;
  int_t dsize = (m*w + ntempv) * sizeof(double);
  int_t lwork = 4 * (isize + dsize) + 4;          /* plenty of room; lwork % 8 == 4 */
  char *work = aligned_alloc(16, lwork + 16); pthread_t th[2]; long t;
  force = argc > 1 ? atoi(argv[1]) : 1;
  pdgstrf_SetupSpace(work, lwork);
  pthread_create(&th[0], 0, worker, (void *)0); tA = th[0];
  pthread_create(&th[1], 0, worker, (void *)1);
  for (t = 0; t < 2; t++) pthread_join(th[t], 0);
  long a0 = (char *)dw[0] - work, a1 = a0 + dsize, b0 = (char *)iw[1] - work, b1 = b0 + isize, c0 = (char *)dw[1] - work, c1 = c0 + dsize;
  printf("infos %d %d; thread A dwork [%ld,%ld)  thread B iwork [%ld,%ld) dwork [%ld,%ld)\n", (int)inf[0], (int)inf[1], a0, a1, b0, b1, c0, c1);
  int overlap = (a0 < b1 && b0 < a1) || (a0 < c1 && c0 < a1);
  printf("%s\n", overlap ? "OVERLAP: two threads own the same bytes of the user workspace" : "blocks disjoint");
  return overlap;
}
