/* witness for the open finding D9: L-supernode slot overflow on a structurally singular matrix.
 * 5x5, column 3 empty, column 4 holds explicit zeros; natural ordering; 4 threads. */
#include "slu_mt_ddefs.h"
int main(int argc, char**argv){
  int n = 5, np = argc > 1 ? atoi(argv[1]) : 4, perm = argc > 2 ? atoi(argv[2]) : 0;
  int colptr[] = {0,1,3,4,4,7}; int rowind[] = {0, 0,1, 2, 0,1,4}; double val[] = {3, 4,3, 2, 0,0,0};
  double rhs[] = {1,1,1,1,1};
  int perm_c[5], perm_r[5], info = -99;
  SuperMatrix A, L, U, B;
  dCreate_CompCol_Matrix(&A, n, n, 7, val, rowind, colptr, SLU_NC, SLU_D, SLU_GE);
  dCreate_Dense_Matrix(&B, n, 1, rhs, n, SLU_DN, SLU_D, SLU_GE);
  get_perm_c(perm, &A, perm_c);
  pdgssv(np, &A, perm_c, perm_r, &L, &U, &B, &info);
  printf("info=%d\n", info);
  return !(info > 0 && info <= n);
}
