/* Native witness for finding D4b (C14): p?gstrf_WorkInit's alignment fix-up moves stack.top2 down by `extra` (1..7) bytes
 * without a StackFull test.  With a user workspace that the two TAIL requests fill up to the last byte, the dwork block
 * handed to the thread starts BELOW the end of the live HEAD blocks: dfill() in p?gstrf_SetRWork then overwrites the last
 * bytes of the HEAD block (in a factorization: the tail of usub[]/ucol[]).
 * Found by unit work_init_user, obligations pdgstrf_WorkInit.contract.dwork_above_head_blocks / wf_ustack_kept.
 * build: gcc -D__PTHREAD -DAdd_ -I/repo/SRC D4_workinit_align.c /repo/_build/SRC/libsuperlu_mt_PTHREAD.a -lpthread -lm */
#include <stdio.h>
#include <stdlib.h>
#include <string.h>
#include "slu_mt_ddefs.h"
extern void pdgstrf_SetupSpace(void *, int_t);
extern void *duser_malloc(int_t, int_t);
extern int_t pdgstrf_WorkInit(int_t, int_t, int_t **, double **);
extern void pdgstrf_SetRWork(int_t, int_t, double *, double **, double **);
int main(void) {
  int_t m = 4, w = 2, maxsuper = sp_ienv(3), rowblk = sp_ienv(4);
  int_t isize = (2*w + 5 + NO_MARKER) * m * sizeof(int_t);
  int_t ntempv = 2*m > (maxsuper + rowblk)*w ? 2*m : (maxsuper + rowblk)*w;
  int_t dsize = (m*w + ntempv) * sizeof(double);
  int_t H = 13;                                   /* bytes of live HEAD data (L/U arrays in a real run) */
  int_t lwork = H + isize + dsize + 1;            /* the two TAIL requests just fit: StackFull is false for both */
  char *work = aligned_alloc(16, lwork + 16);
  int_t *iw; double *dw, *dense, *tempv; int_t info, i, clobbered = 0;
  pdgstrf_SetupSpace(work, lwork);
  char *head = duser_malloc(H, 0 /* HEAD */);
  memset(head, 0x5a, H);
  info = pdgstrf_WorkInit(m, w, &iw, &dw);
  printf("WorkInit info=%d  head block=[%ld,%ld)  dwork starts at offset %ld  iwork at %ld\n", (int)info, (long)(head - work),
         (long)(head - work + H), (long)((char*)dw - work), (long)((char*)iw - work));
  if (info == 0) {
    pdgstrf_SetRWork(m, w, dw, &dense, &tempv);   /* zero-fills dense[] and tempv[] */
    for (i = 0; i < H; i++) if (head[i] != 0x5a) clobbered++;
    printf("bytes of the live HEAD block overwritten by SetRWork: %d\n", (int)clobbered);
  }
  return clobbered ? 1 : 0;
}
