#include "slu_mt_zdefs.h"
#include <complex.h>
int main(void){
  int n = 5, nnz = 0, i, j, bad = 0;
  int colptr[6], rowind[25]; doublecomplex val[25]; double complex Ad[5][5] = {{0}};
  unsigned s = 12345;
  for (j = 0; j < n; j++) { colptr[j] = nnz; for (i = 0; i < n; i++) { s = s*1103515245u + 12345u; if (i == j || (s >> 16) % 3 == 0) { double re = (i==j? 6.0 : ((s>>8)%7)-3.0), im = ((s>>4)%5)-2.0; rowind[nnz] = i; val[nnz].r = re; val[nnz].i = im; Ad[i][j] = re + im*I; nnz++; } } }
  colptr[n] = nnz;
  doublecomplex b0[5] = {{1,0},{1,0},{1,0},{1,0},{1,0}};
  int perm_c[5], perm_r[5], info = -99; SuperMatrix A, L, U, B;
  zCreate_CompCol_Matrix(&A, n, n, nnz, val, rowind, colptr, SLU_NC, SLU_Z, SLU_GE);
  zCreate_Dense_Matrix(&B, n, 1, b0, n, SLU_DN, SLU_Z, SLU_GE);
  get_perm_c(0, &A, perm_c);
  pzgssv(1, &A, perm_c, perm_r, &L, &U, &B, &info);   /* factors */
  printf("factor info=%d\n", info);
  for (int t = 1; t < 3; t++) {
    trans_t tr = t == 1 ? TRANS : CONJ;
    doublecomplex b[5]; double complex xt[5] = {1+1*I, 2-1*I, -1+0.5*I, 0.5, 3*I}, bd[5];
    for (i = 0; i < n; i++) { bd[i] = 0; for (j = 0; j < n; j++) { double complex a = tr == TRANS ? Ad[j][i] : conj(Ad[j][i]); bd[i] += a * xt[j]; } b[i].r = creal(bd[i]); b[i].i = cimag(bd[i]); }
    SuperMatrix B2; zCreate_Dense_Matrix(&B2, n, 1, b, n, SLU_DN, SLU_Z, SLU_GE);
    Gstat_t G; StatAlloc(n, 1, sp_ienv(1), sp_ienv(2), &G); StatInit(n, 1, &G);
    zgstrs(tr, &L, &U, perm_r, perm_c, &B2, &G, &info);
    double err = 0; for (i = 0; i < n; i++) { double complex xi = b[i].r + b[i].i*I; if (cabs(xi - xt[i]) > err) err = cabs(xi - xt[i]); }
    printf("zgstrs trans=%d info=%d max|x-xtrue|=%.3e\n", t, info, err); if (!(info == 0 && err < 1e-10)) bad = 1;
  }
  return bad;
}
