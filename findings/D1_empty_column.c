#include "slu_mt_ddefs.h"
int main(int argc, char**argv){
  int n = 4;
  /* column 2 is structurally empty */
  int colptr[] = {0,2,4,4,6};
  int rowind[] = {0,1, 1,2, 2,3};
  double val[] = {2,1, 3,1, 1,4};
  double rhs[] = {1,1,1,1};
  int perm_c[4], perm_r[4], info = -99;
  SuperMatrix A, L, U, B;
  dCreate_CompCol_Matrix(&A, n, n, 6, val, rowind, colptr, SLU_NC, SLU_D, SLU_GE);
  dCreate_Dense_Matrix(&B, n, 1, rhs, n, SLU_DN, SLU_D, SLU_GE);
  get_perm_c(0, &A, perm_c);
  pdgssv(atoi(argv[1]), &A, perm_c, perm_r, &L, &U, &B, &info);
  printf("info=%d perm_r=%d %d %d %d\n", info, perm_r[0], perm_r[1], perm_r[2], perm_r[3]);
  return 0;
}
