/* Native witness for finding D4d (C14): p?gstrf_MemInit with a caller-supplied workspace that is too small for the first
 * guess of the U / L-subscript stores.  The halving retry loop (pdmemory.c:333-354) releases
 *     duser_free(nzumax*dword + (nzlmax+nzumax)*iword, HEAD)
 * i.e. the bytes of ALL THREE stores, although the requests that made it enter the loop returned NULL and hold nothing.
 * stack.top1 / stack.used become negative, StackFull() is then false for everything, and the halved requests are "served"
 * from addresses BELOW the caller's buffer.  MemInit returns 0 (success) with Glu->ucol / lsub / usub pointing outside work[]:
 * the factorization then writes through wild pointers instead of reporting info > n.  (The nine integer arrays obtained with
 * ?user_malloc at pdmemory.c:317-325 are never tested either: unit meminit_user_small, clause success_arrays_live.)
 * Found by unit meminit_user_small: pdgstrf_MemInit.contract.success_stores_inside / success_stores_in_order / wf_ustack_kept,
 * pdgstrf_expand.precondition.*@contract:351 [user_stack_wf].
 * build: gcc -D__PTHREAD -DAdd_ -I/repo/SRC D4_meminit_user_retry.c /repo/_build/SRC/libsuperlu_mt_PTHREAD.a -lblas -lpthread -lm */
#include <stdio.h>
#include <stdlib.h>
#include "slu_mt_ddefs.h"
extern float pdgstrf_MemInit(int_t, int_t, superlumt_options_t *, SuperMatrix *, SuperMatrix *, GlobalLU_t *);
int main(void) {
  superlumt_options_t o; GlobalLU_t Glu; SuperMatrix L, U; float r; int_t n = 10, annz = 100, lwork = 40000; int bad = 0;
  char *work = malloc(lwork);
  o.nprocs = 1; o.refact = NO; o.panel_size = 8; o.lwork = lwork; o.work = work;
  Glu.dynamic_snode_bound = NO; Glu.nzlumax = 1000;          /* L values: 8000 bytes, fit */
  r = pdgstrf_MemInit(n, annz, &o, &L, &U, &Glu);            /* first guess: ucol 50*annz*8 = 40000 bytes does not fit */
  printf("MemInit returned %g (0 = success); nzumax=%d nzlmax=%d\n", r, (int)Glu.nzumax, (int)Glu.nzlmax);
  printf("work = [0,%d)   lusup at %ld   ucol at %ld   lsub at %ld   usub at %ld\n", (int)lwork,
         (long)((char*)Glu.lusup - work), (long)((char*)Glu.ucol - work), (long)((char*)Glu.lsub - work), (long)((char*)Glu.usub - work));
  if (r == 0 && ((char*)Glu.ucol < work || (char*)Glu.ucol + 8L*Glu.nzumax > work + lwork)) { printf("ucol[] lies outside the caller's workspace\n"); bad = 1; }
  if (r == 0 && ((char*)Glu.usub < work || (char*)Glu.usub + 4L*Glu.nzumax > work + lwork)) { printf("usub[] lies outside the caller's workspace\n"); bad = 1; }
  return bad;
}
