/* Native witness (C14): with a caller-supplied workspace that is LARGE ENOUGH (size taken from the lwork = -1 query) and nprocs >= 3,
 * pdgssvx intermittently reports a strictly diagonally dominant (nonsingular) matrix as singular (0 < info <= n) and returns no solution;
 * with lwork = 0 (system allocator) or nprocs <= 2 the same runs always succeed (1500 repetitions each).
 * Cause: p?gstrf_WorkFree in user-workspace mode (SRC/p?memory.c, "stack.used -= (stack.size - stack.top2); stack.top2 = stack.size;")
 * gives back the WHOLE tail of the user stack, i.e. also the work arrays of the threads that are still factoring.  Worker threads that
 * start after that (tasks_remain is already 0 for them, but they still run WorkInit + SetIWork/SetRWork) are handed the same bytes and
 * ifill/dfill them (marker := EMPTY, dense := 0) under a running thread: a zeroed SPA column gives a zero pivot.
 * Needs >= 3 threads: B (second block) finishes first and resets the tail, A (top block) is still running, the late thread C gets A's bytes
 * (seen with nprocs = 3: info = 400 at repetition 267; nprocs = 8: typically within the first 300 repetitions).
 * Obligation: unit work_free_user, pdgstrf_WorkFree.contract.other_threads_blocks_stay_allocated.
 * Control experiment (scratch copy, not /repo): with the two statements removed 0 of 1200 repetitions fail, with them 60 of 1200.
 * build: gcc -O1 -g -D__PTHREAD -DAdd_ -I/repo/SRC native_repro.c /repo/_build/SRC/libsuperlu_mt_PTHREAD.a -lblas -lpthread -lm -o repro
 * run:   timeout 120 ./repro [nprocs=8] [n=400] [reps=1500]  > log      (about 20-30 s; schedule dependent, about 2-5 % of the repetitions)
 * expected on the current tree: "WITNESS rep r: info=k (<= n) ..." and exit status 1;  SYSMODE=1 ./repro ... (lwork = 0) exits 0. */
#include "slu_mt_ddefs.h"
#include <string.h>
#include <math.h>
int main(int argc, char **argv) {
  int nprocs = argc > 1 ? atoi(argv[1]) : 8, n = argc > 2 ? atoi(argv[2]) : 400, reps = argc > 3 ? atoi(argv[3]) : 1500;
  int *colptr = malloc((n + 1) * sizeof(int)), *rowind = malloc(5 * n * sizeof(int)); double *val = malloc(5 * n * sizeof(double));
  int nnz = 0, k = (int)sqrt((double)n), bad = 0;
  setvbuf(stdout, NULL, _IONBF, 0);
  for (int j = 0; j < n; j++) {          /* 2-D grid Laplacian + 0.5 I: strictly diagonally dominant */
    colptr[j] = nnz;
    if (j >= k) { rowind[nnz] = j - k; val[nnz++] = -1; }
    if (j > 0) { rowind[nnz] = j - 1; val[nnz++] = -1; }
    rowind[nnz] = j; val[nnz++] = 4.5;
    if (j < n - 1) { rowind[nnz] = j + 1; val[nnz++] = -1; }
    if (j + k < n) { rowind[nnz] = j + k; val[nnz++] = -1; }
  }
  colptr[n] = nnz;
  double *xtrue = malloc(n * 8), *rhs = malloc(n * 8), *x = malloc(n * 8);
  for (int r = 0; r < reps && !bad; r++) {
    for (int i = 0; i < n; i++) { xtrue[i] = 1.0 + (i % 7); rhs[i] = 0; x[i] = -777; }
    for (int j = 0; j < n; j++) for (int p = colptr[j]; p < colptr[j + 1]; p++) rhs[rowind[p]] += val[p] * xtrue[j];
    int *perm_c = malloc(n * sizeof(int)), *perm_r = malloc(n * sizeof(int)), info = -99;
    SuperMatrix A, L, U, B, X;
    dCreate_CompCol_Matrix(&A, n, n, nnz, val, rowind, colptr, SLU_NC, SLU_D, SLU_GE);
    dCreate_Dense_Matrix(&B, n, 1, rhs, n, SLU_DN, SLU_D, SLU_GE);
    dCreate_Dense_Matrix(&X, n, 1, x, n, SLU_DN, SLU_D, SLU_GE);
    get_perm_c(1, &A, perm_c);
    superlumt_options_t o; memset(&o, 0, sizeof o);
    o.nprocs = nprocs; o.fact = DOFACT; o.trans = NOTRANS; o.refact = NO; o.panel_size = sp_ienv(1); o.relax = sp_ienv(2);
    o.usepr = NO; o.drop_tol = 0; o.diag_pivot_thresh = 1.0; o.SymmetricMode = NO; o.PrintStat = NO; o.perm_c = perm_c; o.perm_r = perm_r;
    o.etree = intMalloc(n); o.colcnt_h = intMalloc(n); o.part_super_h = intMalloc(n);
    equed_t equed; double *R = malloc(n * 8), *C = malloc(n * 8), rpg, rcond, ferr, berr; superlu_memusage_t mu;
    o.lwork = -1; o.work = NULL;           /* size query: info - n = bytes needed, work arrays of all nprocs threads included */
    pdgssvx(nprocs, &o, &A, perm_c, perm_r, &equed, R, C, &L, &U, &B, &X, &rpg, &rcond, &ferr, &berr, &mu, &info);
    long lwork = (long)info - n + 4096; info = -99;
    if (getenv("SYSMODE")) lwork = 0;
    o.lwork = lwork; o.work = lwork ? malloc(lwork) : NULL;
    pdgssvx(nprocs, &o, &A, perm_c, perm_r, &equed, R, C, &L, &U, &B, &X, &rpg, &rcond, &ferr, &berr, &mu, &info);
    double err = 0; for (int i = 0; i < n; i++) err = fmax(err, fabs(x[i] - xtrue[i]));
    if (info != 0 || !(err < 1e-8)) { bad++; fprintf(stderr, "WITNESS rep %d: nprocs=%d lwork=%ld info=%d (n=%d) max|x-xtrue|=%g on a strictly diagonally dominant matrix\n", r, nprocs, lwork, info, n, err); }
    if (lwork == 0 && info == 0) { Destroy_SuperNode_SCP(&L); Destroy_CompCol_NCP(&U); }
    free(o.work); free(perm_c); free(perm_r); free(R); free(C); SUPERLU_FREE(o.etree); SUPERLU_FREE(o.colcnt_h); SUPERLU_FREE(o.part_super_h);
    SUPERLU_FREE(A.Store); SUPERLU_FREE(B.Store); SUPERLU_FREE(X.Store);
  }
  fprintf(stderr, "nprocs=%d n=%d: %s\n", nprocs, n, bad ? "FAILED (defect reproduced)" : "all repetitions correct");
  return bad != 0;
}
