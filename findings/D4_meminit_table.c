/* Native witness for finding D4c (C14): p?gstrf_MemInit never tests the result of
 *     dexpanders = (ExpHeader *) SUPERLU_MALLOC(NO_MEMTYPE * sizeof(ExpHeader));      (pdmemory.c:279-280)
 * When that first request fails, p?gstrf_expand writes dexpanders[type].mem through the NULL pointer (pdmemory.c:657):
 * the call crashes instead of returning info > n.
 * Found by unit meminit_sys_table: pdgstrf_expand.precondition.*@contract:328 [table_exists] (the contract that stands for
 * p?gstrf_expand requires a live table; with the real body cbmc reports the NULL dereference at pdmemory.c:657).
 * build: gcc -D__PTHREAD -DAdd_ -I/repo/SRC D4_meminit_table.c -Wl,--wrap=superlu_malloc /repo/_build/SRC/libsuperlu_mt_PTHREAD.a -lblas -lpthread -lm
 * expected: "request 1 (64 bytes) fails" then SIGSEGV (exit status 139). */
#include <stdio.h>
#include <stdlib.h>
#include "slu_mt_ddefs.h"
extern float pdgstrf_MemInit(int_t, int_t, superlumt_options_t *, SuperMatrix *, SuperMatrix *, GlobalLU_t *);
extern void *__real_superlu_malloc(size_t);
static int nreq;
void *__wrap_superlu_malloc(size_t size) {
  if (++nreq == 1) { printf("request 1 (%zu bytes) fails\n", size); fflush(stdout); return NULL; }
  return __real_superlu_malloc(size);
}
int main(void) {
  superlumt_options_t o; GlobalLU_t Glu; SuperMatrix L, U; float r;
  o.nprocs = 1; o.refact = NO; o.panel_size = 8; o.lwork = 0; o.work = NULL;
  Glu.dynamic_snode_bound = NO; Glu.nzlumax = 100;
  r = pdgstrf_MemInit(4, 10, &o, &L, &U, &Glu);
  printf("MemInit returned %g\n", r);
  return 0;
}
