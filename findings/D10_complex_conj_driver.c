/* expert driver, complex double, all three trans options: residual of op(A) x = b must be tiny */
#include "slu_mt_zdefs.h"
#include <complex.h>
int main(void){
  int n = 5, nnz = 0, i, j, bad = 0;
  int colptr[6], rowind[25]; doublecomplex val[25]; double complex Ad[5][5] = {{0}};
  unsigned s = 12345;
  for (j = 0; j < n; j++) { colptr[j] = nnz; for (i = 0; i < n; i++) { s = s*1103515245u + 12345u; if (i == j || (s >> 16) % 3 == 0) { double re = (i==j? 6.0 : ((s>>8)%7)-3.0), im = ((s>>4)%5)-2.0; rowind[nnz] = i; val[nnz].r = re; val[nnz].i = im; Ad[i][j] = re + im*I; nnz++; } } }
  colptr[n] = nnz;
  for (int t = 0; t < 3; t++) {
    trans_t tr = t == 0 ? NOTRANS : t == 1 ? TRANS : CONJ;
    doublecomplex b[5], x[5], v2[25]; memcpy(v2, val, sizeof val);
    double complex xt[5] = {1+1*I, 2-1*I, -1+0.5*I, 0.5, 3*I}, bd[5];
    for (i = 0; i < n; i++) { bd[i] = 0; for (j = 0; j < n; j++) { double complex a = tr == NOTRANS ? Ad[i][j] : tr == TRANS ? Ad[j][i] : conj(Ad[j][i]); bd[i] += a * xt[j]; } b[i].r = creal(bd[i]); b[i].i = cimag(bd[i]); }
    int perm_c[5], perm_r[5], info = -99; SuperMatrix A, L, U, B, X;
    zCreate_CompCol_Matrix(&A, n, n, nnz, v2, rowind, colptr, SLU_NC, SLU_Z, SLU_GE);
    zCreate_Dense_Matrix(&B, n, 1, b, n, SLU_DN, SLU_Z, SLU_GE); zCreate_Dense_Matrix(&X, n, 1, x, n, SLU_DN, SLU_Z, SLU_GE);
    get_perm_c(0, &A, perm_c);
    superlumt_options_t o; memset(&o, 0, sizeof o);
    o.nprocs = 1; o.fact = DOFACT; o.trans = tr; o.refact = NO; o.panel_size = sp_ienv(1); o.relax = sp_ienv(2); o.usepr = NO; o.diag_pivot_thresh = 1.0; o.perm_c = perm_c; o.perm_r = perm_r; o.lwork = 0;
    o.etree = intMalloc(n); o.colcnt_h = intMalloc(n); o.part_super_h = intMalloc(n);
    equed_t equed; double R[5], C[5], rpg, rcond, ferr, berr; superlu_memusage_t mu;
    pzgssvx(1, &o, &A, perm_c, perm_r, &equed, R, C, &L, &U, &B, &X, &rpg, &rcond, &ferr, &berr, &mu, &info);
    double err = 0; for (i = 0; i < n; i++) { double complex xi = x[i].r + x[i].i*I; if (cabs(xi - xt[i]) > err) err = cabs(xi - xt[i]); }
    printf("trans=%d info=%d max|x-xtrue|=%.3e\n", t, info, err); if (!(info == 0 && err < 1e-10)) bad = 1;
  }
  return bad;
}
