#include "slu_mt_ddefs.h"
int main(int argc, char**argv){
  int n = 4; int lwork = atoi(argv[1]);
  int colptr[] = {0,2,4,6,8}; int rowind[] = {0,1, 1,2, 2,3, 3,0}; double val[] = {2,1, 3,1, 1,4, 5,1};
  double rhs[] = {1,1,1,1}, x[4];
  int perm_c[4], perm_r[4], info = -99;
  SuperMatrix A, L, U, B, X;
  memset(&L, 0xAB, sizeof L); memset(&U, 0xAB, sizeof U);
  dCreate_CompCol_Matrix(&A, n, n, 8, val, rowind, colptr, SLU_NC, SLU_D, SLU_GE);
  dCreate_Dense_Matrix(&B, n, 1, rhs, n, SLU_DN, SLU_D, SLU_GE);
  dCreate_Dense_Matrix(&X, n, 1, x, n, SLU_DN, SLU_D, SLU_GE);
  get_perm_c(0, &A, perm_c);
  superlumt_options_t o; memset(&o, 0, sizeof o);
  o.nprocs = 1; o.fact = DOFACT; o.trans = NOTRANS; o.refact = NO; o.panel_size = sp_ienv(1); o.relax = sp_ienv(2);
  o.usepr = NO; o.drop_tol = 0; o.diag_pivot_thresh = 1.0; o.SymmetricMode = NO; o.PrintStat = NO; o.perm_c = perm_c; o.perm_r = perm_r;
  o.work = lwork > 0 ? malloc(lwork) : NULL; o.lwork = lwork;
  o.etree = intMalloc(n); o.colcnt_h = intMalloc(n); o.part_super_h = intMalloc(n);
  equed_t equed; double R[4], C[4], rpg, rcond, ferr, berr; superlu_memusage_t mu;
  pdgssvx(1, &o, &A, perm_c, perm_r, &equed, R, C, &L, &U, &B, &X, &rpg, &rcond, &ferr, &berr, &mu, &info);
  printf("info=%d total_needed=%g\n", info, mu.total_needed);
  return 0;
}
