#include "slu_mt_ddefs.h"
#include <time.h>
static unsigned long long sd = 88172645463325252ULL;
static unsigned rnd(void){ sd ^= sd << 13; sd ^= sd >> 7; sd ^= sd << 17; return (unsigned)(sd >> 11); }
int main(int argc, char **argv) {
  int iters = atoi(argv[1]); int fails = 0;
  for (int it = 0; it < iters; it++) {
    int n = 2 + rnd() % 11; int nprocs = 1 + rnd() % 4;
    fprintf(stderr,"IT %d n=%d np=%d\n", it, n, nprocs); int *colptr = intMalloc(n + 1); int cap = n * n + 1; int *rowind = intMalloc(cap); double *val = doubleMalloc(cap);
    int nnz = 0; int emptycol = rnd() % n; int emptyrow = (rnd() % 3 == 0) ? (int)(rnd() % n) : -1; int mode = rnd() % 3;
    for (int j = 0; j < n; j++) {
      colptr[j] = nnz;
      if (mode != 2 && j == emptycol) continue;
      for (int i = 0; i < n; i++) {
        if (i == emptyrow) continue;
        if (i == j || rnd() % 3 == 0) { rowind[nnz] = i; val[nnz] = (mode == 1 && j == (emptycol + 1) % n) ? 0.0 : 1.0 + (rnd() % 7); nnz++; }
      }
    }
    colptr[n] = nnz; fprintf(stderr,"  mode=%d emptycol=%d emptyrow=%d nnz=%d\n", mode, emptycol, emptyrow, nnz);
    if (nnz == 0) { continue; } if (argc > 2 && it < atoi(argv[2])) continue; if (argc > 3 && it > atoi(argv[3])) break;
    double *rhs = doubleMalloc(n); double *x = doubleMalloc(n); for (int i = 0; i < n; i++) rhs[i] = 1.0;
    int *perm_c = intMalloc(n), *perm_r = intMalloc(n); int info = -99;
    SuperMatrix A, L, U, B, X;
    dCreate_CompCol_Matrix(&A, n, n, nnz, val, rowind, colptr, SLU_NC, SLU_D, SLU_GE);
    dCreate_Dense_Matrix(&B, n, 1, rhs, n, SLU_DN, SLU_D, SLU_GE);
    dCreate_Dense_Matrix(&X, n, 1, x, n, SLU_DN, SLU_D, SLU_GE);
    get_perm_c(rnd() % 2 ? 0 : 1, &A, perm_c);
    if (rnd() % 2) {
      pdgssv(nprocs, &A, perm_c, perm_r, &L, &U, &B, &info);
    } else {
      superlumt_options_t o; memset(&o, 0, sizeof o);
      o.nprocs = nprocs; o.fact = (rnd() % 2) ? EQUILIBRATE : DOFACT; o.trans = NOTRANS; o.refact = NO; o.panel_size = sp_ienv(1); o.relax = sp_ienv(2);
      o.usepr = NO; o.drop_tol = 0; o.diag_pivot_thresh = 1.0; o.SymmetricMode = NO; o.PrintStat = NO; o.perm_c = perm_c; o.perm_r = perm_r; o.work = NULL; o.lwork = 0;
      o.etree = intMalloc(n); o.colcnt_h = intMalloc(n); o.part_super_h = intMalloc(n);
      equed_t equed; double *R = doubleMalloc(n), *C = doubleMalloc(n), rpg, rcond, ferr, berr; superlu_memusage_t mu;
      pdgssvx(nprocs, &o, &A, perm_c, perm_r, &equed, R, C, &L, &U, &B, &X, &rpg, &rcond, &ferr, &berr, &mu, &info);
    }
    int singular_expected = (mode != 2) || emptyrow >= 0;
    if (info < 0 || (singular_expected && mode == 0 && !(info > 0 && info <= n))) { printf("iter %d n=%d np=%d mode=%d info=%d UNEXPECTED\n", it, n, nprocs, mode, info); fails++; }
    if (info >= 0 && info <= n) { Destroy_SuperNode_SCP(&L); Destroy_CompCol_NCP(&U); }
  }
  printf("done fails=%d\n", fails); return fails != 0;
}
