#!/usr/bin/env python3
"""vrun.py -- run the contract proofs that decide one property.

usage: vrun.py <property-id> [--tier quick|thorough] [--unit NAME] [--keep] [--jobs N] [--show]

For every unit (units/<name>/unit.json) tagged with the property:
  gcc -E real TU from /repo  ->  weave spec clauses (tools/weave.py)  ->  goto-cc (+ harness, stubs)
  ->  goto-instrument --dfcc <entry> --enforce-contract f [--replace-call-with-contract g]
      --apply-loop-contracts  ->  cbmc --json-ui --trace ...
Results are classified per obligation; evidence/<id>.json is rewritten on every run.

exit 0: every obligation discharged (KNOWN-FINDING lines allowed)
exit 1: an unlisted obligation failed; prints  VIOLATION property=<id> replay=<path>
exit 2: undecided (extraction break, timeout, tool error, unwinding assertion, 'ignoring forall')
"""
import argparse, concurrent.futures as cf, json, os, re, shutil, subprocess, sys, tempfile, time

VERIF = os.path.dirname(os.path.dirname(os.path.abspath(__file__)))
REPO = os.environ.get('VERIF_REPO', '/repo')
sys.path.insert(0, os.path.join(VERIF, 'tools'))
import weave as W

BASE_DEFS = ['-D__PTHREAD', '-DAdd_', '-DUSE_VENDOR_BLAS', '-DNDEBUG']
_D = dict(R='double', r='d', eps='1.1102230246251565e-16', sfmin='2.2250738585072014e-308')
_S = dict(R='float', r='s', eps='5.9604644775390625e-8f', sfmin='1.17549435082228751e-38f')
PRECS = {'d': dict(p='d', T='double', P='D', cplx='0', **_D),
         's': dict(p='s', T='float', P='S', cplx='0', **_S),
         'z': dict(p='z', T='doublecomplex', P='Z', cplx='1', **_D),
         'c': dict(p='c', T='complex', P='C', cplx='1', **_S)}

def sh(cmd, cwd=None, timeout=None, mem_gb=None, stdout=None):
    pre = None
    if mem_gb:
        import resource
        def pre():
            b = int(mem_gb * (1 << 30))
            resource.setrlimit(resource.RLIMIT_AS, (b, b))
    t0 = time.time()
    try:
        p = subprocess.run(cmd, cwd=cwd, timeout=timeout, preexec_fn=pre,
                           stdout=stdout or subprocess.PIPE, stderr=subprocess.PIPE)
        out = p.stdout.decode('utf-8', 'replace') if p.stdout is not None else ''
        return p.returncode, out, p.stderr.decode('utf-8', 'replace'), time.time() - t0
    except subprocess.TimeoutExpired as e:
        return 'timeout', '', '', time.time() - t0

def subst(text, inst):
    for k, v in inst.items():
        text = text.replace('@%s@' % k, str(v))
    return text

def load_units(only_ready=False):
    units = []
    root = os.environ.get('VERIF_UNITS', os.path.join(VERIF, 'units'))
    ready = None
    rf = os.path.join(root, 'READY.txt')
    if only_ready and os.path.exists(rf):
        ready = {l.strip() for l in open(rf) if l.strip() and not l.startswith('#')}
    for d in sorted(os.listdir(root)):
        if ready is not None and d not in ready:
            continue
        f = os.path.join(root, d, 'unit.json')
        if os.path.exists(f):
            try:
                u = json.load(open(f))
            except Exception as e:
                raise SystemExit(f'bad unit file {f}: {e}')
            u['dir'] = os.path.join(root, d)
            u.setdefault('name', d)
            units.append(u)
    return units

def instances(u, tier):
    """expand a unit into concrete runs (precision instances x tier parameters)."""
    tcfg = dict(u.get('params', {}))
    tcfg.update(u.get('tiers', {}).get(tier, {}))
    precs = tcfg.pop('precisions', u.get('precisions', None))
    if precs is None:
        precs = ['-']
    variants = tcfg.pop('variants', u.get('variants', None)) or [{}]
    out = []
    for pr in precs:
        for var in variants:
            inst = dict(PRECS.get(pr, {}))
            inst.update({k: v for k, v in tcfg.items()})
            inst.update({k: v for k, v in var.items() if k != 'name'})
            tag = ','.join(x for x in ([pr] if pr != '-' else []) + ([var['name']] if var.get('name') else []))
            nm = u['name'] + (f'[{tag}]' if tag else '')
            out.append((nm, inst))
    return out

def normalize_spec(text, dirs=()):
    """join continuation lines (lines starting with whitespace) onto the clause before; expand @include."""
    out = []
    lines = []
    for raw in text.split('\n'):
        if raw.startswith('@include'):
            nm = raw.split()[1]
            for d in list(dirs) + [os.path.join(VERIF, 'specs')]:
                if os.path.exists(os.path.join(d, nm)):
                    lines += open(os.path.join(d, nm)).read().split('\n'); break
            else:
                raise W.WeaveError('spec include not found: ' + nm)
        else:
            lines.append(raw)
    for raw in lines:
        if raw[:1] in (' ', '\t') and raw.strip() and out and not out[-1].startswith('@') and not raw.strip().startswith('//'):
            out[-1] += ' ' + raw.strip()
        else:
            out.append(raw.rstrip())
    return '\n'.join(out)

def expand_spec(text, defs, work, tag, incdirs=(), headers=()):
    """macro-expand clause text with contracts/wf.h (the woven TU is already preprocessed)."""
    src = os.path.join(work, f'spec_{tag}.in')
    lines = ['#include "wf.h"'] + ['#include "%s"' % h for h in headers]
    for ln in normalize_spec(text, incdirs).split('\n'):
        s = ln.strip()
        if s.startswith('@'):
            lines.append('@@ ' + s)       # keep directives away from macro expansion quirks
        else:
            lines.append(ln)
    open(src, 'w').write('\n'.join(lines) + '\n')
    rc, out, err, _ = sh(['gcc', '-E', '-P', '-x', 'c', '-DSPEC_EXPAND', '-I', os.path.join(VERIF, 'contracts')] + [x for d in incdirs for x in ('-I', d)] + defs + [src])
    if rc != 0:
        raise W.WeaveError('spec preprocessing failed: ' + err[-400:])
    res = []
    for ln in out.split('\n'):
        if ln.startswith('@@ '):
            res.append(ln[3:].replace('@ ', '@', 1) if ln[3:].startswith('@ ') else ln[3:])
        else:
            res.append(ln)
    return '\n'.join(res)

UNWIND_RE = re.compile(r'\.unwind\.\d+$|recursion')

def run_instance(u, nm, inst, tier, keep=False):
    """returns result dict for one concrete proof run."""
    t00 = time.time()
    res = dict(unit=nm, label=subst(u.get('label', 'P'), inst), status='error', obligations=[],
               cmds=[], solver_s=0.0, function=subst(u.get('enforce', u.get('function', '')), inst),
               assumptions=[subst(a, inst) for a in u.get('assumptions', [])], notes=[])
    work = tempfile.mkdtemp(prefix='vr%d_' % os.getpid(), dir=os.environ.get('VERIF_TMP', None))
    res['work'] = work
    try:
        defs = BASE_DEFS + [subst(d, inst) for d in u.get('defines', [])]
        for k, v in inst.items():
            if k.isupper() and k not in ('T', 'R', 'P'):
                defs.append(f'-D{k}={v}')
        if u.get('abort_stub', True):
            defs.append('-DUSER_ABORT(m)=verif_abort(m)')
        incs = ['-I', work, '-I', os.path.join(REPO, 'SRC'), '-I', os.path.join(VERIF, 'contracts'), '-I', u['dir'],
                '-I', os.path.join(VERIF, 'stubs')]
        # 2. harness + stubs
        hsrc = []
        hfiles = {}
        for h in [u['harness']] + u.get('stubs', []):
            p = os.path.join(u['dir'], h)
            if not os.path.exists(p):
                p = os.path.join(VERIF, 'stubs', h)
            txt = subst(open(p).read(), inst)
            q = os.path.join(work, os.path.basename(h))
            open(q, 'w').write(txt)
            hfiles[os.path.basename(h)] = txt
            if not q.endswith('.h'): hsrc.append(q)
        # 1. preprocess real sources
        objs = []
        specs_by_src = {}
        spec_text = ''
        if u.get('spec'):
            spec_text = open(os.path.join(u['dir'], u['spec'])).read()
            spec_text = subst(normalize_spec(spec_text, [u['dir']]), inst)
            for hname in u.get('spec_headers', []):
                hp = os.path.join(u['dir'], hname)
                if not os.path.exists(hp): hp = os.path.join(VERIF, 'specs', hname)
                open(os.path.join(work, hname), 'w').write(subst(open(hp).read(), inst))
            spec_text = expand_spec(spec_text, defs, work, 'main', [work, u['dir'], os.path.join(VERIF, 'stubs')], u.get('spec_headers', []))
        specs = W.parse_spec(spec_text) if spec_text else []
        sources = [subst(s, inst) for s in ([u['source']] if isinstance(u['source'], str) else u['source'])]
        cmap = {}
        winfo = {}
        remaining = {sp['function'] for sp in specs}
        for si, srcrel in enumerate(sources):
            srcabs = os.path.join(REPO, srcrel)
            if not os.path.exists(srcabs):
                raise W.WeaveError(f'source {srcrel} missing')
            rc, out, err, _ = sh(['gcc', '-E'] + defs + incs + [srcabs])
            if rc != 0:
                raise W.WeaveError(f'gcc -E {srcrel} failed: {err[-300:]}')
            here = []
            toks = None
            for sp in specs:
                if sp['function'] in remaining and re.search(r'\b%s\s*\(' % re.escape(sp['function']), out):
                    try:
                        tk = list(W.scan_tokens(out))
                        W.find_function(out, tk, sp['function'])
                        here.append(sp)
                    except W.WeaveError:
                        pass
            woven, cm, info = W.weave(out, here)
            for sp in here: remaining.discard(sp['function'])
            cmap.update(cm); winfo.update(info)
            wf = os.path.join(work, f'tu{si}.i')
            open(wf, 'w').write(woven)
            objs.append(wf)
        if remaining:
            raise W.WeaveError(f'functions not found in sources: {sorted(remaining)}')
        entry = subst(u['entry'], inst)
        efn = subst(u.get('enforce', ''), inst)
        res['replay_ctx'] = dict(function=efn, signature=winfo.get(efn, {}).get('signature'), inst=inst, defs=defs, entry=entry,
                                 harness_file=os.path.basename(u['harness']), files=hfiles,
                                 clauses=[(k, dict(label=v[2], text=v[3])) for k, v in sorted(cmap.items()) if k[0] == 'SPEC/%s/contract' % efn])
        a = os.path.join(work, 'a.gb'); b = os.path.join(work, 'b.gb')
        cmd = ['goto-cc', '--function', entry] + defs + incs + hsrc + objs + ['-o', a]
        res['cmds'].append(' '.join(cmd))
        rc, out, err, _ = sh(cmd, cwd=work, timeout=300)
        if rc != 0:
            res['status'] = 'error'; res['notes'].append('goto-cc: ' + (err or out)[-1500:]); return res
        # 3. contracts instrumentation
        mode = u.get('mode', 'legacy')
        if mode == 'dfcc':
            steps = [['goto-instrument', '--dfcc', entry]
                     + (['--enforce-contract', subst(u['enforce'], inst)] if u.get('enforce') else [])
                     + [x for g in u.get('replace', []) for x in ('--replace-call-with-contract', subst(g, inst))]
                     + (['--apply-loop-contracts'] if u.get('loop_contracts', True) else [])
                     + u.get('instrument', []) + [a, b]]
        else:
            # legacy (non-DFCC) instrumentation: static frame checks, far smaller formulas on large functions
            a1 = os.path.join(work, 'a1.gb'); a2 = os.path.join(work, 'a2.gb')
            steps = [['goto-instrument', '--add-library', a, a1]]
            pre = [subst(g, inst) for g in u.get('replace_first', [])]
            if pre:   # callees replaced by their contracts BEFORE loop contracts are applied (which inlines callees)
                a1r = os.path.join(work, 'a1r.gb')
                steps.append(['goto-instrument'] + [x for g in pre for x in ('--replace-call-with-contract', g)] + [a1, a1r])
                a1 = a1r
            if u.get('loop_contracts', True) and any(sp['loops'] for sp in specs):
                steps.append(['goto-instrument', '--apply-loop-contracts', a1, a2])
            else:
                a2 = a1
            last = ['goto-instrument']
            if u.get('enforce'):
                last += ['--enforce-contract', subst(u['enforce'], inst)]
            for g in u.get('replace', []):
                last += ['--replace-call-with-contract', subst(g, inst)]
            steps.append(last + u.get('instrument', []) + [a2, b])
        for cmd in steps:
            res['cmds'].append(' '.join(cmd))
            rc, out, err, _ = sh(cmd, cwd=work, timeout=600, mem_gb=16)
            if rc != 0:
                res['status'] = 'error'; res['notes'].append('goto-instrument: ' + (err + out)[-2500:]); return res
        # 4. cbmc
        to = int(inst.get('timeout', u.get('timeout', 600)))
        flags = ['--bounds-check', '--pointer-check', '--signed-overflow-check', '--div-by-zero-check',
                 '--unwind', str(inst.get('unwind', u.get('unwind', 10))), '--unwinding-assertions',
                 '--object-bits', str(u.get('object_bits', 10))]
        flags += [subst(x, inst) for x in u.get('cbmc', [])]
        focus = os.environ.get('VERIF_FOCUS')
        if focus:
            rc, out, err, _ = sh(['cbmc', b, '--show-properties', '--json-ui'] + flags, cwd=work, timeout=300)
            ids = []
            for m in json.loads(out):
                for pr in m.get('properties', []):
                    loc = pr.get('sourceLocation', {})
                    key = (loc.get('file', ''), int(loc.get('line', 0) or 0))
                    lab = cmap.get(key, ('', '', '', ''))[2] if key in cmap else ''
                    if re.search(focus, pr['name']) or (lab and re.search(focus, lab)) or re.search(focus, pr.get('description', '') + '@' + str(loc.get('line', ''))):
                        ids.append(pr['name'])
            if any('postcondition' in i for i in ids) and not os.environ.get('VERIF_FOCUS_ALL'):
                ids = [i for i in ids if 'postcondition' in i]
            print('focus ids:', ids[:20])
            rc, out, err, dt = sh(['cbmc', b, '--trace'] + flags + [x for i in ids[:8] for x in ('--property', i)], cwd=work, timeout=to)
            keep = []
            for ln in out.split('\n'):
                if re.match(r'^\s*(in_|g_)[\w\[\]\.]*=|^\[|Violated|^  [a-z_]+=|VERIFICATION|State \d+ file.*(%s)' % '|'.join(['SRC']), ln):
                    if 'State' in ln: continue
                    keep.append(ln[:200])
            print('\n'.join(keep[-400:]))
            res['status'] = 'focus'; return res
        cmd = ['cbmc', b, '--json-ui'] + flags
        res['cmds'].append(' '.join(cmd))
        split = int(inst.get('split', u.get('split', 0)) or 0)
        if split:
            # per-group mode: the SAME instrumented program, its obligations partitioned by kind into groups that are each decided by
            # one cbmc query (--property ...; unselected obligations are not checked in that query, nothing is assumed); the union of
            # the groups is the full obligation list (checked below) -- for functions whose joint query does not finish.
            msgs, note, dt = run_split(b, flags, work, to, float(u.get('mem_gb', 12)), split, int(u.get('split_jobs', 4)))
            res['solver_s'] = round(dt, 1)
            if msgs is None:
                res['status'] = 'timeout' if 'timeout' in note else 'error'; res['notes'].append(note); return res
            res['notes'].append(note); err = ''
        else:
            outf = os.path.join(work, 'cbmc.json')
            with open(outf, 'wb') as fo:
                rc, _, err, dt = sh(cmd, cwd=work, timeout=to, mem_gb=float(u.get('mem_gb', 12)), stdout=fo)
            res['solver_s'] = round(dt, 1)
            if rc == 'timeout':
                res['status'] = 'timeout'; res['notes'].append(f'cbmc timeout after {to}s'); return res
            try:
                msgs = json.load(open(outf))
            except Exception as e:
                res['status'] = 'error'; res['notes'].append(f'cbmc output unreadable rc={rc}: {err[-500:]}'); return res
        results = None; ignoring = False; errors = []
        for m in msgs:
            if 'result' in m: results = m['result']
            if m.get('messageType') in ('WARNING', 'ERROR'):
                t = m.get('messageText', '')
                if 'ignoring forall' in t or 'ignoring exists' in t: ignoring = True
                if m['messageType'] == 'ERROR': errors.append(t)
            if m.get('messageType') == 'STATUS-MESSAGE' and 'variables,' in m.get('messageText', '') and 'formula' not in res:
                res['formula'] = m['messageText']
        if results is None:
            res['status'] = 'error'; res['notes'].append('cbmc gave no result: ' + ' | '.join(errors)[-800:] + err[-300:]); return res
        if ignoring:
            res['notes'].append('quantifier ignored by back end')
        canaries_failed = 0; canaries = 0
        has_loop_ob = False
        for r in results:
            pid = r['property']; desc = r.get('description', ''); st = r['status']
            loc = r.get('sourceLocation', {})
            fil = loc.get('file', ''); line = int(loc.get('line', 0) or 0)
            name = pid
            clause = None
            if fil.startswith('SPEC/') and (fil, line) in cmap:
                fn, section, lab, txt = cmap[(fil, line)]
                kind = pid.split('.')[-2] if pid.count('.') >= 2 else pid
                name = f'{fn}.{section}.{lab}:{kind}'
                clause = txt
            elif ('LOOP', os.path.basename(fil), line) in cmap and ('loop' in desc.lower() or 'decreases' in desc.lower()):
                fn, lp = cmap[('LOOP', os.path.basename(fil), line)]
                kind = ('invariant_base' if 'before entry' in desc else 'invariant_step' if 'preserved' in desc else
                        'decreases' if 'decreases' in desc else 'instrumentation')
                name = f'{fn}.{lp}:{kind}'
            elif '.assertion.' in pid and fil and not fil.startswith('<') and 'canary' not in desc:
                name = '%s.assertion[%s]@%s' % (pid.split('.')[0], re.sub(r'[^A-Za-z0-9_.,()<>=+-]+', '_', desc)[:70], os.path.basename(fil))
            elif fil and not fil.startswith('<'):
                name = f'{pid}@{os.path.basename(fil)}:{line}'
            if 'loop_invariant' in pid or 'loop invariant' in desc: has_loop_ob = True
            ob = dict(name=name, cbmc_id=pid, desc=desc, status=st, file=fil, line=line,
                      function=loc.get('function', ''))
            if clause: ob['clause'] = clause
            if 'canary' in desc:
                ob['kind'] = 'canary'; canaries += 1
                if st == 'FAILURE': canaries_failed += 1
            elif UNWIND_RE.search(pid) or 'unwinding assertion' in desc:
                ob['kind'] = 'unwind'
            elif fil.startswith('<builtin-library'):
                ob['kind'] = 'dfcc-internal'
            else:
                ob['kind'] = 'obligation'
            res['obligations'].append(ob)
        # second pass: counterexample traces for (at most 3) failed non-canary obligations
        failed = [ob for ob in res['obligations'] if ob['status'] == 'FAILURE' and ob['kind'] in ('obligation', 'dfcc-internal')]
        want = [ob for ob in failed if u.get('_trace_all') or True][:int(os.environ.get('VERIF_MAXTRACES', '3'))]
        if want and not os.environ.get('VERIF_NOTRACE'):
            cmd2 = ['cbmc', b, '--json-ui', '--trace'] + flags + [x for ob in want for x in ('--property', ob['cbmc_id'])]
            outf2 = os.path.join(work, 'cbmc_trace.json')
            with open(outf2, 'wb') as fo:
                rc2, _, err2, dt2 = sh(cmd2, cwd=work, timeout=to, mem_gb=float(u.get('mem_gb', 12)), stdout=fo)
            res['solver_s'] = round(res['solver_s'] + dt2, 1)
            try:
                for m in json.load(open(outf2)):
                    if 'result' in m:
                        for r2 in m['result']:
                            if r2.get('trace'):
                                for ob in want:
                                    if ob['cbmc_id'] == r2['property']: ob['trace'] = r2['trace']
            except Exception as e:
                res['notes'].append('trace pass failed: %r' % (e,))
        res['canaries'] = canaries; res['canaries_failed'] = canaries_failed
        res['ignoring'] = ignoring
        res['has_loop_obligations'] = has_loop_ob
        res['nspec_loops'] = sum(len(sp['loops']) for sp in specs)
        res['status'] = 'done'
        return res
    except W.WeaveError as e:
        res['status'] = 'extraction'; res['notes'].append(str(e)); return res
    except Exception as e:
        import traceback
        res['status'] = 'error'; res['notes'].append('runner: ' + traceback.format_exc()[-1500:]); return res
    finally:
        res['wall_s'] = round(time.time() - t00, 1)
        if not keep:
            shutil.rmtree(work, ignore_errors=True)

def run_split(b, flags, work, to, mem_gb, nmax, jobs):
    """decide the obligations of one instrumented program group by group; returns (merged json-ui messages, note, solver seconds)."""
    rc, out, err, _ = sh(['cbmc', b, '--show-properties', '--json-ui'] + flags, cwd=work, timeout=300)
    try:
        ids = [pr['name'] for m in json.loads(out) for pr in m.get('properties', [])]
    except Exception as e:
        return None, 'split: property list unreadable: %r' % (e,), 0.0
    if not ids:
        return None, 'split: no properties', 0.0
    groups = {}
    for i in ids:
        parts = i.split('.')
        kind = parts[-2] if len(parts) >= 2 else i
        groups.setdefault((parts[0], kind), []).append(i)
    chunks = []
    for k in sorted(groups):
        g = groups[k]
        for j in range(0, len(g), nmax):
            chunks.append(g[j:j + nmax])
    def one(ci):
        outf = os.path.join(work, 'cbmc_g%d.json' % ci)
        with open(outf, 'wb') as fo:
            rc, _, err, dt = sh(['cbmc', b, '--json-ui'] + flags + [x for i in chunks[ci] for x in ('--property', i)],
                                cwd=work, timeout=to, mem_gb=mem_gb, stdout=fo)
        if rc == 'timeout':
            return ci, None, 'timeout', dt
        try:
            return ci, json.load(open(outf)), '', dt
        except Exception as e:
            return ci, None, 'unreadable rc=%s %s' % (rc, err[-200:]), dt
    merged = []; results = []; total = 0.0; bad = []
    with cf.ThreadPoolExecutor(max_workers=jobs) as ex:
        for ci, msgs, why, dt in ex.map(one, range(len(chunks))):
            total += dt
            if msgs is None:
                bad.append('group %d (%s..., %d obligations): %s' % (ci, chunks[ci][0], len(chunks[ci]), why)); continue
            got = None
            for m in msgs:
                if 'result' in m: got = m['result']
                else: merged.append(m)
            if got is None:
                bad.append('group %d gave no result' % ci); continue
            want = set(chunks[ci])
            results += [r for r in got if r['property'] in want]
    if bad:
        return None, 'split: ' + ' | '.join(bad)[:600] + (' timeout' if any('timeout' in x for x in bad) else ''), total
    if {r['property'] for r in results} != set(ids):
        return None, 'split: union of the groups differs from the obligation list (%d vs %d)' % (len(results), len(ids)), total
    merged.append({'result': results})
    return merged, 'decided in %d groups (<= %d obligations each, %d at a time)' % (len(chunks), nmax, jobs), total

def load_known():
    known = []; fixed = []
    p = os.path.join(VERIF, 'known_findings.txt')
    if os.path.exists(p):
        for ln in open(p):
            ln = ln.strip()
            if ln.startswith('known:'):
                d = dict(re.findall(r'(\w+)=("[^"]*"|\S+)', ln[6:]))
                d = {k: v.strip('"') for k, v in d.items()}
                d['line'] = ln
                known.append(d)
            elif ln.startswith('fixed:'):
                fixed.append(ln)
    return known, fixed

def match_known(known, pid, unit, obname):
    for k in known:
        if k.get('property') != pid: continue
        if k.get('unit') and not re.fullmatch(k['unit'], unit): continue
        if k.get('obligation') and not re.fullmatch(k['obligation'], obname): continue
        return k
    return None

def main():
    ap = argparse.ArgumentParser()
    ap.add_argument('prop')
    ap.add_argument('--tier', default=os.environ.get('VERIF_TIER', 'quick'))
    ap.add_argument('--unit', action='append')
    ap.add_argument('--keep', action='store_true')
    ap.add_argument('--jobs', type=int, default=int(os.environ.get('VERIF_JOBS', '8')))
    ap.add_argument('--show', action='store_true')
    ap.add_argument('--no-evidence', action='store_true')
    a = ap.parse_args()
    tier = 'thorough' if a.tier.startswith('t') else 'quick'
    seed = int(os.environ.get('VERIF_SEED', '0') or 0)
    t0 = time.time()
    units = [u for u in load_units(only_ready=not a.unit) if a.prop in u.get('properties', []) or a.prop == 'ALL']
    if a.unit:
        units = [u for u in units if u['name'] in a.unit]
    todo = []
    for u in units:
        ut = u.get('tier', 'quick')
        if tier == 'quick' and ut == 'thorough':
            continue
        for nm, inst in instances(u, tier):
            todo.append((u, nm, inst))
    if not todo:
        print(f'no units for {a.prop}'); sys.exit(2)
    results = []
    with cf.ThreadPoolExecutor(max_workers=a.jobs) as ex:
        futs = {ex.submit(run_instance, u, nm, inst, tier, a.keep): (u, nm) for u, nm, inst in todo}
        for f in cf.as_completed(futs):
            r = f.result(); r['_unit'] = futs[f][0]
            results.append(r)
            nfail = sum(1 for o in r['obligations'] if o['status'] == 'FAILURE' and o['kind'] != 'canary')
            print(f"[{r['unit']}] {r['status']} label={r['label']} obligations={len(r['obligations'])} failed={nfail} "
                  f"canaries={r.get('canaries_failed', 0)}/{r.get('canaries', 0)} {r['wall_s']}s [{r.get('formula','')}] {' ; '.join(r['notes'])[:600]}", flush=True)
    # bounded companions: a unit with "fallback_for": "<unit>" (normally thorough tier only) is run in ANY tier when that unit could not
    # be woven (extraction break: a loop under contract was removed or rewritten), so that the change is decided rather than left at exit 2
    broken = {r['_unit']['name'] for r in results if r['status'] == 'extraction'}
    if broken and not a.unit:
        done_names = {u['name'] for u, _, _ in todo}
        for u in units:
            if u.get('fallback_for') in broken and u['name'] not in done_names:
                for nm, inst in instances(u, tier):
                    r = run_instance(u, nm, inst, tier, a.keep); r['_unit'] = u
                    results.append(r)
                    print(f"[{r['unit']}] (fallback for {u['fallback_for']}) {r['status']} label={r['label']} obligations={len(r['obligations'])} {r['wall_s']}s", flush=True)
    results.sort(key=lambda r: r['unit'])
    import replay as RP
    known, fixed = load_known()
    undecided = []; violations = []; knownhits = []; masked = []
    n_ob = n_ok = n_bounded = n_bounded_ok = 0
    samples = []; per_unit = []; trusted = set(); assumptions = set()
    for r in results:
        u = r['_unit']
        bounded = r['label'].startswith('B')
        for x in r['assumptions']: assumptions.add(x)
        for x in u.get('trusted', []): trusted.add(x)
        pu = dict(unit=r['unit'], function=r['function'], label=r['label'], status=r['status'],
                  solver_s=r['solver_s'], wall_s=r['wall_s'], backend='cbmc 6.11.0 / SAT (%s)' % ('cadical' if 'cadical' in ' '.join(u.get('cbmc', [])) else 'minisat2'), mode=u.get('mode', 'legacy'),
                  obligations=0, discharged=0)
        per_unit.append(pu)
        if r['status'] != 'done':
            undecided.append(f"{r['unit']}: {r['status']}: {' ; '.join(r['notes'])[:300]}")
            continue
        if r.get('ignoring'):
            undecided.append(f"{r['unit']}: quantifier ignored by back end")
        if r.get('canaries', 0) == 0 and not u.get('no_canary'):
            undecided.append(f"{r['unit']}: harness has no reachability canary")
        if r.get('canaries_failed', 0) != r.get('canaries', 0):
            # a canary in a stub is copied to every call site when the stub is inlined: it is live when one copy is
            live = {o['desc'] for o in r['obligations'] if o['kind'] == 'canary' and o['status'] == 'FAILURE'}
            bad = sorted({o['desc'] for o in r['obligations'] if o['kind'] == 'canary' and o['status'] != 'FAILURE'} - live)
            if bad:
                undecided.append(f"{r['unit']}: vacuous - canary not reachable: {bad}")
        if r['nspec_loops'] and not r['has_loop_obligations']:
            undecided.append(f"{r['unit']}: loop contracts woven but no loop_invariant obligations generated")
        minob = u.get('min_obligations', 1)
        real = [o for o in r['obligations'] if o['kind'] in ('obligation', 'dfcc-internal')]
        if len(real) < minob:
            undecided.append(f"{r['unit']}: only {len(real)} obligations generated (< {minob})")
        for o in r['obligations']:
            if o['kind'] == 'canary': continue
            if o['kind'] == 'unwind':
                if o['status'] != 'SUCCESS':
                    undecided.append(f"{r['unit']}: unwinding assertion {o['cbmc_id']} not discharged (bound too small)")
                continue
            pu['obligations'] += 1
            if bounded: n_bounded += 1
            else: n_ob += 1
            if o['status'] == 'SUCCESS':
                pu['discharged'] += 1
                if bounded: n_bounded_ok += 1
                else: n_ok += 1
                if o.get('clause') and len(samples) < 6 and o['name'] not in [s['obligation'] for s in samples]:
                    samples.append(dict(obligation=o['name'], unit=r['unit'], clause=o['clause'][:300], status='SUCCESS'))
            elif o['status'] == 'FAILURE':
                k = match_known(known, a.prop, r['unit'], o['name'])
                if k:
                    knownhits.append((k, r['unit'], o))
                    # a listed finding is reported on its own line and in coverage.known_findings, not as an open obligation
                    pu['obligations'] -= 1
                    if bounded: n_bounded -= 1
                    else: n_ob -= 1
                else:
                    violations.append((r, o))
            else:
                # cbmc reports UNKNOWN for obligations that lie behind a failed check on every path
                masked.append((r['unit'], f"{r['unit']}: obligation {o['name']} status {o['status']}", bounded, pu))
    # report
    # UNKNOWNs in a unit where a LISTED finding failed lie behind that finding: they are neither proved nor open -- taken out
    # of the count and reported with the finding (coverage.known_findings[].masked). UNKNOWNs that nothing explains stay undecided.
    known_units = {unit for _, unit, _ in knownhits}
    masked_by_known = {}
    rest = []
    for unit, msg, bnd, pu_ in masked:
        if unit in known_units and not any(r_['unit'] == unit for r_, _ in violations):
            masked_by_known[unit] = masked_by_known.get(unit, 0) + 1
            pu_['obligations'] -= 1
            if bnd: n_bounded -= 1
            else: n_ob -= 1
        else:
            rest.append(msg)
    if rest and not violations:
        undecided += rest[:20]
    printed = set()
    for k, unit, o in knownhits:
        if k['line'] not in printed:
            printed.add(k['line'])
            print(f"KNOWN-FINDING: property={a.prop} {k.get('what', k['line'])} [unit {unit} obligation {o['name']}]")
    vio_lines = []
    if violations:
        rdir = os.path.join(VERIF, 'replays', a.prop)
        os.makedirs(rdir, exist_ok=True)
        seen = set()
        for r, o in violations:
            key = (r['unit'], re.sub(r'\.\d+@', '@', o['name']))   # same kind of check at the same source line: report once
            if key in seen: continue
            seen.add(key)
            path, reproduced = RP.make_replay(VERIF, REPO, rdir, a.prop, r, o)
            tail = '' if reproduced else ' no-failing-input-found'
            line = f"VIOLATION property={a.prop} replay={path} obligation={o['name']} unit={r['unit']}{tail}"
            if not reproduced:
                line = f"VIOLATION property={a.prop} replay={path} obligation={o['name']} unit={r['unit']} no-failing-input-found"
            vio_lines.append(line)
            if a.show:
                print('  desc:', o['desc'], '| clause:', o.get('clause', '')[:200])
    for ln in vio_lines[:40]:
        print(ln)
    for x in undecided:
        print('UNDECIDED:', x)
    wall = round(time.time() - t0, 1)
    if not a.no_evidence and not a.unit:
        write_evidence(a.prop, tier, seed, results, per_unit, n_ob, n_ok, n_bounded, n_bounded_ok, samples,
                       sorted(trusted), sorted(assumptions), len(vio_lines), [k['line'] for k, _, _ in knownhits], undecided, wall, masked_by_known)
    if vio_lines:
        sys.exit(1)
    if undecided:
        sys.exit(2)
    print(f'OK property={a.prop} tier={tier} units={len(results)} obligations={n_ob} discharged={n_ok} bounded={n_bounded_ok}/{n_bounded} wall={wall}s')
    sys.exit(0)

def write_evidence(pid, tier, seed, results, per_unit, n_ob, n_ok, n_b, n_bok, samples, trusted, assumptions, nviol, knownlines, undecided, wall, masked_by_known=None):
    meta = {}
    mp = os.path.join(VERIF, 'props_meta.json')
    if os.path.exists(mp):
        meta = json.load(open(mp)).get(pid, {})
    level = meta.get('level', 'proof')
    cmds = []
    for r in results[:1]:
        cmds = r['cmds']
    cov = dict(obligations=n_ob, discharged=n_ok,
               bounded_obligations=n_b, bounded_discharged=n_bok,
               checker_cmd=' && '.join(c[:400] for c in cmds) if cmds else 'n/a',
               trusted_base=trusted + meta.get('trusted_base', []),
               functions_under_contract=sorted({p['function'] for p in per_unit if p['function']}),
               units=per_unit,
               samples=samples or [dict(note='no labelled clause sampled')],
               clauses_not_decided=meta.get('not_decided', []),
               known_findings=sorted(set(knownlines)), known_finding_obligations=len(knownlines),
               not_decided_behind_known_findings=masked_by_known or {},
               undecided=undecided,
               backend='cbmc 6.11.0 (goto-instrument --dfcc; SAT back end minisat2)',
               solver_s_total=round(sum(p['solver_s'] for p in per_unit), 1),
               explanation=meta.get('explanation', 'contract proofs of real functions woven from /repo working tree; see units[] for per-function labels: P = unbounded inductive, PC(N) = inductive with quantified array capacity N, B(n) = bounded stand-in (not counted in obligations/discharged)'))
    ev = dict(property_id=pid, tier=tier, seed=seed, level=level, coverage=cov,
              assumptions=assumptions + meta.get('assumptions', []), wall_s=wall, violations=nviol)
    os.makedirs(os.path.join(VERIF, 'evidence'), exist_ok=True)
    json.dump(ev, open(os.path.join(VERIF, 'evidence', pid + '.json'), 'w'), indent=1)

if __name__ == '__main__':
    main()
