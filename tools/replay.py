#!/usr/bin/env python3
"""replay.py -- turn a failed obligation into a replay artefact.

make_replay() always writes  replays/<prop>/<unit>__<obligation>.txt  holding the obligation name,
the woven clause, CBMC's description and the counterexample trace (assignments only).
If the unit declares a native replay recipe (unit.json "replay": {...}) the counterexample state is
rebuilt in a native C program that calls the real function compiled from /repo with gcc -fsanitize
and re-evaluates the violated clause; `reproduced` is True only when that program confirms the failure.
"""
import json, os, re, subprocess, tempfile, shutil

def _safe(s):
    return re.sub(r'[^A-Za-z0-9_.\-]+', '_', s)[:120]

def trace_lines(trace, limit=4000):
    out = []
    for s in trace:
        if s.get('stepType') == 'assignment' and not s.get('hidden'):
            v = s.get('value', {})
            loc = s.get('sourceLocation', {})
            fn = loc.get('function', '')
            if fn.startswith('__CPROVER_contracts') and 'dynamic_object' not in s.get('lhs', ''):
                continue
            if s.get('lhs', '').startswith(('__car_', '__CPROVER_', '__dfcc', 'tmp_cc', '__contract', '__write_set', 'return_value___')):
                continue
            out.append('%s = %s    [%s:%s %s]' % (s.get('lhs'), v.get('data', v.get('name')), os.path.basename(loc.get('file', '')), loc.get('line', ''), fn))
        elif s.get('stepType') == 'failure':
            out.append('FAILURE: %s  [%s]' % (s.get('reason', ''), s.get('property', '')))
        if len(out) >= limit:
            out.append('... truncated'); break
    return out

def make_replay(VERIF, REPO, rdir, pid, r, o):
    base = os.path.join(rdir, _safe(r['unit']) + '__' + _safe(o['name']))
    path = base + '.txt'
    lines = ['property: %s' % pid, 'unit: %s' % r['unit'], 'function under contract: %s' % r['function'],
             'failed obligation: %s' % o['name'], 'cbmc property id: %s' % o['cbmc_id'],
             'description: %s' % o['desc'], 'location: %s:%s (%s)' % (o['file'], o['line'], o['function'])]
    if o.get('clause'):
        lines.append('clause: ' + o['clause'])
    lines.append('commands:')
    lines += ['  ' + c for c in r['cmds']]
    lines.append('--- verifier counterexample (assignments) ---')
    lines += trace_lines(o.get('trace', []))
    reproduced = False
    try:
        import native_replay as NR
        ok, rep_lines, cfile = NR.try_native(VERIF, REPO, base, pid, r, o)
        lines.append('--- native replay ---')
        lines += rep_lines
        reproduced = ok
        if cfile:
            lines.append('native replay program: ' + cfile)
    except ImportError:
        lines.append('--- native replay: not available for this unit ---')
    except Exception as e:
        lines.append('--- native replay failed to run: %r ---' % (e,))
    if not reproduced:
        lines.insert(0, 'no-failing-input-found: the obligation failed in the verifier; no native failing input was confirmed')
    open(path, 'w').write('\n'.join(lines) + '\n')
    return path, reproduced
