#!/usr/bin/env python3
"""setup: nothing to build; verify the tool chain is present and the weaver round-trips."""
import shutil, subprocess, sys, os
for t in ('cbmc', 'goto-cc', 'goto-instrument', 'gcc'):
    if not shutil.which(t):
        print('missing tool', t); sys.exit(1)
sys.path.insert(0, os.path.dirname(os.path.abspath(__file__)))
import weave
src = '# 1 "x.c"\nint f(int n)\n{\n  int i, s = 0;\n  for (i = 0; i < n; i++) { s += i; }\n  return s;\n}\n'
spec = weave.parse_spec('@function f\n@nloops 1\n@contract\n[r] __CPROVER_requires(n < 10)\n@loop 1\n__CPROVER_loop_invariant(i <= n)\n')
w, cm, info = weave.weave(src, spec)
assert weave.unweave(w) == src and info['f']['nloops'] == 1
print('selfcheck ok:', subprocess.run(['cbmc', '--version'], stdout=subprocess.PIPE).stdout.decode().strip())
