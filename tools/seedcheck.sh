#!/bin/bash
# seedcheck.sh <worktree-id under /tmp/seed> <property> <name-for-seeded/> [vrun args...]
# 1. rebuild the seed's demo against the original and the changed library, run both; 2. run the project's tests on the changed build;
# 3. run ./check-equivalent against a scratch copy of the CURRENT /repo/SRC with the seed's patch applied; 4. store the seed under seeded/<name>/.
id=$1; prop=$2; name=$3; shift 3
W=/tmp/seed/$id; S=$W/_seed; T=${VERIF_TMP:-/tmp}/seedcheck_$id; mkdir -p $T
libc=$(ls $W/_build/SRC/*.a 2>/dev/null | head -1); libo=$(ls $W/_build_orig/SRC/*.a $W/_build0/SRC/*.a $S/orig_build/SRC/*.a $S/*orig*/SRC/*.a $S/*orig*/_build/SRC/*.a 2>/dev/null | head -1)
gcc -w -I $W/SRC $S/demo.c $libo -lopenblas -lpthread -lm -o $T/demo_orig && gcc -w -I $W/SRC $S/demo.c $libc -lopenblas -lpthread -lm -o $T/demo_chg || { echo "demo build failed"; exit 2; }
(cd $S; OPENBLAS_NUM_THREADS=1 timeout 600 $T/demo_orig > $T/orig.out 2>&1); eo=$?
(cd $S; OPENBLAS_NUM_THREADS=1 timeout 600 $T/demo_chg > $T/chg.out 2>&1); ec=$?
ct=$(ctest --test-dir $W/_build -j3 --timeout 900 2>&1 | grep -E "tests passed")
echo "seed $id: demo original exit=$eo changed exit=$ec ; ctest(changed): $ct"
rm -rf $T/SRCROOT; mkdir -p $T/SRCROOT; cp -r /repo/SRC $T/SRCROOT/; (cd $T/SRCROOT && patch -p1 -s < $S/patch.diff) || echo "PATCH DID NOT APPLY CLEANLY on current /repo"
VERIF_REPO=$T/SRCROOT python3 /verif/tools/vrun.py $prop "$@" --no-evidence > $T/check.log 2>&1; echo "check exit=$?"
cut -c1-260 $T/check.log | grep -E "VIOLATION|^OK|UNDECIDED" | sed 's/replay=[^ ]* //' | head -8
d=/verif/seeded/$name; mkdir -p $d; cp $S/patch.diff $S/demo.c $S/notes.md $S/build_and_run.sh $d/ 2>/dev/null
rm -rf $T/SRCROOT $T/demo_orig $T/demo_chg
