#!/usr/bin/env python3
"""native_replay.py -- replay a CBMC counterexample against the real code, natively.

Convention the units follow: every input of a harness is a file-scope variable whose name starts with
`in_` or `g_` (DFCC and the legacy instrumentation both give statics nondeterministic initial values,
and the trace lists those values leaf by leaf with their bit patterns).  The replay program
  * sets those variables to the counterexample's initial values (bit-exact),
  * compiles the unit's own harness natively, with the function under contract redirected to a
    generated wrapper that (1) evaluates every `requires` clause, (2) snapshots __CPROVER_old
    expressions, (3) calls the REAL function -- linked from a gcc -fsanitize=address,undefined build
    of /repo's current sources --, (4) evaluates the violated clause,
  * links the unit's stubs (natively compiled; nondet_* return the counterexample's values in order).
Exit status of the replay program: 1 = reproduced (clause false / stub assertion fired / sanitizer
report), 0 = not reproduced, 3/4 = counterexample not realisable natively (assume/requires false).
"""
import glob, json, os, re, shutil, subprocess, tempfile

SHIM = r'''
#ifndef REPLAY_SHIM_H
#define REPLAY_SHIM_H
#include <stdio.h>
#include <stdlib.h>
#include <string.h>
#include <math.h>
#include <stddef.h>
extern int replay_assert_failed; extern const char *replay_target_assert;
#define __CPROVER_assert(c, msg) do { if (!(c)) { if (strstr((msg), "canary") == NULL) { printf("REPLAY: assertion failed: %s\n", (msg)); if (replay_target_assert && strstr((msg), replay_target_assert)) { printf("REPLAY: REPRODUCED (stub assertion)\n"); fflush(stdout); exit(1); } replay_assert_failed++; } } } while (0)
#define __CPROVER_assume(c) do { if (!(c)) { printf("REPLAY: assumption false (%s) -- counterexample not realisable natively\n", #c); fflush(stdout); exit(3); } } while (0)
#define __CPROVER_havoc_slice(p, n) ((void)0)
#define __CPROVER_havoc_object(p) ((void)0)
#define __CPROVER_cover(c) ((void)0)
#define __CPROVER_fabs fabs
#define __CPROVER_fabsf fabsf
#define __CPROVER_isnand isnan
#define __CPROVER_isnanf isnan
#define __CPROVER_isinfd isinf
#define __CPROVER_isinff isinf
#define __CPROVER_size_t size_t
#endif
'''

def _leaf_c(lhs):
    lhs = re.sub(r'\[(\d+)l?\]', r'[\1]', lhs)
    lhs = re.sub(r'^GH_\.', '', lhs)   # fields of the ghost object are reached through their accessor macros
    return lhs

def initial_values(trace, entry):
    """first value of every leaf of every in_*/g_* variable assigned before the harness starts."""
    vals = {}
    order = []
    nondets = {}
    started = False
    for s in trace:
        if s.get('stepType') == 'function-call' and s.get('function', {}).get('displayName') == entry:
            started = True
        if s.get('stepType') != 'assignment':
            continue
        lhs = s.get('lhs', '')
        v = s.get('value', {})
        m = re.match(r'return_value_(nondet_\w+?)(\$\d+)?$', lhs)
        if m and 'binary' in v:
            nondets.setdefault(m.group(1), []).append(v)
            continue
        fn = s.get('sourceLocation', {}).get('function')
        if started or fn not in (None, '', '__CPROVER_initialize', '__CPROVER__start'):
            continue
        root = re.match(r'[A-Za-z_]\w*', lhs)
        if not root or not (root.group(0).startswith('in_') or root.group(0).startswith('g_') or root.group(0) == 'GH_'):
            continue
        if '$pad' in lhs or v.get('name') in ('struct', 'array', 'union', None):
            continue
        if lhs not in vals:
            vals[lhs] = v; order.append(lhs)
    return [(k, vals[k]) for k in order], nondets

def c_assign(lhs, v):
    lhs = _leaf_c(lhs)
    v = dict(v); v['data'] = str(v.get('data', '')).replace('/*', '').replace('*/', '')
    nm = v.get('name')
    if nm == 'pointer':
        return None
    if nm == 'float' and 'binary' in v:
        w = int(v.get('width', 64))
        bits = int(v['binary'], 2)
        if w == 64:
            return '{ unsigned long long b_ = 0x%xULL; memcpy(&(%s), &b_, 8); } /* %s */' % (bits, lhs, v.get('data'))
        return '{ unsigned int b_ = 0x%xU; memcpy(&(%s), &b_, 4); } /* %s */' % (bits, lhs, v.get('data'))
    if 'binary' in v:
        w = int(v.get('width', len(v['binary'])))
        bits = int(v['binary'], 2)
        if nm == 'boolean' or w == 1:
            return '%s = %d;' % (lhs, bits & 1)
        if v['binary'][0] == '1' and not str(v.get('type', '')).startswith('unsigned'):
            bits -= (1 << len(v['binary']))
        return '{ long long b_ = %dLL; __typeof__(%s) t_ = (__typeof__(%s))b_; memcpy(&(%s), &t_, sizeof(t_)); } /* %s */' % (bits, lhs, lhs, lhs, v.get('data'))
    if nm == 'boolean':
        return '%s = %s;' % (lhs, '1' if str(v.get('data')).lower() == 'true' else '0')
    return None

# ---------- clause translation ----------
def _balanced(s, i, open_ch='(', close_ch=')'):
    d = 0
    for j in range(i, len(s)):
        if s[j] == open_ch: d += 1
        elif s[j] == close_ch:
            d -= 1
            if d == 0: return j
    raise ValueError('unbalanced')

def strip_wrapper(clause):
    m = re.match(r'\s*__CPROVER_(requires|ensures)\s*\(', clause)
    if not m: return None, None
    j = _balanced(clause, m.end() - 1)
    return m.group(1), clause[m.end():j]

def _impl(s):
    """rewrite ==> (lowest precedence, right assoc) recursively inside every group."""
    out = []; i = 0; parts = []; cur = []
    while i < len(s):
        c = s[i]
        if c == '(' or c == '{' or c == '[':
            close = {'(': ')', '{': '}', '[': ']'}[c]
            j = _balanced(s, i, c, close)
            inner = _impl_seq(s[i + 1:j]) if c == '{' else _impl(s[i + 1:j])
            cur.append(c + inner + close); i = j + 1; continue
        if s.startswith('==>', i):
            parts.append(''.join(cur)); cur = []; i += 3; continue
        cur.append(c); i += 1
    parts.append(''.join(cur))
    res = parts[-1]
    for p in reversed(parts[:-1]):
        res = '(!(%s) || (%s))' % (p, res)
    return res

def _impl_seq(s):
    # inside { T k; body } keep the declaration, rewrite body
    k = s.find(';')
    if k < 0: return _impl(s)
    return s[:k + 1] + _impl(s[k + 1:])

def to_native(expr, qhi, olds):
    e = re.sub(r'\bGH_\.(\w+)', r'\1', expr)   # ghost-object fields: use the accessor macros of drv_ghost.h
    # old()
    while True:
        k = e.find('__CPROVER_old')
        if k < 0: break
        p = e.index('(', k); j = _balanced(e, p)
        inner = e[p + 1:j]
        if inner not in olds: olds.append(inner)
        e = e[:k] + '(__old_%d)' % olds.index(inner) + e[j + 1:]
    e = e.replace('__CPROVER_return_value', '__ret')
    e = re.sub(r'__CPROVER_(is_fresh|r_ok|w_ok|rw_ok)\s*\(', '__ok1(', e)
    e = _impl(e)
    # quantifiers
    def quant(e):
        while True:
            m = re.search(r'__CPROVER_(forall|exists)\s*\{', e)
            if not m: return e
            j = _balanced(e, m.end() - 1, '{', '}')
            inner = e[m.end():j]
            k = inner.find(';')
            decl = inner[:k].strip(); body = quant(inner[k + 1:])
            var = decl.split()[-1]
            if m.group(1) == 'forall':
                rep = '({ int ok_ = 1; for (%s = -1; %s <= %d; %s++) { if (!(%s)) { ok_ = 0; break; } } ok_; })' % (decl, var, qhi, var, body)
            else:
                rep = '({ int ok_ = 0; for (%s = -1; %s <= %d; %s++) { if (%s) { ok_ = 1; break; } } ok_; })' % (decl, var, qhi, var, body)
            e = e[:m.start()] + rep + e[j + 1:]
    return quant(e)

def split_params(sig):
    p = sig.index('('); j = _balanced(sig, p)
    inner = sig[p + 1:j]
    parts = []; d = 0; cur = ''
    for c in inner:
        if c in '([': d += 1
        if c in ')]': d -= 1
        if c == ',' and d == 0: parts.append(cur); cur = ''
        else: cur += c
    if cur.strip(): parts.append(cur)
    names = []
    for q in parts:
        q = re.sub(r'\[[^\]]*\]', '', q)
        ids = re.findall(r'[A-Za-z_]\w*', q)
        if ids and q.strip() != 'void': names.append(ids[-1])
    return names

def try_native(VERIF, REPO, base, pid, r, o):
    u = r.get('_unit') or {}
    rp = r.get('replay_ctx')
    if not rp:
        return False, ['unit provides no replay context'], None
    fn = rp['function']; sig = rp['signature']; inst = rp['inst']; defs = rp['defs']; entry = rp['entry']
    if not sig:
        return False, ['signature of %s not available' % fn], None
    inits, nondets = initial_values(o.get('trace', []), entry)
    if not inits:
        return False, ['trace holds no initial values of in_*/g_* harness variables'], None
    qhi = 1 + max([int(v) for k, v in inst.items() if isinstance(v, int) or (isinstance(v, str) and v.isdigit())] + [16])
    olds = []
    reqs = []; target = None
    for (key, val) in rp['clauses']:
        kind, inner = strip_wrapper(val['text'])
        if kind == 'requires':
            reqs.append((val['label'], to_native(inner, qhi, [])))
    kind = None
    if o.get('clause'):
        kind, inner = strip_wrapper(o['clause'])
        if kind == 'ensures':
            target = to_native(inner, qhi, olds)
    m = re.match(r'\s*(.*?)\b%s\s*\(' % re.escape(fn), sig, re.S)
    rettype = re.sub(r'\b(extern|static|inline|register)\b', '', m.group(1)).strip() if m else 'int'
    params = split_params(sig)
    wrapper_sig = re.sub(r'\b%s\s*\(' % re.escape(fn), 'replay_%s(' % fn, sig, count=1)
    wrapper_sig = re.sub(r'\bregister\b', '', wrapper_sig)
    call = '%s(%s)' % (fn, ', '.join(params))
    L = []
    L.append('/* native replay of %s / %s -- generated by tools/native_replay.py */' % (r['unit'], o['name']))
    L.append('#include "replay_shim.h"')
    L.append('int replay_assert_failed; const char *replay_target_assert = %s;' % (json.dumps(o['desc'][:60]) if 'assertion' in o['cbmc_id'] else 'NULL'))
    L.append('static int __ok1(const void *p, size_t n) { (void)p; (void)n; return 1; }')
    for name, seq in nondets.items():
        ctype = {'nondet_int': 'int', 'nondet_bool': '_Bool', 'nondet_real': rp['inst'].get('R', 'double'), 'nondet_double': 'double',
                 'nondet_float': 'float', 'nondet_long': 'long', 'nondet_uint': 'unsigned', 'nondet_size_t': 'size_t'}.get(name)
        if not ctype: continue
    L.append('#include "slu_mt_%sdefs.h"' % (inst.get('p') or 'd'))
    L.append('#define %s replay_%s' % (fn, fn))
    L.append(wrapper_sig + ';')
    L.append('#include "%s"' % rp['harness_file'])
    L.append('#undef %s' % fn)
    for nm in list(rp['files'])[1:]:
        if nm.endswith('.c'): L.append('#include "%s"' % nm)
    L.append(wrapper_sig)
    L.append('{')
    for lab, txt in reqs:
        L.append('  if (!(%s)) { printf("REPLAY: requires [%s] is false for the counterexample state -- not realisable\\n"); fflush(stdout); exit(4); }' % (txt, lab))
    for i, e in enumerate(olds):
        L.append('  __typeof__(%s) __old_%d = (%s);' % (e, i, e))
    if rettype == 'void':
        L.append('  %s;' % call)
    else:
        L.append('  %s __ret = %s;' % (rettype, call))
    if target:
        L.append('  if (!(%s)) { printf("REPLAY: REPRODUCED clause %s is false after the real %s returned\\n"); fflush(stdout); exit(1); }' % (target, o['name'], fn))
    L.append('  printf("REPLAY: real %s returned\\n");' % fn)
    if rettype != 'void':
        L.append('  return __ret;')
    L.append('}')
    L.append('static void replay_init(void) {')
    for lhs, v in inits:
        a = c_assign(lhs, v)
        if a: L.append('  ' + a)
    L.append('}')
    L.append('int main(void) { replay_init(); %s(); if (replay_assert_failed) { printf("REPLAY: REPRODUCED (assertion)\\n"); return 1; } printf("REPLAY: not reproduced\\n"); return 0; }' % entry)
    # nondet functions for stubs
    N = ['#include "replay_shim.h"']
    for name in ('nondet_int', 'nondet_bool', 'nondet_real', 'nondet_double', 'nondet_float'):
        ctype = {'nondet_int': 'int', 'nondet_bool': '_Bool', 'nondet_real': inst.get('R', 'double'), 'nondet_double': 'double', 'nondet_float': 'float'}[name]
        seq = nondets.get(name, [])
        vals = []
        for v in seq:
            bits = int(v['binary'], 2)
            vals.append('0x%xULL' % bits)
        N.append('static unsigned long long %s_seq[] = {%s 0};' % (name, ''.join(x + ',' for x in vals)))
        N.append('static int %s_i; %s %s(void) { %s r = 0; if (%s_i < %d) { unsigned long long b = %s_seq[%s_i++]; memcpy(&r, &b, sizeof(r)); } return r; }' % (name, ctype, name, ctype, name, len(vals), name, name))
    cfile = base + '.replay.c'
    work = tempfile.mkdtemp(prefix='vreplay_')
    out = []
    try:
        open(os.path.join(work, 'replay_shim.h'), 'w').write(SHIM)
        open(os.path.join(work, 'replay_main.c'), 'w').write('\n'.join(L) + '\n')
        open(os.path.join(work, 'replay_nondet.c'), 'w').write('\n'.join(N) + '\n')
        shutil.copy(os.path.join(work, 'replay_main.c'), cfile)
        for nm, txt in rp['files'].items():
            open(os.path.join(work, nm), 'w').write(txt)
        src = os.path.join(REPO, 'SRC')
        p = inst.get('p', 'd')
        # real library sources: precision-independent files + the files of this precision
        files = []
        allnames = {os.path.basename(f) for f in glob.glob(os.path.join(src, '*.c'))}
        allowed = {'z': 'zd', 'c': 'cs', 'd': 'd', 's': 's'}.get(p, 'd')
        for f in sorted(glob.glob(os.path.join(src, '*.c'))):
            b = os.path.basename(f)
            letter = None
            if b[0] == 'p' and b[1] in 'sdcz' and any(('p' + x + b[2:]) in allnames for x in 'sdcz' if x != b[1]):
                letter = b[1]
            elif b[0] in 'sdcz' and any((x + b[1:]) in allnames for x in 'sdcz' if x != b[0]):
                letter = b[0]
            if letter is None or letter in allowed:
                files.append(f)
        cc = ['gcc', '-O1', '-g', '-fsanitize=address,undefined', '-fno-sanitize-recover=undefined', '-fno-omit-frame-pointer', '-w'] + \
             [d for d in defs if not d.startswith('-DUSER_ABORT')] + ['-I', src, '-I', work, '-I', os.path.join(VERIF, 'contracts'), '-I', os.path.join(VERIF, 'stubs')]
        objs = []
        jobs = []
        for f in files:
            ob = os.path.join(work, 'lib_' + os.path.basename(f)[:-2] + '.o')
            jobs.append((subprocess.Popen(cc + ['-c', f, '-o', ob], stdout=subprocess.DEVNULL, stderr=subprocess.DEVNULL), ob))
            if len(jobs) >= 16:
                for pr, ob2 in jobs:
                    if pr.wait() == 0: objs.append(ob2)
                jobs = []
        for pr, ob2 in jobs:
            if pr.wait() == 0: objs.append(ob2)
        subprocess.run(['ar', 'rcs', os.path.join(work, 'libreal.a')] + objs, check=True)
        exe = os.path.join(work, 'replay')
        srcs = [os.path.join(work, 'replay_main.c'), os.path.join(work, 'replay_nondet.c')]
        cmd = cc + ['-DVERIF_REPLAY'] + srcs + ['-Wl,--allow-multiple-definition', os.path.join(work, 'libreal.a'), '-lopenblas', '-lpthread', '-lm', '-o', exe]
        pr = subprocess.run(cmd, stdout=subprocess.PIPE, stderr=subprocess.STDOUT)
        if pr.returncode != 0:
            out.append('native build failed:'); out += pr.stdout.decode('utf-8', 'replace').split('\n')[-25:]
            return False, out, cfile
        env = dict(os.environ, ASAN_OPTIONS='detect_leaks=0:abort_on_error=0:exitcode=1', UBSAN_OPTIONS='print_stacktrace=1:halt_on_error=1:exitcode=1')
        try:
            pr = subprocess.run([exe], stdout=subprocess.PIPE, stderr=subprocess.STDOUT, timeout=60, env=env)
            txt = pr.stdout.decode('utf-8', 'replace')
            rc = pr.returncode
        except subprocess.TimeoutExpired:
            txt = 'replay timed out after 60 s'; rc = -1
        out.append('replay exit status: %s' % rc)
        out += txt.split('\n')[-40:]
        san = ('AddressSanitizer' in txt or 'runtime error' in txt)
        memkinds = ('pointer_dereference', 'array_bounds', 'overflow', 'division', 'pointer_arithmetic', 'pointer_primitives')
        if 'REPRODUCED' in txt and rc == 1:
            return True, out, cfile
        if san and any(k in o['cbmc_id'] for k in memkinds):
            out.append('REPLAY: REPRODUCED (sanitizer report from the real code)')
            return True, out, cfile
        return False, out, cfile
    finally:
        shutil.rmtree(work, ignore_errors=True)
