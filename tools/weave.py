#!/usr/bin/env python3
"""weave.py -- insert CBMC specification clauses into a *preprocessed* real translation unit.

Input : the output of `gcc -E` on a file of /repo (the code that is compiled), and a parsed
        spec (see parse_spec).  Output: the same text plus
          * function contracts (`__CPROVER_requires/ensures/assigns/frees`) between the `)` of the
            parameter list and the `{` of the *definition* of each function named in the spec,
          * loop contracts after the header of the k-th loop (source order, 1-based) of that
            function; for do-while loops after the closing `while (...)`,
          * an optional prelude (extern declarations of ghost variables only) right before the
            definition.
        Every insertion is wrapped in /*@W*/ ... /*W@*/ and carries `# line` markers so that
        (a) CBMC reports clause locations as file `SPEC/<function>/<section>` line = clause ordinal,
        (b) locations of the real code still point into /repo.
        unweave() removes the insertions; weave() asserts unweave(woven) == input, byte for byte.
What the extraction drops: nothing.  What it adds: specification clauses, no executable code (and, only where a spec asks for it
with `@separate_do_head N`, one empty statement `;` at the start of a do-while body -- see parse_spec).
A missing function, or a loop count different from `@nloops`, raises WeaveError (runner: exit 2).
"""
import os
import re
import sys

class WeaveError(Exception):
    pass

_ID = re.compile(r'[A-Za-z_]\w*')
_LM = re.compile(r'#\s*(?:line\s+)?(\d+)\s+"([^"]*)"')

def scan_tokens(src):
    """yield (kind, start, end): 'id', 'p' (punct), 'pp' (# line) -- strings/comments skipped."""
    i, n = 0, len(src)
    bol = True
    while i < n:
        c = src[i]
        if c == '\n':
            bol = True; i += 1; continue
        if c in ' \t\r\f\v':
            i += 1; continue
        if src.startswith('/*', i):
            j = src.find('*/', i + 2); i = n if j < 0 else j + 2; continue
        if src.startswith('//', i):
            j = src.find('\n', i); i = n if j < 0 else j; continue
        if c == '#' and bol:
            j = i
            while True:
                k = src.find('\n', j)
                if k < 0: j = n; break
                if k > 0 and src[k - 1] == '\\': j = k + 1; continue
                j = k; break
            yield ('pp', i, j); i = j; continue
        bol = False
        if c == '"' or c == "'":
            j = i + 1
            while j < n and src[j] != c:
                if src[j] == '\\': j += 1
                j += 1
            yield ('s', i, j + 1)
            i = j + 1; continue
        m = _ID.match(src, i)
        if m:
            yield ('id', i, m.end()); i = m.end(); continue
        if c.isdigit():
            m = re.compile(r'[0-9][\w.]*(?:[eEpP][+-]?\w+)?').match(src, i)
            yield ('n', i, m.end()); i = m.end(); continue
        yield ('p', i, i + 1); i += 1

def _match_paren(src, toks, j, open_ch='(', close_ch=')'):
    d = 0
    while j < len(toks):
        if toks[j][0] == 'p':
            ch = src[toks[j][1]]
            if ch == open_ch: d += 1
            elif ch == close_ch:
                d -= 1
                if d == 0: return j
        j += 1
    raise WeaveError('unbalanced parentheses')

def find_function(src, toks, name):
    """return (idx_prev_end, idx_rparen, idx_lbrace, idx_rbrace) token indices of the definition."""
    depth = 0
    for idx, (k, s, e) in enumerate(toks):
        if k == 'p':
            ch = src[s]
            if ch == '{': depth += 1
            elif ch == '}': depth -= 1
        if depth != 0 or k != 'id' or src[s:e] != name:
            continue
        j = idx + 1
        while j < len(toks) and toks[j][0] == 'pp': j += 1
        if j >= len(toks) or toks[j][0] != 'p' or src[toks[j][1]] != '(':
            continue
        rp = _match_paren(src, toks, j)
        j = rp + 1
        while j < len(toks) and toks[j][0] == 'pp': j += 1
        if j < len(toks) and toks[j][0] == 'p' and src[toks[j][1]] == '{':
            rb = _match_paren(src, toks, j, '{', '}')
            # start of the definition: token after the previous ';' or '}' at depth 0
            p = idx - 1
            while p >= 0 and not (toks[p][0] == 'p' and src[toks[p][1]] in ';}'):
                p -= 1
            return p, rp, j, rb
    raise WeaveError(f'function {name} not found (definition with body)')

def line_at(src, toks, upto_tok):
    """(file, line) of the source position of token index upto_tok according to line markers."""
    # find last pp marker before token
    pos = toks[upto_tok][1]
    last = None
    for k, s, e in toks[:upto_tok]:
        if k == 'pp':
            m = _LM.match(src, s)
            if m: last = (s, e, int(m.group(1)), m.group(2))
    if last is None:
        return ('<unknown>', 1 + src.count('\n', 0, pos))
    s, e, ln, fn = last
    # marker says: the line following the marker line is `ln`
    return (fn, ln + src.count('\n', e, pos) - 1)

def loops_of(src, toks, lb, rb):
    """list of (ordinal, kind, insert_after_token_index) for loops in body toks[lb..rb]."""
    out = []
    ordinal = 0
    pending_do = []
    depth = 0
    j = lb
    while j <= rb:
        k, s, e = toks[j]
        w = src[s:e]
        if k == 'p':
            if w == '{': depth += 1
            elif w == '}': depth -= 1
        if k == 'id' and w in ('for', 'while', 'do'):
            if w == 'while' and pending_do and pending_do[-1][1] == depth:
                od, _ = pending_do.pop()
                jj = j + 1
                while toks[jj][0] == 'pp': jj += 1
                rp = _match_paren(src, toks, jj)
                j = rp + 1; continue
            ordinal += 1
            if w == 'do':
                pending_do.append((ordinal, depth))
                out.append((ordinal, 'do', j))   # cbmc 6: do-while contracts sit between `do` and the body
            else:
                jj = j + 1
                while toks[jj][0] == 'pp': jj += 1
                rp = _match_paren(src, toks, jj)
                out.append((ordinal, w, rp))
                j = rp + 1; continue
        j += 1
    if pending_do:
        raise WeaveError('do without while')
    return sorted(out), ordinal

def parse_spec(text):
    """Spec text format (already macro-expanded by the runner):
         @function NAME
         @nloops K
         @prelude            (lines: extern declarations of ghost variables)
         @contract           (lines: [label] __CPROVER_requires(...) ...; one clause per line)
         @loop N             (lines: [label] __CPROVER_assigns/loop_invariant/decreases)
       Lines starting with '//' are comments. A clause may continue on following lines that start
       with whitespace. Returns list of dict(function, nloops, prelude[], contract[], loops{n:[]})
       where each clause is (label, text)."""
    specs = []
    cur = None
    sec = None
    auto = 0
    for raw in text.split('\n'):
        line = raw.rstrip()
        if not line.strip() or line.lstrip().startswith('//'):
            continue
        if line.startswith('#'):
            continue
        if line.startswith('@'):
            parts = line.split()
            key = parts[0]
            if key == '@function':
                cur = dict(function=parts[1], nloops=None, prelude=[], contract=[], loops={}, sephead=set())
                specs.append(cur); sec = None
            elif key == '@nloops':
                cur['nloops'] = int(parts[1])
            elif key == '@prelude':
                sec = cur['prelude']
            elif key == '@contract':
                sec = cur['contract']
            elif key == '@loop':
                sec = cur['loops'].setdefault(int(parts[1]), [])
            elif key == '@separate_do_head':
                # cbmc 6.11 merges `do { while (c) {..} .. } while (d);` into ONE natural loop when the inner loop is the first
                # statement of the do body (shared loop head) and then rejects/ignores the two loop contracts.  An EMPTY
                # STATEMENT right after the `{` of the do body gives the loops distinct heads.  It is the only insertion
                # that is not a specification clause; it generates no code and unweave() removes it like every other one.
                cur['sephead'].add(int(parts[1]))
            else:
                raise WeaveError(f'spec: unknown directive {key}')
            continue
        if sec is None:
            raise WeaveError(f'spec: clause outside section: {line[:60]}')
        if raw[0] in ' \t' and sec:
            lab, txt = sec[-1]
            sec[-1] = (lab, txt + ' ' + line.strip())
            continue
        m = re.match(r'\[([\w.\-]+)\]\s*(.*)$', line)
        if m:
            sec.append((m.group(1), m.group(2)))
        else:
            auto += 1
            sec.append((f'c{auto}', line.strip()))
    return specs

def weave(src, specs):
    """returns (woven_text, clause_map) ; clause_map[(pseudo_file, line)] = (function, section, label, text)"""
    toks = list(scan_tokens(src))
    inserts = []   # (pos, text)
    cmap = {}
    info = {}
    for sp in specs:
        fn = sp['function']
        prev, rp, lb, rb = find_function(src, toks, fn)
        loops, nloops = loops_of(src, toks, lb, rb)
        sig = re.sub(r'(?m)^#.*$', '', src[toks[prev][2] if prev >= 0 else 0:toks[rp][2]]).strip()
        info[fn] = dict(nloops=nloops, signature=sig)
        if sp['nloops'] is not None and sp['nloops'] != nloops:
            raise WeaveError(f'{fn}: spec was written for {sp["nloops"]} loops, source has {nloops}')
        for n in sp['loops']:
            if n < 1 or n > nloops:
                raise WeaveError(f'{fn}: loop {n} not in source ({nloops} loops)')
        def block(section, clauses, after_tok, raw=False):
            pf = f'SPEC/{fn}/{section}'
            f0, l0 = line_at(src, toks, after_tok + 1 if after_tok + 1 < len(toks) else after_tok)
            body = []
            for i, (lab, txt) in enumerate(clauses, 1):
                cmap[(pf, i)] = (fn, section, lab, txt)
                body.append(txt)
            # resync marker: the text that follows continues on the original line
            nxt = toks[after_tok + 1][1] if after_tok + 1 < len(toks) else len(src)
            pos = toks[after_tok][2] if after_tok >= 0 else 0
            # count of newlines between pos and next token start are preserved in src itself
            ln_here = l0 - src.count('\n', pos, nxt)
            text = '/*@W*/\n# 1 "%s"\n%s\n# %d "%s"\n/*W@*/' % (pf, '\n'.join(body), ln_here, f0)
            inserts.append((pos, text))
        if sp['prelude']:
            block('prelude', sp['prelude'], prev)
        if sp['contract']:
            block('contract', sp['contract'], rp)
        for od, kind, rptok in loops:
            if od in sp['loops']:
                block(f'loop{od}', sp['loops'][od], rptok)
                # location of the loop statement itself (legacy instrumentation reports loop obligations there)
                j = rptok
                d = 0
                if kind == 'do':
                    if od in sp.get('sephead', ()):
                        jb = rptok + 1
                        while toks[jb][0] == 'pp': jb += 1
                        if src[toks[jb][1]:toks[jb][2]] != '{':
                            raise WeaveError(f'{fn}: @separate_do_head {od}: do body is not a block')
                        inserts.append((toks[jb][2], '/*@W*/;/*W@*/'))
                    f1, l1 = line_at(src, toks, rptok)
                    cmap[('LOOP', os.path.basename(f1), l1)] = (fn, f'loop{od}')
                    continue
                while j > lb:
                    if toks[j][0] == 'p':
                        ch = src[toks[j][1]]
                        if ch == ')': d += 1
                        elif ch == '(':
                            d -= 1
                            if d == 0: break
                    j -= 1
                kw = j - 1
                while kw > lb and toks[kw][0] == 'pp': kw -= 1
                f1, l1 = line_at(src, toks, kw)
                cmap[('LOOP', os.path.basename(f1), l1)] = (fn, f'loop{od}')
    out = []; last = 0
    for pos, text in sorted(inserts):
        out.append(src[last:pos]); out.append(text); last = pos
    out.append(src[last:])
    woven = ''.join(out)
    if unweave(woven) != src:
        raise WeaveError('self-check failed: removing the insertions does not give back the input')
    return woven, cmap, info

def unweave(woven):
    return re.sub(r'/\*@W\*/.*?/\*W@\*/', '', woven, flags=re.S)

if __name__ == '__main__':
    srcf, specf, outf = sys.argv[1:4]
    specs = parse_spec(open(specf).read())
    woven, cmap, info = weave(open(srcf).read(), specs)
    open(outf, 'w').write(woven)
    print('woven:', info, len(cmap), 'clauses')
