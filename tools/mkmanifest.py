#!/usr/bin/env python3
"""regenerate MANIFEST.json from props_meta.json and the units present (a property is claimed iff a unit is tagged with it)."""
import json, os, sys
V = os.path.dirname(os.path.dirname(os.path.abspath(__file__)))
meta = json.load(open(os.path.join(V, 'props_meta.json')))
tagged = {}
rf = os.path.join(V, 'units', 'READY.txt')
ready = {l.strip() for l in open(rf) if l.strip() and not l.startswith('#')} if os.path.exists(rf) else None
for d in sorted(os.listdir(os.path.join(V, 'units'))):
    f = os.path.join(V, 'units', d, 'unit.json')
    if os.path.exists(f) and (ready is None or d in ready):
        u = json.load(open(f))
        if u.get('disabled'): continue
        for p in u.get('properties', []): tagged.setdefault(p, []).append(d)
props = [json.loads(l)['id'] for l in open(os.path.join(V, 'properties.jsonl')) if l.strip()]
checks = []; na = []
for p in props:
    m = meta.get(p, {})
    if 'na' in m or p not in tagged:
        na.append(dict(property_id=p, reason=m.get('na', 'no contract unit built for this property yet (see DESIGN.md §6 for the plan)')))
        continue
    checks.append(dict(property_id=p,
        quick_cmd=f'./check {p} quick', thorough_cmd=f'./check {p} thorough',
        evidence_file=f'/verif/evidence/{p}.json',
        replay_cmd_template='cat {path}',
        engine='cbmc-contracts',
        level_claimed=dict(category=m.get('level', 'proof'), text=m.get('text', ''), design_ref=m.get('design_ref', 'DESIGN.md §6')),
        level_note=m.get('note', ''), technique=m.get('technique', 'CBMC code contracts on woven real source')))
man = dict(version=1,
    setup_cmd='python3 tools/selfcheck.py',
    hooks=dict(guard='SLU_MT_VERIF', enable='no hooks: contracts are woven into gcc -E output of the real sources; nothing in /repo is guarded',
               baseline_off_cmd='cd /repo && cmake -G Ninja -B _build >/dev/null && cmake --build _build >/dev/null && ctest --test-dir _build -j8 --timeout 900',
               source_commits=[], add_only=True),
    engines=[dict(name='cbmc-contracts', path='/verif/tools/vrun.py', serves_properties=[c['property_id'] for c in checks],
                  kind_free_text='contract-based deductive verification: CBMC 6.11 function/loop contracts woven into the preprocessed real translation units, per-function, SAT back end; native replay of counterexamples against a gcc/ASan build')],
    checks=checks,
    notes='units/<name>/ hold the contracts; UNITS.md explains the format; DESIGN.md the approach, labels P/PC(N)/B(n) and which clauses are not decided.',
    not_applicable=na)
json.dump(man, open(os.path.join(V, 'MANIFEST.json'), 'w'), indent=1)
print('claimed:', [c['property_id'] for c in checks]); print('not applicable:', [x['property_id'] for x in na])
