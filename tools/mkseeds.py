#!/usr/bin/env python3
"""Regenerate SEEDS.md from seeded/*/meta.json (the header text is kept in this script)."""
import json, glob, os
HEAD = """# Seeded changes (independent sub-agents) and what catches them

Each change was produced by a fresh sub-agent that saw only the text of one property and a scratch git worktree of
/repo (nothing from /verif); second-round agents (suffix `b`) were additionally told which mechanism the first tester
had used and asked for a different one. I re-built both libraries, re-ran the demonstration (exit 0 on the original,
non-zero on the changed library) and re-ran the project's 48 tests on the changed build (all pass) before keeping it
under `seeded/<name>/` (patch.diff, demo.c, notes.md, build_and_run.sh, meta.json) — `tools/seedcheck.sh` does all of that.
To run the checks against one: `git -C /repo apply seeded/<name>/patch.diff; ./check <id> quick; git -C /repo checkout -- .`
(I ran them through `VERIF_REPO=<scratch copy of /repo/SRC with the patch>` so that sub-agents working in parallel were
not disturbed; the runner reads nothing but `$VERIF_REPO/SRC`).

"first run" is the outcome of the registered checks as they were when the seed arrived: **caught** (exit 1, VIOLATION
naming an obligation), **missed** (exit 0) or **undecided** (exit 2). Every miss was turned into a new or stronger unit;
the last column names the obligation that fails now.

| seed | property | change | needs, to manifest | first run | now caught by |
|---|---|---|---|---|---|
"""
rows = []
for d in sorted(glob.glob(os.path.join(os.path.dirname(__file__), '..', 'seeded', '*'))):
    mp = os.path.join(d, 'meta.json')
    if not os.path.exists(mp): rows.append(f"| {os.path.basename(d)} | ? | (meta.json missing) | | | |"); continue
    m = json.load(open(mp)); db = m.get('detected_by', {}) or {}
    fr = str(db.get('first_run') or 'caught').split(':')[0].split('(')[0].strip()
    ob = db.get('obligations') or []
    if isinstance(ob, str): ob = [ob]
    cell = lambda s: str(s or '').replace('|', '/').replace('\n', ' ')
    rows.append(f"| {os.path.basename(d)} | {m.get('property')} | {cell(m.get('change'))} | {cell(m.get('needs_to_manifest'))} | "
                f"{'**'+fr+'**' if fr != 'caught' else fr} | {cell(db.get('check'))}: " + '; '.join('`'+cell(o)+'`' for o in ob[:3]) + " |")
TAIL = "\n\nOwn mutants (hand-made, per unit) are listed in `units/<unit>/MUTANTS.md`; reverting each `fix:` commit of /repo is one of them.\n"
open(os.path.join(os.path.dirname(__file__), '..', 'SEEDS.md'), 'w').write(HEAD + '\n'.join(rows) + TAIL)
print(len(rows), 'seeds')
