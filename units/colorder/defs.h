/* vocabulary for sp_colorder.  CAP columns, NZ stored entries of A (never dereferenced by sp_colorder itself), BNZ entries of A+A'.
 * Paths (selected per variant by the macro PATH): 1 = refact (options->refact != NO), 2 = first factorization, column etree (SymmetricMode == NO),
 * 3 = first factorization, symmetric mode with bnz > 0, 4 = symmetric mode with bnz == 0 (b_rowind is never allocated). */
#define ACS ((NCPformat *)in_AC.Store)
#define NN in_A.ncol
#define PERM_OK(p, a, b) (FA(a, CAP, a < NN ==> (0 <= p[a] && p[a] < NN)) && FA(a##x, CAP, FA(b, CAP, (a##x < b && b < NN) ==> p[a##x] != p[b])))
#define P_REFACT 1
#define P_COL 2
#define P_SYM 3
#define P_SYM0 4
#define SLOTLEN ((CAP + 1) > BNZ ? (CAP + 1) : BNZ)
/* number of blocks the path allocates: refact 2 (colbeg, colend); column etree 6 (+ iwork, part_super_ata, post, invp); symmetric 10 / 9 */
#if PATH == 1
#define NSLOT 2
#define POOLS_FRAME WHOLE(g_pool0), WHOLE(g_pool1)
#elif PATH == 2
#define NSLOT 6
#define POOLS_FRAME WHOLE(g_pool0), WHOLE(g_pool1), WHOLE(g_pool2), WHOLE(g_pool3), WHOLE(g_pool4), WHOLE(g_pool5)
#else
#define NSLOT 10
#define POOLS_FRAME WHOLE(g_pool0), WHOLE(g_pool1), WHOLE(g_pool2), WHOLE(g_pool3), WHOLE(g_pool4), WHOLE(g_pool5), WHOLE(g_pool6), WHOLE(g_pool7), WHOLE(g_pool8), WHOLE(g_pool9)
#endif
#define ALLOC_FRAME POOLS_FRAME, WHOLE(g_live), WHOLE(g_ptr), g_nalloc, g_nfree, g_badfree, g_badalloc, g_ncp, g_ncp_live
