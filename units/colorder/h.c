#include "slu_mt_ddefs.h"
#include <stdlib.h>
_Bool nondet_bool(void);
/* ghost indices: g_i a column of A, g_e a vertex of the etree, g_k any index < n, g_b a position in A+A' lying in its column g_bc */
int_t g_i, g_e, g_k, g_b, g_bc;
int_t g_perm0[CAP];
int g_calls_coletree, g_calls_symetree, g_calls_post, g_calls_qr, g_calls_chol, g_calls_apa, g_argbad;
/* inputs */
SuperMatrix in_A, in_AC; NCformat in_Astore; int_t in_colptr[CAP+1], in_rowind[NZ]; double in_nzval[NZ];
int_t in_perm_c[CAP]; superlumt_options_t in_opt; int_t in_etree[CAP], in_colcnt[CAP], in_part[CAP];
/* what the stubbed callees produce: arbitrary values, constrained only by the contract's requires clauses */
int_t in_etree1[CAP], in_post[CAP+1], in_bnz, in_bcolptr[CAP+1], in_browind[BNZ], in_colcnt1[CAP], in_part1[CAP], in_partata1[CAP], in_nlnz;

/* ---- allocation model (legacy contract instrumentation does not track objects allocated inside inlined callees, so the blocks come
 * from static objects that the contract's frame names).  NSLOT blocks, each its own object g_pool<k>; a block of `bytes` ends exactly at
 * the end of its object, so every overrun is an out-of-bounds access (underruns / use after free are NOT detected).  Slots are handed
 * out in call order and never reused; g_live/g_ptr give the leak accounting: a block is live from its allocation to its (single) free. */
#define SLOTLEN ((CAP + 1) > BNZ ? (CAP + 1) : BNZ)
#define NSLOT (PATH == 1 ? 2 : PATH == 2 ? 6 : 10)      /* blocks the path allocates (same numbers in defs.h) */
int_t g_pool0[SLOTLEN], g_pool1[SLOTLEN], g_pool2[SLOTLEN], g_pool3[SLOTLEN], g_pool4[SLOTLEN], g_pool5[SLOTLEN], g_pool6[SLOTLEN], g_pool7[SLOTLEN], g_pool8[SLOTLEN], g_pool9[SLOTLEN];
int g_live[NSLOT], g_nalloc, g_nfree, g_badfree, g_badalloc; void *g_ptr[NSLOT];
NCPformat g_ncp; int g_ncp_live;
void *superlu_malloc(size_t bytes) {
  int_t *base; int s = g_nalloc;
  if (s >= NSLOT || bytes > SLOTLEN * sizeof(int_t) || bytes % sizeof(int_t) != 0) { __CPROVER_assert(0, "allocator model: request within the modelled capacity (NSLOT blocks of SLOTLEN ints)"); __CPROVER_assume(0); }
  base = s == 0 ? g_pool0 : s == 1 ? g_pool1
#if PATH >= 2
       : s == 2 ? g_pool2 : s == 3 ? g_pool3 : s == 4 ? g_pool4 : s == 5 ? g_pool5
#endif
#if PATH >= 3
       : s == 6 ? g_pool6 : s == 7 ? g_pool7 : s == 8 ? g_pool8 : s == 9 ? g_pool9
#endif
       : (int_t *) 0;
  g_nalloc = s + 1; g_live[s] = 1;
  g_ptr[s] = base + (SLOTLEN - bytes / sizeof(int_t));
  return g_ptr[s];
}
void superlu_free(void *addr) {
#define FR(s) if (addr == g_ptr[s] && s < g_nalloc) { if (!g_live[s]) g_badfree = 1; g_live[s] = 0; g_nfree++; return; }
  FR(0) FR(1)
#if PATH >= 2
  FR(2) FR(3) FR(4) FR(5)
#endif
#if PATH >= 3
  FR(6) FR(7) FR(8) FR(9)
#endif
  g_badfree = 1;                                       /* not a block of this allocator */
}
int_t *intMalloc(int_t n) { return (int_t *) superlu_malloc((size_t) n * sizeof(int_t)); }      /* SRC/pmemory.c minus the exit(1) on NULL */
/* the one direct malloc call of sp_colorder: the NCPformat header of AC.  -DOOM: it may fail (unit colorder_oom) */
void *malloc(size_t bytes) {
#ifdef OOM
  if (nondet_bool()) return (void *) 0;
#endif
  if (bytes != sizeof(NCPformat) || g_ncp_live) { __CPROVER_assert(0, "allocator model: one direct malloc, of an NCPformat"); __CPROVER_assume(0); }
  g_ncp_live = 1; return &g_ncp;
}
/* loop-free copies (legacy contract instrumentation wants the callee bodies loop-free): REP(M) = M(0) ... M(11), each guarded */
#define REP(M) M(0) M(1) M(2) M(3) M(4) M(5) M(6) M(7) M(8) M(9) M(10) M(11)
#if CAP > 10 || BNZ > 12
#error "extend REP"
#endif
/* ---- executable contracts of the callees: check the argument relations (bits of g_argbad), count the call, produce the in_* outputs */
#define ACS ((NCPformat *)in_AC.Store)
int sp_coletree(int_t *acolst, int_t *acolend, int_t *arow, int_t nr, int_t nc, int_t *parent) {
  int_t k;
  g_calls_coletree++;
  if (acolst != ACS->colbeg || acolend != ACS->colend || arow != in_rowind || nr != in_A.nrow || nc != in_A.ncol || parent != in_etree) g_argbad |= 1;
  /* the structure handed over is A*Pc: column perm_c[i] of it is column i of A */
  if (g_i < nc && !(acolst[in_perm_c[g_i]] == in_colptr[g_i] && acolend[in_perm_c[g_i]] == in_colptr[g_i + 1] && in_perm_c[g_i] == g_perm0[g_i])) g_argbad |= 2;
#define CPA(k) if (k < CAP && k < nc) parent[k] = in_etree1[k < CAP ? k : 0];
  REP(CPA)
  return 0;
}
int sp_symetree(int_t *acolst, int_t *acolend, int_t *arow, int_t n, int_t *parent) {
  int_t k;
  g_calls_symetree++;
  if (n != in_A.ncol || parent != in_etree) g_argbad |= 1;
  /* the structure handed over is Pc*(A+A')*Pc': column perm_c[i] is column i of A+A' with rows renamed by perm_c */
  if (g_i < n && !(acolst[in_perm_c[g_i]] == in_bcolptr[g_i] && acolend[in_perm_c[g_i]] == in_bcolptr[g_i + 1] && in_perm_c[g_i] == g_perm0[g_i])) g_argbad |= 2;
  if (g_b < in_bnz && arow[g_b] != in_perm_c[in_browind[g_b]]) g_argbad |= 4;
#define CPB(k) if (k < CAP && k < n) parent[k] = in_etree1[k < CAP ? k : 0];
  REP(CPB)
  return 0;
}
int_t *TreePostorder(int_t n, int_t *parent) {
  int_t k, *post;
  g_calls_post++;
  if (n != in_A.ncol || parent != in_etree) g_argbad |= 8;
  if (g_e < n && parent[g_e] != in_etree1[g_e]) g_argbad |= 16;      /* the tree is the one the etree routine produced */
  post = (int_t *) superlu_malloc((size_t)(n + 1) * sizeof(int_t));
#define CPC(k) if (k <= CAP && k <= n) post[k] = in_post[k <= CAP ? k : 0];
  REP(CPC)
  return post;
}
void at_plus_a(const int_t n, const int_t nz, int_t *colptr, int_t *rowind, int_t *bnz, int_t **b_colptr, int_t **b_rowind) {
  int_t k;
  g_calls_apa++;
  if (n != in_A.ncol || nz != in_Astore.nnz || colptr != in_colptr || rowind != in_rowind) g_argbad |= 32;
  *bnz = in_bnz;
  *b_colptr = (int_t *) superlu_malloc((size_t)(n + 1) * sizeof(int_t));
#define CPD(k) if (k <= CAP && k <= n) (*b_colptr)[k] = in_bcolptr[k <= CAP ? k : 0];
  REP(CPD)
  if (in_bnz) {                                       /* as the real routine: no row array when A+A' is empty */
    *b_rowind = (int_t *) superlu_malloc((size_t) in_bnz * sizeof(int_t));
#define CPE(k) if (k < BNZ && k < in_bnz) (*b_rowind)[k] = in_browind[k < BNZ ? k : 0];
    REP(CPE)
  }
}
static void counts_out(int_t n, int_t *colcnt, int_t *nlnz, int_t *part) {
  int_t k;
#define CPF(k) if (k < CAP && k < n) { colcnt[k] = in_colcnt1[k < CAP ? k : 0]; part[k] = in_part1[k < CAP ? k : 0]; }
  REP(CPF)
  *nlnz = in_nlnz;
}
int_t qrnzcnt(int_t neqns, int_t adjlen, int_t *xadj, int_t *adjncy, int_t *zfdperm, int_t *perm, int_t *invp, int_t *etpar,
              int_t *colcnt_h, int_t *nlnz, int_t *part_super_ata, int_t *part_super_h) {
  int_t k;
  g_calls_qr++;
  if (neqns != in_A.ncol || adjlen != in_Astore.nnz || xadj != in_colptr || adjncy != in_rowind || invp != in_perm_c || etpar != in_etree
      || colcnt_h != in_colcnt || part_super_h != in_part) g_argbad |= 64;
  /* zfdperm is the identity; perm (the caller's invp) is the inverse of the final perm_c */
  if (g_i < neqns && !(zfdperm[g_i] == g_i && perm[invp[g_i]] == g_i)) g_argbad |= 128;
#define CPG(k) if (k < CAP && k < neqns) part_super_ata[k] = in_partata1[k < CAP ? k : 0];
  REP(CPG)
  counts_out(neqns, colcnt_h, nlnz, part_super_h);
  return 0;
}
int cholnzcnt(int_t neqns, int_t *xadj, int_t *adjncy, int_t *perm, int_t *invp, int_t *etpar, int_t *colcnt, int_t *nlnz, int_t *part_super_L) {
  g_calls_chol++;
  if (neqns != in_A.ncol || invp != in_perm_c || etpar != in_etree || colcnt != in_colcnt || part_super_L != in_part) g_argbad |= 64;
  if (g_i < neqns && perm[invp[g_i]] != g_i) g_argbad |= 128;
  /* the structure handed over is A+A' again (row names restored) */
  if (g_k <= neqns && xadj[g_k] != in_bcolptr[g_k]) g_argbad |= 256;
  if (g_b < in_bnz && adjncy[g_b] != in_browind[g_b]) g_argbad |= 512;
  counts_out(neqns, colcnt, nlnz, part_super_L);
  return 0;
}

void h_colorder(void) {
  in_A.Store = &in_Astore; in_Astore.colptr = in_colptr; in_Astore.rowind = in_rowind; in_Astore.nzval = in_nzval;
  in_opt.etree = in_etree; in_opt.colcnt_h = in_colcnt; in_opt.part_super_h = in_part; in_opt.perm_c = in_perm_c;
  sp_colorder(&in_A, in_perm_c, &in_opt, &in_AC);
  __CPROVER_assert(0, "canary: sp_colorder returns");
#ifndef OOM
  if (in_A.ncol == CAP) __CPROVER_assert(0, "canary: full capacity reachable");
#endif
#if PATH != 3
  if (in_A.ncol == 0) __CPROVER_assert(0, "canary: empty matrix reachable");
#endif
#if PATH == 1
  if (g_calls_post == 0) __CPROVER_assert(0, "canary: refactorization path");
#elif !defined(OOM)
  if (g_calls_post == 1 && in_A.ncol >= 3 && in_post[1] == 2 && in_perm_c[0] == 2 && g_perm0[0] == 1) __CPROVER_assert(0, "canary: non-trivial postorder composed");
#endif
#if PATH == 2
  if (g_calls_qr == 1 && g_calls_coletree == 1) __CPROVER_assert(0, "canary: column-etree path");
#endif
#if PATH == 3
  if (g_calls_chol == 1 && in_bnz == BNZ) __CPROVER_assert(0, "canary: symmetric path with full A+A'");
#endif
#if PATH == 4
  if (g_calls_chol == 1 && in_bnz == 0) __CPROVER_assert(0, "canary: symmetric path with empty A+A'");
#endif
}
