#include <stdlib.h>
#include "slu_mt_@p@defs.h"
extern int g_n_malloc, g_n_free, g_free_other; extern void *g_watch[12]; extern int g_freed[12], g_free_seq[12];
/* inputs: descriptor values arbitrary */
SuperMatrix in_A; int_t in_m, in_n, in_ld; Stype_t in_stype; Dtype_t in_dtype; Mtype_t in_mtype;
/* ghost: the caller's value array (heap object) */
@T@ *g_x;
void h_destroy_store(void) {
  int k;
  g_x = malloc(sizeof(@T@)); __CPROVER_assume(g_x != 0);
  g_n_malloc = 0;
  @p@Create_Dense_Matrix(&in_A, in_m, in_n, g_x, in_ld, in_stype, in_dtype, in_mtype);   /* REAL constructor */
  __CPROVER_assert(g_n_malloc == 1, "constructor allocates the Store object only");
  for (k = 0; k < 12; k++) g_watch[k] = (void *)0;
  g_watch[0] = in_A.Store; g_watch[1] = g_x;
  Destroy_SuperMatrix_Store(&in_A);                                                      /* REAL destructor, under contract */
  __CPROVER_assert(0, "canary: constructor + destructor return");
  if (in_ld == 7 && in_stype == SLU_DN) __CPROVER_assert(0, "canary: arbitrary descriptor values reachable");
  g_x[0] = g_x[0];     /* the caller's array is still alive ... */
  free(g_x);           /* ... and is the caller's to release (a release inside the routine would make this a double free) */
}
