#include <stdlib.h>
#include "slu_mt_@p@defs.h"
extern int g_n_malloc, g_n_free;
/* inputs: the array arguments are arbitrary pointer VALUES (possibly invalid): the constructors must only store them */
SuperMatrix in_A; int_t in_m, in_n, in_nnz, in_ld; @T@ *in_nzval; int_t *in_rowind, *in_colptr; Stype_t in_stype; Dtype_t in_dtype; Mtype_t in_mtype;
void h_CompCol(void) {
  @p@Create_CompCol_Matrix(&in_A, in_m, in_n, in_nnz, in_nzval, in_rowind, in_colptr, in_stype, in_dtype, in_mtype);
  __CPROVER_assert(0, "canary: Create_CompCol_Matrix returns");
  if (in_nnz == 7 && in_mtype == SLU_TRU) __CPROVER_assert(0, "canary: arbitrary descriptor values reachable");
  free(in_A.Store);   /* the Store object is the only thing left allocated (cbmc --memory-leak-check) */
}
void h_Dense(void) {
  @p@Create_Dense_Matrix(&in_A, in_m, in_n, in_nzval, in_ld, in_stype, in_dtype, in_mtype);
  __CPROVER_assert(0, "canary: Create_Dense_Matrix returns");
  if (in_ld == 7 && in_mtype == SLU_TRU) __CPROVER_assert(0, "canary: arbitrary descriptor values reachable");
  free(in_A.Store);
}
