#include "slu_mt_@p@defs.h"
extern @R@ @p@langs(char *, SuperMatrix *);   /* no prototype in the library headers */
int_t g_k, g_m; @R@ g_ret; extern int g_n_malloc, g_n_free;
char in_norm[2]; SuperMatrix in_A; NCformat in_Astore; int_t in_colptr[CAP+1], in_rowind[NZ]; @T@ in_val[NZ];
void h_langs(void) {
  in_A.Store = &in_Astore; in_Astore.nzval = in_val; in_Astore.rowind = in_rowind; in_Astore.colptr = in_colptr;
  g_ret = @p@langs(in_norm, &in_A);
  __CPROVER_assert(0, "canary: langs returns");
  if (in_A.nrow > 1 && in_A.ncol > 1) {
    if (in_norm[0] == 'm' && g_ret > 1) __CPROVER_assert(0, "canary: max norm > 1 reachable");
    if (in_norm[0] == '1' && g_ret > 1) __CPROVER_assert(0, "canary: one norm reachable");
    if (in_norm[0] == 'I' && g_ret > 1) __CPROVER_assert(0, "canary: inf norm reachable");
  }
  if (in_A.ncol == 0) __CPROVER_assert(0, "canary: empty matrix reachable");
}
