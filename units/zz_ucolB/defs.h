/* vocabulary for p?gstrf_copy_to_ucol.  CAP = columns = rows capacity, LC row subscripts of L, NZU entries of U.
 * Segments are indexed in processing order q = 0..nseg-1 (the code walks segrep backwards). */
#define N in_n
#define JSUPNO in_supno[in_jcol]
#define KREP(q) in_segrep[in_nseg - 1 - (q)]
#define KFNZ(q) in_repfnz[KREP(q)]
#define ACTIVE(q) (in_supno[KREP(q)] != JSUPNO && KFNZ(q) != EMPTY)            /* the segment goes into ucol[] */
#define SEGSZ(q) (ACTIVE(q) ? KREP(q) - KFNZ(q) + 1 : 0)
#define FSUPC(q) in_xsup[in_supno[KREP(q)]]
#define ISUB(q,t) (in_xlsub[FSUPC(q)] + KFNZ(q) - FSUPC(q) + (t))
#define IROW(q,t) in_lsub[ISUB(q,t)]
#define COL(q,t) (KFNZ(q) + (t))                                               /* the column (= pivoted row number) of entry t of segment q */
#define POS(q,t) (g_nextu0 + g_off[q] + (t))                                     /* where it goes in ucol/usub */
#define VALID(q,t) (0 <= (q) && (q) < in_nseg && ACTIVE(q) && 0 <= (t) && (t) < SEGSZ(q))
#define INSEG(q,c) (ACTIVE(q) && KFNZ(q) <= (c) && (c) <= KREP(q))
#define TOTAL g_off[in_nseg]
