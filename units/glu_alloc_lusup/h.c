#include "slu_mt_ddefs.h"
int_t g_map0[CAP+1], g_lead, g_i, g_nextl0, g_nextu0, g_nextlu0, g_nzlu0; int g_abort_ok;
extern int g_locks, g_unlocks;
int_t in_pnum, in_jcol, in_num; int_t in_prev_next;
pxgstrf_shared_t in_sh; GlobalLU_t in_Glu; Gstat_t in_Gstat; mutex_t in_locks[NO_GLU_LOCKS]; int_t in_map[CAP+1];
int_t g_ret;
void h_glu_lusup(void) {
  in_sh.Glu = &in_Glu; in_sh.Gstat = &in_Gstat; in_sh.lu_locks = in_locks; in_Glu.map_in_sup = in_map;
  g_ret = Glu_alloc(in_pnum, in_jcol, in_num, LUSUP, &in_prev_next, &in_sh);
  __CPROVER_assert(0, "canary: Glu_alloc(LUSUP) returns");
  if (in_jcol != g_lead) __CPROVER_assert(0, "canary: non-leading column of an H-supernode");
  /* what the code does NOT guarantee: this "canary" is reachable, i.e. the function returns normally with the slot
     pointer past the following slot's start */
  if (in_map[g_lead] == in_Glu.nzlumax && in_num > 0) __CPROVER_assert(0, "canary: request that exactly fills lusup");
  if (g_lead < g_i && g_map0[g_i] >= g_map0[g_lead] && in_map[g_lead] > in_map[g_i]) __CPROVER_assert(0, "canary: lusup_beyond_next_slot - normal return with the slot pointer past a later slot start (no check in the code)");
}
