/* native witness for the red obligation  __isoc99_fscanf.assertion[fscanf_the_field_lies_inside_the_current_header_line]  of unit
 * rd_hb_short_header (C20): the same 2x2 matrix  [2 .; 1 3]  (RUA, no right-hand sides) written three times --
 *   (a) every header line padded to the width of its Fortran format            -> read correctly
 *   (b) line 4 ends after VALFMT (52 columns: the blank RHSFMT field omitted)  -> dreadhb returns wrong arrays, no diagnostic
 *   (c) title line without trailing blanks                                     -> dreadhb returns wrong dimensions / runs off the file
 * A Fortran formatted READ pads short records with blanks, so (b) and (c) are read correctly by the Harwell-Boeing reference
 * code; dreadhb reads fixed byte counts (fscanf "%72c" "%8c" "%16c" "%20c") and so runs across the line end.
 *
 *   gcc -w -D__PTHREAD -DAdd_ -I/repo/SRC native_repro.c /repo/SRC/dreadhb.c -o /tmp/rd_short && /tmp/rd_short
 * Each case runs in a child process (case (c) may hang or crash: killed after 3 s).  exit status 1 = finding reproduced. */
#include <stdio.h>
#include <stdlib.h>
#include <string.h>
#include <unistd.h>
#include <sys/wait.h>
#include "slu_mt_ddefs.h"
void dallocateA(int_t n, int_t nnz, double **a, int_t **asub, int_t **xa) {   /* link filler for pdmemory.c: three typed mallocs */
  if (n < 0 || n > 1000) n = 1000; if (nnz < 0 || nnz > 1000) nnz = 1000;
  *a = calloc(nnz + 1, sizeof(double)); *asub = calloc(nnz + 1, sizeof(int_t)); *xa = calloc(n + 2, sizeof(int_t)); }
#define L2 "             3             1             1             1             0\n"
#define L3 "RUA                        2             2             3             0\n"
#define DATA "       1       3       4\n       1       2       2\n  2.00000000E+00  1.00000000E+00  3.00000000E+00\n"
static const char *padded = "2x2 unsymmetric                                                         KEY     \n" L2 L3
  "(3I8)           (3I8)           (3E16.8)                                \n" DATA;
static const char *short4 = "2x2 unsymmetric                                                         KEY     \n" L2 L3
  "(3I8)           (3I8)           (3E16.8)            \n" DATA;
static const char *short1 = "2x2 unsymmetric\n" L2 L3
  "(3I8)           (3I8)           (3E16.8)                                \n" DATA;
static int child(const char *text) {          /* 0 = matrix read correctly */
  char path[] = "/tmp/rd_short_XXXXXX"; int fd = mkstemp(path); FILE *f = fdopen(fd, "w");
  int_t m, n, nnz, *ri, *cp; double *v;
  static const int_t cp0[3] = {0, 2, 3}, ri0[3] = {0, 1, 1}; static const double v0[3] = {2, 1, 3};
  fputs(text, f); fclose(f);
  if (!freopen(path, "r", stdin)) _exit(9);
  unlink(path); alarm(3);
  dreadhb(&m, &n, &nnz, &v, &ri, &cp);
  if (m != 2 || n != 2 || nnz != 3) return 2;
  return (memcmp(cp, cp0, sizeof cp0) || memcmp(ri, ri0, sizeof ri0) || memcmp(v, v0, sizeof v0)) ? 3 : 0;
}
static int run(const char *name, const char *text) {
  int st; pid_t p; fflush(stdout); p = fork();
  if (p == 0) { freopen("/dev/null", "w", stdout); _exit(child(text)); }
  waitpid(p, &st, 0);
  if (WIFSIGNALED(st)) { printf("%-38s: killed by signal %d (hang or crash)\n", name, WTERMSIG(st)); return 1; }
  printf("%-38s: %s\n", name, WEXITSTATUS(st) == 0 ? "read correctly" : WEXITSTATUS(st) == 2 ? "WRONG dimensions returned" : "WRONG arrays returned (no diagnostic)");
  return WEXITSTATUS(st) != 0;
}
int main(void) {
  int ok = run("(a) padded header", padded), b = run("(b) line 4 without the RHSFMT field", short4), c = run("(c) title line without trailing blanks", short1);
  if (ok) { printf("unexpected: the padded file is misread\n"); return 2; }
  return (b || c) ? 1 : 0;
}
