/* the vocabulary of the top-level reader units lives in one place */
#include "../rd_hb_top/defs.h"
