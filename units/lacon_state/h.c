#include "slu_mt_@p@defs.h"
extern int g_blas, g_asum, g_amax, g_copy;
extern int_t @p@lacon_(int_t *, @T@ *, @T@ *, int_t *, @R@ *, int_t *);
/* ghosts: element g_i, pre-state copies */
int_t g_i; @T@ g_v0[CAP]; int_t g_isgn0[CAP]; @R@ g_est0;
/* inputs */
int_t in_n, in_kase, in_isgn[CAP]; @T@ in_v[CAP], in_x[CAP]; @R@ in_est;
void h_lacon(void) {
  @p@lacon_(&in_n, in_v, in_x, in_isgn, &in_est, &in_kase);
  __CPROVER_assert(0, "canary: lacon returns from the starting call");
  if (in_n == CAP && g_i == CAP - 1) __CPROVER_assert(0, "canary: full order, last element observed");
  if (in_n == 1) __CPROVER_assert(0, "canary: order 1");
}
