/* lacon_stubs.c -- the three BLAS-1 callees of ?lacon_.  A call that starts an estimate (*kase == 0) reaches none of them (asserted in variant
 * start via g_blas == 0); in variant jump-witness they count their calls so that the harness can tell which entry point the second call took. */
#include "slu_mt_@p@defs.h"
int g_blas, g_asum, g_amax, g_copy;
@R@ nondet_real(void); int nondet_int(void);
#if @cplx@
@R@ @r@z@r@sum_placeholder(void);
#endif
@R@ @p@asum_(int *n, @T@ *x, int *incx) { g_blas++; g_asum++; @R@ r = nondet_real(); __CPROVER_assume(r >= 0); return r; }
int i@p@amax_(int *n, @T@ *x, int *incx) { g_blas++; g_amax++; int r = nondet_int(); __CPROVER_assume(1 <= r && r <= *n); return r; }
int @p@copy_(int *n, @T@ *x, int *incx, @T@ *y, int *incy) { g_blas++; g_copy++; return 0; }
