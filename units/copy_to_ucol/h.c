#include "slu_mt_@p@defs.h"
/* ghosts: pre-state copies, partial sums of segment sizes (requires [ghost_off]), ghost segment/offset/row/position */
int_t g_off[CAP+1], g_nextu0, g_usub0[NZU], g_s, g_t, g_r, g_p; @T@ g_ucol0[NZU], g_dense0[CAP];
int g_alloc_calls, g_argbad; int_t g_alloc_num;
/* inputs */
int_t in_pnum, in_jcol, in_nseg, in_n, in_segrep[CAP], in_repfnz[CAP], in_perm_r[CAP]; @T@ in_dense[CAP];
pxgstrf_shared_t in_sh; GlobalLU_t in_Glu;
int_t in_xsup[CAP+1], in_supno[CAP+1], in_lsub[LC], in_xlsub[CAP+1], in_usub[NZU], in_xusub[CAP+1], in_xusub_end[CAP]; @T@ in_ucol[NZU];
int_t in_alloc_fails, in_memerr, g_ret;
void verif_abort(char *);
/* Glu_alloc(UCOL) by its contract (proved for the real routine in unit glu_alloc, C05): a normal return hands out
 * [nextu, nextu+num) inside [0, nzumax) and advances nextu by num; a request that does not fit takes the library's abort path.
 * A positive return value (never produced by the real routine, but tested by the caller) leaves everything unchanged. */
int_t Glu_alloc(const int_t pnum, const int_t jcol, const int_t num, const MemType mem_type, int_t *prev_next, pxgstrf_shared_t *sh) {
  g_alloc_calls++; g_alloc_num = num;
  if (pnum != in_pnum || jcol != in_jcol || mem_type != UCOL || sh != &in_sh || num < 0) g_argbad = 1;
  if (in_alloc_fails) return in_memerr;
  if (num < 0 || num > in_Glu.nzumax - in_Glu.nextu) verif_abort("Memory allocation failed");
  *prev_next = in_Glu.nextu; in_Glu.nextu += num;
  return 0;
}
void h_copy_to_ucol(void) {
  in_sh.Glu = &in_Glu; in_Glu.xsup = in_xsup; in_Glu.supno = in_supno; in_Glu.lsub = in_lsub; in_Glu.xlsub = in_xlsub;
  in_Glu.usub = in_usub; in_Glu.xusub = in_xusub; in_Glu.xusub_end = in_xusub_end; in_Glu.ucol = in_ucol;
  g_ret = p@p@gstrf_copy_to_ucol(in_pnum, in_jcol, in_nseg, in_segrep, in_repfnz, in_perm_r, in_dense, &in_sh);
  __CPROVER_assert(0, "canary: copy_to_ucol returns");
  if (g_ret != 0) __CPROVER_assert(0, "canary: allocation error returned");
  if (g_ret == 0 && g_off[in_nseg] == 0) __CPROVER_assert(0, "canary: empty U column");
  if (g_ret == 0 && in_nseg >= 2 && g_off[1] >= 1 && g_off[in_nseg] > g_off[1]) __CPROVER_assert(0, "canary: two segments copied");
  if (g_ret == 0 && in_Glu.nextu == in_Glu.nzumax && g_off[in_nseg] > 0) __CPROVER_assert(0, "canary: U storage exactly filled");
}
