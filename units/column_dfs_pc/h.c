#include "slu_mt_@p@defs.h"
/* PC unit: the real p?gstrf_column_dfs (symbolic step of one column of a regular panel: dfs over the finished columns of the panel,
 * supernode decision, bookkeeping) under a function contract; EVERY loop -- including the do-while / while pair of the dfs -- is closed by a
 * loop contract (dfcc mode: cbmc 6.11 supports do-while loop contracts only there).  Callees NewNsuper / Glu_alloc(LSUB) / sp_ienv(3) are
 * executable contracts (same text as units/column_dfs_snode). */
/* inputs */
int_t in_n, in_pnum, in_jcol, in_fstcol, in_lsub_end, in_nseg;
int_t in_perm_r[CAP], in_ispruned[CAP], in_col_lsub[CAP], in_super_bnd[CAP], in_segrep[CAP], in_repfnz[CAP], in_xprune[CAP], in_marker2[CAP], in_parent[CAP], in_xplore[2*CAP];
pxgstrf_shared_t in_sh; GlobalLU_t in_Glu; Gstat_t in_Gstat;
int_t in_xsup[CAP+1], in_xsup_end[CAP+1], in_supno[CAP], in_lsub[LC], in_xlsub[CAP], in_xlsub_end[CAP];
int_t in_alloc_fails, in_memerr;
/* ghosts: pre-state copies (g0_<name> of in_<name>), ghost row / column / positions, call records */
int_t g0_marker2[CAP], g0_lsub[LC], g0_xlsub[CAP], g0_xlsub_end[CAP], g0_xprune[CAP], g0_xsup[CAP+1], g0_xsup_end[CAP+1], g0_supno[CAP], g0_repfnz[CAP], g0_segrep[CAP], g0_col_lsub[CAP];
int_t g_nsuper0, g_nextl0, g_nseg0, g_ret, g_alloc_num, g_p, g_q, g_r, g_c;
int g_alloc_calls, g_newsup_calls, g_argbad;
void verif_abort(char *);
/* NewNsuper (SRC/pxgstrf_synch.c): i = ++(*data) under NSUPER_LOCK */
int_t NewNsuper(const int_t pnum, pxgstrf_shared_t *sh, int_t *data) {
  g_newsup_calls++;
  if (pnum != in_pnum || sh != &in_sh || data != &in_Glu.nsuper) g_argbad = 1;
  return ++(*data);
}
/* Glu_alloc(LSUB) by its contract (proved for the real routine in unit glu_alloc): a normal return hands out [nextl, nextl+num) inside
 * [0, nzlmax) and advances nextl by num; a request that does not fit takes the library's abort path (USER_ABORT).  A positive return value
 * (never produced by the real routine, but tested by the caller) leaves everything unchanged. */
int_t Glu_alloc(const int_t pnum, const int_t jcol, const int_t num, const MemType mem_type, int_t *prev_next, pxgstrf_shared_t *sh) {
  g_alloc_calls++; g_alloc_num = num;
  if (pnum != in_pnum || jcol != in_jcol || mem_type != LSUB || sh != &in_sh || num < 0) g_argbad = 1;
  if (in_alloc_fails) return in_memerr;
  if (num < 0 || num > in_Glu.nzlmax - in_Glu.nextl) verif_abort("Memory allocation failed");
  *prev_next = in_Glu.nextl; in_Glu.nextl += num;
  return 0;
}
int_t sp_ienv(int_t ispec) { if (ispec != 3) g_argbad = 1; return MAXSUPER; }
void h_column_dfs_pc(void) {
  int_t joined, cnt;
  in_sh.Glu = &in_Glu; in_sh.Gstat = &in_Gstat;
  in_Glu.xsup = in_xsup; in_Glu.xsup_end = in_xsup_end; in_Glu.supno = in_supno; in_Glu.lsub = in_lsub; in_Glu.xlsub = in_xlsub; in_Glu.xlsub_end = in_xlsub_end;
  g_ret = p@p@gstrf_column_dfs(in_pnum, in_n, in_jcol, in_fstcol, in_perm_r, in_ispruned, in_col_lsub, in_lsub_end, in_super_bnd, &in_nseg, in_segrep,
                               in_repfnz, in_xprune, in_marker2, in_parent, in_xplore, &in_sh);
  joined = (g_ret == 0 && in_supno[in_jcol] != g_nsuper0 + 1);
  cnt = g_ret == 0 ? in_xlsub_end[in_jcol] - in_xlsub[in_jcol] : -1;
  __CPROVER_assert(0, "canary: column_dfs returns");
  if (g_ret != 0) __CPROVER_assert(0, "canary: allocation error returned");
  if (joined) __CPROVER_assert(0, "canary: jcol joins the supernode of jcol-1");
  if (joined && in_nseg == g_nseg0 + 1) __CPROVER_assert(0, "canary: jcol joins after a dfs");
  if (g_ret == 0 && !joined && in_super_bnd[in_jcol] != 0) __CPROVER_assert(0, "canary: new supernode at a boundary of the H partition");
  if (g_ret == 0 && !joined && cnt >= 2 && in_lsub_end == 1) __CPROVER_assert(0, "canary: rows appended by the dfs");
  if (g_ret == 0 && in_nseg == g_nseg0 + 2 && in_parent[in_segrep[g_nseg0]] == in_segrep[g_nseg0 + 1]) __CPROVER_assert(0, "canary: dfs of depth two");
  if (g_ret == 0 && in_nseg == g_nseg0 + 2 && in_parent[in_segrep[g_nseg0]] == EMPTY && in_parent[in_segrep[g_nseg0 + 1]] == EMPTY) __CPROVER_assert(0, "canary: two dfs roots");
  if (g_ret == 0 && !joined && cnt >= 2 && in_Glu.nextl == in_Glu.nzlmax) __CPROVER_assert(0, "canary: L subscript storage exactly filled");
  if (g_ret == 0 && in_n < CAP) __CPROVER_assert(0, "canary: order below capacity");
}
