/* vocabulary for p?gstrf_column_dfs.  CAP = capacity for rows = columns (m = n = in_n <= CAP), LC = entries of lsub.
 * P = in_ (current state) or g0_ (copy of the pre-state, written by requires [ghost_copy]). */
#define N in_n
#define J in_jcol
#define F in_fstcol
#define JM1 (in_jcol - 1)
#define ISL(r) (in_perm_r[r] == EMPTY)                   /* row r is not pivoted yet: it belongs to L */
#define MARKED(r) (in_marker2[r] == in_jcol)
#define REPOF_(P,c) (P##xsup_end[P##supno[c]] - 1)       /* SUPER_REP(supno[c]) */
#define FS_(P,c) P##xsup[P##supno[c]]                    /* SUPER_FSUPC(supno[c]) */
#define SINGLE_(P,c) (P##xsup_end[P##supno[c]] - P##xsup[P##supno[c]] == 1)
/* c is the last column of a finished supernode inside the panel: a possible dfs vertex */
#define ISREP_(P,c) (in_fstcol <= (c) && (c) < in_jcol && REPOF_(P,c) == (c))
/* what the dfs scans at representative c, as coded: pruned -> [xlsub (xlsub_end if singleton), xprune), else the rows of the supernode below its own columns */
#define LO_(P,c) (in_ispruned[c] ? (SINGLE_(P,c) ? P##xlsub_end[c] : P##xlsub[c]) : P##xlsub[FS_(P,c)] + (c) - FS_(P,c) + 1)
#define HI_(P,c) (in_ispruned[c] ? P##xprune[c] : P##xlsub_end[FS_(P,c)])
#define REPOF(c) REPOF_(in_,c)
#define FS(c) FS_(in_,c)
#define ISREP(c) ISREP_(in_,c)
#define LO(c) LO_(in_,c)
#define HI(c) HI_(in_,c)
#define ISREP0(c) ISREP_(g0_,c)
#define LO0(c) LO_(g0_,c)
#define HI0(c) HI_(g0_,c)
/* representative c was first visited by this call / is already put into segrep[] by this call / is on the dfs stack */
#define NEWV(c) (g0_repfnz[c] == EMPTY && in_repfnz[c] != EMPTY)
#define FIN(c,qv) EX(qv, CAP, g_nseg0 <= qv && qv < in_nseg && in_segrep[qv] == (c))
#define ONST(c,qv) (ISREP(c) && NEWV(c) && !FIN(c,qv))
/* sums over q = 0..CAP-1 */
#define S1(F_,a) (F_(0,a))
#define S2(F_,a) (S1(F_,a) + F_(1,a))
#define S3(F_,a) (S2(F_,a) + F_(2,a))
#define S4(F_,a) (S3(F_,a) + F_(3,a))
#define S5(F_,a) (S4(F_,a) + F_(4,a))
#define S6(F_,a) (S5(F_,a) + F_(5,a))
#define S7(F_,a) (S6(F_,a) + F_(6,a))
#define S8(F_,a) (S7(F_,a) + F_(7,a))
#if CAP > 8
#error "extend the S<k> macros in defs.h"
#endif
#define SCAT_(k) S ## k
#define SCAT(k) SCAT_(k)
/* number of unpivoted rows among the first i entries of the list col_lsub[] / of its pre-state copy */
#define PRE_(q,i) (((q) < (i) && in_perm_r[in_col_lsub[q]] == EMPTY) ? 1 : 0)
#define PREF(i) SCAT(CAP)(PRE_, i)
#define PRE0_(q,i) (((q) < (i) && in_perm_r[g0_col_lsub[q]] == EMPTY) ? 1 : 0)
#define PREF0(i) SCAT(CAP)(PRE0_, i)
/* results */
#define XJ in_xlsub[in_jcol]
#define XE in_xlsub_end[in_jcol]
#define CNT (in_xlsub_end[in_jcol] - in_xlsub[in_jcol])
#define S0 g0_supno[in_jcol - 1]
#define FS0 g0_xsup[g0_supno[in_jcol - 1]]
#define LEN0 (g0_xlsub_end[in_jcol - 1] - g0_xlsub[in_jcol - 1])
#define LENFS0 (g0_xlsub_end[FS0] - g0_xlsub[FS0])
#define JOINED (in_supno[in_jcol] != g_nsuper0 + 1)
#define NESTED(pv) FA(pv, LC, (XJ <= pv && pv < XE) ==> g0_marker2[in_lsub[pv]] == JM1)
