/* perm_stubs.c -- callees of ?gstrs for the permutation unit (ASSUMED, see "trusted"):
 * the dense/sparse triangular solves are the identity (no-ops), allocators are calloc/malloc that do not fail. */
#include <stdlib.h>
#include "slu_mt_@p@defs.h"
void verif_abort(char *msg) { __CPROVER_assume(0); }
int sprintf(char *s, const char *f, ...) { return 0; }
int printf(const char *f, ...) { return 0; }
int xerbla_(char *s, int *i) { __CPROVER_assert(0, "xerbla_ not reached for legal arguments"); return 0; }
@T@ *@T@Malloc(int_t n) { @T@ *p = malloc((size_t)n * sizeof(@T@)); __CPROVER_assume(p != NULL); return p; }
@T@ *@T@Calloc(int_t n) { @T@ *p = calloc((size_t)n, sizeof(@T@)); __CPROVER_assume(p != NULL); return p; }
void superlu_free(void *p) { free(p); }
int @p@gemm_(char *ta, char *tb, int *m, int *n, int *k, @T@ *alpha, @T@ *a, int *lda, @T@ *b, int *ldb, @T@ *beta, @T@ *c, int *ldc) { return 0; }
int @p@trsm_(char *s, char *u, char *t, char *d, int *m, int *n, @T@ *alpha, @T@ *a, int *lda, @T@ *b, int *ldb) { return 0; }
int_t sp_@p@trsv(char *uplo, char *trans, char *diag, SuperMatrix *L, SuperMatrix *U, @T@ *x, int_t *info) { return 0; }
