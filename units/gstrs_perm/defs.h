/* vocabulary for the permutation steps of ?gstrs.  The harness owns every object (in_*), so clauses name them directly.
 * NN order, LDB leading dimension, NRHS number of right-hand sides; BV(r,c) current value of B(r,c), B0(r,c) its pre-state
 * (ghost copy g_B0).  Ghost cell: rows g_j (source), g_k (destination), column g_c; GH = "the ghost cell exists". */
#define NN in_L.nrow
#define LDB in_Bstore.lda
#define NRHS in_B.ncol
#define BV(r,c) in_Bval[(r) + (c)*LDB]
#define B0(r,c) g_B0[(r) + (c)*LDB]
#define GH (g_j < NN && g_k < NN && g_c < NRHS)
#define PADC (g_c < NRHS && NN <= g_p && g_p < LDB)
#define COLS(i) (0 <= i && i <= nrhs && bptr == i * ldb)
#define ROWS(k) (0 <= k && k <= n)
/* scatter nest  soln[S[k]] = rhs[k]; rhs[k] = soln[k]  over columns i:  done columns hold B0(j) at row S[j], others are unchanged */
#define SC_OUTER(S) (GH && g_c < i ==> BV(S[g_j], g_c) == B0(g_j, g_c)) && (GH && g_c >= i ==> BV(g_j, g_c) == B0(g_j, g_c)) && (PADC ==> BV(g_p, g_c) == B0(g_p, g_c))
#define SC_FILL(S) (GH && g_c == i && g_j < k ==> soln[S[g_j]] == B0(g_j, g_c))
#define SC_COPY(S) (GH && g_c < i ==> BV(S[g_j], g_c) == B0(g_j, g_c)) && (GH && g_c > i ==> BV(g_j, g_c) == B0(g_j, g_c)) && (GH && g_c == i && S[g_j] < k ==> BV(S[g_j], g_c) == B0(g_j, g_c)) && (PADC ==> BV(g_p, g_c) == B0(g_p, g_c))
/* gather nest  soln[k] = rhs[G[k]]; rhs[k] = soln[k]  after a scatter by S: done columns hold B0(j) at the row k with G[k] == S[j] */
#define GA_OUTER(S,G) (GH && g_c >= i ==> BV(S[g_j], g_c) == B0(g_j, g_c)) && (GH && g_c < i && S[g_j] == G[g_k] ==> BV(g_k, g_c) == B0(g_j, g_c)) && (PADC ==> BV(g_p, g_c) == B0(g_p, g_c))
#define GA_FILL(S,G) (GH && g_c == i && g_k < k && S[g_j] == G[g_k] ==> soln[g_k] == B0(g_j, g_c))
#define GA_COPY(S,G) (GH && g_c > i ==> BV(S[g_j], g_c) == B0(g_j, g_c)) && (GH && g_c < i && S[g_j] == G[g_k] ==> BV(g_k, g_c) == B0(g_j, g_c)) && (GH && g_c == i && g_k < k && S[g_j] == G[g_k] ==> BV(g_k, g_c) == B0(g_j, g_c)) && (PADC ==> BV(g_p, g_c) == B0(g_p, g_c))
