#include "slu_mt_@p@defs.h"
/* ghost: pre-state copy of B, ghost cell (rows g_j -> g_k, column g_c), padding row g_p */
@T@ g_B0[CAP*2]; int_t g_j, g_k, g_c, g_p;
/* inputs */
trans_t in_trans; SuperMatrix in_L, in_U, in_B; SCPformat in_Lstore; NCPformat in_Ustore; DNformat in_Bstore;
int_t in_perm_r[CAP], in_perm_c[CAP]; @T@ in_Bval[CAP*2]; Gstat_t in_Gstat; flops_t in_ops[NPHASES]; int_t in_info;
void h_gstrs_perm(void) {
  in_L.Store = &in_Lstore; in_U.Store = &in_Ustore; in_B.Store = &in_Bstore; in_Bstore.nzval = in_Bval; in_Gstat.ops = in_ops;
  @p@gstrs(in_trans, &in_L, &in_U, in_perm_r, in_perm_c, &in_B, &in_Gstat, &in_info);
  __CPROVER_assert(0, "canary: gstrs returns");
  if (in_trans == NOTRANS && in_L.nrow == CAP && in_B.ncol == 2 && in_perm_r[0] != in_perm_c[0] && in_perm_r[0] != 0) __CPROVER_assert(0, "canary: no transpose, full order, two right-hand sides, non-trivial permutations");
  if (in_trans == TRANS && in_L.nrow == CAP && in_B.ncol == 2 && in_perm_r[1] != in_perm_c[1] && in_perm_c[0] != 0) __CPROVER_assert(0, "canary: transpose, full order, two right-hand sides, non-trivial permutations");
#if CONJ_ACCEPTED
  if (in_trans == CONJ && in_L.nrow == CAP && in_B.ncol == 2 && in_perm_r[1] != in_perm_c[1]) __CPROVER_assert(0, "canary: conjugate transpose accepted");
#endif
  if (in_L.nrow == 0) __CPROVER_assert(0, "canary: order 0");
  if (in_B.ncol == 0) __CPROVER_assert(0, "canary: no right-hand side");
  if (in_Bstore.lda > in_L.nrow && in_B.ncol == 2) __CPROVER_assert(0, "canary: padded leading dimension");
}
