#include "slu_mt_@p@defs.h"
/* inputs: file-scope, nondeterministic initial values */
extern int g_seq, g_n_malloc, g_n_free, g_xerbla_calls, g_xerbla_arg;
trans_t in_trans; equed_t in_equed; SuperMatrix in_A, in_L, in_U, in_B, in_X;
NCformat in_Astore; SCPformat in_Lstore; NCPformat in_Ustore; DNformat in_Bstore, in_Xstore;
int_t in_perm_c[CAP], in_perm_r[CAP]; @R@ in_R[CAP], in_C[CAP], in_ferr[CAP], in_berr[CAP]; @T@ in_Bval[CAP], in_Xval[CAP];
Gstat_t in_Gstat; int_t in_info;
void h_gsrfs(void) {
  in_A.Store = &in_Astore; in_L.Store = &in_Lstore; in_U.Store = &in_Ustore; in_B.Store = &in_Bstore; in_X.Store = &in_Xstore;
  in_Bstore.nzval = in_Bval; in_Xstore.nzval = in_Xval;
  @p@gsrfs(in_trans, &in_A, &in_L, &in_U, in_perm_r, in_perm_c, in_equed, in_R, in_C, &in_B, &in_X, in_ferr, in_berr, &in_Gstat, &in_info);
  __CPROVER_assert(0, "canary: gsrfs returns");
#if EQUED
  if (in_A.nrow == 3) __CPROVER_assert(0, "canary: illegal equed with order 3 reachable");
#else
  if (in_info == -1) __CPROVER_assert(0, "canary: info -1 reachable");
  if (in_info == -4) __CPROVER_assert(0, "canary: info -4 reachable");
  if (in_info == -11) __CPROVER_assert(0, "canary: info -11 reachable");
  if (in_A.Dtype != DT && in_X.Mtype != SLU_GE) __CPROVER_assert(0, "canary: double violation (A type, X type) reachable");
#endif
}
