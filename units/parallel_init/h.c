#include <stdio.h>
#include "slu_mt_ddefs.h"
/* inputs: etree, the relaxed-supernode array (n+2 entries), the two options ParallelInit reads; Gstat's panel-width histogram has
 * max(panel_size, relax)+1 entries (StatAlloc): it is the END of in_histo, so that an index beyond it is out of bounds */
int_t in_n, in_etree[CAP]; pxgstrf_relax_t in_relax[CAP + 2]; superlumt_options_t in_opt; pxgstrf_shared_t in_sh; Gstat_t in_gstat; int_t in_histo[HC];
/* ghost: allocator / mutex call counters, return value */
int g_n_smalloc, g_n_imalloc, g_n_icalloc, g_n_mutex_init, g_bad_request; int g_ret;
/* ---- allocation model (trusted): NON-FAILING.  Each of the five requests is served by its own typed block of CONSTANT capacity owned by
 * the harness (symbolic-size heap objects exhaust the solver), END-aligned so that an access beyond the requested size is out of bounds.
 * Block contents start arbitrary (like malloc); intCalloc zero-fills.  superlu_malloc recognises the request by its order and size:
 * 1st NO_GLU_LOCKS mutexes (lu_locks), 2nd n+1 pan_status_t (pan_status), 3rd n queue items (taskq.queue). */
mutex_t g_blk_locks[NO_GLU_LOCKS]; pan_status_t g_blk_pan[CAP + 1]; qitem_t g_blk_queue[CAP]; int_t g_blk_spin[CAP]; int_t g_blk_fb[CAP + 1];
#define REP(M_) M_(0) M_(1) M_(2) M_(3) M_(4) M_(5) M_(6) M_(7) M_(8) M_(9) M_(10) M_(11) M_(12) M_(13) M_(14)
#if CAP > 14
#error "extend REP"
#endif
static void *bad_request(void) { g_bad_request = 1; __CPROVER_assert(0, "allocator model: unexpected request"); __CPROVER_assume(0); return (void *)0; }
#ifndef OOM
#define OOM 0
#endif
_Bool nondet_bool(void);
void *superlu_malloc(size_t size) {
  int k = g_n_smalloc++;
#if OOM   /* unit parallel_init_oom (C14): any of the three requests may fail */
  if (nondet_bool()) return (void *)0;
#endif
  if (k == 0 && size == NO_GLU_LOCKS * sizeof(mutex_t)) return g_blk_locks;
  if (k == 1 && size % sizeof(pan_status_t) == 0 && size / sizeof(pan_status_t) <= CAP + 1) return g_blk_pan + (CAP + 1 - size / sizeof(pan_status_t));
  if (k == 2 && size % sizeof(qitem_t) == 0 && size / sizeof(qitem_t) <= CAP) return g_blk_queue + (CAP - size / sizeof(qitem_t));
  return bad_request();
}
int_t *intMalloc(int_t n) {
  if (g_n_imalloc != 0 || n < 0 || n > CAP + 1) return bad_request();
  g_n_imalloc++;
  return g_blk_fb + (CAP + 1 - n);
}
int_t *intCalloc(int_t n) {
  if (g_n_icalloc != 0 || n < 0 || n > CAP) return bad_request();
  g_n_icalloc++;
#define ZERO(k) if (k < CAP && k >= CAP - n) g_blk_spin[k < CAP ? k : 0] = 0;
  REP(ZERO)
  return g_blk_spin + (CAP - n);
}
/* trusted: pthread_mutex_init succeeds; the lock object itself is not modelled */
int pthread_mutex_init(pthread_mutex_t *m, const pthread_mutexattr_t *a) { __CPROVER_assert(m != (pthread_mutex_t *)0, "pthread_mutex_init gets an allocated mutex object"); g_n_mutex_init++; return 0; }
int fprintf(FILE *f, const char *fmt, ...) { return 0; }
void h_parinit(void) {
  int_t hw = in_opt.panel_size > in_opt.relax ? in_opt.panel_size : in_opt.relax;
  in_opt.etree = in_etree; in_sh.Gstat = &in_gstat;
  in_gstat.panel_histo = (0 <= hw && hw < HC) ? in_histo + (HC - 1 - hw) : in_histo;
  g_ret = ParallelInit(in_n, in_relax, &in_opt, &in_sh);
  /* representation invariant the PC(CAP) proof rests on when it is read for n > CAP: the per-panel counters range up to n (fan-in of an
   * etree node / of the dummy root, panel size and negative offsets), so their type must hold every int_t value (seed C04c) */
  __CPROVER_assert(sizeof(((pan_status_t *)0)->ukids) >= sizeof(int_t) && sizeof(((pan_status_t *)0)->size) >= sizeof(int_t) && (int_t)-1 < 0, "panel record: the counters ukids and size are as wide as int_t and signed");
  __CPROVER_assert(0, "canary: ParallelInit returns");
#if LAYOUT
  if (in_n == CAP && in_relax[0].size == 1 && in_relax[1].size == CAP) __CPROVER_assert(0, "canary: whole matrix is one relaxed supernode");
  if (in_n == CAP && in_relax[0].size == 2 && in_sh.tasks_remain >= 4) __CPROVER_assert(0, "canary: two relaxed supernodes and at least two regular panels");
#endif
#if COUNTS
  if (in_n == CAP && in_relax[0].size == CAP) __CPROVER_assert(0, "canary: only relaxed supernodes (all singletons)");
  if (in_sh.num_splits >= 1 && in_sh.tasks_remain > in_relax[0].size + 1) __CPROVER_assert(0, "canary: a panel is split (SPLIT_TOP), several regular panels");
#endif
#if TREE_PARENT
  if (in_n >= 5 && in_opt.panel_size >= 4 && in_sh.pan_status[2].size == 1 && in_sh.pan_status[2].type == REGULAR_PANEL && in_sh.pan_status[3].size > 0 && in_sh.pan_status[3].type == REGULAR_PANEL && in_sh.pan_status[3].ukids >= 2) __CPROVER_assert(0, "canary: regular panel cut at an etree branch point");
#endif
#if TREE_UKIDS
  if (in_sh.pan_status[in_n].ukids >= 2) __CPROVER_assert(0, "canary: forest with several roots");
  if (in_n >= 4 && in_sh.pan_status[2].size == 2 && in_sh.pan_status[2].type == REGULAR_PANEL && in_sh.pan_status[2].ukids >= 2) __CPROVER_assert(0, "canary: regular panel of width 2 with two open kids");
#endif
}
