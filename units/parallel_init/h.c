#include <stdio.h>
#include <stdlib.h>
#include "slu_mt_ddefs.h"
/* inputs: etree, the relaxed-supernode array (n+2 entries), the two options ParallelInit reads; Gstat's panel-width histogram has
 * max(panel_size, relax)+1 entries (StatAlloc): it is the END of in_histo, so that an index beyond it is out of bounds */
int_t in_n, in_etree[CAP]; pxgstrf_relax_t in_relax[CAP + 2]; superlumt_options_t in_opt; pxgstrf_shared_t in_sh; Gstat_t in_gstat; int_t in_histo[HC];
/* ghost: allocator / mutex call counters, return value */
int g_n_smalloc, g_n_imalloc, g_n_icalloc, g_n_mutex_init, g_bad_request; int g_ret;
/* ---- allocation model (trusted): NON-FAILING; every request is served from a new heap object of CONSTANT size (symbolic-size
 * objects exhaust the solver), END-aligned, so that an access beyond the requested size is out of bounds.  intCalloc zero-fills. */
#define BLKB ((CAP + 1) * sizeof(pan_status_t) > NO_GLU_LOCKS * sizeof(mutex_t) ? (CAP + 1) * sizeof(pan_status_t) : NO_GLU_LOCKS * sizeof(mutex_t))
void *superlu_malloc(size_t size) {
  if (size > BLKB) { g_bad_request = 1; __CPROVER_assert(0, "allocator model: request fits the constant block"); __CPROVER_assume(0); }
  char *p = malloc(BLKB); __CPROVER_assume(p != NULL);
  g_n_smalloc++;
  return p + (BLKB - size);
}
int_t *intMalloc(int_t n) {
  if (n < 0 || n > CAP + 1) { g_bad_request = 1; __CPROVER_assert(0, "allocator model: at most CAP+1 integers"); __CPROVER_assume(0); }
  int_t *p = malloc((CAP + 1) * sizeof(int_t)); __CPROVER_assume(p != NULL);
  g_n_imalloc++;
  return p + (CAP + 1 - n);
}
int_t *intCalloc(int_t n) {
  if (n < 0 || n > CAP + 1) { g_bad_request = 1; __CPROVER_assert(0, "allocator model: at most CAP+1 integers"); __CPROVER_assume(0); }
  int_t *p = calloc(CAP + 1, sizeof(int_t)); __CPROVER_assume(p != NULL);
  g_n_icalloc++;
  return p + (CAP + 1 - n);
}
/* trusted: pthread_mutex_init succeeds; the lock object itself is not modelled */
int pthread_mutex_init(pthread_mutex_t *m, const pthread_mutexattr_t *a) { g_n_mutex_init++; return 0; }
int fprintf(FILE *f, const char *fmt, ...) { return 0; }
void h_parinit(void) {
  int_t hw = in_opt.panel_size > in_opt.relax ? in_opt.panel_size : in_opt.relax;
  in_opt.etree = in_etree; in_sh.Gstat = &in_gstat;
  in_gstat.panel_histo = (0 <= hw && hw < HC) ? in_histo + (HC - 1 - hw) : in_histo;
  g_ret = ParallelInit(in_n, in_relax, &in_opt, &in_sh);
  __CPROVER_assert(0, "canary: ParallelInit returns");
  if (in_n == CAP && in_relax[0].size == 1 && in_relax[1].size == CAP) __CPROVER_assert(0, "canary: whole matrix is one relaxed supernode");
  if (in_n == CAP && in_relax[0].size == CAP) __CPROVER_assert(0, "canary: only relaxed supernodes (all singletons)");
  if (in_n == CAP && in_relax[0].size == 2 && in_sh.tasks_remain >= 4) __CPROVER_assert(0, "canary: two relaxed supernodes and at least two regular panels");
  if (in_sh.num_splits >= 1) __CPROVER_assert(0, "canary: a panel is split (SPLIT_TOP)");
  if (in_n >= 4 && in_sh.pan_status[2].size == 2 && in_sh.pan_status[2].type == REGULAR_PANEL) __CPROVER_assert(0, "canary: regular panel of width 2");
  if (in_n >= 4 && in_opt.panel_size >= 4 && in_sh.pan_status[2].size == 1 && in_sh.pan_status[3].size > 0 && in_sh.pan_status[3].type == REGULAR_PANEL && in_sh.pan_status[2].type == REGULAR_PANEL) __CPROVER_assert(0, "canary: regular panel cut at an etree branch point");
  if (in_sh.pan_status[in_n].ukids >= 2) __CPROVER_assert(0, "canary: forest with several roots");
}
