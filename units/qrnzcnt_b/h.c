#include "slu_mt_ddefs.h"
#include <stdlib.h>
/* BOUNDED unit (label B(n)): the real qrnzcnt (SRC/qrnzcnt.c: Ng/Peyton FCNTHN extended by X. Li to the Householder matrix H of the QR
 * factorization of A) is executed symbolically, loops unwound, for EVERY ROWS x CAP pattern in compressed-column form with exactly NZ stored
 * subscripts (one run per NZ: the work block of adjlen + 2n + 1 entries then has a constant size; columns unsorted, no repeated subscript
 * within a column) whose column elimination tree is postordered by the identity numbering -- the way sp_colorder calls it:
 *   qrnzcnt(n, nnz, colptr, rowind, iperm = identity (n+1 entries), invp(perm_c), perm_c, etree(root = n), colcnt_h, &nlnz, part_super_ata, part_super_h).
 *
 * ORACLES (brute force, computed here):
 *   column etree: B = A'A, symbolic Cholesky F of B, par[j] = min{i>j : F[i][j]} else n, cc[j] = column counts of F.
 *   Householder structure by symbolic row merging (George/Liu/Ng): for k = 0..n-1: R_k = rows not yet used as a pivot row that have a
 *   nonzero in column k; hc[k] = |R_k|; every row of R_k gets the union of the structures of R_k; one row of R_k (any: they are identical now)
 *   becomes the pivot row and leaves.  Struct(L[*,k]) of PA = LU is contained in R_k for every row interchange (George/Ng), so hc is what
 *   colcnt_h must dominate (C05).
 *   H-supernode heads as documented in qrnzcnt.c ("first vertices of the supernodes in H"): k == 0, or k = fnz(i) = first nonzero column of
 *   some row i, or k has >= 2 children in the column etree.
 *   part_super_ata: fundamental supernodes of the Cholesky factor of A'A (definition: units/cholnzcnt_b/h.c).
 * DOMAIN: 1 = square, structurally nonsingular (some row permutation gives a zero-free diagonal; zero diagonal entries allowed)
 *         2 = any pattern (structurally singular, empty rows and columns), also ROWS != CAP
 * SORTED: 0 = column subscripts in any order (nondeterministic xadj/adjncy), 1 = ascending (built from a nondeterministic 0/1 matrix; cheaper, used for 4x4)
 * ATA:    0 = part_super_ata is checked on the patterns whose column etree has no single-vertex tree after column 0, 1 = on all patterns */
#define D (CAP > 0 ? CAP : 1)
#define DR (ROWS > 0 ? ROWS : 1)
#define DZ (NZ > 0 ? NZ : 1)
#ifndef CANMASK
#define CANMASK 0xffff            /* which reachability canaries make sense for the shape / number of entries of the run */
#endif
int_t in_n, in_adjlen, in_xadj[D + 1], in_adjncy[DZ], in_zfdperm[D + 1], in_perm[D], in_invp[D], in_etpar[D];
int_t g_colcnt_h[D], g_part_h[D], g_part_ata[D], g_nlnz, g_xadj0[D + 1], g_adjncy0[DZ], g_etpar0[D];
/* SRC/pmemory.c: intMalloc = malloc(n * sizeof(int_t)) / intCalloc = the same, zero-filled; exit(1) on NULL.  All sizes are constants here
 * (in_n = CAP, in_adjlen = NZ), so every block is a heap object of exactly the requested size; the routine releases them with free(). */
int_t *intMalloc(int_t n) {
  int_t *p;
  __CPROVER_assert(0 <= n && n <= NZ + 2 * CAP + 1, "allocator model: request within the modelled sizes");
  p = (int_t *) malloc((size_t) n * sizeof(int_t));
  __CPROVER_assume(p != (int_t *) 0);
  return p;
}
int_t *intCalloc(int_t n) {
  int_t *p;
  __CPROVER_assert(0 <= n && n <= CAP + 1, "allocator model: request within the modelled sizes");
  p = (int_t *) calloc((size_t) n, sizeof(int_t));
  __CPROVER_assume(p != (int_t *) 0);
  return p;
}
int_t nondet_int_t(void);
void h_qrnzcnt(void) {
  int_t i, j, k, p, r, c, x, size, *colcnt_h, *part_h, *part_ata, sum, cnt, piv;
  _Bool M[DR][D], B[D][D], S[DR][D], done[DR], inR[DR], U[D], head[D], zfd, single;
  int_t cc[D], par[D], nch[D], hc[D], fnz[DR];
  in_n = CAP; in_adjlen = NZ;                    /* constants: one run per shape and number of entries (variants) */
  for (j = 0; j <= D; j++) { in_xadj[j] = nondet_int_t(); in_zfdperm[j] = j; }
  for (p = 0; p < DZ; p++) in_adjncy[p] = nondet_int_t();
  for (j = 0; j < D; j++) { in_perm[j] = j; in_invp[j] = j; in_etpar[j] = nondet_int_t(); }
#if SORTED                                            /* columns built from a nondeterministic 0/1 matrix: subscripts ascending */
  { _Bool nd_M[DR][D]; _Bool nondet_bool(void);
    p = 0;
    for (c = 0; c < CAP; c++) {
      in_xadj[c] = p;
      for (r = 0; r < ROWS; r++) { M[r][c] = nondet_bool(); if (M[r][c]) { __CPROVER_assume(p < NZ); in_adjncy[p] = r; p++; } }
    }
    in_xadj[CAP] = p;
    __CPROVER_assume(p == NZ);
  }
#else
  __CPROVER_assume(in_xadj[0] == 0 && in_xadj[CAP] == NZ);
  for (j = 0; j < CAP; j++) __CPROVER_assume(in_xadj[j] <= in_xadj[j + 1] && in_xadj[j + 1] - in_xadj[j] <= ROWS);
  for (p = 0; p < NZ; p++) __CPROVER_assume(0 <= in_adjncy[p] && in_adjncy[p] < ROWS);
  for (c = 0; c < CAP; c++) for (p = 0; p < NZ; p++) for (x = p + 1; x < NZ; x++)                 /* no repeated subscript within a column */
    if (in_xadj[c] <= p && x < in_xadj[c + 1]) __CPROVER_assume(in_adjncy[p] != in_adjncy[x]);
  for (r = 0; r < ROWS; r++) for (c = 0; c < CAP; c++) {
    M[r][c] = 0;
    for (p = 0; p < NZ; p++) if (in_xadj[c] <= p && p < in_xadj[c + 1] && in_adjncy[p] == r) M[r][c] = 1;
  }
#endif
  zfd = (ROWS == CAP);
#if ROWS == CAP
  for (c = 0; c < CAP; c++) if (!M[c][c]) zfd = 0;
#endif
#if DOMAIN == 1                                       /* structurally nonsingular: some row permutation gives a zero-free diagonal */
  { _Bool ok[1 << CAP]; int_t mask, bits;
    for (mask = 0; mask < (1 << CAP); mask++) ok[mask] = (mask == 0);
    for (mask = 0; mask < (1 << CAP); mask++) {
      bits = 0; for (r = 0; r < ROWS; r++) if (mask & (1 << r)) bits++;           /* columns 0..bits-1 are matched to the rows of mask */
      if (bits < CAP) for (r = 0; r < ROWS; r++) if (ok[mask] && !(mask & (1 << r)) && M[r][bits]) ok[mask | (1 << r)] = 1;
    }
    __CPROVER_assume(ROWS == CAP && ok[(1 << CAP) - 1]);
  }
#endif
  /* column elimination tree = elimination tree of A'A */
  for (i = 0; i < CAP; i++) for (j = 0; j < CAP; j++) { B[i][j] = 0; if (i > j) for (r = 0; r < ROWS; r++) if (M[r][i] && M[r][j]) B[i][j] = 1; }
  for (k = 0; k < CAP; k++) for (i = k + 1; i < CAP; i++) for (j = k + 1; j < i; j++) if (B[i][k] && B[j][k]) B[i][j] = 1;
  for (j = 0; j < CAP; j++) {
    cc[j] = 1; par[j] = CAP;
    for (i = CAP - 1; i > j; i--) if (B[i][j]) { cc[j]++; par[j] = i; }
  }
  for (j = 0; j < CAP; j++) { nch[j] = 0; for (i = 0; i < j; i++) if (par[i] == j) nch[j]++; }
  for (j = 0; j < CAP; j++) __CPROVER_assume(in_etpar[j] == par[j]);
  for (j = 0; j < CAP; j++) {                     /* postordered: every subtree is a contiguous range ending at its root */
    size = 0;
    for (i = 0; i <= j; i++) { x = i; for (k = 0; k < CAP; k++) if (x < j) x = par[x]; if (x == j) size++; }
    for (i = 0; i <= j; i++) { x = i; for (k = 0; k < CAP; k++) if (x < j) x = par[x]; __CPROVER_assume((x == j) == (j - size < i)); }
  }
  single = 0; for (j = 1; j < CAP; j++) if (par[j] == CAP && nch[j] == 0) single = 1;
  for (j = 0; j <= CAP; j++) g_xadj0[j] = in_xadj[j];
  for (p = 0; p < NZ; p++) g_adjncy0[p] = in_adjncy[p];
  for (j = 0; j < CAP; j++) g_etpar0[j] = in_etpar[j];

  colcnt_h = intMalloc(in_n); part_h = intMalloc(in_n); part_ata = intMalloc(in_n);    /* exactly n entries each (pdgstrf_init / sp_colorder) */
  g_nlnz = nondet_int_t();
  qrnzcnt(in_n, in_adjlen, in_xadj, in_adjncy, in_zfdperm, in_perm, in_invp, in_etpar, colcnt_h, &g_nlnz, part_ata, part_h);
  for (j = 0; j < CAP; j++) { g_colcnt_h[j] = colcnt_h[j]; g_part_h[j] = part_h[j]; g_part_ata[j] = part_ata[j]; }
  free(colcnt_h); free(part_h); free(part_ata);                  /* nothing else may be live (--memory-leak-check) */

  /* oracle: Householder structure by row merging */
  for (r = 0; r < ROWS; r++) { done[r] = 0; fnz[r] = CAP; for (c = CAP - 1; c >= 0; c--) { S[r][c] = M[r][c]; if (M[r][c]) fnz[r] = c; } }
  for (k = 0; k < CAP; k++) {
    cnt = 0; piv = ROWS;
    for (c = 0; c < CAP; c++) U[c] = 0;
    for (r = ROWS - 1; r >= 0; r--) { inR[r] = !done[r] && S[r][k]; if (inR[r]) { cnt++; piv = r; for (c = k; c < CAP; c++) if (S[r][c]) U[c] = 1; } }
    hc[k] = cnt;
    for (r = 0; r < ROWS; r++) if (inR[r]) for (c = k; c < CAP; c++) S[r][c] = U[c];
    if (piv < ROWS) done[piv] = 1;
  }

  /* (a) C10: part_super_h is a partition of 0..n-1 into consecutive blocks */
  k = 0;
  for (j = 0; j < CAP; j++) {
    if (j == k) { __CPROVER_assert(1 <= g_part_h[j] && g_part_h[j] <= CAP - j, "part_super_h: block head holds a size that fits"); k = j + g_part_h[j]; if (k <= j || k > CAP) k = CAP + 1; }
    else __CPROVER_assert(g_part_h[j] == 0 || k > CAP, "part_super_h: 0 inside a block");
  }
  __CPROVER_assert(CAP == 0 || k == CAP, "part_super_h: block sizes sum to n");
  /* (a') the heads are the documented first vertices of the supernodes of H */
  for (j = 0; j < CAP; j++) { head[j] = (j == 0) || nch[j] >= 2; for (r = 0; r < ROWS; r++) if (fnz[r] == j) head[j] = 1; }
  for (j = 0; j < CAP; j++) __CPROVER_assert((g_part_h[j] > 0) == head[j], "part_super_h: heads are column 0, first nonzeros of rows, vertices with >= 2 children");
  /* (b) C05: the predicted column counts dominate the Householder structure; the slot of a block covers each of its columns */
  for (j = 0; j < CAP; j++) __CPROVER_assert(g_colcnt_h[j] >= hc[j], "colcnt_h[j] dominates column j of the Householder matrix");
  for (j = 0; j < CAP; j++) __CPROVER_assert(!zfd || g_colcnt_h[j] <= cc[j], "zero-free diagonal: colcnt_h[j] is at most the column count of the Cholesky factor of A'A");
  for (j = 0; j < CAP; j++) __CPROVER_assert(g_colcnt_h[j] >= 1, "colcnt_h[j] >= 1");
  k = 0;
  for (j = 0; j < CAP; j++) {
    if (g_part_h[j] > 0) k = j;
    __CPROVER_assert(hc[j] <= g_colcnt_h[k], "no column of an H-block is longer than the predicted count of the block's first column");
  }
  /* (b') the Cholesky factor of A'A: total count, fundamental supernode partition */
  sum = 0; for (j = 0; j < CAP; j++) sum += cc[j];
  __CPROVER_assert(g_nlnz == sum, "nlnz is the number of nonzeros of the Cholesky factor of A'A");
  for (j = 0; j < CAP; j++) {
    _Bool fj = (j == 0) || par[j - 1] != j || nch[j] >= 2 || cc[j - 1] != cc[j] + 1; int_t w = 0;
    if (fj) { _Bool open = 1; w = 1; for (i = j + 1; i < CAP; i++) { if (par[i - 1] != i || nch[i] >= 2 || cc[i - 1] != cc[i] + 1) open = 0; if (open) w++; } }
#if ATA
    __CPROVER_assert(g_part_ata[j] == w, "part_super_ata is the fundamental supernode partition of the Cholesky factor of A'A");
#else
    __CPROVER_assert(single || g_part_ata[j] == w, "part_super_ata is the fundamental supernode partition of the Cholesky factor of A'A");
#endif
  }
  /* (c) inputs not written */
  for (j = 0; j <= CAP; j++) __CPROVER_assert(g_xadj0[j] == in_xadj[j] && in_zfdperm[j] == j, "xadj, zfdperm not written");
  for (p = 0; p < NZ; p++) __CPROVER_assert(g_adjncy0[p] == in_adjncy[p], "adjncy not written");
  for (j = 0; j < CAP; j++) __CPROVER_assert(in_perm[j] == j && in_invp[j] == j && g_etpar0[j] == in_etpar[j], "perm, invp, etpar not written");

  __CPROVER_assert(0, "canary: qrnzcnt returns");
#if CAP >= 3 && ROWS >= 3
  { _Bool forest = 0; for (j = 0; j < CAP - 1; j++) if (par[j] == CAP) forest = 1;
#if CANMASK & 1
  if (par[0] == 2 && par[1] == 2) __CPROVER_assert(0, "canary: vertex with exactly two children");
#endif
#if CANMASK & 2
  if (g_part_h[0] == CAP) __CPROVER_assert(0, "canary: one H-block");
#endif
#if CANMASK & 4
  if (g_part_h[0] == 1 && g_part_h[1] == 1 && g_part_h[2] == 1) __CPROVER_assert(0, "canary: singleton H-blocks");
#endif
#if CANMASK & 8
  if (forest) __CPROVER_assert(0, "canary: forest with several roots");
#endif
#if CANMASK & 16
  if (!M[2][1] && S[2][1]) __CPROVER_assert(0, "canary: fill in H");
#endif
#if CANMASK & 32
  if (!M[0][0]) __CPROVER_assert(0, "canary: zero diagonal entry");
#endif
#if (CANMASK & 64) && !SORTED
  if (in_xadj[1] >= 2 && in_adjncy[0] > in_adjncy[1]) __CPROVER_assert(0, "canary: unsorted column");
#endif
#if CANMASK & 128
  if (zfd) __CPROVER_assert(0, "canary: zero-free diagonal");
#endif
#if CANMASK & 256
  if (single) __CPROVER_assert(0, "canary: single-vertex tree after column 0");
#endif
#if CANMASK & 512
  if (!single && forest) __CPROVER_assert(0, "canary: forest without single-vertex tree after column 0");
#endif
  }
#endif
#if CAP >= 2 && DOMAIN >= 2 && (CANMASK & 1024)
  if (hc[1] == 0) __CPROVER_assert(0, "canary: structurally empty column");
#endif
}
