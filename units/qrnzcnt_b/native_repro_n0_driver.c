/* driver-level witness for the n = 0 finding: pdgssv accepts a 0x0 matrix (argument check: nrow != ncol || nrow < 0) and reaches
 * qrnzcnt(0, ...), which writes part_super_h[0] and part_super_ata[0] into 0-entry arrays.
 *   gcc -g -w -D__PTHREAD -DAdd_ -I/repo/SRC native_repro_n0_driver.c /repo/_build/SRC/libsuperlu_mt_PTHREAD.a -lblas -lpthread -lm -o n0 && valgrind -q ./n0
 * valgrind: Invalid write of size 4 at qrnzcnt (qrnzcnt.c:220) by sp_colorder (sp_colorder.c:231) by pdgstrf_init by pdgssv; again at qrnzcnt.c:409 */
#include "slu_mt_ddefs.h"
int main(){ int_t colptr[1]={0}, rowind[1]={0}; double val[1]={0}, rhs[1]={0}; int_t perm_c[1], perm_r[1], info=-99;
 SuperMatrix A,L,U,B;
 dCreate_CompCol_Matrix(&A,0,0,0,val,rowind,colptr,SLU_NC,SLU_D,SLU_GE);
 dCreate_Dense_Matrix(&B,0,1,rhs,1,SLU_DN,SLU_D,SLU_GE);
 get_perm_c(0,&A,perm_c);
 pdgssv(1,&A,perm_c,perm_r,&L,&U,&B,&info); printf("info=%d\n",(int)info); return 0; }
