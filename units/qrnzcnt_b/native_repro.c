/* native witnesses for the findings of unit qrnzcnt_b (the real SRC/qrnzcnt.c, nothing else from the library):
 *   gcc -g -fsanitize=address -D__PTHREAD -DAdd_ -I/repo/SRC native_repro.c /repo/SRC/qrnzcnt.c -o r && for c in 1 2 3 4; do ./r $c; done
 * case 1: structurally singular 3x3  A = [x x x; . . x; . . .] (row 2 empty), column etree 0 -> 1 -> 2: colcnt_h = [1 0 0], although column 2 of
 *         the Householder matrix / of L (row 1 is still there after row 0 was used as pivot row) holds one entry: the prediction does not dominate
 *         (pdgstrf documents structurally singular input: info = i > 0).  Root cause of the open finding D9 (L slot overflow).
 * case 2: 3x3 A = [x x .; . x .; . . x] (zero-free diagonal); the column etree is {0 -> 1}, {2}: part_super_ata = [0 0 1] -- not a partition (the
 *         "BUG FIX" branch for a single-vertex tree starts a new supernode without closing the previous one).  part_super_ata is not used by the library.
 * case 3: neqns = 0: part_super_h[0] and part_super_ata[0] are written into 0-entry arrays (AddressSanitizer: heap-buffer-overflow, qrnzcnt.c:220).
 * case 4: 2x1 matrix [x; x] (pdgstrf documents nrow-by-ncol): row subscript 1 indexes the n-entry arrays fnz/rowcnt/... (heap-buffer-overflow, qrnzcnt.c:205). */
#include <stdio.h>
#include <stdlib.h>
#include "slu_mt_ddefs.h"
int_t *intMalloc(int_t n) { return (int_t *) malloc((size_t) n * sizeof(int_t)); }
int_t *intCalloc(int_t n) { return (int_t *) calloc((size_t) n, sizeof(int_t)); }
int main(int argc, char **argv) {
  int c = argc > 1 ? atoi(argv[1]) : 1; int_t n = 3, nnz = 4, nlnz = -1, j;
  int_t x1[4] = {0, 1, 2, 4}, a1[4] = {0, 0, 0, 1}, e1[3] = {1, 2, 3};
  int_t x2[4] = {0, 1, 3, 4}, a2[4] = {0, 0, 1, 2}, e2[3] = {1, 3, 3};
  int_t x3[1] = {0}, a3[1] = {0};
  int_t x4[2] = {0, 2}, a4[2] = {0, 1}, e4[1] = {1};
  int_t id[4] = {0, 1, 2, 3}, *xadj = x1, *adj = a1, *et = e1;
  if (c == 2) { xadj = x2; adj = a2; et = e2; }
  if (c == 3) { n = 0; nnz = 0; xadj = x3; adj = a3; }
  if (c == 4) { n = 1; nnz = 2; xadj = x4; adj = a4; et = e4; }
  int_t *colcnt_h = intMalloc(n), *part_h = intMalloc(n), *part_ata = intMalloc(n), *zfd = intMalloc(n + 1);
  for (j = 0; j <= n; j++) zfd[j] = j;
  qrnzcnt(n, nnz, xadj, adj, zfd, id, id, et, colcnt_h, &nlnz, part_ata, part_h);
  printf("case %d: n=%d nlnz=%d colcnt_h =", c, (int) n, (int) nlnz); for (j = 0; j < n; j++) printf(" %d", (int) colcnt_h[j]);
  printf("  part_super_h ="); for (j = 0; j < n; j++) printf(" %d", (int) part_h[j]);
  printf("  part_super_ata ="); for (j = 0; j < n; j++) printf(" %d", (int) part_ata[j]);
  printf("\n");
  free(colcnt_h); free(part_h); free(part_ata); free(zfd);
  return 0; }
