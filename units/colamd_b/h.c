/* BOUNDED unit (label B): the REAL colamd of SRC/colamd.c (with its static helpers init_rows_cols, init_scoring, find_ordering,
 * order_children, detect_super_cols, garbage_collection, clear_mark, t_add, t_mult) and the real colamd_recommended /
 * colamd_set_defaults are executed for n_row = NR, n_col = NC (fixed per variant) on
 *   INPUTS == 2  every LEGAL column form with at most NNZ entries: p[0] = 0 <= p[1] <= ... <= p[NC] <= NNZ, row indices in 0..NR-1 in any
 *                order, duplicates included, empty rows / columns included;
 *   INPUTS == 4  every sorted duplicate-free pattern (each column any subset of the rows; NNZ = NR*NC is only the capacity);
 *   INPUTS == 3  every content of p[0..NC] over the values PLO..NNZ+1 and of the first NNZ cells of A over -1..NR  (legal or not:
 *                p[0] != 0, negative nnz, decreasing pointers, row indices out of range, nnz too large for the workspace);
 *   INPUTS == 0  every content whatsoever, fully symbolic (one SAT query; only feasible for 1 x 1).
 * For INPUTS 2 / 3 the input cells are chosen by pick(): a chain of nondeterministic branches, explored ONE PATH AT A TIME (cbmc --paths),
 * so that on each path the cells are constants and the struct-in-int-array accesses of colamd (Col[] and Row[] live inside A[]) have
 * constant offsets -- a single symbolic query runs out of memory already for 2 x 2 (byte-level encoding of the overlay).
 * The workspace handed to colamd has exactly Alen ints with
 *   ALENMODE == 0  Alen = colamd_recommended(p[NC], NR, NC)            (what get_colamd passes; the value is asserted against the formula)
 *   ALENMODE == 1  Alen = 2*nnz + n_col + Col_size + Row_size           (the documented minimum: forces garbage collections)
 * It is the tail of the object in_A (capacity for NNZ entries), so every access behind A[Alen-1] is an array-bounds violation for cbmc; the
 * cells of in_A in front of it are checked to be unchanged.  p and stats are objects of exactly NC+1 and COLAMD_STATS ints.
 * The result is compared with a specification computed here by brute force (shares no code with colamd.c). */
#include <limits.h>
#include <stddef.h>
#include "colamd.h"
#ifndef KNOBS
#define KNOBS 0      /* 0: colamd_set_defaults (what get_colamd passes)  1: NULL (colamd's own defaults)  2: negative dense knobs ("only remove
                        completely dense rows / columns"), aggressive absorption on   3: negative dense knobs, aggressive off
                        4: default dense knobs, aggressive off */
#endif
#ifndef ALENMODE
#define ALENMODE 0
#endif
#ifndef PLO
#define PLO (-1)
#endif
#define REC(z)  (2 * (z) + (z) / 5 + 6 * (NC + 1) + 4 * (NR + 1) + NC)      /* colamd_recommended; sizeof(Colamd_Col) = 6 ints, sizeof(Colamd_Row) = 4 ints */
#define NEED(z) (2 * (z) + 6 * (NC + 1) + 4 * (NR + 1) + NC)                /* header comment of colamd: "Alen >= 2*nnz + 6*(n_col+1) + 4*(n_row+1) + n_col" */
#define ALEN REC(NNZ)                                                        /* capacity of the object */

int in_p[NC + 1], in_A[ALEN];                  /* inputs: column pointers; workspace object (its tail of Alen ints is handed over) */
int g_p0[NC + 1], g_A0[ALEN];                  /* ghost copies of the input (colamd destroys both) */
int g_stats[COLAMD_STATS]; double g_knobs[COLAMD_KNOBS];
int g_rows[NNZ + 1];
int g_ret, g_valid, g_jumbled, g_nempty_col, g_nempty_row, g_alen, g_off;
int nondet_int(void); _Bool nondet_bool(void);
static int pick(int lo, int hi) { int v; for (v = lo; v < hi; v++) if (nondet_bool()) return v; return hi; }

/* sqrt is only reached through DENSE_DEGREE(alpha, n) = max(16, alpha * sqrt(n)) with n = n_col resp. min(n_row, n_col): exact values
 * for the arguments that occur, anything else is flagged */
double sqrt(double x) {
  if (x == 0.0) return 0.0;
  if (x == 1.0) return 1.0;
  if (x == 2.0) return 1.4142135623730951;
  if (x == 3.0) return 1.7320508075688772;
  if (x == 4.0) return 2.0;
  __CPROVER_assert(0, "sqrt model: argument within the modelled set {0,1,2,3,4}");
  __CPROVER_assume(0);
  return 0.0;
}

void h_colamd(void) {
  int k, c, j, r, seen[NR + 1], rowcnt[NR + 1], colcnt[NC + 1], nnz, last, e, *A;
  size_t rec;
  /* ---- inputs: column pointers */
#if INPUTS == 2
  in_p[0] = 0;
  for (k = 1; k <= NC; k++) in_p[k] = pick(in_p[k - 1], NNZ);
  __CPROVER_assume(NR > 0 || in_p[NC] == 0);
#elif INPUTS == 3
  for (k = 0; k <= NC; k++) in_p[k] = pick(PLO, NNZ + 1);
#elif INPUTS == 4
  /* every sorted duplicate-free pattern: column c is the subset of rows chosen here (bit by bit); NNZ = NR * NC is the capacity */
  nnz = 0;
  for (c = 0; c < NC; c++) {
    in_p[c] = nnz;
    for (r = 0; r < NR; r++) {
      _Bool bit = nondet_bool();
#ifdef SPLIT                /* halves the enumeration: entry (0,0) present (1) / absent (0) */
      if (c == 0 && r == 0) __CPROVER_assume(bit == SPLIT);
#endif
      if (bit) g_rows[nnz++] = r;
    }
  }
  in_p[NC] = nnz;
#else
  for (k = 0; k <= NC; k++) in_p[k] = nondet_int();
#endif
  for (k = 0; k <= NC; k++) g_p0[k] = in_p[k];
  nnz = g_p0[NC];
  /* ---- workspace length */
#if INPUTS == 0
  g_alen = ALEN;                                  /* symbolic p[NC]: the workspace is the recommended one for NNZ entries */
  rec = colamd_recommended(NNZ, NR, NC);
  __CPROVER_assert(rec == (size_t) ALEN, "colamd_recommended(nnz, n_row, n_col) == 2*nnz + nnz/5 + 6*(n_col+1) + 4*(n_row+1) + n_col");
#else
  if (0 <= nnz && nnz <= NNZ) {
    rec = colamd_recommended(nnz, NR, NC);
    __CPROVER_assert(rec == (size_t) REC(nnz), "colamd_recommended(nnz, n_row, n_col) == 2*nnz + nnz/5 + 6*(n_col+1) + 4*(n_row+1) + n_col");
    g_alen = ALENMODE == 1 ? NEED(nnz) : (int) rec;
  } else {
    g_alen = ALEN;                                /* illegal nnz: any workspace; colamd has to refuse */
  }
#endif
  g_off = ALEN - g_alen;
  A = in_A + g_off;
  /* ---- inputs: row indices = the first p[NC] cells of the workspace; every other cell of the object is arbitrary */
  for (k = 0; k < ALEN; k++) {
#if INPUTS == 2
    in_A[k] = (g_off <= k && k < g_off + nnz) ? pick(0, NR - 1) : nondet_int();
#elif INPUTS == 3
    in_A[k] = (g_off <= k && k < g_off + nnz && k < g_off + NNZ) ? pick(-1, NR) : nondet_int();
#elif INPUTS == 4
    in_A[k] = (g_off <= k && k < g_off + nnz) ? g_rows[k - g_off] : nondet_int();
#else
    in_A[k] = nondet_int();
#endif
    g_A0[k] = in_A[k];
  }
  for (k = 0; k < COLAMD_STATS; k++) g_stats[k] = nondet_int();
  /* ---- specification, part 1: is the input a legal column form?  (header comment of colamd) */
  g_valid = (nnz >= 0 && g_p0[0] == 0 && NEED((long long) nnz) <= g_alen);
  if (g_valid) for (c = 0; c < NC; c++) if (g_p0[c] > g_p0[c + 1]) g_valid = 0;
  if (g_valid) for (k = 0; k < ALEN; k++) if (k < nnz && (g_A0[g_off + k] < 0 || g_A0[g_off + k] >= NR)) g_valid = 0;
  g_jumbled = 0; g_nempty_col = 0; g_nempty_row = 0;
  if (g_valid) {
    for (r = 0; r <= NR; r++) rowcnt[r] = 0;
    for (c = 0; c < NC; c++) {
      last = -1; colcnt[c] = 0;
      for (r = 0; r <= NR; r++) seen[r] = 0;
      for (k = 0; k < ALEN; k++) if (g_p0[c] <= k && k < g_p0[c + 1]) {
        r = g_A0[g_off + k];
        if (r <= last || seen[r]) g_jumbled = 1;
        if (!seen[r]) { rowcnt[r]++; colcnt[c]++; }
        seen[r] = 1; last = r;
      }
      if (colcnt[c] == 0) g_nempty_col++;
    }
    for (r = 0; r < NR; r++) if (rowcnt[r] == 0) g_nempty_row++;
  }
  /* ---- the calls, as get_colamd makes them */
#if KNOBS == 1
  g_ret = colamd(NR, NC, g_alen, A, in_p, (double *) 0, g_stats);
#else
  colamd_set_defaults(g_knobs);
  __CPROVER_assert(g_knobs[COLAMD_DENSE_ROW] == 10.0 && g_knobs[COLAMD_DENSE_COL] == 10.0 && g_knobs[COLAMD_AGGRESSIVE] == 1.0, "colamd_set_defaults: documented default knobs");
#if KNOBS == 2 || KNOBS == 3
  g_knobs[COLAMD_DENSE_ROW] = -1.0; g_knobs[COLAMD_DENSE_COL] = -1.0;
#endif
#if KNOBS == 3 || KNOBS == 4
  g_knobs[COLAMD_AGGRESSIVE] = 0.0;
#endif
  g_ret = colamd(NR, NC, g_alen, A, in_p, g_knobs, g_stats);
#endif

  /* ---- specification, part 2 */
  __CPROVER_assert(g_ret == 0 || g_ret == 1, "colamd returns TRUE or FALSE");
  __CPROVER_assert((g_ret == 1) == (g_valid != 0), "colamd returns TRUE exactly for a legal column form that fits into Alen");
  for (k = 0; k < ALEN; k++) if (k < g_off) __CPROVER_assert(in_A[k] == g_A0[k], "nothing in front of A[0] is written");
  if (g_ret) {
    /* (1) p[0..n_col) is a permutation of 0..n_col-1 */
    for (k = 0; k < NC; k++) {
      __CPROVER_assert(0 <= in_p[k] && in_p[k] < NC, "TRUE: p[k] in 0..n_col-1");
      for (j = 0; j < k; j++) __CPROVER_assert(in_p[j] != in_p[k], "TRUE: p is injective");
    }
    /* (2) status: OK for sorted duplicate-free columns, OK_BUT_JUMBLED otherwise (header: stats[3]) */
    __CPROVER_assert(g_stats[COLAMD_STATUS] == (g_jumbled ? COLAMD_OK_BUT_JUMBLED : COLAMD_OK), "TRUE: stats[COLAMD_STATUS] is OK / OK_BUT_JUMBLED as documented");
#if KNOBS == 0 || KNOBS == 1 || KNOBS == 4
    /* (3) no row / column of a matrix this small is dense with the default knobs (threshold >= 16): the ignored rows / columns are the
     *     empty ones, and the empty columns come last, in their natural order (init_scoring: "so that LU factorization can proceed as far as possible") */
    __CPROVER_assert(g_stats[COLAMD_DENSE_COL] == g_nempty_col, "TRUE: stats[1] == number of empty columns");
    __CPROVER_assert(g_stats[COLAMD_DENSE_ROW] == g_nempty_row, "TRUE: stats[0] == number of empty rows");
    e = 0;
    for (c = 0; c < NC; c++) if (colcnt[c] == 0) {
      __CPROVER_assert(in_p[NC - g_nempty_col + e] == c, "TRUE: empty columns are ordered last, in natural order");
      e++;
    }
#else
    /* dense knobs < 0: rows with n_col entries and columns with n_row entries are removed as well; what is ignored includes the empty ones */
    __CPROVER_assert(g_nempty_col <= g_stats[COLAMD_DENSE_COL] && g_stats[COLAMD_DENSE_COL] <= NC, "TRUE: empty columns <= stats[1] <= n_col");
    __CPROVER_assert(g_nempty_row <= g_stats[COLAMD_DENSE_ROW] && g_stats[COLAMD_DENSE_ROW] <= NR, "TRUE: empty rows <= stats[0] <= n_row");
#endif
    __CPROVER_assert(g_stats[COLAMD_DEFRAG_COUNT] >= 0, "TRUE: stats[2] (garbage collections) >= 0");
  } else {
    __CPROVER_assert(g_stats[COLAMD_STATUS] < 0, "FALSE: stats[COLAMD_STATUS] is an error code");
  }
  /* ---- canaries */
  __CPROVER_assert(0, "canary: colamd returns");
#if INPUTS != 2 && INPUTS != 4
  if (!g_ret) __CPROVER_assert(0, "canary: colamd returns FALSE");
#if NNZ >= 1 && NC >= 1
  if (!g_ret && g_stats[COLAMD_STATUS] == COLAMD_ERROR_row_index_out_of_bounds) __CPROVER_assert(0, "canary: row index out of bounds rejected");
#endif
#endif
#if NR >= 1 || INPUTS == 3 || INPUTS == 0
  if (g_ret) __CPROVER_assert(0, "canary: colamd returns TRUE");
#endif
#if NNZ >= 2 && NR >= 1 && NC >= 1 && INPUTS != 4
  if (g_ret && g_jumbled) __CPROVER_assert(0, "canary: jumbled input accepted");
#endif
#if NC >= 2 && NR >= 1 && NNZ >= 1
  if (g_ret && in_p[0] != 0) __CPROVER_assert(0, "canary: order differs from the natural one");
  if (g_ret && g_nempty_col == 1) __CPROVER_assert(0, "canary: one empty column");
#endif
#ifdef CANARY_GC
  if (g_ret && g_stats[COLAMD_DEFRAG_COUNT] > 0) __CPROVER_assert(0, "canary: garbage collection performed");
#endif
#ifdef CANARY_DENSE
  if (g_ret && g_stats[COLAMD_DENSE_ROW] > g_nempty_row) __CPROVER_assert(0, "canary: dense row removed");
  if (g_ret && g_stats[COLAMD_DENSE_COL] > g_nempty_col) __CPROVER_assert(0, "canary: dense column removed");
#endif
}
