/* BOUNDED unit (label B): the REAL colamd of SRC/colamd.c (with its static helpers init_rows_cols, init_scoring, find_ordering,
 * order_children, detect_super_cols, garbage_collection, clear_mark, t_add, t_mult) and the real colamd_recommended /
 * colamd_set_defaults are executed symbolically, loops unwound (unwinding assertions on), for
 *     n_row = NR, n_col = NC fixed per variant, workspace length Alen = colamd_recommended(NNZ, NR, NC) (= ALEN, asserted),
 *     EVERY content of p[0..NC] and of A[0..Alen)        (INPUTS == 0: no assumption at all: negative / decreasing pointers, p[0] != 0,
 *                                                         row indices out of range, duplicates, unsorted, empty rows / columns, every
 *                                                         p[NC] <= about NNZ -- larger ones are rejected as "A too small")
 *     resp. every content with p[NC] == NNZ              (INPUTS == 1: the way get_colamd calls it: Alen is exactly the recommended length)
 * A, p, stats are objects of exactly Alen, NC+1, COLAMD_STATS ints, so that every access outside them is an array-bounds / pointer
 * violation for cbmc.  The result is compared with a specification computed here by brute force (shares no code with colamd.c). */
#include <limits.h>
#include "colamd.h"
#ifndef KNOBS
#define KNOBS 0      /* 0: colamd_set_defaults (what get_colamd passes)  1: NULL (colamd's own defaults)  2: negative dense knobs, aggressive on
                        3: negative dense knobs, aggressive off   4: default dense knobs, aggressive off */
#endif
#define ALEN (2 * NNZ + NNZ / 5 + 6 * (NC + 1) + 4 * (NR + 1) + NC)
#define NEED(z) (2 * (long long)(z) + 6 * (NC + 1) + 4 * (NR + 1) + NC)

int in_p[NC + 1], in_A[ALEN];                  /* inputs: column pointers and the workspace whose first p[NC] entries are the row indices */
int g_p0[NC + 1], g_A0[ALEN];                  /* ghost copies of the input (colamd destroys both) */
int g_stats[COLAMD_STATS]; double g_knobs[COLAMD_KNOBS];
int g_ret, g_valid, g_jumbled, g_nempty_col, g_nempty_row;
int nondet_int(void);

/* sqrt is only reached through DENSE_DEGREE(alpha, n) = max(16, alpha * sqrt(n)) with n = n_col resp. min(n_row, n_col): exact values
 * for the arguments that occur, anything else is flagged */
double sqrt(double x) {
  if (x == 0.0) return 0.0;
  if (x == 1.0) return 1.0;
  if (x == 2.0) return 1.4142135623730951;
  if (x == 3.0) return 1.7320508075688772;
  if (x == 4.0) return 2.0;
  __CPROVER_assert(0, "sqrt model: argument within the modelled set {0,1,2,3,4}");
  __CPROVER_assume(0);
  return 0.0;
}

_Bool nondet_bool(void);
static int pick(int lo, int hi) { int v; for (v = lo; v < hi; v++) if (nondet_bool()) return v; return hi; }

void h_colamd(void) {
  int k, c, j, r, seen[NR + 1], rowcnt[NR + 1], nnz, last, e;
  size_t rec;
#if INPUTS == 2
  /* path-wise enumeration (cbmc --paths): every input cell gets a CONSTANT on each path, so that the struct-in-int-array accesses of
   * colamd have constant offsets; column pointers range over -1..NNZ+1, row indices over -1..NR, the cells behind them stay symbolic */
  for (k = 0; k <= NC; k++) { in_p[k] = pick(-1, NNZ + 1); g_p0[k] = in_p[k]; }
  for (k = 0; k < ALEN; k++) { in_A[k] = k < NNZ ? pick(-1, NR) : nondet_int(); g_A0[k] = in_A[k]; }
#else
  for (k = 0; k <= NC; k++) { in_p[k] = nondet_int(); g_p0[k] = in_p[k]; }
  for (k = 0; k < ALEN; k++) { in_A[k] = nondet_int(); g_A0[k] = in_A[k]; }
#endif
  for (k = 0; k < COLAMD_STATS; k++) g_stats[k] = nondet_int();
#if INPUTS == 1
  __CPROVER_assume(in_p[NC] == NNZ);
#endif
  /* ---- specification, part 1: is the input a legal column form?  (header comment of colamd) */
  nnz = g_p0[NC];
  g_valid = (nnz >= 0 && g_p0[0] == 0 && NEED(nnz) <= ALEN);
  if (g_valid) for (c = 0; c < NC; c++) if (g_p0[c] > g_p0[c + 1]) g_valid = 0;
  if (g_valid) for (k = 0; k < ALEN; k++) if (k < nnz && (g_A0[k] < 0 || g_A0[k] >= NR)) g_valid = 0;
  g_jumbled = 0; g_nempty_col = 0; g_nempty_row = 0;
  if (g_valid) {
    for (r = 0; r <= NR; r++) rowcnt[r] = 0;
    for (c = 0; c < NC; c++) {
      last = -1;
      for (r = 0; r <= NR; r++) seen[r] = 0;
      for (k = 0; k < ALEN; k++) if (g_p0[c] <= k && k < g_p0[c + 1]) {
        r = g_A0[k];
        if (r <= last || seen[r]) g_jumbled = 1;
        if (!seen[r]) rowcnt[r]++;
        seen[r] = 1; last = r;
      }
      if (g_p0[c] == g_p0[c + 1]) g_nempty_col++;
    }
    for (r = 0; r < NR; r++) if (rowcnt[r] == 0) g_nempty_row++;
  }
  /* ---- the calls, as get_colamd makes them */
  rec = colamd_recommended(NNZ, NR, NC);
  __CPROVER_assert(rec == ALEN, "colamd_recommended(NNZ, NR, NC) == 2*nnz + nnz/5 + 6*(n_col+1) + 4*(n_row+1) + n_col");
#if KNOBS == 1
  g_ret = colamd(NR, NC, (int) rec, in_A, in_p, (double *) 0, g_stats);
#else
  colamd_set_defaults(g_knobs);
  __CPROVER_assert(g_knobs[COLAMD_DENSE_ROW] == 10.0 && g_knobs[COLAMD_DENSE_COL] == 10.0 && g_knobs[COLAMD_AGGRESSIVE] == 1.0, "colamd_set_defaults: documented default knobs");
#if KNOBS == 2 || KNOBS == 3
  g_knobs[COLAMD_DENSE_ROW] = -1.0; g_knobs[COLAMD_DENSE_COL] = -1.0;     /* "only remove completely dense rows / columns" */
#endif
#if KNOBS == 3 || KNOBS == 4
  g_knobs[COLAMD_AGGRESSIVE] = 0.0;
#endif
  g_ret = colamd(NR, NC, (int) rec, in_A, in_p, g_knobs, g_stats);
#endif

  /* ---- specification, part 2 */
  __CPROVER_assert(g_ret == 0 || g_ret == 1, "colamd returns TRUE or FALSE");
  __CPROVER_assert((g_ret == 1) == (g_valid != 0), "colamd returns TRUE exactly for a legal column form that fits into Alen");
  if (g_ret) {
    /* (1) p[0..n_col) is a permutation of 0..n_col-1 */
    for (k = 0; k < NC; k++) {
      __CPROVER_assert(0 <= in_p[k] && in_p[k] < NC, "TRUE: p[k] in 0..n_col-1");
      for (j = 0; j < k; j++) __CPROVER_assert(in_p[j] != in_p[k], "TRUE: p is injective");
    }
    /* (2) status: OK for sorted duplicate-free columns, OK_BUT_JUMBLED otherwise (header: stats[3]) */
    __CPROVER_assert(g_stats[COLAMD_STATUS] == (g_jumbled ? COLAMD_OK_BUT_JUMBLED : COLAMD_OK), "TRUE: stats[COLAMD_STATUS] is OK / OK_BUT_JUMBLED as documented");
#if KNOBS == 0 || KNOBS == 1 || KNOBS == 4
    /* (3) no row / column of a matrix this small is dense with the default knobs (threshold >= 16): the ignored rows / columns are the
     *     empty ones, and the empty columns come last, in their natural order (init_scoring: "so that LU factorization can proceed as far as possible") */
    __CPROVER_assert(g_stats[COLAMD_DENSE_COL] == g_nempty_col, "TRUE: stats[1] == number of empty columns");
    __CPROVER_assert(g_stats[COLAMD_DENSE_ROW] == g_nempty_row, "TRUE: stats[0] == number of empty rows");
    e = 0;
    for (c = 0; c < NC; c++) if (g_p0[c] == g_p0[c + 1]) {
      __CPROVER_assert(in_p[NC - g_nempty_col + e] == c, "TRUE: empty columns are ordered last, in natural order");
      e++;
    }
#endif
    __CPROVER_assert(g_stats[COLAMD_DEFRAG_COUNT] >= 0, "TRUE: stats[2] (garbage collections) >= 0");
  } else {
    __CPROVER_assert(g_stats[COLAMD_STATUS] < 0, "FALSE: stats[COLAMD_STATUS] is an error code");
  }
  /* ---- canaries */
  __CPROVER_assert(0, "canary: colamd returns");
  if (g_ret) __CPROVER_assert(0, "canary: colamd returns TRUE");
  if (!g_ret) __CPROVER_assert(0, "canary: colamd returns FALSE");
#if NNZ >= 2 && NR >= 1 && NC >= 1
  if (g_ret && g_jumbled) __CPROVER_assert(0, "canary: jumbled input accepted");
  if (!g_ret && g_stats[COLAMD_STATUS] == COLAMD_ERROR_row_index_out_of_bounds) __CPROVER_assert(0, "canary: row index out of bounds rejected");
#endif
#if NC >= 2
  if (g_ret && in_p[0] != 0) __CPROVER_assert(0, "canary: order differs from the natural one");
  if (g_ret && g_nempty_col == 1) __CPROVER_assert(0, "canary: one empty column");
#endif
#ifdef CANARY_GC
  if (g_ret && g_stats[COLAMD_DEFRAG_COUNT] > 0) __CPROVER_assert(0, "canary: garbage collection performed");
#endif
}
