#!/usr/bin/env python3
"""writes units/colamd_b/unit.json from variants.json (one variant per shape / input class / knob setting).
--unwind is a generous constant per variant: on every path the loop bounds of colamd are concrete, a bound that were too small would fail
its unwinding assertion (exit 2), it cannot make an obligation pass."""
import json, os
KN = {0: 'default knobs', 1: 'knobs=NULL', 2: 'dense knobs<0', 3: 'dense knobs<0, no aggressive absorption', 4: 'no aggressive absorption'}
def variant(nr, nc, nnz=None, inputs=2, knobs=0, alenmode=0, extra=None):
    if nnz is None: nnz = nr * nc
    alen = 2 * nnz + nnz // 5 + 6 * (nc + 1) + 4 * (nr + 1) + nc
    v = dict(name=f'{nr}x{nc},' + ('' if inputs == 4 else f'nnz<={nnz},') + f'{"legal" if inputs == 2 else "any input" if inputs == 3 else "sorted patterns" if inputs == 4 else "symbolic"},{KN[knobs]}'
                  + (',Alen=minimum' if alenmode else '') + (f",half {extra['SPLIT']}" if extra and 'SPLIT' in extra else ''),
             NR=nr, NC=nc, NNZ=nnz, INPUTS=inputs, KNOBS=knobs, ALENMODE=alenmode, unwind=alen + 30)
    if extra: v.update(extra)
    return v
def main():
    here = os.path.dirname(os.path.abspath(__file__))
    cfg = json.load(open(os.path.join(here, 'variants.json')))
    u = cfg['unit']
    u['variants'] = [variant(**a) for a in cfg['quick']]
    u['tiers'] = {'thorough': {'timeout': cfg.get('thorough_timeout', 3600), 'variants': [variant(**a) for a in cfg['thorough']]}}
    json.dump(u, open(os.path.join(here, 'unit.json'), 'w'), indent=1)
main()
