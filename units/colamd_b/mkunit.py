#!/usr/bin/env python3
"""writes units/colamd_b/unit.json: one variant per shape; the per-loop unwinding bounds are functions of the shape (iterations + 1);
a bound that is too small fails its unwinding assertion (exit 2), it cannot make an obligation pass."""
import json, os, sys
def variant(nr, nc, nnz, inputs=0, knobs=0, extra=None, tag=''):
    z = nnz + nnz // 10                      # largest p[n_col] that still fits into Alen = recommended(nnz)
    alen = 2 * nnz + nnz // 5 + 6 * (nc + 1) + 4 * (nr + 1) + nc
    col = min(nr, z) + 1                     # entries of a (pruned) column + 1
    row = min(nc, z) + 1
    v = dict(name=f'{nr}x{nc},nnz{"=" if inputs else "<="}{nnz}{tag}', NR=nr, NC=nc, NNZ=nnz, INPUTS=inputs, KNOBS=knobs,
             unwind=alen + 2,
             UC=nc + 1, UC2=nc + 2, UR=nr + 1, UZ=z + 1, UCOL=col, UROW=row, UGC=2 * z + nc + z // 5 + 2)
    if extra: v.update(extra)
    return v
LOOPS = {
 'colamd.0': 21, 'colamd_set_defaults.0': 21, 't_mult.0': 25,
 'init_rows_cols.0': '@UC@', 'init_rows_cols.1': '@UR@', 'init_rows_cols.2': '@UZ@', 'init_rows_cols.3': '@UC@', 'init_rows_cols.4': '@UR@',
 'init_rows_cols.5': '@UZ@', 'init_rows_cols.6': '@UC@', 'init_rows_cols.7': '@UZ@', 'init_rows_cols.8': '@UC@', 'init_rows_cols.9': '@UR@',
 'init_rows_cols.10': '@UC@', 'init_rows_cols.11': '@UROW@', 'init_rows_cols.12': '@UR@',
 'init_scoring.0': '@UC@', 'init_scoring.1': '@UCOL@', 'init_scoring.2': '@UC@', 'init_scoring.3': '@UR@', 'init_scoring.4': '@UCOL@',
 'init_scoring.5': '@UC@', 'init_scoring.6': '@UC2@', 'init_scoring.7': '@UC@',
 'clear_mark.0': '@UR@',
 'find_ordering.0': '@UC@', 'find_ordering.1': '@UROW@', 'find_ordering.2': '@UCOL@', 'find_ordering.3': '@UCOL@', 'find_ordering.4': '@UCOL@',
 'find_ordering.5': '@UC@', 'find_ordering.6': '@UCOL@', 'find_ordering.7': '@UC@', 'find_ordering.8': '@UC@', 'find_ordering.9': '@UC@',
 'detect_super_cols.0': '@UCOL@', 'detect_super_cols.1': '@UC@', 'detect_super_cols.2': '@UC@', 'detect_super_cols.3': '@UC@',
 'order_children.0': '@UC@', 'order_children.1': '@UC@', 'order_children.2': '@UC@', 'order_children.3': '@UC@',
 'garbage_collection.0': '@UCOL@', 'garbage_collection.1': '@UC@', 'garbage_collection.2': '@UR@', 'garbage_collection.3': '@UROW@', 'garbage_collection.4': '@UGC@',
}
def main():
    here = os.path.dirname(os.path.abspath(__file__))
    cfg = json.load(open(os.path.join(here, 'variants.json')))
    u = cfg['unit']
    u['cbmc'] = ['--sat-solver', 'cadical', '--unwindset', ','.join(f'{k}:{v}' for k, v in LOOPS.items())]
    u['variants'] = [variant(**a) for a in cfg['quick']]
    u['tiers'] = {'thorough': {'timeout': cfg.get('thorough_timeout', 3600), 'variants': [variant(**a) for a in cfg['thorough']]}}
    json.dump(u, open(os.path.join(here, 'unit.json'), 'w'), indent=1)
main()
