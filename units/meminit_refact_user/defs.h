#define WF_USTACK (0 <= stack.top1 && stack.top1 <= stack.top2 && stack.top2 <= stack.size && stack.used == stack.top1 + (stack.size - stack.top2))
#define GHOST_STACK (g_size0 == stack.size && g_used0 == stack.used && g_top10 == stack.top1 && g_top20 == stack.top2)
#define o_ superlumt_options
/* a tuning value of sp_ienv(6..8): negative = fill factor, non-negative = absolute size */
#define FILLOK(v) ((-FB <= (v) && (v) <= -1) || (0 <= (v) && (v) <= NZB))
#define GUESS(v, annz) ((v) < 0 ? -(v) * (annz) : (v))
#define EXP_TABLE_OK __CPROVER_rw_ok(@p@expanders, 4 * sizeof(ExpHeader))
#define EXP_LEN_OK __CPROVER_rw_ok(prev_len, sizeof(int_t))

/* ---- instantiation of specs/expand_first.spec at call sites that run in system-malloc mode only */
#define LWORD(t) (((t) == LSUB || (t) == USUB) ? (int_t)sizeof(int_t) : (int_t)sizeof(@T@))
#define EXP_B ((*prev_len) * LWORD(type))
#define EXP_USTACK_PRE 1
#define EXP_USTACK_POST 1
#define EXP_NO_ROOM 1
#define EXP_USTACK_FAILED 1
#define EXP_USTACK_WF 1
