#include "slu_mt_@p@defs.h"
extern float p@p@gstrf_MemInit(int_t, int_t, superlumt_options_t *, SuperMatrix *, SuperMatrix *, GlobalLU_t *);
extern ExpHeader *@p@expanders;
/* ghost: allocation log, entry values of the user-stack bookkeeping and of Glu's capacities */
int g_n_malloc, g_n_free, g_n_intmalloc; size_t g_malloc_bytes; void *g_exp0, *g_array0;
int_t g_size0, g_used0, g_top10, g_top20, g_nzl0, g_nzu0, g_nzlu0; int g_ws0;
extern int g_locks, g_unlocks, g_lock_inits;
/* inputs */
int_t in_n, in_annz, in_maxsuper, in_rowblk, in_fill6, in_fill7, in_fill8;
superlumt_options_t in_o; SuperMatrix in_L, in_U; SCPformat in_Lstore; NCPformat in_Ustore; GlobalLU_t in_Glu; ExpHeader in_exp[4]; char in_work[8];
void *superlu_malloc(size_t size) { if (g_n_malloc < 1000000) g_n_malloc++; g_malloc_bytes = size; return (void*)in_exp; }
void superlu_free(void *p) { if (g_n_free < 1000000) g_n_free++; }
int_t *intMalloc(int_t n) { if (g_n_intmalloc < 1000000) g_n_intmalloc++; return (int_t*)0; }
void copy_mem_int(int_t howmany, void *old, void *new) { __CPROVER_assert(0, "copy_mem_int is not reached from MemInit"); }
void user_bcopy(char *src, char *dest, int_t bytes) { __CPROVER_assert(0, "user_bcopy is not reached from MemInit"); }
int_t sp_ienv(int_t ispec) { int_t r; switch (ispec) { case 3: return in_maxsuper; case 4: return in_rowblk; case 6: return in_fill6; case 7: return in_fill7; case 8: return in_fill8; } return r; }
float g_ret;
void h_meminit_refact(void) {
  in_L.Store = &in_Lstore; in_U.Store = &in_Ustore; in_o.work = in_work;
  g_ret = p@p@gstrf_MemInit(in_n, in_annz, &in_o, &in_L, &in_U, &in_Glu);
  __CPROVER_assert(0, "canary: MemInit (refactorization) returns");
  if (in_o.lwork > 0) __CPROVER_assert(0, "canary: refactorization in the user workspace");
  if (in_o.lwork == 0) __CPROVER_assert(0, "canary: refactorization with system malloc");
  if (in_o.lwork > 0 && g_used0 > 0 && g_top10 > 0) __CPROVER_assert(0, "canary: previous factors occupy the head of the buffer");
}
