/* vocabulary of the ?Malloc / ?Calloc contracts */
#define NBYTES ((size_t)n * sizeof(ELT))
#define RBYTE(k) (((unsigned char*)RET)[k])
