#include <stdlib.h>
#include "slu_mt_@p@defs.h"
extern @T@ *@T@@KIND@(int_t);
_Bool nondet_bool(void);
/* ghost: allocation log, exit log, an arbitrary byte of the block */
int g_n_malloc, g_alloc_failed, g_exit_calls, g_exit_code; size_t g_malloc_bytes; void *g_block; long long g_b;
void *superlu_malloc(size_t size) {
  if (g_n_malloc < 1000000) g_n_malloc++; g_malloc_bytes = size;
  if (nondet_bool()) { g_alloc_failed = 1; g_block = (void*)0; return g_block; }
  g_block = malloc(size); __CPROVER_assume(g_block != (void*)0); return g_block;
}
void exit(int code) {
  g_exit_calls++; g_exit_code = code;
  __CPROVER_assert(g_alloc_failed, "the process is ended only after a refused request");
  __CPROVER_assert(code == 1, "process exits with status 1");
  __CPROVER_assert(0, "canary: refused request -> exit path reachable");
  __CPROVER_assume(0);
}
/* inputs */
int_t in_n; @T@ *g_ret;
void h_tmalloc(void) {
  g_ret = @T@@KIND@(in_n);
  __CPROVER_assert(0, "canary: allocator wrapper returns");
  /* the block is usable over exactly n cells */
  if (in_n > 0) {
    g_ret[in_n - 1] = g_ret[0];
    __CPROVER_assert(!__CPROVER_r_ok((char*)g_ret, (size_t)in_n * sizeof(@T@) + 1), "block is not longer than n cells");
  }
  if (in_n == 0) __CPROVER_assert(0, "canary: empty request served");
  if (in_n == NMAX) __CPROVER_assert(0, "canary: n == INT_MAX served");
}
