#include "slu_mt_@p@defs.h"
/* ghosts */
@T@ g_y0[XCAP]; int_t g_xoff, g_yoff, g_e, g_ret; extern int g_xerbla_calls, g_xerbla_arg;
/* inputs */
char in_trans[2]; @T@ in_alpha, in_beta; int_t in_incx, in_incy;
SuperMatrix in_A; NCformat in_Astore; int_t in_colptr[CAP+1], in_rowind[NZ]; @T@ in_val[NZ]; @T@ in_x[XCAP], in_y[XCAP];
void h_gemv(void) {
  in_A.Store = &in_Astore; in_Astore.nzval = in_val; in_Astore.rowind = in_rowind; in_Astore.colptr = in_colptr;
  __CPROVER_assume(0 <= g_xoff && g_xoff < XCAP && 0 <= g_yoff && g_yoff < XCAP);
  g_ret = sp_@p@gemv(in_trans, in_alpha, &in_A, in_x + g_xoff, in_incx, in_beta, in_y + g_yoff, in_incy);
  __CPROVER_assert(0, "canary: sp_gemv returns");
  if (g_xerbla_calls == 0 && in_A.nrow > 1 && in_A.ncol > 1 && in_alpha != 0) {
    if (in_trans[0] == 'N' && in_incx == -2 && g_xoff > 0) __CPROVER_assert(0, "canary: notrans, negative incx, tail-aligned x reachable");
    if (in_trans[0] == 't' && in_incy == -3 && g_yoff > 0) __CPROVER_assert(0, "canary: trans, negative incy, tail-aligned y reachable");
    if (in_trans[0] == 'C' && in_incy == 2 && in_beta == 0) __CPROVER_assert(0, "canary: conj-trans, incy 2, beta 0 reachable");
  }
  if (g_xerbla_calls == 0 && in_A.nrow > 1 && in_A.ncol > 1 && in_alpha == 0 && in_beta == 0 && in_incy == -2) __CPROVER_assert(0, "canary: alpha 0 beta 0 strided reachable");
  if (g_xerbla_arg == 8) __CPROVER_assert(0, "canary: info 8 reachable");
}
