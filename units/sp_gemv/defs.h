/* vocabulary for sp_?gemv.  Inputs: in_trans[2], in_alpha, in_beta, in_incx, in_incy, in_A -> in_Astore -> in_colptr[CAP+1], in_rowind[NZ],
 * in_val[NZ]; vectors in_x[XCAP], in_y[XCAP] (XCAP = 1+(CAP-1)*3: the documented dimension for |inc| <= 3).  The routine is handed
 * x = in_x + g_xoff, y = in_y + g_yoff where the ghost offsets place the DOCUMENTED extent 1+(len-1)*|inc| either at the head or at the
 * tail of the array, so that any access below or beyond that extent leaves the object (index safety relative to the documentation,
 * not to the capacity).  g_y0[] = pre-state of in_y, g_e an arbitrary vector position. */
#define NR in_A.nrow
#define NC in_A.ncol
#define CP(j) in_colptr[j]
#define RI(k) in_rowind[k]
#define INR(k) (CP(0) <= (k) && (k) < CP(NC))
#define TR (in_trans[0])
#define NOTRAN (TR == 'N' || TR == 'n')
#define TRANS_OK (NOTRAN || TR == 'T' || TR == 't' || TR == 'C' || TR == 'c')
#define ARGS_OK (TRANS_OK && NR >= 0 && NC >= 0 && in_incx != 0 && in_incy != 0)
#define NONEMPTY (NR > 0 && NC > 0)
#define LENX (NOTRAN ? NC : NR)
#define LENY (NOTRAN ? NR : NC)
#define ABSI(v) ((v) < 0 ? -(v) : (v))
#define DIMX (1 + (LENX - 1) * ABSI(in_incx))
#define DIMY (1 + (LENY - 1) * ABSI(in_incy))
#define KY (in_incy > 0 ? 0 : -(LENY - 1) * in_incy)
/* position p of in_y is one of the LENY documented vector positions / one of the first n of them */
#define GRIDN(p,n,e) EX(e, CAP, e < (n) && (p) == g_yoff + KY + e * in_incy)
#define Y(q) in_y[g_yoff + (q)]
#define QUICK (NR == 0 || NC == 0 || (in_alpha == 0 && in_beta == 1))
