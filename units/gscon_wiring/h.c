#include "slu_mt_@p@defs.h"
extern int g_lacon_calls, g_trsv_calls, g_xerbla_calls, g_xerbla_arg, g_n_alloc, g_n_free;
extern int_t g_last_kase, g_r, g_rk, g_rn; extern char g_s1[3], g_s2[3]; extern @R@ g_est;
/* inputs */
char in_norm[2]; SuperMatrix in_L, in_U; SCPformat in_Lstore; NCPformat in_Ustore; @R@ in_anorm, in_rcond; int_t in_info;
void h_gscon_wiring(void) {
  in_L.Store = &in_Lstore; in_U.Store = &in_Ustore;
  @p@gscon(in_norm, &in_L, &in_U, in_anorm, &in_rcond, &in_info);
  __CPROVER_assert(0, "canary: gscon returns");
  if (in_info == -1) __CPROVER_assert(0, "canary: illegal norm reachable");
  if (in_info == -3) __CPROVER_assert(0, "canary: illegal U reachable");
  if (in_info == 0 && g_lacon_calls == 0) __CPROVER_assert(0, "canary: quick return reachable");
  if (g_lacon_calls == 1) __CPROVER_assert(0, "canary: estimator stops at once");
  if (g_lacon_calls == 4 && g_r == 2 && g_rk == 1 && in_norm[0] == 'I') __CPROVER_assert(0, "canary: four estimator calls, infinity norm, third round asks for kase 1");
  if (g_lacon_calls == 3 && g_r == 0 && g_rk == 2 && in_norm[0] == 'O') __CPROVER_assert(0, "canary: three estimator calls, one norm, first round asks for kase 2");
  if (g_lacon_calls >= 1 && in_rcond == 0) __CPROVER_assert(0, "canary: estimate zero");
  if (g_lacon_calls >= 1 && in_rcond > 0) __CPROVER_assert(0, "canary: positive rcond");
}
