/* gscon_stubs.c -- executable contracts (ASSUMED, see "trusted") for the callees of ?gscon.
 * Ghost log:  g_lacon_calls, g_trsv_calls, g_last_kase (value ?lacon_ returned last), g_est (value of *est after the last call),
 *             g_x / g_v / g_est_p / g_kase_p (pointers seen by the first ?lacon_ call; later calls and every sp_?trsv must use the same),
 *             ghost round g_r (universally chosen by the harness): g_rk = kase returned in round g_r, g_s1 / g_s2 = first letters
 *             (upper case) of uplo, trans, diag of the first / second sp_?trsv call made in that round, g_rn = number of solves in it. */
#include <stdlib.h>
#include "slu_mt_@p@defs.h"
extern SuperMatrix in_L, in_U; extern int_t in_info;
int g_lacon_calls, g_trsv_calls, g_xerbla_calls, g_xerbla_arg, g_n_alloc, g_n_free;
int_t g_last_kase, g_r, g_rk, g_rn; char g_s1[3], g_s2[3];
@R@ g_est; @T@ *g_x, *g_v; @R@ *g_est_p; int_t *g_kase_p;
@R@ nondet_real(void); int_t nondet_int_t(void); _Bool nondet_bool(void);

void verif_abort(char *msg) { __CPROVER_assume(0); }
int sprintf(char *s, const char *f, ...) { return 0; }
int xerbla_(char *s, int *i) { g_xerbla_arg = *i; g_xerbla_calls++; return 0; }
@T@ *@T@Calloc(int_t n) { @T@ *p = calloc((size_t)n, sizeof(@T@)); __CPROVER_assume(p != NULL); g_n_alloc++; return p; }
int_t *intMalloc(int_t n) { int_t *p = malloc((size_t)n * sizeof(int_t)); __CPROVER_assume(p != NULL); g_n_alloc++; return p; }
void superlu_free(void *p) { g_n_free++; free(p); }
static char up(char c) { return (c >= 'a' && c <= 'z') ? c - 32 : c; }

#if @cplx@
int_t @p@lacon_(int_t *n, @T@ *v, @T@ *x, @R@ *est, int_t *kase)
#else
int_t @p@lacon_(int_t *n, @T@ *v, @T@ *x, int_t *isgn, @R@ *est, int_t *kase)
#endif
{
  __CPROVER_assert(n == &in_L.nrow, "lacon: order is L->nrow");
  __CPROVER_assert(v == x + *n, "lacon: v is the second block of the work array");
  if (g_lacon_calls == 0) {
    __CPROVER_assert(*kase == 0, "lacon: first call has kase 0");
    g_x = x; g_v = v; g_est_p = est; g_kase_p = kase;
  } else {
    __CPROVER_assert(*kase == g_last_kase && *kase != 0, "lacon: re-entered with the kase it returned");
    __CPROVER_assert(x == g_x && v == g_v && est == g_est_p && kase == g_kase_p, "lacon: same vectors on every call");
  }
  __CPROVER_havoc_slice(x, (size_t)(*n) * sizeof(@T@));
  __CPROVER_havoc_slice(v, (size_t)(*n) * sizeof(@T@));
  if (nondet_bool()) { @R@ e = nondet_real(); 
#define V e     /* EST_OK (variant parameter) restricts the value V of the estimate */
    __CPROVER_assume(e == e && EST_OK);
#undef V
    *est = e; }
  g_est = *est;
  int_t k = nondet_int_t(); __CPROVER_assume(0 <= k && k <= 2);
  if (g_lacon_calls >= MAXROUNDS) k = 0;      /* the estimator stops after at most MAXROUNDS products (see "assumptions") */
  *kase = k; g_last_kase = k;
  if (g_lacon_calls == g_r) { g_rk = k; g_rn = 0; }
  g_lacon_calls++;
  return 0;
}
int_t sp_@p@trsv(char *uplo, char *trans, char *diag, SuperMatrix *L, SuperMatrix *U, @T@ *x, int_t *info)
{
  __CPROVER_assert(g_lacon_calls > 0 && g_last_kase != 0, "trsv: only after lacon asked for a product");
  __CPROVER_assert(L == &in_L && U == &in_U && x == g_x && info == &in_info, "trsv: factors and the vector lacon works on");
  if (g_lacon_calls - 1 == g_r) {
    if (g_rn == 0) { g_s1[0] = up(*uplo); g_s1[1] = up(*trans); g_s1[2] = up(*diag); }
    if (g_rn == 1) { g_s2[0] = up(*uplo); g_s2[1] = up(*trans); g_s2[2] = up(*diag); }
    g_rn++;
  }
  g_trsv_calls++;
  __CPROVER_havoc_slice(x, (size_t)in_L.nrow * sizeof(@T@));
  return 0;
}
