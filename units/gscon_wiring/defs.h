/* vocabulary for ?gscon wiring.  Inputs are harness objects (in_*); ghost log g_* is written by gscon_stubs.c. */
#define NRM0 ((unsigned char)in_norm[0])
#define ONENRM (NRM0 == '1' || NRM0 == 'O' || NRM0 == 'o')
#define INFNRM (NRM0 == 'I' || NRM0 == 'i')
#define L_OK (in_L.nrow >= 0 && in_L.nrow == in_L.ncol && in_L.Stype == SLU_SCP && in_L.Dtype == SLU_@P@ && in_L.Mtype == SLU_TRLU)
#define U_OK (in_U.nrow >= 0 && in_U.nrow == in_U.ncol && in_U.Stype == SLU_NCP && in_U.Dtype == SLU_@P@ && in_U.Mtype == SLU_TRU)
#define LEGAL ((ONENRM || INFNRM) && L_OK && U_OK)
#define QUICK (in_L.nrow == 0 || in_U.nrow == 0)
#define KASE1 (ONENRM ? 1 : 2)
/* the two solves recorded in the ghost round g_r */
#define SOLVES(a,b,c,d,e,f) (g_s1[0] == a && g_s1[1] == b && g_s1[2] == c && g_s2[0] == d && g_s2[1] == e && g_s2[2] == f)
/* round g_r has been completed and asked for a product: its two solves match the direction asked for */
#define ROUND_OK (g_rk == KASE1 ? SOLVES('L','N','U','U','N','N') : SOLVES('U','T','N','L','T','U'))
/* the value the routine documents: RCOND = (1/norm(inv(A)))/norm(A), rounded to the working precision */
#define RC_E ((@R@)((1. / g_est) / anorm))
/* EST_OK (variant parameter) is written over a value V: in clauses V is the last estimate */
#define V g_est
