#include "slu_mt_@p@defs.h"
#include "drv_ghost.h"
int_t in_nprocs; SuperMatrix in_A, in_L, in_U, in_B; NCformat in_Astore; DNformat in_Bstore;
int_t in_perm_c[CAP], in_perm_r[CAP]; @T@ in_Bval[CAP*2]; int_t in_info;
void h_ssv(void) {
  in_A.Store = &in_Astore; in_B.Store = &in_Bstore; in_Bstore.nzval = in_Bval;
  p@p@gssv(in_nprocs, &in_A, in_perm_c, in_perm_r, &in_L, &in_U, &in_B, &in_info);
  __CPROVER_assert(0, "canary: driver returns");
  if (g_n_gstrs == 1 && in_A.Stype == SLU_NR) __CPROVER_assert(0, "canary: row-wise solve reachable");
  if (in_info > 0) __CPROVER_assert(0, "canary: singular / failed factorization reachable");
}
