/* vocabulary for ?lsolve (SRC/?myblas2.c): rhs[0..ncol) := inv(unit-lower(M(0:ncol,0:ncol))) * rhs, M column-major with leading dimension ldm.
 * The harness runs the routine once for EVERY ncol in NLO..NMAX (concrete per case, so that every pointer of the unwound routine is concrete)
 * with ldm = ncol + LDGAP, on symbolic contents.  M and rhs are objects of EXACTLY the extent the routine may touch
 * (ALIAS == 0: g_Mobj has REND entries, g_robj has ncol entries -- sp_?trsv, ?gstrs, bmod1D/2D, column_bmod's tempv), so any access outside
 * that extent leaves the object; or ONE object (ALIAS == 1: p?gstrf_snode_bmod / column_bmod hand in &lusup[luptr] and &lusup[ufirst],
 * ufirst = luptr + nsupr*nsupc: rhs starts ncol*ldm entries behind M and ends the object).
 * g_k an arbitrary (universally chosen) position of rhs, g_m of M; g_b[] = rhs on entry; g_ref[] = inv(unit-lower(M)) * g_b computed by the harness
 * with the textbook double loop (VALS: exact small-integer entries, so every product and sum is exact in either summation order). */
#define N in_ncol
#define LD in_ldm
/* what ?lsolve may READ of M: entries M[1] .. M[(ncol-2)*ldm + ncol-1] (M[0] and the last column of the block are never needed) */
#define REND (N >= 2 ? (N - 2) * LD + N : 0)
#if ALIAS
#define MSIZE (N * LD)
#else
#define MSIZE REND
#endif
#define INSIDE(p) (0 <= (p) && (p) < N)
#define ISNAN(v) ((v) != (v))
#if CPLX
#define POIS(v) (ISNAN((v).r) || ISNAN((v).i))
#define SAME1(a,b) ((a) == (b) || (ISNAN(a) && ISNAN(b)))
#define SAME(a,b) (SAME1((a).r, (b).r) && SAME1((a).i, (b).i))
#define EQ(a,b) ((a).r == (b).r && (a).i == (b).i)
#define SMALL1(v) ((v) == -1 || (v) == 0 || (v) == 1 || (v) == 2)
#define SMALL(v) (SMALL1((v).r) && SMALL1((v).i))
#else
#define POIS(v) ISNAN(v)
#define SAME(a,b) ((a) == (b) || (ISNAN(a) && ISNAN(b)))
#define EQ(a,b) ((a) == (b))
#define SMALL(v) ((v) == -1 || (v) == 0 || (v) == 1 || (v) == 2)
#endif
#define KK (INSIDE(g_k) ? g_k : 0)
