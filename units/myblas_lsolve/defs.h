/* vocabulary for ?lsolve (SRC/?myblas2.c): rhs[0..ncol) := inv(unit-lower(M(0:ncol,0:ncol))) * rhs, M column-major with leading dimension ldm.
 * Inputs: in_ldm, in_ncol, in_M[MCAP]; rhs lives in its own object in_rhs[VCAP] (ALIAS == 0: sp_?trsv, ?gstrs, bmod1D/2D, column_bmod's
 * tempv) or in the SAME object as M behind the block (ALIAS == 1: p?gstrf_snode_bmod / column_bmod hand in &lusup[luptr] and &lusup[ufirst]).
 * The routine gets M = in_M + g_moff, rhs = RHSOBJ + g_roff; the ghost offsets put the extent the routine may touch at the head or at the
 * tail of the object, so an access below or beyond it leaves the object.
 * g_T[j] = j*ldm (column offsets, a table so that no clause multiplies two symbolic integers); g_p an arbitrary (universally chosen)
 * position of the rhs object, g_v0 its value on entry. */
#define N in_ncol
#define LD in_ldm
#define TMAX (CAP * LDMAX)
/* what ?lsolve may READ of M: entries M[1] .. M[(ncol-2)*ldm + ncol-1] (the last column of the block and M[0] are never needed) */
#define REND (N >= 2 ? g_T[N >= 2 ? N - 2 : 0] + N : 0)
#if ALIAS
#define RHSOBJ in_M
#define RCAP MCAP
#else
#define RHSOBJ in_rhs
#define RCAP VCAP
#endif
#define INSIDE(p) (g_roff <= (p) && (p) < g_roff + N)
#define ISNAN(v) ((v) != (v))
/* same value, NaN counted as equal to NaN (complex: both parts) */
#if CPLX
#define POIS(v) (ISNAN((v).r) || ISNAN((v).i))
#define SAME1(a,b) ((a) == (b) || (ISNAN(a) && ISNAN(b)))
#define SAME(a,b) (SAME1((a).r, (b).r) && SAME1((a).i, (b).i))
#else
#define POIS(v) ISNAN(v)
#define SAME(a,b) ((a) == (b) || (ISNAN(a) && ISNAN(b)))
#endif
/* carried by every loop: positions outside rhs[0..ncol) and rhs[0] keep their value, a NaN inside stays */
#define FRAME_INV ((!INSIDE(g_p) ==> SAME(RHSOBJ[g_p], g_v0)) && (N >= 1 ==> SAME(RHSOBJ[g_roff < RCAP ? g_roff : 0], g_r0)) && ((INSIDE(g_p) && POIS(g_v0)) ==> POIS(RHSOBJ[g_p])))
