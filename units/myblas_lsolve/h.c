#include "slu_mt_@p@defs.h"
#include "defs.h"
/* Harness of unit myblas_lsolve -- BOUNDED (label B(n), ncol <= NMAX): the REAL ?lsolve of SRC/?myblas2.c is executed symbolically with all
 * loops unwound (--unwinding-assertions), once per ncol.  No loop contract: a loop contract havocs the cursor pointers M0, Mki0..Mki7, after
 * which symex splits every *Mki++ over all assignable objects with a byte-level read (legacy: 8.3 M variables / 42 M clauses and 4.5 min PER
 * obligation for ncol <= 9, ldm <= 10; dfcc: out of memory) -- the same wall as units bmod1D/bmod2D.  The clauses are the ones a contract
 * would carry: REQ = requires (assumed), ENS = ensures (asserted), frame = exact-size objects + a ghost index into M.  inputs in_*, ghosts g_*. */
int_t in_ldm, in_ncol;
@T@ *g_Mobj, *g_robj; int_t g_k, g_m; @T@ g_b[NMAX + 1], g_ref[NMAX + 1], g_m0;
void *malloc(__CPROVER_size_t);
int_t nondet_int_t(void);
#define REQ(label, c) __CPROVER_assume(c)
#define ENS(label, c) __CPROVER_assert(c, "ensures " #label)
static void one_case(void) {
  int_t i, j;
  g_k = nondet_int_t(); g_m = nondet_int_t();
  /* ---------- requires ---------- */
#if ALIAS
  /* ONE object: the block (ncol full columns) and behind it rhs, exactly ncol entries: &lusup[luptr], &lusup[ufirst] */
  g_Mobj = malloc((__CPROVER_size_t)(MSIZE + N) * sizeof(@T@));       /* contents arbitrary */
  REQ(allocated, g_Mobj != 0);
  g_robj = g_Mobj + MSIZE;
#else
  /* M has exactly REND entries, rhs exactly ncol: an access outside leaves the object */
  g_Mobj = malloc((__CPROVER_size_t)MSIZE * sizeof(@T@));
  g_robj = malloc((__CPROVER_size_t)N * sizeof(@T@));
  REQ(allocated, g_Mobj != 0 && g_robj != 0);
#endif
  if (MSIZE > 0) { REQ(ghosts, 0 <= g_m && g_m < MSIZE); g_m0 = g_Mobj[g_m]; }
  for (i = 0; i < N; i++) {
#if VALS
    /* exact domain: rhs and the strictly lower triangle hold small integers; every other entry of the block stays arbitrary (NaN included) */
    REQ(small_rhs, SMALL(g_robj[i]));
    for (j = 0; j < i; j++) REQ(small_triangle, SMALL(g_Mobj[i + j * LD]));
#endif
    g_b[i] = g_robj[i];
  }
#if VALS
  /* textbook forward substitution with a unit diagonal: x_i = b_i - sum_{j<i} M(i,j) x_j */
  for (i = 0; i < N; i++) {
    @T@ s = g_b[i];
    for (j = 0; j < i; j++) s = s - g_ref[j] * g_Mobj[i + j * LD];      /* same operand order as the routine (x_j * M(i,j)) */
    g_ref[i] = s;
  }
#endif

  @p@lsolve(in_ldm, in_ncol, g_Mobj, g_robj);

  /* ---------- ensures ---------- */
  /* C05: M is not written (same-object variant: nothing in front of rhs is); writes outside rhs[0..ncol) leave the object */
  if (MSIZE > 0) ENS(M_kept, SAME(g_Mobj[g_m], g_m0));
  /* unit diagonal: x[0] = rhs[0] */
  if (N >= 1) ENS(first_entry_kept, SAME(g_robj[0], g_b[0]));
  /* x_k = rhs_k - sum: an entry that was NaN stays NaN (what the callers' kernel models assume) */
  if (N >= 1) ENS(nan_stays, !(INSIDE(g_k) && POIS(g_b[KK])) || POIS(g_robj[KK]));
#if VALS
  /* C19: rhs := inv(unit-lower(M)) * rhs, read from the strictly lower triangle only (every other entry of the block is arbitrary) */
  if (N >= 1) ENS(solves_unit_lower, !INSIDE(g_k) || EQ(g_robj[KK], g_ref[KK]));
  if (in_ncol == NMAX && g_k == NMAX - 1 && g_ref[NMAX - 1] > NMAX + 2) __CPROVER_assert(0, "canary: last solution entry outgrows the input domain");
#else
  if (INSIDE(g_k) && POIS(g_b[KK]) && g_k >= 2) __CPROVER_assert(0, "canary: a NaN in rhs on entry");
#endif
  if (in_ncol == NLO) __CPROVER_assert(0, "canary: smallest ncol");
  if (in_ncol == NMAX) __CPROVER_assert(0, "canary: largest ncol");
}
void h_lsolve(void) {
  int_t n;
  for (n = NLO; n <= NMAX; n++) { in_ncol = n; in_ldm = n + LDGAP; one_case(); }
  __CPROVER_assert(0, "canary: lsolve returns in every case");
}
