#include "slu_mt_@p@defs.h"
#include "defs.h"
/* Harness of unit myblas_lsolve: the REAL ?lsolve of SRC/?myblas2.c on a symbolic block.  inputs in_*, ghosts g_*. */
int_t in_ldm, in_ncol; @T@ in_M[MCAP];
#if !ALIAS
@T@ in_rhs[VCAP];
#endif
int_t g_moff, g_roff, g_T[CAP+1], g_p; @T@ g_v0, g_r0;
void h_lsolve(void) {
  __CPROVER_assume(0 <= g_moff && g_moff <= MCAP && 0 <= g_roff && g_roff <= RCAP);   /* the two pointers can be formed */
  @p@lsolve(in_ldm, in_ncol, in_M + g_moff, RHSOBJ + g_roff);
  __CPROVER_assert(0, "canary: lsolve returns");
  if (in_ncol == 0) __CPROVER_assert(0, "canary: ncol 0");
  if (in_ncol == 1) __CPROVER_assert(0, "canary: ncol 1");
  if (in_ncol == 7 && g_moff > 0) __CPROVER_assert(0, "canary: ncol 7 (4+2+1), tail-aligned M");
  if (in_ncol == 15 && in_ldm == 1000 && g_roff > 0) __CPROVER_assert(0, "canary: ncol 15 (8+4+2+1), ldm 1000, tail-aligned rhs");
  if (in_ncol == CAP && in_ldm == LDMAX) __CPROVER_assert(0, "canary: largest block");
  if (in_ncol == 9 && in_ldm == 9 && g_moff == 0 && g_roff == 0) __CPROVER_assert(0, "canary: ncol 9, ldm == ncol, head-aligned");
}
