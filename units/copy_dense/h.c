#include "slu_mt_@p@defs.h"
/* ghosts: an entry (g_i, g_j) of the block; a position g_p = g_pi + g_pj*ldy of Y with its pre-state value; the whole pre-state of Y */
int_t g_i, g_j, g_p, g_pi, g_pj; @T@ g_y0, g_yall0[LD*NC];
/* inputs */
int_t in_M, in_N, in_ldx, in_ldy; @T@ in_X[LD*NC], in_Y[LD*NC];
void h_copy_dense(void) {
  @p@Copy_Dense_Matrix(in_M, in_N, in_X, in_ldx, in_Y, in_ldy);
  __CPROVER_assert(0, "canary: Copy_Dense_Matrix returns");
  if (in_M == LD && in_N == NC) __CPROVER_assert(0, "canary: full capacity reachable");
  if (in_M == 2 && in_ldx == 3 && in_ldy == 5 && in_N == 3 && g_pi == 3 && g_pj == 1) __CPROVER_assert(0, "canary: different leading dimensions, position in the gap");
  if (in_ldy == 1 && in_M == 1 && in_N == 2 && g_pj == LD*NC - 1) __CPROVER_assert(0, "canary: position far behind the last column");
  if (in_M == 0 && in_N == 2 && in_ldy == 0) __CPROVER_assert(0, "canary: empty block with zero leading dimension");
}
