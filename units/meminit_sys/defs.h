#define WF_USTACK (0 <= stack.top1 && stack.top1 <= stack.top2 && stack.top2 <= stack.size && stack.used == stack.top1 + (stack.size - stack.top2))
#define GHOST_STACK (g_size0 == stack.size && g_used0 == stack.used && g_top10 == stack.top1 && g_top20 == stack.top2)
#define o_ superlumt_options
/* a tuning value of sp_ienv(6..8): negative = fill factor, non-negative = absolute size */
#define FILLOK(v) ((-FB <= (v) && (v) <= -1) || (0 <= (v) && (v) <= NZB))
#define GUESS(v, annz) ((v) < 0 ? -(v) * (annz) : (v))
