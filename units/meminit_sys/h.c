#include "slu_mt_@p@defs.h"
extern float p@p@gstrf_MemInit(int_t, int_t, superlumt_options_t *, SuperMatrix *, SuperMatrix *, GlobalLU_t *);
extern ExpHeader *@p@expanders;
_Bool nondet_bool(void); extern ExpHeader in_exp[4];
/* ghost: allocation log, pre-state */
int g_abort_ok; int g_n_malloc, g_n_free, g_exits; size_t g_malloc_bytes; void *g_exp0; int_t g_nzlu_guess, g_nzu_guess, g_nzl_guess;
extern int g_locks, g_unlocks, g_lock_inits;
void *superlu_malloc(size_t size) {
  if (g_n_malloc < 1000000) g_n_malloc++; g_malloc_bytes = size;
#if TABLE_MAY_FAIL
  if (g_n_malloc == 1 && g_exp0 == 0) { if (nondet_bool()) { g_abort_ok = 1; return (void*)0; } return (void*)in_exp; }
#else
  if (g_n_malloc == 1 && g_exp0 == 0) return in_exp;   /* the expander table request (always the first one) succeeds in this unit */
#endif
  return nondet_bool() ? (void*)0 : __CPROVER_allocate(size, 0);
}
void superlu_free(void *p) { if (g_n_free < 1000000) g_n_free++; }
void exit(int c) { g_exits++; __CPROVER_assume(0); }
/* inputs */
int_t in_n, in_annz, in_maxsuper, in_rowblk, in_fill6, in_fill7, in_fill8;
superlumt_options_t in_o; SuperMatrix in_L, in_U; GlobalLU_t in_Glu; ExpHeader in_exp[4];
int_t sp_ienv(int_t ispec) { int_t r; switch (ispec) { case 3: return in_maxsuper; case 4: return in_rowblk; case 6: return in_fill6; case 7: return in_fill7; case 8: return in_fill8; } return r; }
float g_ret;
void h_meminit_sys(void) {
  g_ret = p@p@gstrf_MemInit(in_n, in_annz, &in_o, &in_L, &in_U, &in_Glu);
  __CPROVER_assert(0, "canary: MemInit (system malloc) returns");
  if (g_ret == 0.0f) {
    __CPROVER_assert(0, "canary: success reachable");
    /* every array handed to the factorization is live memory of the advertised length */
    if (in_n > 0) { in_Glu.xsup[in_n] = 0; in_Glu.xsup_end[in_n-1] = 0; in_Glu.supno[in_n] = 0; in_Glu.xlsub[in_n] = 0; in_Glu.xlsub_end[in_n-1] = 0;
                    in_Glu.xlusup[in_n] = 0; in_Glu.xlusup_end[in_n-1] = 0; in_Glu.xusub[in_n] = 0; in_Glu.xusub_end[in_n-1] = 0; }
    if (in_Glu.nzumax < g_nzu_guess) __CPROVER_assert(0, "canary: success after a halving retry");
  }
  if (g_ret != 0.0f) __CPROVER_assert(0, "canary: failure return reachable");
}
