#include <stdlib.h>
#include "slu_mt_@p@defs.h"
extern int g_n_malloc, g_n_free;
/* inputs: array arguments are arbitrary pointer VALUES, except col_to_sup (heap array of exactly n+1 entries, contents arbitrary) */
SuperMatrix in_A; int_t in_m, in_n, in_nnz; @T@ *in_nzval; int_t *in_p1, *in_p2, *in_p3, *in_p4, *in_p5, *in_p6, *in_p7;
Stype_t in_stype; Dtype_t in_dtype; Mtype_t in_mtype;
/* ghosts: the map and its last entry before the call */
int_t *g_col_to_sup, g_last;
static void make_map(void) {
  __CPROVER_assume(0 <= in_n && in_n <= NMAX);
  g_col_to_sup = malloc(((size_t)in_n + 1) * sizeof(int_t));
  __CPROVER_assume(g_col_to_sup != 0);
  g_last = g_col_to_sup[in_n];
}
void h_Matrix(void) {
  make_map();
  @p@Create_SuperNode_Matrix(&in_A, in_m, in_n, in_nnz, in_nzval, in_p1, in_p2, in_p3, g_col_to_sup, in_p4, in_stype, in_dtype, in_mtype);
  __CPROVER_assert(0, "canary: Create_SuperNode_Matrix returns");
  if (in_n == 0) __CPROVER_assert(0, "canary: order 0 reachable");
  if (in_n == NMAX && g_last == 2) __CPROVER_assert(0, "canary: n = NMAX with 3 supernodes reachable");
  free(in_A.Store); free(g_col_to_sup);   /* Store is the only thing the constructor left allocated (cbmc --memory-leak-check) */
}
void h_Permuted(void) {
  make_map();
  @p@Create_SuperNode_Permuted(&in_A, in_m, in_n, in_nnz, in_nzval, in_p1, in_p2, in_p3, in_p4, in_p5, g_col_to_sup, in_p6, in_p7,
                              in_stype, in_dtype, in_mtype);
  __CPROVER_assert(0, "canary: Create_SuperNode_Permuted returns");
  if (in_n == 0) __CPROVER_assert(0, "canary: order 0 reachable");
  if (in_n == NMAX && g_last == 2) __CPROVER_assert(0, "canary: n = NMAX with 3 supernodes reachable");
  free(in_A.Store); free(g_col_to_sup);
}
