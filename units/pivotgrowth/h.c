#include "slu_mt_@p@defs.h"
int_t g_j;
SuperMatrix in_A, in_L, in_U; NCformat in_Astore; SCPformat in_Lstore; NCPformat in_Ustore;
int_t in_ncols, in_perm_c[CAP], in_Acolptr[CAP+1], in_Arowind[NZ], in_Ucolbeg[CAP], in_Ucolend[CAP], in_Urowind[NZ];
int_t in_Lnzbeg[CAP+1], in_Lnzend[CAP+1], in_Lrowind[LC], in_Lrowbeg[CAP+1], in_Lrowend[CAP+1], in_col_to_sup[CAP+1], in_supbeg[CAP+1], in_supend[CAP+1];
@T@ in_Aval[NZ], in_Uval[NZ], in_Lval[LUC];
@R@ g_result;
double @r@lamch_(char *c) { return @sfmin@; }
void h_growth(void) {
  in_A.Store = &in_Astore; in_Astore.nzval = in_Aval; in_Astore.rowind = in_Arowind; in_Astore.colptr = in_Acolptr; in_A.nrow = in_A.ncol;
  in_U.Store = &in_Ustore; in_Ustore.nzval = in_Uval; in_Ustore.rowind = in_Urowind; in_Ustore.colbeg = in_Ucolbeg; in_Ustore.colend = in_Ucolend;
  in_L.Store = &in_Lstore; in_Lstore.nzval = in_Lval; in_Lstore.nzval_colbeg = in_Lnzbeg; in_Lstore.nzval_colend = in_Lnzend; in_Lstore.rowind = in_Lrowind;
  in_Lstore.rowind_colbeg = in_Lrowbeg; in_Lstore.rowind_colend = in_Lrowend; in_Lstore.col_to_sup = in_col_to_sup; in_Lstore.sup_to_colbeg = in_supbeg; in_Lstore.sup_to_colend = in_supend;
  g_result = @p@PivotGrowth(in_ncols, &in_A, in_perm_c, &in_L, &in_U);
  __CPROVER_assert(0, "canary: PivotGrowth returns");
  if (in_Lstore.nsuper >= 1 && in_ncols == in_A.ncol) __CPROVER_assert(0, "canary: several supernodes, all columns");
  if (in_Lrowend[in_supbeg[0]] - in_Lrowbeg[in_supbeg[0]] < in_supend[0] - in_supbeg[0] && in_ncols >= in_supend[0]) __CPROVER_assert(0, "canary: supernode with fewer rows than columns");
}
