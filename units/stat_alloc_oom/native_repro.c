/* native witness for unit stat_alloc_oom (C14): StatAlloc does not test the results of its requests for utime[] and ops[]
 * (the two plain SUPERLU_MALLOC lines of StatAlloc in util.c; only procstat[] is tested, intCalloc exits by itself).  When one of them fails StatAlloc returns normally with a
 * NULL array and the next statement of every driver, StatInit, writes through it (first loop of StatInit) -- a crash instead of the
 * library's documented out-of-memory report (SUPERLU_ABORT / USER_ABORT hook).
 * The k-th call of malloc is made to fail through the linker's --wrap (superlu_malloc in util.c calls malloc).
 * build: gcc -g -fsanitize=address,undefined -D__PTHREAD -DAdd_ -DUSE_VENDOR_BLAS -I/repo/SRC native_repro.c /repo/SRC/*.c -Wl,--wrap=malloc -lblas -lpthread -lm
 * run:   ./a.out 2   (fail the 2nd request = utime[])   or   ./a.out 3   (ops[])
 * exit status: 0 = the failure was reported through the abort hook / no NULL array handed back; 1 = StatAlloc returned a NULL array
 *              (then StatInit is called like the drivers do: sanitizer report / SIGSEGV). */
#include <stdlib.h>
#include "slu_mt_ddefs.h"
void *__real_malloc(size_t);
static int countdown = -1;
void *__wrap_malloc(size_t n) { if (countdown > 0 && --countdown == 0) return NULL; return __real_malloc(n); }
int main(int argc, char **argv) {
  Gstat_t G; int k = argc > 1 ? atoi(argv[1]) : 2, bad = 0;
  countdown = k;                       /* request 1 = panel_histo (intCalloc), 2 = utime, 3 = ops, 4 = procstat */
  StatAlloc(4, 2, 2, 2, &G);
  countdown = -1;
  printf("StatAlloc returned: panel_histo=%p utime=%p ops=%p procstat=%p\n", (void *)G.panel_histo, (void *)G.utime, (void *)G.ops, (void *)G.procstat);
  if (!G.utime || !G.ops || !G.procstat || !G.panel_histo) { printf("WITNESS: StatAlloc handed back a NULL array after a failed allocation\n"); bad = 1; fflush(stdout); }
  StatInit(4, 2, &G);                  /* what pdgssv / pdgssvx do next */
  return bad;
}
