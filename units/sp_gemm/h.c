#include "slu_mt_@p@defs.h"
int g_calls, g_ok; @T@ in_b[64], in_c[64]; SuperMatrix in_A; char in_transa, in_transb; int in_m, in_n, in_k, in_ldb, in_ldc; @T@ in_alpha, in_beta;
static int same(@T@ *u, @T@ *v) { return __CPROVER_same_object(u, v) && u == v; }
int sp_@p@gemv(char *trans, @T@ alpha, SuperMatrix *A, @T@ *x, int incx, @T@ beta, @T@ *y, int incy) {
  /* recording contract: column g_calls of B into column g_calls of C, scalars and trans passed through */
  if (!(x == &in_b[in_ldb * g_calls] && y == &in_c[in_ldc * g_calls] && trans == &in_transa && A == &in_A && incx == 1 && incy == 1)) g_ok = 0;
#if @cplx@
  if (!(alpha.r == in_alpha.r && alpha.i == in_alpha.i && beta.r == in_beta.r && beta.i == in_beta.i)) g_ok = 0;
#else
  if (!(alpha == in_alpha && beta == in_beta)) g_ok = 0;
#endif
  g_calls++; return 0;
}
void h_gemm(void) {
#if @cplx@
  __CPROVER_assume(in_alpha.r == in_alpha.r && in_alpha.i == in_alpha.i && in_beta.r == in_beta.r && in_beta.i == in_beta.i);
#else
  __CPROVER_assume(in_alpha == in_alpha && in_beta == in_beta);
#endif
  sp_@p@gemm(&in_transa, in_m, in_n, in_k, in_alpha, &in_A, in_b, in_ldb, in_beta, in_c, in_ldc);
  __CPROVER_assert(0, "canary: sp_gemm returns");
  if (g_calls >= 2 && in_ldb != in_ldc) __CPROVER_assert(0, "canary: several columns, different leading dimensions");
}
