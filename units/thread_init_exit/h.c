#include <stdlib.h>
#include "slu_mt_@p@defs.h"
int_t g_cfg_meminit_info, g_n_parinit, g_n_parfin;
SuperMatrix in_A, in_L, in_U; NCPformat in_Astore; superlumt_options_t in_o; pxgstrf_shared_t in_shared; Gstat_t in_Gstat;
int_t in_perm_c[CAP], in_perm_r[CAP], in_info; p@p@gstrf_threadarg_t *g_ret;
/* callees: allocation-accurate executable contracts */
int_t *intMalloc(int_t n) { int_t *p = malloc((size_t)(n > 0 ? n : 1) * sizeof(int_t)); __CPROVER_assume(p != NULL); return p; }
int_t *intCalloc(int_t n) { int_t *p = calloc((size_t)(n > 0 ? n : 1), sizeof(int_t)); __CPROVER_assume(p != NULL); return p; }
void *superlu_malloc(size_t n) { void *p = malloc(n ? n : 1); __CPROVER_assume(p != NULL); return p; }
void superlu_free(void *p) { free(p); }
void ifill(int_t *a, int_t alen, int_t v) { if (alen > 0) __CPROVER_havoc_slice(a, (size_t)alen * sizeof(int_t)); }
void pxgstrf_relax_snode(const int_t n, superlumt_options_t *o, pxgstrf_relax_t *r) { }
int_t ParallelInit(int_t n, pxgstrf_relax_t *r, superlumt_options_t *o, pxgstrf_shared_t *s) {
  g_n_parinit++;
  s->lu_locks = malloc(NO_GLU_LOCKS * sizeof(mutex_t)); s->spin_locks = malloc(4); s->pan_status = malloc(4); s->fb_cols = malloc(4);
  __CPROVER_assume(s->lu_locks && s->spin_locks && s->pan_status && s->fb_cols);
  return 0;
}
int_t @p@PresetMap(const int_t n, SuperMatrix *A, pxgstrf_relax_t *r, superlumt_options_t *o, GlobalLU_t *Glu) {
  Glu->map_in_sup = malloc(4); __CPROVER_assume(Glu->map_in_sup != NULL); return 1;
}
int_t ParallelFinalize(pxgstrf_shared_t *s) {
  g_n_parfin++;
  free((void *)s->lu_locks); free((void *)s->spin_locks); free(s->pan_status); free(s->fb_cols); free(s->Glu->map_in_sup);
  return 0;
}
float p@p@gstrf_MemInit(int_t n, int_t annz, superlumt_options_t *o, SuperMatrix *L, SuperMatrix *U, GlobalLU_t *Glu) {
  return (float)g_cfg_meminit_info;    /* failure / size query: allocates nothing that survives (see units meminit_*) */
}
void h_thread_init(void) {
  in_A.Store = &in_Astore; in_o.perm_c = in_perm_c; in_o.perm_r = in_perm_r;
  g_ret = p@p@gstrf_thread_init(&in_A, &in_L, &in_U, &in_o, &in_shared, &in_Gstat, &in_info);
  __CPROVER_assert(0, "canary: thread_init returns");
}
