/* defs.h -- vocabulary shared by the clause file `spec` and the harness `h.c` of the sptrsv_* units.
 * Branch under proof: BR = 0 (L,N)  1 (U,N)  2 (L,T)  3 (U,T)  4 (L,C: complex only)  5 (U,C: complex only).
 * All names expand to the harness objects in_* (the arrays the accessor macros L_FST_SUPC ... U_SUB of slu_mt_util.h read). */
#ifndef SPTRSV_DEFS_H
#define SPTRSV_DEFS_H
#define CH(p)      (*(unsigned char *)(p))
#define IS(p,a,b)  (CH(p) == (a) || CH(p) == (b))
#define NN         (in_L.nrow)                 /* order n */
#define NSUPER     (in_Lstore.nsuper)          /* number of the last supernode */
#define XS(k)      in_xsup[k]                  /* L_FST_SUPC(k)  */
#define XE(k)      in_xsup_end[k]              /* L_LAST_SUPC(k) */
#define NSUPC(k)   (XE(k) - XS(k))
#define LB(k)      in_xlsub[XS(k)]             /* L_SUB_START(fsupc) */
#define LEND(k)    in_xlsub_end[XS(k)]         /* L_SUB_END(fsupc)   */
#define NSUPR(k)   (LEND(k) - LB(k))
#define NROW(k)    (NSUPR(k) - NSUPC(k))
#define NZB(k)     in_xlusup[XS(k)]            /* L_NZ_START(fsupc)  */
#define MULTI(k)   (NSUPC(k) > 1)
#define SUPOF(j)   in_supno[j]
#define LOWER      (BR == 0 || BR == 2 || BR == 4)
#define ASCENDING  (BR == 0 || BR == 3 || BR == 5)    /* supernodes 0..nsuper; else nsuper..0 */
/* "same value" for floating point entries that were not written (NaN == NaN here: arithmetic on earlier entries may have produced one) */
#if CPLX
#define SAMEV(a,b) (SAMER((a).r,(b).r) && SAMER((a).i,(b).i))
#define ISZERO(a)  ((a).r == 0 && (a).i == 0)
#else
#define SAMEV(a,b) SAMER(a,b)
#define ISZERO(a)  ((a) == 0)
#endif
/* NaN markers: POIS = "this x / work entry is poisoned" (real part NaN), ISNANV = "this matrix entry holds a NaN" */
#if CPLX
#define POIS(a)    ((a).r != (a).r)
#define ISNANV(a)  ((a).r != (a).r || (a).i != (a).i)
#else
#define POIS(a)    ((a) != (a))
#define ISNANV(a)  ((a) != (a))
#endif
#define SAMER(a,b) ((a) == (b) || ((a) != (a) && (b) != (b)))
// "no entry is skipped": a universally chosen stored entry (position g_p of column g_c) that holds a NaN must leave a NaN in the x entry it updates
#if BR == 0
// L, no transpose: the entries below the diagonal of a single-column supernode (multi-column blocks go to the kernels); target row g_r
#define PVALID (0 <= g_c && g_c < NN && !MULTI(SUPOF(g_c)) && NZB(SUPOF(g_c)) < g_p && g_p < NZB(SUPOF(g_c)) + NSUPR(SUPOF(g_c)))
#define PVAL in_lval[g_p]
#define PTARGET g_r
#define PBIND (g_r == in_lsub[LB(SUPOF(g_c)) + (g_p - NZB(SUPOF(g_c)))])
#define PCAP LUC
#elif BR == 1
// U, no transpose: every entry of U's column g_c; target row g_r = U_SUB(g_p)
#define PVALID (0 <= g_c && g_c < NN && in_ucolbeg[g_c] <= g_p && g_p < in_ucolend[g_c])
#define PVAL in_uval[g_p]
#define PTARGET g_r
#define PBIND (g_r == in_usub[g_p])
#define PCAP UC
#elif BR == 2 || BR == 4
// L, transposed: every entry of column g_c below the diagonal block; target x[g_c]
#define PVALID (0 <= g_c && g_c < NN && in_xlusup[g_c] + NSUPC(SUPOF(g_c)) <= g_p && g_p < in_xlusup_end[g_c])
#define PVAL in_lval[g_p]
#define PTARGET g_c
#define PBIND 1
#define PCAP LUC
#else
// U, transposed: every entry of U's column g_c; target x[g_c]
#define PVALID (0 <= g_c && g_c < NN && in_ucolbeg[g_c] <= g_p && g_p < in_ucolend[g_c])
#define PVAL in_uval[g_p]
#define PTARGET g_c
#define PBIND 1
#define PCAP UC
#endif
#define PHYP (PVALID && ISNANV(PVAL))
#endif
