#include "slu_mt_@p@defs.h"
#include "defs.h"
/* Harness of the sptrsv_* units: sp_?trsv on a symbolic, well-formed supernodal L (SCP) / column U (NCP) of order <= CAP.
 * inputs in_*, ghosts g_*.  The dense kernels are executable contracts (below): they ASSERT that they are handed exactly the
 * diagonal / rectangular block of a supernode, in dependency order, at most once per supernode, and havoc what the kernel writes. */
char in_uplo[2], in_trans[2], in_diag[2]; SuperMatrix in_L, in_U; SCPformat in_Lstore; NCPformat in_Ustore; @T@ in_x[CAP]; int_t in_info;
@T@ in_lval[LUC]; int_t in_lsub[LC], in_xlusup[CAP+1], in_xlusup_end[CAP+1], in_xlsub[CAP+1], in_xlsub_end[CAP+1], in_supno[CAP+1], in_xsup[CAP+2], in_xsup_end[CAP+1];
@T@ in_uval[UC]; int_t in_usub[UC], in_ucolbeg[CAP+1], in_ucolend[CAP+1];
/* ghosts: work array handed out by ?Calloc; universally chosen supernode g_s, x position g_j, work position g_w; call log */
@T@ g_work[CAP]; int_t g_s, g_j, g_w, g_ret;
/* universally chosen stored entry (column g_c, position g_p, row g_r) and work position g_t (row g_r2) for the NaN-propagation clauses */
int_t g_c, g_p, g_r, g_t, g_r2; int g_work_poison;
int g_n_alloc, g_n_free, g_n_tri, g_n_mv, g_tri_hits, g_mv_hits, g_zero_first, g_xerbla_calls; int_t g_last_tri, g_last_mv;
@T@ nondet_@T@(void);
#define REP8(X) X(0) X(1) X(2) X(3) X(4) X(5) X(6) X(7)
_Static_assert(CAP <= 8, "REP8 covers every extent");

int xerbla_(char *s, int *i) { g_xerbla_calls++; return 0; }
/* work = ?Calloc(L->nrow): the one zero-filled work vector of the routine (pool object g_work, legacy frame checks need a named object) */
@T@ *@T@Calloc(int_t n) {
  __CPROVER_assert(n == in_L.nrow && n <= CAP, "work: L->nrow entries requested");
  __CPROVER_assert(g_n_alloc == 0, "work: allocated once");
  g_n_alloc++;
#if @cplx@
#define ZERO_W(k) g_work[k].r = 0; g_work[k].i = 0;
#else
#define ZERO_W(k) g_work[k] = 0;
#endif
#define ZERO_WK(k) if ((k) < CAP) { ZERO_W(k) }
  REP8(ZERO_WK)
  return g_work;
}
void superlu_free(void *p) { __CPROVER_assert(p == (void *)g_work && g_n_alloc == 1 && g_n_free == 0, "work released once, after its allocation"); g_n_free++; }
#if @cplx@
/* complex division (SRC/?complex.c): only the one-column supernodes of the U solves divide, x[fsupc] := x[fsupc] / d with d the diagonal
 * entry Lval[L_NZ_START(fsupc)] (its conjugate in the 'C' branch) -- asserted by VALUE (the 'C' branch passes a temporary); result havocked */
void @p@_div(@T@ *c, @T@ *a, @T@ *b) {
  __CPROVER_assert(c == a && __CPROVER_same_object(a, in_x), "div: x entry divided in place");
  long f = a - in_x;
  __CPROVER_assert(0 <= f && f < NN, "div: x offset is a column");
  int_t s = SUPOF(f);
  __CPROVER_assert(f == XS(s) && NSUPC(s) == 1, "div: the entry of a one-column supernode");
  __CPROVER_assert(0 <= NZB(s) && NZB(s) < LUC, "div: diagonal entry inside Lval");
  @T@ d = in_lval[NZB(s)];
#if BR == 5 || BR == 4
  __CPROVER_assert((d.r != d.r || b->r == d.r) && (d.i != d.i || b->i == -d.i), "div: divisor is the conjugate of the supernode's diagonal entry");
#else
  __CPROVER_assert((d.r != d.r || b->r == d.r) && (d.i != d.i || b->i == d.i), "div: divisor is the supernode's diagonal entry");
#endif
  int p = POIS(*a); @T@ v = nondet_@T@(); __CPROVER_assume(!p || POIS(v)); *c = v;   /* NaN numerator -> NaN quotient */
}
#endif

/* ---- triangular solve with the nsupc x nsupc diagonal block of ONE supernode: x[fsupc .. fsupc+nsupc) := inv(op(T)) x[...] ---- */
static void tri_model(char ul, char tr, char dg, long n, long lda, @T@ *A, @T@ *x, int incx) {
  __CPROVER_assert(__CPROVER_same_object(x, in_x) && __CPROVER_same_object(A, in_lval), "tri: vector inside x, matrix inside Lval");
  long aoff = A - in_lval, xoff = x - in_x;
  __CPROVER_assert(0 <= xoff && xoff < NN, "tri: x offset is a column");
  int_t s = SUPOF(xoff);
  __CPROVER_assert(xoff == XS(s), "tri: vector is &x[fsupc] of a supernode");
  __CPROVER_assert(n == NSUPC(s) && n > 1, "tri: order is nsupc (> 1) of that supernode");
  __CPROVER_assert(lda == NSUPR(s), "tri: leading dimension is nsupr of that supernode");
  __CPROVER_assert(aoff == NZB(s), "tri: matrix is &Lval[L_NZ_START(fsupc)]");
  __CPROVER_assert(incx == 1, "tri: unit stride");
  __CPROVER_assert(lda >= n && 0 <= aoff && aoff + lda * (n - 1) + n <= LUC && xoff + n <= NN, "tri: extents inside Lval and x");
#if BR == 0
  __CPROVER_assert(ul == 'L' && tr == 'N' && dg == 'U', "tri: lower, no transpose, unit diagonal");
  __CPROVER_assert(g_last_mv == g_last_tri, "tri: the block update of the previous supernode was done");
#elif BR == 1
  __CPROVER_assert(ul == 'U' && tr == 'N' && dg == 'N', "tri: upper, no transpose, non-unit diagonal");
#elif BR == 2
  __CPROVER_assert(ul == 'L' && tr == 'T' && dg == 'U', "tri: lower, transpose, unit diagonal");
#elif BR == 3
  __CPROVER_assert(ul == 'U' && tr == 'T' && dg == 'N', "tri: upper, transpose, non-unit diagonal");
#elif BR == 4
  __CPROVER_assert(ul == 'L' && (tr == 'C' || tr == 'c') && dg == 'U', "tri: lower, conjugate transpose (the caller's own character), unit diagonal");
#else
  __CPROVER_assert(ul == 'U' && (tr == 'C' || tr == 'c') && dg == 'N', "tri: upper, conjugate transpose (the caller's own character), non-unit diagonal");
#endif
#if ASCENDING
  __CPROVER_assert(s > g_last_tri, "tri: supernodes in ascending order, none twice");
#else
  __CPROVER_assert(s < g_last_tri, "tri: supernodes in descending order, none twice");
#endif
  g_last_tri = s; g_n_tri++;
  if (s == g_s) g_tri_hits++;
  if (ISZERO(x[0]) && !ISZERO(x[1])) g_zero_first = 1;      /* leading entry of the block zero, a later one not */
/* the kernel overwrites x[0..n); an entry that was NaN stays NaN (x_k := (x_k - sum) / d) */
#define HAVOC_X(k) if ((k) < n && !POIS(x[k])) x[k] = nondet_@T@();
  REP8(HAVOC_X)
}
/* ---- work[0..nrow) += B * x[fsupc .. fsupc+nsupc), B the nrow x nsupc block below the diagonal block ---- */
static void mv_model(long m, long n, long lda, @T@ *A, @T@ *x, @T@ *y) {
  __CPROVER_assert(__CPROVER_same_object(x, in_x) && __CPROVER_same_object(A, in_lval) && y == g_work, "mv: x inside x, matrix inside Lval, y = &work[0]");
  long aoff = A - in_lval, xoff = x - in_x;
  __CPROVER_assert(0 <= xoff && xoff < NN, "mv: x offset is a column");
  int_t s = SUPOF(xoff);
  __CPROVER_assert(xoff == XS(s) && n == NSUPC(s) && n > 1, "mv: x is &x[fsupc], n = nsupc");
  __CPROVER_assert(lda == NSUPR(s) && m == NROW(s), "mv: leading dimension nsupr, m = nsupr - nsupc");
  __CPROVER_assert(aoff == NZB(s) + n, "mv: matrix is &Lval[L_NZ_START(fsupc) + nsupc]");
  __CPROVER_assert(m >= 0 && 0 <= aoff && (m == 0 || aoff + lda * (n - 1) + m <= LUC) && xoff + n <= NN && m <= NN, "mv: extents inside Lval, x, work");
  __CPROVER_assert(s == g_last_tri && g_last_mv < s, "mv: follows the triangular solve of the same supernode, once");
  __CPROVER_assert(!(0 <= g_w && g_w < m) || ISZERO(y[g_w]), "mv: work[0..nrow) is zero on entry (the kernel accumulates)");
  g_last_mv = s; g_n_mv++;
  if (s == g_s) g_mv_hits++;
#define HAVOC_Y(k) if ((k) < m) y[k] = nondet_@T@();
  REP8(HAVOC_Y)
  if (s == g_s && 0 <= g_t && g_t < m && POIS(y[g_t])) g_work_poison = 1;     /* the kernel may leave a NaN in work[g_t] */
}
#if @cplx@
#define ONE(a) ((a)->r == 1 && (a)->i == 0)
#else
#define ONE(a) (*(a) == 1)
#endif
/* vendor BLAS interface (USE_VENDOR_BLAS) */
int @p@trsv_(char *uplo, char *trans, char *diag, int *n, @T@ *A, int *lda, @T@ *x, int *incx) {
#if !defined(USE_VENDOR_BLAS) && BR <= 1
  __CPROVER_assert(0, "build without USE_VENDOR_BLAS: the no-transpose branches do not call the BLAS entry points");
#endif
  tri_model(*uplo, *trans, *diag, *n, *lda, A, x, *incx); return 0; }
int @p@gemv_(char *trans, int *m, int *n, @T@ *alpha, @T@ *A, int *lda, @T@ *x, int *incx, @T@ *beta, @T@ *y, int *incy) {
  __CPROVER_assert(*trans == 'N' && *incx == 1 && *incy == 1 && ONE(alpha) && ONE(beta), "gemv: no transpose, strides 1, alpha = beta = 1 (work += B*x)");
  mv_model(*m, *n, *lda, A, x, y); return 0;
}
/* the library's own kernels (?myblas2.c), used when USE_VENDOR_BLAS is not defined */
#ifdef USE_VENDOR_BLAS
#define OWN_KERNEL __CPROVER_assert(0, "build with USE_VENDOR_BLAS: the library's own kernels are not called");
#else
#define OWN_KERNEL
#endif
void @p@lsolve(int_t ldm, int_t ncol, @T@ *M, @T@ *rhs) { OWN_KERNEL tri_model('L', 'N', 'U', ncol, ldm, M, rhs, 1); }
void @p@usolve(int_t ldm, int_t ncol, @T@ *M, @T@ *rhs) { OWN_KERNEL tri_model('U', 'N', 'N', ncol, ldm, M, rhs, 1); }
void @p@matvec(int_t ldm, int_t nrow, int_t ncol, @T@ *M, @T@ *vec, @T@ *Mxvec) { OWN_KERNEL mv_model(nrow, ncol, ldm, M, vec, Mxvec); }

void h_sptrsv(void) {
  in_L.Store = &in_Lstore; in_U.Store = &in_Ustore;
  in_Lstore.nzval = in_lval; in_Lstore.nzval_colbeg = in_xlusup; in_Lstore.nzval_colend = in_xlusup_end; in_Lstore.rowind = in_lsub;
  in_Lstore.rowind_colbeg = in_xlsub; in_Lstore.rowind_colend = in_xlsub_end; in_Lstore.col_to_sup = in_supno;
  in_Lstore.sup_to_colbeg = in_xsup; in_Lstore.sup_to_colend = in_xsup_end;
  in_Ustore.nzval = in_uval; in_Ustore.rowind = in_usub; in_Ustore.colbeg = in_ucolbeg; in_Ustore.colend = in_ucolend;
  g_ret = sp_@p@trsv(in_uplo, in_trans, in_diag, &in_L, &in_U, in_x, &in_info);
  __CPROVER_assert(0, "canary: sp_trsv returns");
  if (NSUPER >= 1) __CPROVER_assert(0, "canary: at least two supernodes");
  if (MULTI(g_s) && NROW(g_s) > 0) __CPROVER_assert(0, "canary: supernode with several columns and rows below the diagonal block");
  if (g_zero_first) __CPROVER_assert(0, "canary: block solved whose first x entry is zero while a later one is not");
  if (PHYP) __CPROVER_assert(0, "canary: a stored entry of the branch holds a NaN");
#if BR == 0
  if (g_work_poison) __CPROVER_assert(0, "canary: the block update leaves a NaN in work[]");
#endif
  if (g_n_tri >= 2) __CPROVER_assert(0, "canary: two multi-column supernodes");
  if (NSUPER >= 1 && !MULTI(0) && MULTI(1)) __CPROVER_assert(0, "canary: single-column supernode followed by a multi-column one");
}
