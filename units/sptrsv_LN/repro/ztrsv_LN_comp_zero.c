/* Native reproduction: sp_ztrsv / sp_ctrsv ("L","N","U") give a wrong solution when a single-column supernode with
 * off-diagonal entries precedes two multi-column supernodes that have rows below their diagonal block.
 * Cause (SRC/zsp_blas2.c, branch "Form x := inv(L)*x"): the single-column loop uses the local `comp_zero` as scratch
 *     zz_mult(&comp_zero, &x[fsupc], &Lval[luptr]);          -> comp_zero is no longer {0,0}
 * and the scatter loop of the multi-column case then "zeroes" the work vector with it
 *     work[i] = comp_zero;
 * so the next ?gemv_/zmatvec (which accumulates: beta = 1) starts from garbage.
 * Found by unit sptrsv_LN[z]: obligation sp_ztrsv.loop3:invariant_step ([work_rezeroed]).
 * build:  gcc -I/repo/SRC -D__PTHREAD -DAdd_ ztrsv_LN_comp_zero.c /tmp/unitsM/b/SRC/libsuperlu_mt_PTHREAD.a -lopenblas -lpthread -lm  */
#include <stdio.h>
#include <math.h>
#include "slu_mt_zdefs.h"
#define N 6
int main(void) {
  /* supernodes: {0} rows 0,1 | {1,2} rows 1,2,5 | {3,4} rows 3,4,5 | {5} rows 5 */
  int_t sup_beg[] = {0, 1, 3, 5}, sup_end[] = {1, 3, 5, 6}, col_to_sup[] = {0, 1, 1, 2, 2, 3, 3};
  int_t rowind[] = {0, 1,   1, 2, 5,   3, 4, 5,   5};
  int_t rbeg[] = {0, 2, 2, 5, 5, 8}, rend[] = {2, 5, 5, 8, 8, 9};
  int_t vbeg[] = {0, 2, 5, 8, 11, 14}, vend[] = {2, 5, 8, 11, 14, 15};
  double re[] = {1, 2,   1, 3, 5,   9, 1, 7,   1, 2, 4,   9, 1, 6,   1};   /* 9 = upper part of a block (belongs to U, ignored by the unit-lower solve) */
  doublecomplex val[15], x[N], ref[N], Ld[N][N];
  int_t ucolbeg[N] = {0}, ucolend[N] = {0}, urow[1] = {0}; doublecomplex uval[1];
  SCPformat Ls = {15, 3, val, vbeg, vend, rowind, rbeg, rend, col_to_sup, sup_beg, sup_end};
  NCPformat Us = {0, uval, urow, ucolbeg, ucolend};
  SuperMatrix L = {SLU_SCP, SLU_Z, SLU_TRLU, N, N, &Ls}, U = {SLU_NCP, SLU_Z, SLU_TRU, N, N, &Us};
  int_t info, i, j, k, s;
  for (i = 0; i < 15; i++) { val[i].r = re[i]; val[i].i = 0.5 * re[i]; }
  /* dense unit-lower reference built from the same structure */
  for (i = 0; i < N; i++) for (j = 0; j < N; j++) { Ld[i][j].r = Ld[i][j].i = 0; }
  for (s = 0; s <= 3; s++) for (j = sup_beg[s]; j < sup_end[s]; j++) for (k = 0; k < rend[sup_beg[s]] - rbeg[sup_beg[s]]; k++) {
    i = rowind[rbeg[sup_beg[s]] + k]; if (i > j) Ld[i][j] = val[vbeg[j] + k];
  }
  for (i = 0; i < N; i++) { x[i].r = 1; x[i].i = 0; ref[i] = x[i]; }
  for (j = 0; j < N; j++) for (i = j + 1; i < N; i++) {
    ref[i].r -= Ld[i][j].r * ref[j].r - Ld[i][j].i * ref[j].i; ref[i].i -= Ld[i][j].r * ref[j].i + Ld[i][j].i * ref[j].r;
  }
  sp_ztrsv("L", "N", "U", &L, &U, x, &info);
  printf("info = %d\n", (int)info);
  double err = 0;
  for (i = 0; i < N; i++) {
    printf("x[%d] = (%g, %g)   reference (%g, %g)\n", (int)i, x[i].r, x[i].i, ref[i].r, ref[i].i);
    err = fmax(err, hypot(x[i].r - ref[i].r, x[i].i - ref[i].i));
  }
  printf("max |x - reference| = %g  -> %s\n", err, err > 1e-9 ? "WRONG SOLUTION (defect reproduced)" : "ok");
  return err > 1e-9;
}
