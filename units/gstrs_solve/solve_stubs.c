/* solve_stubs.c -- executable contracts of the callees of ?gstrs (ASSUMED, see "trusted"):
 *   ?trsm_ / ?gemm_ : assert that the arguments are exactly the dense block of ONE supernode s of L (found from the
 *                     right-hand-side pointer b = &B[first column of s]) and that every extent lies inside its array;
 *                     record the order of the calls (ghosts), then overwrite exactly the block they are documented to write.
 *   sp_?trsv        : asserts factor/vector/flag arguments, overwrites the n entries of the vector.
 *   allocators      : ?Calloc / ?Malloc = calloc / malloc that do not fail (the library aborts on NULL); counted.   */
#include <stdlib.h>
#include "slu_mt_@p@defs.h"
extern SuperMatrix in_L, in_U, in_B; extern SCPformat in_Lstore; extern NCPformat in_Ustore; extern DNformat in_Bstore;
extern int_t in_xsup[CAP+1], in_xsupend[CAP+1], in_supno[CAP+1], in_Lrowbeg[CAP+1], in_Lrowend[CAP+1], in_Lnzbeg[CAP+1], in_Lrow[LC], in_info;
extern @T@ in_Lval[LUC], in_Bval[CAP*2];
/* ghosts: g_s = the supernode the call counters watch (chosen by the solver, i.e. any); g_lastL/g_lastG/g_lastU = supernode of the
 * latest lower-triangular solve / update / upper-triangular solve; g_work/g_soln = the two work arrays of the routine */
int_t g_s, g_r, g_c, g_lastL, g_lastG, g_lastU; int g_trsmL, g_trsmU, g_gemm, g_trsv, g_n_malloc, g_n_free;
@T@ *g_work, *g_soln;
#if @cplx@
#define IS_ONE(p) ((p)->r == 1.0 && (p)->i == 0.0)
#else
#define IS_ONE(p) (*(p) == 1.0)
#endif
/* overwrite len (<= CAP <= 8) entries of up to two columns with arbitrary values.  No loop (legacy instrumentation wants none);
 * written as ARRAY[index] on the named array because cbmc turns stores through an offset pointer into costly byte-level updates. */
@T@ nondet_value(void);
#if CAP > 8
#error "HAVOC_COL is unrolled for CAP <= 8"
#endif
#define HV1(A, at, r, len) if ((r) < (len)) (A)[(at) + (r)] = nondet_value();
#define HAVOC_COL(A, at, len) { HV1(A,at,0,len) HV1(A,at,1,len) HV1(A,at,2,len) HV1(A,at,3,len) HV1(A,at,4,len) HV1(A,at,5,len) HV1(A,at,6,len) HV1(A,at,7,len) }
#define HAVOC2(A, at, ld, len, ncols) { if ((ncols) >= 1) HAVOC_COL(A, (at), (len)) if ((ncols) >= 2) HAVOC_COL(A, (at) + (ld), (len)) }

void verif_abort(char *msg) { __CPROVER_assume(0); }
int sprintf(char *s, const char *f, ...) { return 0; }
int printf(const char *f, ...) { return 0; }
int xerbla_(char *s, int *i) { __CPROVER_assert(0, "xerbla_ not reached for legal arguments"); return 0; }
/* allocators: legacy frame checking does not treat objects allocated inside a stub as fresh, so the harness allocates the two work
 * arrays up front -- g_work: n*nrhs zeroed entries, g_soln: n entries, objects of EXACTLY that size, so cbmc's bounds checks on
 * work[]/soln[] are exact -- and the allocators hand them out after checking that this is the size the routine asks for. */
@T@ *@T@Calloc(int_t n) { __CPROVER_assert(g_n_malloc == 0 && n == in_L.nrow * in_B.ncol, "first allocation: work[] with n*nrhs zeroed entries"); g_n_malloc++; return g_work; }
@T@ *@T@Malloc(int_t n) { __CPROVER_assert(g_n_malloc == 1 && n == in_L.nrow, "second allocation: soln[] with n entries"); g_n_malloc++; return g_soln; }
void superlu_free(void *p) { __CPROVER_assert(p == (void *)g_work || p == (void *)g_soln, "only the routine's own work arrays are freed"); g_n_free++; free(p); }

int @p@trsm_(char *side, char *uplo, char *transa, char *diag, int *m, int *n, @T@ *alpha, @T@ *a, int *lda, @T@ *b, int *ldb) {
  __CPROVER_assert(*side == 'L' && *transa == 'N' && ((*uplo == 'L' && *diag == 'U') || (*uplo == 'U' && *diag == 'N')), "trsm: from the left, no transpose, unit lower (L-solve) or non-unit upper (U-solve) triangle");
  __CPROVER_assert(IS_ONE(alpha), "trsm: alpha == 1");
  __CPROVER_assert(*n == in_B.ncol && *ldb == in_Bstore.lda, "trsm: all right-hand sides at once, leading dimension of B");
  __CPROVER_assert(__CPROVER_same_object(b, in_Bval), "trsm: right-hand side points into B");
  int_t f = b - in_Bval;
  __CPROVER_assert(0 <= f && f < in_L.nrow, "trsm: right-hand side starts at a row of the first column of B");
  int_t s = in_supno[f];
  __CPROVER_assert(0 <= s && s <= in_Lstore.nsuper && in_xsup[s] == f, "trsm: right-hand side starts at the first column of a supernode");
  int_t nsupc = in_xsupend[s] - f, nsupr = in_Lrowend[f] - in_Lrowbeg[f];
  __CPROVER_assert(*m == nsupc && nsupc > 1, "trsm: order == number of columns of the supernode (> 1)");
  __CPROVER_assert(*lda == nsupr, "trsm: leading dimension == number of rows of the supernode");
  __CPROVER_assert(a == &in_Lval[in_Lnzbeg[f]], "trsm: matrix == values of the supernode's first column");
  __CPROVER_assert(in_Lnzbeg[f] >= 0 && in_Lnzbeg[f] + (nsupc - 1) * nsupr + nsupc <= LUC, "trsm: triangle [a, a+(m-1)*lda+m) inside the values of L");
  __CPROVER_assert(f + nsupc <= in_L.nrow && in_L.nrow <= *ldb && (*n) * (*ldb) <= CAP*2, "trsm: block rows f..f+m-1 of every right-hand side inside B");
  if (*uplo == 'L') {
    __CPROVER_assert(s > g_lastL, "trsm: lower solves visit supernodes in increasing order");
    g_lastL = s; if (s == g_s) g_trsmL++;
  } else {
    __CPROVER_assert(s < g_lastU, "trsm: upper solves visit supernodes in decreasing order");
    g_lastU = s; if (s == g_s) g_trsmU++;
  }
  HAVOC2(in_Bval, in_xsup[s], in_Bstore.lda, nsupc, in_B.ncol);   /* == b[0 .. m) of each of the n columns */
  return 0;
}

int @p@gemm_(char *ta, char *tb, int *m, int *n, int *k, @T@ *alpha, @T@ *a, int *lda, @T@ *b, int *ldb, @T@ *beta, @T@ *c, int *ldc) {
  __CPROVER_assert(*ta == 'N' && *tb == 'N', "gemm: no transposes");
  __CPROVER_assert(IS_ONE(alpha) && IS_ONE(beta), "gemm: alpha == beta == 1 (accumulates into the zeroed work array)");
  __CPROVER_assert(*n == in_B.ncol && *ldb == in_Bstore.lda, "gemm: all right-hand sides at once, leading dimension of B");
  __CPROVER_assert(__CPROVER_same_object(b, in_Bval), "gemm: right-hand side points into B");
  int_t f = b - in_Bval;
  __CPROVER_assert(0 <= f && f < in_L.nrow, "gemm: right-hand side starts at a row of the first column of B");
  int_t s = in_supno[f];
  __CPROVER_assert(0 <= s && s <= in_Lstore.nsuper && in_xsup[s] == f, "gemm: right-hand side starts at the first column of a supernode");
  int_t nsupc = in_xsupend[s] - f, nsupr = in_Lrowend[f] - in_Lrowbeg[f];
  __CPROVER_assert(s == g_lastL, "gemm: update with the supernode whose triangular solve was just done");
  __CPROVER_assert(*k == nsupc && *m == nsupr - nsupc && *lda == nsupr, "gemm: inner dimension == columns, rows == rows below the diagonal block, leading dimension == rows of the supernode");
  __CPROVER_assert(a == &in_Lval[in_Lnzbeg[f] + nsupc], "gemm: matrix == values of the supernode's first column below the diagonal block");
  __CPROVER_assert(in_Lnzbeg[f] >= 0 && *m >= 0 && in_Lnzbeg[f] + nsupc * nsupr <= LUC, "gemm: block [a, a+(k-1)*lda+m) inside the values of L");
  __CPROVER_assert(f + nsupc <= in_L.nrow && in_L.nrow <= *ldb && (*n) * (*ldb) <= CAP*2, "gemm: block rows f..f+k-1 of every right-hand side inside B");
  __CPROVER_assert(c == g_work && *ldc == in_L.nrow, "gemm: result == work array, leading dimension == order");
  __CPROVER_assert(*m <= *ldc && (*n) * (*ldc) <= in_L.nrow * in_B.ncol, "gemm: result block m x nrhs inside the work array");
  __CPROVER_assert(s > g_lastG, "gemm: updates visit supernodes in increasing order");
  g_lastG = s; if (s == g_s) g_gemm++;
  HAVOC2(g_work, 0, in_L.nrow, nsupr - nsupc, in_B.ncol);   /* == c[0 .. m) of each of the n columns (c == g_work asserted above) */
  return 0;
}

int_t sp_@p@trsv(char *uplo, char *trans, char *diag, SuperMatrix *L, SuperMatrix *U, @T@ *x, int_t *info) {
  int_t k = g_trsv / 2;
  __CPROVER_assert(L == &in_L && U == &in_U && info == &in_info, "sp_trsv: the caller's factors and info");
  __CPROVER_assert((*trans == 'T' || *trans == 'C') && (g_trsv % 2 == 0 ? (*uplo == 'U' && *diag == 'N') : (*uplo == 'L' && *diag == 'U')), "sp_trsv: inv(U') non-unit first, then inv(L') unit, per right-hand side");
  __CPROVER_assert(0 <= k && k < in_B.ncol && x == &in_Bval[k * in_Bstore.lda], "sp_trsv: vector == column k of B");
  __CPROVER_assert(k * in_Bstore.lda + in_L.nrow <= CAP*2, "sp_trsv: n entries of the vector inside B");
  g_trsv++; *info = 0;
  HAVOC_COL(in_Bval, k * in_Bstore.lda, in_L.nrow)   /* == x[0 .. n) */
  return 0;
}
