#include "slu_mt_@p@defs.h"
/* ghosts (defined in solve_stubs.c) */
extern int_t g_s, g_lastL, g_lastG, g_lastU; extern @T@ *g_work, *g_soln; extern int g_trsmL, g_trsmU, g_gemm, g_trsv, g_n_malloc, g_n_free;
/* inputs: L in SCP format (CAP columns, LC row subscripts, LUC values), U in NCP format (UC entries), B dense with <= 2 columns */
trans_t in_trans; SuperMatrix in_L, in_U, in_B; SCPformat in_Lstore; NCPformat in_Ustore; DNformat in_Bstore;
int_t in_perm_r[CAP], in_perm_c[CAP];
int_t in_xsup[CAP+1], in_xsupend[CAP+1], in_supno[CAP+1], in_Lrowbeg[CAP+1], in_Lrowend[CAP+1], in_Lnzbeg[CAP+1], in_Lnzend[CAP+1], in_Lrow[LC];
@T@ in_Lval[LUC];
int_t in_Ucolbeg[CAP+1], in_Ucolend[CAP+1], in_Urow[UC]; @T@ in_Uval[UC];
@T@ in_Bval[CAP*2]; Gstat_t in_Gstat; flops_t in_ops[NPHASES]; int_t in_info;
/* exact-size work arrays (see solve_stubs.c): sizes split into their possible constant values, cbmc cannot cope with heap objects of symbolic size */
#include <stdlib.h>
#define AL(k) if ((k) <= MAXSZ && ((k) <= CAP || (k) % 2 == 0) && n == (k)) p = calloc((k), sizeof(@T@)); else
#define ALLOC_EXACT AL(0) AL(1) AL(2) AL(3) AL(4) AL(5) AL(6) AL(7) AL(8) AL(9) AL(10) AL(11) AL(12) AL(13) AL(14) AL(15) AL(16) p = NULL;
#define MAXSZ (2*CAP)
static @T@ *alloc_work(int_t n) { @T@ *p = NULL; ALLOC_EXACT return p; }   /* n*nrhs entries, nrhs <= 2 */
#undef MAXSZ
#define MAXSZ CAP
static @T@ *alloc_soln(int_t n) { @T@ *p = NULL; ALLOC_EXACT return p; }   /* n entries */
void h_gstrs_solve(void) {
  g_work = alloc_work((0 <= in_L.nrow && in_L.nrow <= CAP && 0 <= in_B.ncol && in_B.ncol <= 2) ? in_L.nrow * in_B.ncol : -1); g_soln = alloc_soln(in_L.nrow);
  in_L.Store = &in_Lstore; in_U.Store = &in_Ustore; in_B.Store = &in_Bstore; in_Bstore.nzval = in_Bval; in_Gstat.ops = in_ops;
  in_Lstore.nzval = in_Lval; in_Lstore.nzval_colbeg = in_Lnzbeg; in_Lstore.nzval_colend = in_Lnzend; in_Lstore.rowind = in_Lrow;
  in_Lstore.rowind_colbeg = in_Lrowbeg; in_Lstore.rowind_colend = in_Lrowend; in_Lstore.col_to_sup = in_supno;
  in_Lstore.sup_to_colbeg = in_xsup; in_Lstore.sup_to_colend = in_xsupend;
  in_Ustore.nzval = in_Uval; in_Ustore.rowind = in_Urow; in_Ustore.colbeg = in_Ucolbeg; in_Ustore.colend = in_Ucolend;
  @p@gstrs(in_trans, &in_L, &in_U, in_perm_r, in_perm_c, &in_B, &in_Gstat, &in_info);
  __CPROVER_assert(0, "canary: gstrs returns");
  if (in_trans == NOTRANS && in_B.ncol == 2 && in_Lstore.nsuper >= 1 && in_xsupend[0] - in_xsup[0] > 1 && in_Lrowend[0] - in_Lrowbeg[0] > in_xsupend[0] - in_xsup[0] && in_Bstore.lda > in_L.nrow && g_s == 0 && g_trsmL == 1 && g_gemm == 1 && g_trsmU == 1)
    __CPROVER_assert(0, "canary: no transpose, two right-hand sides, first supernode has several columns and rows below its diagonal block, dense kernels called for it, padded leading dimension");
  if (in_trans == NOTRANS && in_B.ncol == 2 && in_Lstore.nsuper == CAP - 1 && in_Ucolend[CAP-1] - in_Ucolbeg[CAP-1] == CAP - 1) __CPROVER_assert(0, "canary: no transpose, two right-hand sides, singleton supernodes, full last column of U");
  if (in_trans == TRANS && in_B.ncol == 2 && in_L.nrow == CAP) __CPROVER_assert(0, "canary: transpose, two right-hand sides, full order");
}
