/* vocabulary for the supernodal solve of ?gstrs.  The harness owns every object (in_*), clauses name them directly.
 * NN order, LDB leading dimension of B, NRHS number of right-hand sides, NS index of the last supernode (-1: none).
 * supernode s: columns XS(s)..XE(s)-1, row list in_Lrow[RB(s) .. RE(s)), value block in_Lval[NZB(s) .. NZB(s)+NSUPR(s)*NSUPC(s)). */
#define NN in_L.nrow
#define LDB in_Bstore.lda
#define NRHS in_B.ncol
#define NS in_Lstore.nsuper
#define XS(s) in_xsup[s]
#define XE(s) in_xsupend[s]
#define RB(s) in_Lrowbeg[in_xsup[s]]
#define RE(s) in_Lrowend[in_xsup[s]]
#define NZB(s) in_Lnzbeg[in_xsup[s]]
#define NSUPC(s) (in_xsupend[s] - in_xsup[s])
#define NSUPR(s) (in_Lrowend[in_xsup[s]] - in_Lrowbeg[in_xsup[s]])
#define SZ sizeof(@T@)
/* loops over the right-hand sides that walk bptr in steps of ldb */
#define RHS(j) (0 <= j && j <= nrhs && bptr == j * ldb)
#define ROWS(k) (0 <= k && k <= n)
/* the current supernode of the L-solve / U-solve loop body */
#define CUR (0 <= ksupno && ksupno <= NS && fsupc == XS(ksupno) && istart == RB(ksupno) && nsupr == NSUPR(ksupno) && nsupc == NSUPC(ksupno))
/* write footprints, pointwise at the ghost cell (row g_r, column g_c) of B: "the cell has the bit pattern it had when the loop was entered".
 * Bit patterns, not values: the cell may hold a NaN produced by the arithmetic, and NaN != NaN. */
#define BITS_d unsigned long long
#define BITS_s unsigned int
#define UNCH1(lv) (*(BITS_@r@ *)&(lv) == __CPROVER_loop_entry(*(BITS_@r@ *)&(lv)))
#if @cplx@
#define UNCHANGED(lv) (UNCH1((lv).r) && UNCH1((lv).i))
#else
#define UNCHANGED(lv) UNCH1(lv)
#endif
#define GCELL in_Bval[g_r + g_c * LDB]
/* rows [0, lo) and the padding rows [n, ldb) of every column keep their bits / rows [hi, ldb) keep their bits */
#define ROWS_BELOW_KEPT(lo) ((g_r < LDB && (g_r < (lo) || g_r >= NN)) ==> UNCHANGED(GCELL))
#define ROWS_FROM_KEPT(hi) ((g_r < LDB && g_r >= (hi)) ==> UNCHANGED(GCELL))
/* ghost bookkeeping of the kernel stubs (solve_stubs.c) */
#define GHOSTS g_lastL, g_lastU, g_lastG, g_trsmL, g_trsmU, g_gemm, g_trsv
#define CNT(done, s) (((done) && NSUPC(s) > 1) ? 1 : 0)
