/* vocabulary for the supernodal solve of ?gstrs.  The harness owns every object (in_*), clauses name them directly.
 * NN order, LDB leading dimension of B, NRHS number of right-hand sides, NS index of the last supernode (-1: none).
 * supernode s: columns XS(s)..XE(s)-1, row list in_Lrow[RB(s) .. RE(s)), value block in_Lval[NZB(s) .. NZB(s)+NSUPR(s)*NSUPC(s)). */
#define NN in_L.nrow
#define LDB in_Bstore.lda
#define NRHS in_B.ncol
#define NS in_Lstore.nsuper
#define XS(s) in_xsup[s]
#define XE(s) in_xsupend[s]
#define RB(s) in_Lrowbeg[in_xsup[s]]
#define RE(s) in_Lrowend[in_xsup[s]]
#define NZB(s) in_Lnzbeg[in_xsup[s]]
#define NSUPC(s) (in_xsupend[s] - in_xsup[s])
#define NSUPR(s) (in_Lrowend[in_xsup[s]] - in_Lrowbeg[in_xsup[s]])
#define SZ sizeof(@T@)
/* loops over the right-hand sides that walk bptr in steps of ldb */
#define RHS(j) (0 <= j && j <= nrhs && bptr == j * ldb)
#define ROWS(k) (0 <= k && k <= n)
/* the current supernode of the L-solve / U-solve loop body */
#define CUR (0 <= ksupno && ksupno <= NS && fsupc == XS(ksupno) && istart == RB(ksupno) && nsupr == NSUPR(ksupno) && nsupc == NSUPC(ksupno))
/* write footprints (per column c of B): rows [lo, NN) resp. [0, hi) */
#define BROWS_FROM(c, lo) __CPROVER_object_whole(in_Bval)
#define BROWS_BELOW(c, hi) __CPROVER_object_whole(in_Bval)
/* ghost bookkeeping of the kernel stubs (solve_stubs.c) */
#define GHOSTS g_lastL, g_lastU, g_lastG, g_trsmL, g_trsmU, g_gemm, g_trsv
#define CNT(done, s) (((done) && NSUPC(s) > 1) ? 1 : 0)
