/* vocabulary for the inductive memory-safety contract of p?gstrf_panel_dfs.  m = n = CAP and w = W are fixed (every work array has exactly its
 * documented size, so an overrun is an out-of-bounds access); jcol is symbolic. */
#define J in_jcol
#define NP nextp                                   /* start of the current column's section in the m*w arrays */
#define CNT (nextl_col - nextp)                    /* rows recorded for the current column */
#define PL(i) in_panel_lsub[nextp + (i)]
#define CM(r) in_spa_marker[nextp + (r)]           /* col_marker[r] */
#define RF(c) in_repfnz[nextp + (c)]               /* repfnz_col[c] */
#define M1(c) in_marker[CAP + (c)]                 /* marker1[c] */
/* the list of the current column: in range, pairwise distinct, every entry stamped jj  (=> at most m entries: pigeonhole, left to the solver) */
#define INV_LIST(a, b, c) (0 <= CNT && CNT <= CAP && FA(a, CAP, a < CNT ==> (0 <= PL(a) && PL(a) < CAP && CM(PL(a)) == jj)) && FA(b, CAP, FA(c, CAP, (b < c && c < CNT) ==> PL(b) != PL(c))))
/* the segment list of the panel: representatives before the panel, pairwise distinct, every entry stamped jcol in marker1 (=> at most jcol entries) */
#define INV_SEG(a, b, c) (0 <= in_nseg && in_nseg <= J && FA(a, CAP, a < in_nseg ==> (0 <= in_segrep[a] && in_segrep[a] < J && M1(in_segrep[a]) == J)) && FA(b, CAP, FA(c, CAP, (b < c && c < in_nseg) ==> in_segrep[b] != in_segrep[c])))
/* the dfs stack, without transitive closure: a column visited for the current panel column (repfnz_col != EMPTY) is a root or has a visited parent
 * whose saved scan window lies inside lsub */
#define INV_STACK(a) FA(a, CAP, (a < J && RF(a) != EMPTY) ==> (in_parent[a] == EMPTY || (0 <= in_parent[a] && in_parent[a] < J && RF(in_parent[a]) != EMPTY && 0 <= in_xplore[in_parent[a]] && in_xplore[CAP + in_parent[a]] <= LC)))
/* the repfnz sections of the panel columns not yet started are still EMPTY */
#define INV_LATER(a, from) FA(a, CAP * W, a >= (from) ==> in_repfnz[a] == EMPTY)
/* marker: sections 0 and 2 untouched, section 1 changes only to jcol */
#define INV_MARKER(a) FA(a, CAP, in_marker[a] == g0_marker[a] && in_marker[2 * CAP + a] == g0_marker[2 * CAP + a] && (M1(a) == g0_marker[CAP + a] || M1(a) == J))
#define INV_COL (J <= jj && jj < J + W && nextp == (jj - J) * CAP && col_marker == in_spa_marker + nextp && repfnz_col == in_repfnz + nextp && dense_col == in_dense + nextp)
#define INV_CUR (0 <= krep && krep < J && RF(krep) != EMPTY && 0 <= xdfs && maxdfs <= LC)
