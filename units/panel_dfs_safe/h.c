#include "slu_mt_@p@defs.h"
/* PC unit: the real p?gstrf_panel_dfs under a memory-safety contract; EVERY loop -- including the do-while / while pair of the dfs -- is closed
 * by a loop contract (dfcc mode; spec directive @separate_do_head).  The harness only wires pointers. */
int_t in_pnum, in_jcol, in_nseg;
SuperMatrix in_A; NCPformat in_Astore; @T@ in_a[NNZ]; int_t in_asub[NNZ], in_colbeg[CAP], in_colend[CAP];
int_t in_perm_r[CAP], in_xprune[CAP], in_ispruned[CAP], in_lbusy[CAP], in_panel_lsub[CAP*W], in_w_lsub_end[W], in_segrep[CAP], in_repfnz[CAP*W];
int_t in_marker[CAP*3], in_spa_marker[CAP*W], in_parent[CAP], in_xplore[2*CAP];
@T@ in_dense[CAP*W];
GlobalLU_t in_Glu; int_t in_xsup[CAP+1], in_xsup_end[CAP+1], in_supno[CAP], in_lsub[LC], in_xlsub[CAP], in_xlsub_end[CAP];
int_t g0_marker[CAP*3], g_p, g_q, g_t;
_Static_assert(NO_MARKER == 3, "marker has three sections");
void h_panel_dfs_safe(void) {
  in_A.Store = &in_Astore; in_Astore.nzval = in_a; in_Astore.rowind = in_asub; in_Astore.colbeg = in_colbeg; in_Astore.colend = in_colend;
  in_Glu.xsup = in_xsup; in_Glu.xsup_end = in_xsup_end; in_Glu.supno = in_supno; in_Glu.lsub = in_lsub; in_Glu.xlsub = in_xlsub; in_Glu.xlsub_end = in_xlsub_end;
  p@p@gstrf_panel_dfs(in_pnum, CAP, W, in_jcol, &in_A, in_perm_r, in_xprune, in_ispruned, in_lbusy, &in_nseg, in_panel_lsub, in_w_lsub_end, in_segrep, in_repfnz,
       in_marker, in_spa_marker, in_parent, in_xplore, in_dense, &in_Glu);
  __CPROVER_assert(0, "canary: panel_dfs returns");
  if (in_nseg >= 2 && in_parent[in_segrep[0]] == in_segrep[1]) __CPROVER_assert(0, "canary: dfs of depth two");
  if (in_nseg >= 3 && in_parent[in_segrep[0]] == in_segrep[1] && in_parent[in_segrep[1]] == in_segrep[2]) __CPROVER_assert(0, "canary: dfs of depth three");
  if (in_w_lsub_end[0] == CAP - in_jcol && in_jcol >= 1) __CPROVER_assert(0, "canary: every unpivoted row recorded");
  if (in_nseg == in_jcol && in_jcol >= 2) __CPROVER_assert(0, "canary: every finished column is a segment representative");
}
