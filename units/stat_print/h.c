#include <stdlib.h>
#include "slu_mt_ddefs.h"
Gstat_t in_Gstat; double in_utime[NPHASES]; flops_t in_ops[NPHASES]; int g_n_printf;
int printf(const char *f, ...) { g_n_printf++; return 0; }
int sprintf(char *s, const char *f, ...) { return 0; }
int fprintf(FILE *s, const char *f, ...) { return 0; }
void verif_abort(char *msg) { __CPROVER_assert(0, "PrintStat has no abort path"); __CPROVER_assume(0); }
void h_stat_print(void) {
  in_Gstat.utime = in_utime; in_Gstat.ops = in_ops;
  PrintStat(&in_Gstat);
  __CPROVER_assert(0, "canary: PrintStat returns");
  if (in_utime[FACT] == 0.0 && in_utime[SOLVE] != 0.0) __CPROVER_assert(0, "canary: factor time zero, solve timed");
}
