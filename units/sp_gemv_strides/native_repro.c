/* native reproduction of the two "Not implemented." aborts (./a.out -> dlangs("F"); ./a.out gemv -> sp_dgemv("N", incy=2)):
 * gcc -w -D__PTHREAD -DAdd_ -I/repo/SRC native_repro.c /repo/SRC/dlangs.c /repo/SRC/dsp_blas2.c /repo/SRC/lsame.c /repo/SRC/xerbla.c -lm
 * (dlangs has no prototype in the headers: the "M:" line prints garbage, ignore it) */
#include <stdio.h>
#include <stdlib.h>
#include "slu_mt_ddefs.h"
void *superlu_malloc(size_t n){return malloc(n);} void superlu_free(void*p){free(p);}
void superlu_abort_and_exit(char *msg){ printf("ABORT: %s", msg); exit(3); }
int main(int argc, char **argv){
  double val[2] = {3.0, 4.0}; int_t rowind[2] = {0, 1}; int_t colptr[3] = {0, 1, 2};
  NCformat S = {2, val, rowind, colptr}; SuperMatrix A = {SLU_NC, SLU_D, SLU_GE, 2, 2, &S};
  if (argc > 1) { double x[4] = {1,0,1,0}, y[4] = {1,1,1,1}; sp_dgemv("N", 1.0, &A, x, 1, 2.0, y, 2); printf("y = %g %g %g %g\n", y[0],y[1],y[2],y[3]); return 0; }
  printf("M: %g\n", dlangs("M", &A)); printf("F: %g\n", dlangs("F", &A)); return 0; }
/* link fillers for the part of dsp_blas2.c that is not exercised (sp_dtrsv) */
#include <stdlib.h>
double *doubleCalloc(int n){return calloc(n,sizeof(double));} void dlsolve(){} void dmatvec(){} void dusolve(){} void dtrsv_(){} void dgemv_(){}
