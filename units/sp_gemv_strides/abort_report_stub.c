/* For this unit the abort path is not silently cut: reaching SUPERLU_ABORT with a documented argument is the finding. */
void verif_abort(char *msg) { __CPROVER_assert(0, "documented argument combination is computed, the routine does not abort"); __CPROVER_assume(0); }
int sprintf(char *s, const char *f, ...) { return 0; }
