#include "slu_mt_@p@defs.h"
/* ghosts */
@T@ g_y0[XCAP]; int_t g_xoff, g_yoff, g_e, g_ret; extern int g_xerbla_calls, g_xerbla_arg;
/* inputs */
char in_trans[2]; @T@ in_alpha, in_beta; int_t in_incx, in_incy;
SuperMatrix in_A; NCformat in_Astore; int_t in_colptr[CAP+1], in_rowind[NZ]; @T@ in_val[NZ]; @T@ in_x[XCAP], in_y[XCAP];
void h_gemv(void) {
  in_A.Store = &in_Astore; in_Astore.nzval = in_val; in_Astore.rowind = in_rowind; in_Astore.colptr = in_colptr;
  __CPROVER_assume(0 <= g_xoff && g_xoff < XCAP && 0 <= g_yoff && g_yoff < XCAP);
  g_ret = sp_@p@gemv(in_trans, in_alpha, &in_A, in_x + g_xoff, in_incx, in_beta, in_y + g_yoff, in_incy);
}
