#include "slu_mt_@p@defs.h"
#include "work_sizes.h"
/* ghost: what the ?fill stub saw (two calls expected) */
int g_fill_calls; @T@ *g_fill_ptr[2]; int_t g_fill_len[2]; int g_fill_zero[2];
void @p@fill(@T@ *a, int_t alen, @T@ dval) {
  if (g_fill_calls < 2) {
    g_fill_ptr[g_fill_calls] = a; g_fill_len[g_fill_calls] = alen;
#if @cplx@
    g_fill_zero[g_fill_calls] = (dval.r == 0 && dval.i == 0);
#else
    g_fill_zero[g_fill_calls] = (dval == 0);
#endif
  }
  g_fill_calls++;
#if PROBE
  if (alen > 0) { a[0] = dval; a[alen - 1] = dval; }
#endif
}
/* inputs */
int_t in_n, in_w, in_maxsuper, in_rowblk; @T@ in_dwork[DCAP]; @T@ *in_dense, *in_tempv;
int_t sp_ienv(int_t ispec) { int_t r; if (ispec == 3) return in_maxsuper; if (ispec == 4) return in_rowblk; return r; }
void h_set_rwork(void) {
  p@p@gstrf_SetRWork(in_n, in_w, in_dwork, &in_dense, &in_tempv);
  __CPROVER_assert(0, "canary: SetRWork returns");
  if (2*in_n > (in_maxsuper + in_rowblk)*in_w) __CPROVER_assert(0, "canary: tempv sized by 2*m");
  if (2*in_n < (in_maxsuper + in_rowblk)*in_w) __CPROVER_assert(0, "canary: tempv sized by (maxsuper+rowblk)*w");
  if (in_n == SB && in_w == SB && in_maxsuper == SB && in_rowblk == SB) __CPROVER_assert(0, "canary: largest shape reachable");
}
