#include "slu_mt_@p@defs.h"
/* ghosts: arbitrary row, column, stored position */
int_t g_i, g_j, g_k, g_m; @R@ g_amax; extern int g_xerbla_calls, g_xerbla_arg;
/* inputs */
SuperMatrix in_A; NCformat in_Astore; int_t in_colptr[CAP+1], in_rowind[NZ]; @T@ in_val[NZ];
@R@ in_r[CAP], in_c[CAP], in_rowcnd, in_colcnd, in_amax; int_t in_info;
void h_gsequ(void) {
  in_A.Store = &in_Astore; in_Astore.nzval = in_val; in_Astore.rowind = in_rowind; in_Astore.colptr = in_colptr;
  @p@gsequ(&in_A, in_r, in_c, &in_rowcnd, &in_colcnd, &in_amax, &in_info);
  __CPROVER_assert(0, "canary: gsequ returns");
  if (in_info == 0 && in_A.nrow > 1 && in_A.ncol > 1) __CPROVER_assert(0, "canary: info 0 reachable");
  if (in_info == -1) __CPROVER_assert(0, "canary: info -1 reachable");
  if (in_info > 0 && in_info <= in_A.nrow) __CPROVER_assert(0, "canary: zero row reachable");
  if (in_info > in_A.nrow && in_A.nrow > 0) __CPROVER_assert(0, "canary: zero column reachable");
  if (in_info == 0 && in_A.nrow > 0 && in_A.ncol > 0 && in_amax > 1) __CPROVER_assert(0, "canary: amax > 1 reachable");
}
