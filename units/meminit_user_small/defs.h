#define WF_USTACK (0 <= stack.top1 && stack.top1 <= stack.top2 && stack.top2 <= stack.size && stack.used == stack.top1 + (stack.size - stack.top2))
#define o_ superlumt_options
#define FILLOK(v) ((-FB <= (v) && (v) <= -1) || (0 <= (v) && (v) <= NZB))
#define GUESS(v, annz) ((v) < 0 ? -(v) * (annz) : (v))
#define VW ((int_t)sizeof(@T@))
/* bytes of the 13 first requests */
#define INT_BYTES(n) (5 * ((n) + 1) * 4 + 4 * (n) * 4)
#define TOTAL_BYTES (INT_BYTES(n) + g_nzlu_guess * VW + g_nzu_guess * VW + g_nzl_guess * 4 + g_nzu_guess * 4)
/* array a (len elements of w bytes) ends before array b starts; byte offsets inside the caller's buffer object in_work (integers: no pointer arithmetic on possibly-NULL pointers) */
#define OFF(p) ((int_t)__CPROVER_POINTER_OFFSET(p))
#define NZMAX ((FB) * (ANNZB) > (NZB) ? (FB) * (ANNZB) : (NZB))
#define RNG(a, len) (0 <= OFF(a) && OFF(a) <= WCAP && 0 <= (len) && (len) <= NZMAX + NB + 1)
#define BEFORE(a, len, w, b) (RNG(a, len) && OFF(a) + (len) * (w) <= OFF(b))
#define INSIDE(a, len, w) (__CPROVER_same_object((a), in_work) && RNG(a, len) && g_skew <= OFF(a) && OFF(a) + (len) * (w) <= g_skew + stack.top1)
#define EXP_TABLE_OK __CPROVER_rw_ok(@p@expanders, 4 * sizeof(ExpHeader))
#define EXP_LEN_OK __CPROVER_rw_ok(prev_len, sizeof(int_t))

/* ---- instantiation of specs/expand_first.spec, user-workspace part (b = bytes requested, pad = alignment pad needed) */
#define LWORD(t) (((t) == LSUB || (t) == USUB) ? (int_t)sizeof(int_t) : (int_t)sizeof(@T@))
#define EXP_USTACK_WF (0 <= stack.top1 && stack.top1 <= stack.top2 && stack.top2 <= stack.size && stack.size <= WCAP - 16 && stack.used == stack.top1 + (stack.size - stack.top2))
#define EXP_USTACK_PRE (0 <= g_skew && g_skew <= 7 && stack.array == (void*)(in_work + g_skew) && EXP_USTACK_WF)
#define EXP_B ((*prev_len) * LWORD(type))
#define EXP_PAD (((type) == LUSUP || (type) == UCOL) ? ((8 - ((OLD(stack.top1) + g_skew) & 7)) & 7) : 0)
#define EXP_NO_ROOM (EXP_B + EXP_PAD + OLD(stack.used) >= stack.size)
#define EXP_USTACK_FAILED ((stack.top1 == OLD(stack.top1) && stack.used == OLD(stack.used)) || (EXP_B + OLD(stack.used) < stack.size && EXP_PAD > 0 && stack.top1 == OLD(stack.top1) + EXP_B && stack.used == OLD(stack.used) + EXP_B))
#define EXP_USTACK_POST (0 <= stack.top1 && stack.top1 <= 16777216 && -16777216 <= stack.used && stack.used <= 16777216 && stack.top1 == OLD(stack.top1) + EXP_B + EXP_PAD && stack.used == OLD(stack.used) + EXP_B + EXP_PAD && RET == (void*)(in_work + g_skew + OLD(stack.top1) + EXP_PAD) && ((type == LUSUP || type == UCOL) ==> ((OLD(stack.top1) + EXP_PAD + g_skew) & 7) == 0) && stack.top1 < stack.top2)
