#include "slu_mt_@p@defs.h"
extern float p@p@gstrf_MemInit(int_t, int_t, superlumt_options_t *, SuperMatrix *, SuperMatrix *, GlobalLU_t *);
extern ExpHeader *@p@expanders;
/* ghost */
int g_n_malloc; size_t g_malloc_bytes; int_t g_skew, g_nzlu_guess, g_nzu_guess, g_nzl_guess;
extern int g_locks, g_unlocks, g_lock_inits;
void *superlu_malloc(size_t size) { __CPROVER_assert(0, "system malloc is not used in user-workspace mode"); return (void*)0; }
void superlu_free(void *p) { __CPROVER_assert(0, "system free is not used in user-workspace mode"); }
int_t *intMalloc(int_t n) { __CPROVER_assert(0, "intMalloc is not used in user-workspace mode"); return (int_t*)0; }
void copy_mem_int(int_t howmany, void *old, void *new) { __CPROVER_assert(0, "copy_mem_int is not reached from MemInit"); }
void user_bcopy(char *src, char *dest, int_t bytes) { __CPROVER_assert(0, "user_bcopy is not reached from MemInit"); }
/* inputs */
int_t in_n, in_annz, in_maxsuper, in_rowblk, in_fill6, in_fill7, in_fill8;
superlumt_options_t in_o; SuperMatrix in_L, in_U; GlobalLU_t in_Glu; ExpHeader in_exp[4]; char in_work[WCAP];
int_t sp_ienv(int_t ispec) { int_t r; switch (ispec) { case 3: return in_maxsuper; case 4: return in_rowblk; case 6: return in_fill6; case 7: return in_fill7; case 8: return in_fill8; } return r; }
float g_ret;
void h_meminit_user(void) {
  g_ret = p@p@gstrf_MemInit(in_n, in_annz, &in_o, &in_L, &in_U, &in_Glu);
  __CPROVER_assert(0, "canary: MemInit (user workspace) returns");
  if (g_ret == 0.0f) {
    __CPROVER_assert(0, "canary: success reachable");
#if FITS && PROBE
    /* every array handed to the factorization is live memory of the caller's buffer over its advertised length */
    in_Glu.xsup[in_n] = 0; in_Glu.xsup_end[in_n-1] = 0; in_Glu.supno[in_n] = 0; in_Glu.xlsub[in_n] = 0; in_Glu.xlsub_end[in_n-1] = 0;
    in_Glu.xlusup[in_n] = 0; in_Glu.xlusup_end[in_n-1] = 0; in_Glu.xusub[in_n] = 0; in_Glu.xusub_end[in_n-1] = 0;
    if (in_Glu.nzlmax > 0) in_Glu.lsub[in_Glu.nzlmax - 1] = 0;
    if (in_Glu.nzumax > 0) { in_Glu.usub[in_Glu.nzumax - 1] = 0; in_Glu.ucol[in_Glu.nzumax - 1] = in_Glu.ucol[0]; }
    if (in_Glu.nzlumax > 0) in_Glu.lusup[in_Glu.nzlumax - 1] = in_Glu.lusup[0];
#endif
    if (g_skew != 0) __CPROVER_assert(0, "canary: misaligned user buffer");
  }
#if !FITS
  if (g_ret != 0.0f) __CPROVER_assert(0, "canary: failure return reachable");
  if (g_ret == 0.0f && in_Glu.nzumax < g_nzu_guess) __CPROVER_assert(0, "canary: success after a halving retry");
#endif
}
