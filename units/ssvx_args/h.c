#include "slu_mt_@p@defs.h"
int_t g_j, g_bi, g_bj; extern int g_xerbla_arg;
void h_ssvx(void) {
  int_t nprocs; superlumt_options_t *o; SuperMatrix *A,*L,*U,*B,*X; int_t *pc,*pr,*info; equed_t *eq; @R@ *R,*C,*rpg,*rc,*fe,*be; superlu_memusage_t *mu;
  p@p@gssvx(nprocs,o,A,pc,pr,eq,R,C,L,U,B,X,rpg,rc,fe,be,mu,info);
  __CPROVER_assert(0, "canary: driver returns");
  if (g_xerbla_arg == 1) __CPROVER_assert(0, "canary: info -1 reachable");
  if (g_xerbla_arg == 7) __CPROVER_assert(0, "canary: info -7 reachable");
  if (g_xerbla_arg == 8) __CPROVER_assert(0, "canary: info -8 reachable");
  if (g_xerbla_arg == 12) __CPROVER_assert(0, "canary: info -12 reachable");
}
