#include "slu_mt_@p@defs.h"
/* inputs: file-scope, nondeterministic initial values (replayed natively from the counterexample) */
#include "drv_ghost.h"
int_t g_j, g_bi, g_bj, g_c; @T@ g_B0[CAP*2], g_X0[CAP*2];
int_t in_nprocs; superlumt_options_t in_o; SuperMatrix in_A, in_L, in_U, in_B, in_X; NCformat in_Astore; DNformat in_Bstore, in_Xstore;
int_t in_perm_c[CAP], in_perm_r[CAP]; equed_t in_equed; @R@ in_R[CAP], in_C[CAP]; @T@ in_Bval[CAP*2], in_Xval[CAP*2];
@R@ in_rpg, in_rcond, in_ferr[2], in_berr[2]; superlu_memusage_t in_mu; int_t in_info;
void h_ssvx(void) {
  in_A.Store = &in_Astore; in_B.Store = &in_Bstore; in_X.Store = &in_Xstore; in_Bstore.nzval = in_Bval; in_Xstore.nzval = in_Xval;
  p@p@gssvx(in_nprocs, &in_o, &in_A, in_perm_c, in_perm_r, &in_equed, in_R, in_C, &in_L, &in_U, &in_B, &in_X,
            &in_rpg, &in_rcond, in_ferr, in_berr, &in_mu, &in_info);
  __CPROVER_assert(0, "canary: driver returns");
  if (in_info == -1) __CPROVER_assert(0, "canary: info -1 reachable");
  if (in_info == -7) __CPROVER_assert(0, "canary: info -7 reachable");
  if (in_info == -8) __CPROVER_assert(0, "canary: info -8 reachable");
  if (in_info == -12) __CPROVER_assert(0, "canary: info -12 reachable");
}
