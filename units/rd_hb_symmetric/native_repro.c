/* native witness for the red obligation  dreadhb.contract.symmetric_expanded / dreadrb.contract.symmetric_expanded  (C20:
 * "symmetric files expanded"): a 2x2 symmetric matrix  [2 1; 1 3]  written as an RSA file (lower triangle stored once: 3 entries)
 * is returned by dreadhb and by dreadrb with nnz = 3 and without the entry (row 0, column 1); the full matrix has 4 entries.
 *
 *   gcc -w -D__PTHREAD -DAdd_ -I/repo/SRC native_repro.c /repo/SRC/dreadhb.c /repo/SRC/dreadrb.c -o /tmp/rd_sym && /tmp/rd_sym
 *   (add -fsanitize=address,undefined if wanted: no memory error is involved, the result is simply the stored triangle)
 * exit status 1 = finding reproduced (not expanded), 0 = both readers return the full symmetric matrix. */
#include <stdio.h>
#include <stdlib.h>
#include <unistd.h>
#include "slu_mt_ddefs.h"
void dreadrb(int_t *, int_t *, int_t *, double **, int_t **, int_t **);   /* not declared in slu_mt_ddefs.h */
/* link filler: the library's dallocateA (pdmemory.c) is three typed mallocs; taken out of the library to keep the link line short */
void dallocateA(int_t n, int_t nnz, double **a, int_t **asub, int_t **xa) {
  *a = malloc((nnz ? nnz : 1) * sizeof(double)); *asub = malloc((nnz ? nnz : 1) * sizeof(int_t)); *xa = malloc((n + 1) * sizeof(int_t)); }
static const char *hb_file =
  /* line 1 (A72,A8) */
  "2x2 symmetric matrix, lower triangle stored                             SYM2X2  \n"
  /* line 2 (5I14): TOTCRD PTRCRD INDCRD VALCRD RHSCRD */
  "             3             1             1             1             0\n"
  /* line 3 (A3,11X,4I14): type NROW NCOL NNZERO NELTVL */
  "RSA                        2             2             3             0\n"
  /* line 4 (2A16,2A20) */
  "(3I8)           (3I8)           (3E16.8)                                \n"
  "       1       3       4\n"
  "       1       2       2\n"
  "  2.00000000E+00  1.00000000E+00  3.00000000E+00\n";
static const char *rb_file =
  "2x2 symmetric matrix, lower triangle stored                             SYM2X2  \n"
  /* line 2 (I14,3(1X,I13)) */
  "             3             1             1             1\n"
  /* line 3 (A3,11X,4(1X,I13)) */
  "rsa                        2             2             3             0\n"
  /* line 4 (2A16,A20) */
  "(3I8)           (3I8)           (3E16.8)            \n"
  "       1       3       4\n"
  "       1       2       2\n"
  "  2.00000000E+00  1.00000000E+00  3.00000000E+00\n";
static int has(int_t *colptr, int_t *rowind, int r, int c) { int k; for (k = colptr[c]; k < colptr[c + 1]; k++) if (rowind[k] == r) return 1; return 0; }
static int run(const char *name, const char *text, void (*reader)(int_t *, int_t *, int_t *, double **, int_t **, int_t **)) {
  char path[] = "/tmp/rd_sym_XXXXXX"; int fd = mkstemp(path), k, j, bad; FILE *f = fdopen(fd, "w");
  int_t m, n, nnz, *rowind, *colptr; double *val;
  fputs(text, f); fclose(f);
  if (!freopen(path, "r", stdin)) { perror("freopen"); exit(2); }   /* the readers read stdin and close it */
  reader(&m, &n, &nnz, &val, &rowind, &colptr);
  unlink(path);
  printf("%s: %d x %d, nnz = %d; entries (row,col,value):", name, (int)m, (int)n, (int)nnz);
  for (j = 0; j < n; j++) for (k = colptr[j]; k < colptr[j + 1]; k++) printf(" (%d,%d,%g)", (int)rowind[k], j, val[k]);
  bad = !(nnz == 4 && has(colptr, rowind, 0, 1) && has(colptr, rowind, 1, 0));
  free(val); free(rowind); free(colptr);
  printf("\n%s: %s\n", name, bad ? "NOT EXPANDED: only the stored triangle is returned (entry (0,1) missing, nnz 3 instead of 4)" : "expanded");
  return bad;
}
int main(void) {
  int bad = 0;
  bad |= run("dreadhb (RSA)", hb_file, dreadhb);
  bad |= run("dreadrb (rsa)", rb_file, dreadrb);
  return bad;
}
