#include <stdlib.h>
#include "slu_mt_ddefs.h"
Gstat_t in_Gstat;     /* every other pointer field (panstat, panhows, height, ..., cp_panel) starts arbitrary */
int g_n_free, g_freed_histo, g_freed_utime, g_freed_ops, g_freed_procstat; int_t pool_histo[1]; double pool_utime[1]; flops_t pool_ops[1]; procstat_t pool_procstat[1];
void superlu_free(void *p) {
  g_n_free++;
  if (p == (void *)pool_histo) g_freed_histo++; if (p == (void *)pool_utime) g_freed_utime++;
  if (p == (void *)pool_ops) g_freed_ops++; if (p == (void *)pool_procstat) g_freed_procstat++;
}
int printf(const char *f, ...) { return 0; }
int sprintf(char *s, const char *f, ...) { return 0; }
int fprintf(FILE *s, const char *f, ...) { return 0; }
void verif_abort(char *msg) { __CPROVER_assert(0, "StatFree has no abort path"); __CPROVER_assume(0); }
void h_stat_free(void) {
  in_Gstat.panel_histo = pool_histo; in_Gstat.utime = pool_utime; in_Gstat.ops = pool_ops; in_Gstat.procstat = pool_procstat;
  StatFree(&in_Gstat);
  __CPROVER_assert(0, "canary: StatFree returns");
}
