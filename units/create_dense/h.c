#include <stdlib.h>
#include "slu_mt_@p@defs.h"
extern int g_n_malloc, g_n_free;
/* inputs */
SuperMatrix in_A; int_t in_m, in_n, in_ld; @T@ in_x[CAP]; Stype_t in_stype; Dtype_t in_dtype; Mtype_t in_mtype;
/* ghost: an index into the value array */
int g_k;
void h_create_dense(void) {
  __CPROVER_assume(0 <= g_k && g_k < CAP);
  @p@Create_Dense_Matrix(&in_A, in_m, in_n, in_x, in_ld, in_stype, in_dtype, in_mtype);
  __CPROVER_assert(0, "canary: Create_Dense_Matrix returns");
  if (in_ld == -3 && in_m == 7 && in_mtype == SLU_TRU) __CPROVER_assert(0, "canary: arbitrary descriptor values reachable");
  /* element-level reading of the representation: the matrix entry stored at offset g_k is the caller's x[g_k] (same object, no copy) */
  __CPROVER_assert(&((@T@ *)((DNformat *)in_A.Store)->nzval)[g_k] == &in_x[g_k], "entry at offset k of the dense matrix is the caller's x[k]");
  free(in_A.Store);   /* the Store object is the only thing left allocated (cbmc --memory-leak-check) */
}
