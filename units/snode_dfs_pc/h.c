#include "slu_mt_@p@defs.h"
/* PC unit: the real p?gstrf_snode_dfs under a function contract, every loop closed by a loop contract (no unwinding).
 * NewNsuper / Glu_alloc(LSUB) are executable contracts (same text as units/snode_dfs, units/copy_to_ucol). */
/* inputs */
int_t in_m, in_n, in_pnum, in_jcol, in_kcol, in_asub[NNZ], in_xa_begin[CAP], in_xa_end[CAP], in_xprune[CAP], in_marker[CAP], in_col_lsub[CAP];
pxgstrf_shared_t in_sh; GlobalLU_t in_Glu; Gstat_t in_Gstat;
int_t in_xsup[CAP+1], in_xsup_end[CAP+1], in_supno[CAP], in_lsub[LC], in_xlsub[CAP], in_xlsub_end[CAP];
int_t in_alloc_fails, in_memerr;
/* ghosts: pre-state copies, ghost row / column / two positions of lsub, call log */
int_t g_marker0[CAP], g_supno0[CAP], g_lsub0[LC], g_nsuper0, g_nextl0, g_r, g_c, g_p, g_q, g_alloc_num, g_ret;
int g_alloc_calls, g_newsup_calls, g_argbad;
void verif_abort(char *);
/* NewNsuper (SRC/pxgstrf_synch.c): i = ++(*data) under NSUPER_LOCK */
int_t NewNsuper(const int_t pnum, pxgstrf_shared_t *sh, int_t *data) {
  g_newsup_calls++;
  if (pnum != in_pnum || sh != &in_sh || data != &in_Glu.nsuper) g_argbad = 1;
  return ++(*data);
}
/* Glu_alloc(LSUB) by its contract (proved for the real routine in unit glu_alloc): a normal return hands out [nextl, nextl+num) inside
 * [0, nzlmax) and advances nextl by num; a request that does not fit takes the library's abort path (USER_ABORT).  A positive return
 * value (never produced by the real routine, but tested by the caller) leaves everything unchanged. */
int_t Glu_alloc(const int_t pnum, const int_t jcol, const int_t num, const MemType mem_type, int_t *prev_next, pxgstrf_shared_t *sh) {
  g_alloc_calls++; g_alloc_num = num;
  if (pnum != in_pnum || jcol != in_jcol || mem_type != LSUB || sh != &in_sh || num < 0) g_argbad = 1;
  if (in_alloc_fails) return in_memerr;
  if (num < 0 || num > in_Glu.nzlmax - in_Glu.nextl) verif_abort("Memory allocation failed");
  *prev_next = in_Glu.nextl; in_Glu.nextl += num;
  return 0;
}
void h_snode_dfs_pc(void) {
  int_t cnt;
  in_sh.Glu = &in_Glu; in_sh.Gstat = &in_Gstat;
  in_Glu.xsup = in_xsup; in_Glu.xsup_end = in_xsup_end; in_Glu.supno = in_supno; in_Glu.lsub = in_lsub; in_Glu.xlsub = in_xlsub; in_Glu.xlsub_end = in_xlsub_end;
  g_ret = p@p@gstrf_snode_dfs(in_pnum, in_jcol, in_kcol, in_asub, in_xa_begin, in_xa_end, in_xprune, in_marker, in_col_lsub + ((1 <= in_m && in_m <= CAP) ? CAP - in_m : 0), &in_sh);   /* col_lsub[] has m entries and ends where in_col_lsub ends */
  cnt = g_ret == 0 ? in_xlsub_end[in_jcol] - in_xlsub[in_jcol] : -1;
  __CPROVER_assert(0, "canary: snode_dfs returns");
  if (g_ret != 0) __CPROVER_assert(0, "canary: allocation error returned");
  if (g_ret == 0 && in_m == CAP && cnt == CAP && in_kcol > in_jcol) __CPROVER_assert(0, "canary: all rows, several columns, full capacity");
  if (g_ret == 0 && cnt == 0) __CPROVER_assert(0, "canary: empty supernode structure");
  if (g_ret == 0 && cnt == 1 && in_kcol == in_jcol + 1 && in_xa_end[in_jcol] - in_xa_begin[in_jcol] == 1 && in_xa_end[in_kcol] - in_xa_begin[in_kcol] == 1) __CPROVER_assert(0, "canary: two columns sharing their row");
  if (g_ret == 0 && cnt >= 1 && in_Glu.nextl == in_Glu.nzlmax) __CPROVER_assert(0, "canary: L subscript storage exactly filled");
  if (g_ret == 0 && cnt == 3 && in_xa_end[in_jcol] - in_xa_begin[in_jcol] == 4) __CPROVER_assert(0, "canary: a column that repeats a row index");
  if (g_nsuper0 == -1) __CPROVER_assert(0, "canary: first supernode of the factorization");
  if (in_n < CAP && in_n >= 2 && in_m < in_n) __CPROVER_assert(0, "canary: fewer rows than columns, both below capacity");
  if (in_m > in_n) __CPROVER_assert(0, "canary: more rows than columns");
}
