/* vocabulary for p?gstrf_snode_dfs (row structure of a relaxed supernode jcol..kcol).  CAP = capacity for rows (m = in_m <= CAP) and columns (n = in_n <= CAP),
 * NNZ = entries of asub, LC = entries of lsub.  col_lsub[] (m entries) is end-aligned in in_col_lsub so that an overrun is out of bounds. */
#define N in_n
#define MM in_m
#define NEWS (g_nsuper0 + 1)
#define COLL(q) in_col_lsub[CAP - in_m + (q)]
/* row r is stored in column c of A / in column c before position k */
#define INCOL(r,c,pv) EX(pv, NNZ, in_xa_begin[c] <= pv && pv < in_xa_end[c] && in_asub[pv] == (r))
#define INPART(r,c,k,pv) EX(pv, NNZ, in_xa_begin[c] <= pv && pv < (k) && in_asub[pv] == (r))
/* row r is stored in one of the columns jcol..hi-1 */
#define INA(r,hi,cv,pv) EX(cv, CAP, in_jcol <= cv && cv < (hi) && INCOL(r,cv,pv))
/* position p of lsub lies in the row list of the supernode */
#define INLIST(p) (in_xlsub[in_jcol] <= (p) && (p) < in_xlsub_end[in_jcol])
/* sums over r = 0..CAP-1 (CAP is a compile-time constant) */
#define S1(F) (F(0))
#define S2(F) (S1(F) + F(1))
#define S3(F) (S2(F) + F(2))
#define S4(F) (S3(F) + F(3))
#define S5(F) (S4(F) + F(4))
#define S6(F) (S5(F) + F(5))
#define S7(F) (S6(F) + F(6))
#define S8(F) (S7(F) + F(7))
#define S9(F) (S8(F) + F(8))
#define S10(F) (S9(F) + F(9))
#define S11(F) (S10(F) + F(10))
#define S12(F) (S11(F) + F(11))
#if CAP > 12
#error "extend the S<k> macros in defs.h"
#endif
#define SCAT_(k) S ## k
#define SCAT(k) SCAT_(k)
/* number of rows that carry the stamp kcol */
#define STAMP_(r) (((r) < in_m && in_marker[r] == in_kcol) ? 1 : 0)
#define COUNT SCAT(CAP)(STAMP_)
