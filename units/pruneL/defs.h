/* vocabulary for pxgstrf_pruneL.  The harness owns every object (in_*); g_* are ghosts (pre-state copies, ghost indices).
 * CAP = column capacity (n), LC = capacity of lsub (nzlmax), M = number of rows (capacity of perm_r).
 * Real capacities (pdmemory.c / pdgstrf_thread_init.c): xsup n+1, xsup_end n, supno n+1, xlsub n+1, xlsub_end n, xprune n, ispruned n. */
#define SING(c) (in_xsup_end[in_supno[c]] - in_xsup[in_supno[c]] == 1)
/* first position the function looks at in column c: the copy behind the list for a one-column supernode, the list itself otherwise */
#define KMIN_DEF(c) (SING(c) ? in_xlsub_end[c] : in_xlsub[c])
/* ghost copy of it (pinned by [kmin_ghost] for every column in segrep): keeps the clause terms small */
#define KMIN(c) g_kmin[c]
/* c is the last column of its supernode (as far as supno tells) */
#define LASTC(c) (in_supno[c] != in_supno[(c) + 1])
/* c occurs in segrep[0..nseg) / in segrep[0..i) */
#define INSEG(c,t) EX(t, CAP, t < in_nseg && in_segrep[t] == (c))
#define DONE(c,t,i) EX(t, CAP, t < (i) && in_segrep[t] == (c))
/* position k lies in the range of column c that is scanned (pre-state upper end) */
#define INR0(c,k) (KMIN(c) <= (k) && (k) < g_xprune0[c])
#define HASPIV(c,k) EX(k, LC, INR0(c,k) && g_lsub0[k] == in_pivrow)
/* the documented pruning condition, on the pre-state */
#define ELIG(c,k) (in_repfnz[c] != EMPTY && LASTC(c) && in_supno[c] != in_supno[in_jcol] && g_ispruned0[c] == 0 && HASPIV(c,k))
/* nonempty scanned ranges of two columns do not overlap */
#define DISJ(a,b) (g_xprune0[a] <= KMIN(a) || g_xprune0[b] <= KMIN(b) || g_xprune0[a] <= KMIN(b) || g_xprune0[b] <= KMIN(a))
/* what holds for the ghost column once it has been pruned (at ghost position g_k) */
#define POST(k1,k2) (in_ispruned[g_c] == 1 && KMIN(g_c) <= in_xprune[g_c] && in_xprune[g_c] <= g_xprune0[g_c] \
  && ((KMIN(g_c) <= g_k && g_k < in_xprune[g_c]) ==> in_perm_r[in_lsub[g_k]] != EMPTY) \
  && ((in_xprune[g_c] <= g_k && g_k < g_xprune0[g_c]) ==> in_perm_r[in_lsub[g_k]] == EMPTY) \
  && (INR0(g_c,g_k) ==> (EX(k1, LC, INR0(g_c,k1) && in_lsub[k1] == g_lsub0[g_k]) && EX(k2, LC, INR0(g_c,k2) && g_lsub0[k2] == in_lsub[g_k]))))
/* ... and while it has not */
#define PRE(t3,k3) (in_xprune[g_c] == g_xprune0[g_c] && in_ispruned[g_c] == g_ispruned0[g_c] \
  && ((INSEG(g_c,t3) && LASTC(g_c)) ==> FA(k3, LC, INR0(g_c,k3) ==> in_lsub[k3] == g_lsub0[k3])))
#define ROWS_OK(k) FA(k, LC, 0 <= in_lsub[k] && in_lsub[k] < M)
#define COLS_OK(c,t,i) FA(c, CAP, (in_xprune[c] == g_xprune0[c] && in_ispruned[c] == g_ispruned0[c]) \
  || (g_ispruned0[c] == 0 && in_ispruned[c] == 1 && DONE(c,t,i) && LASTC(c) && KMIN(c) <= in_xprune[c] && in_xprune[c] <= g_xprune0[c]))
/* g_k lies in the scanned range of no column whose pruned flag changed */
#define UNTOUCHED(c) FA(c, CAP, !(in_ispruned[c] != g_ispruned0[c] && INR0(c,g_k)))
