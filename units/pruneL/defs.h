/* vocabulary for pxgstrf_pruneL.  The harness owns every object (in_*); g_* are ghosts (pre-state copies, ghost indices, and
 * three ghost arrays that only NAME a defined term so that the clauses stay small: g_seg, g_kmin, g_elig -- each is pinned to its
 * definition by one requires clause and never appears in the code).
 * CAP = column capacity (n), LC = capacity of lsub (nzlmax), M = number of rows (capacity of perm_r).
 * Real capacities (p?memory.c / p?gstrf_thread_init.c): xsup n+1, xsup_end n, supno n+1, xlsub n+1, xlsub_end n, xprune n, ispruned n. */

/* c occurs in segrep[0..nseg)  (definition, and its ghost name) */
#define INSEG_DEF(c,t) EX(t, CAP, t < in_nseg && in_segrep[t] == (c))
#define INSEG(c) (g_seg[c] != 0)
/* c occurs in segrep[0..i) */
#define DONE(c,t,i) EX(t, CAP, t < (i) && in_segrep[t] == (c))
/* the supernode of c has one column (the library's SINGLETON macro) */
#define SING(c) (in_xsup_end[in_supno[c]] - in_xsup[in_supno[c]] == 1)
/* first position the function scans in column c: the copy behind the list for a one-column supernode, the list itself otherwise */
#define KMIN_DEF(c) (SING(c) ? in_xlsub_end[c] : in_xlsub[c])
#define KMIN(c) g_kmin[c]
/* c is the last column of its supernode (as far as supno tells) */
#define LASTC(c) (in_supno[c] != in_supno[(c) + 1])
/* position k lies in the range of column c that is scanned (pre-state upper end) */
#define INR0(c,k) (KMIN(c) <= (k) && (k) < g_xprune0[c])
/* the documented pruning condition on the pre-state: c is a representative of a non-empty U-segment, last column of a supernode other
 * than jcol's, not pruned yet, and pivrow occurs in its scanned range */
#define ELIG_DEF(c,t,k) (INSEG_DEF(c,t) && in_repfnz[c] != EMPTY && LASTC(c) && in_supno[c] != in_supno[in_jcol] && g_ispruned0[c] == 0 \
  && EX(k, LC, INR0(c,k) && g_lsub0[k] == in_pivrow))
#define ELIG(c) (g_elig[c] != 0)
/* nonempty scanned ranges of two columns do not overlap */
#define DISJ(a,b) (g_xprune0[a] <= KMIN(a) || g_xprune0[b] <= KMIN(b) || g_xprune0[a] <= KMIN(b) || g_xprune0[b] <= KMIN(a))
/* what holds for the ghost column once it has been pruned (at ghost position g_k) */
#define POST(k1,k2) (in_ispruned[g_c] == 1 && KMIN(g_c) <= in_xprune[g_c] && in_xprune[g_c] <= g_xprune0[g_c] \
  && ((KMIN(g_c) <= g_k && g_k < in_xprune[g_c]) ==> in_perm_r[in_lsub[g_k]] != EMPTY) \
  && ((in_xprune[g_c] <= g_k && g_k < g_xprune0[g_c]) ==> in_perm_r[in_lsub[g_k]] == EMPTY) \
  && (INR0(g_c,g_k) ==> (EX(k1, LC, INR0(g_c,k1) && in_lsub[k1] == g_lsub0[g_k]) && EX(k2, LC, INR0(g_c,k2) && g_lsub0[k2] == in_lsub[g_k]))))
/* ... and while it has not */
#define PRE(k3) (in_xprune[g_c] == g_xprune0[g_c] && in_ispruned[g_c] == g_ispruned0[g_c] \
  && ((INSEG(g_c) && LASTC(g_c)) ==> FA(k3, LC, INR0(g_c,k3) ==> in_lsub[k3] == g_lsub0[k3])))
#define ROWS_OK(k) FA(k, LC, 0 <= in_lsub[k] && in_lsub[k] < M)
#define COLS_OK(c,t,i) FA(c, CAP, (in_xprune[c] == g_xprune0[c] && in_ispruned[c] == g_ispruned0[c]) \
  || (g_ispruned0[c] == 0 && in_ispruned[c] == 1 && DONE(c,t,i) && LASTC(c) && KMIN(c) <= in_xprune[c] && in_xprune[c] <= g_xprune0[c]))
/* g_k lies in the scanned range of no column whose pruned flag changed */
#define UNTOUCHED(c) FA(c, CAP, !(in_ispruned[c] != g_ispruned0[c] && INR0(c,g_k)))
