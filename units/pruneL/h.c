#include "slu_mt_ddefs.h"
/* ghosts: pre-state copies; g_c an arbitrary column, g_k an arbitrary position of lsub */
int_t g_lsub0[LC], g_xprune0[CAP], g_ispruned0[CAP], g_kmin[CAP], g_seg[CAP], g_elig[CAP], g_c, g_k;
/* inputs (capacities as allocated by the library for n = CAP columns, nzlmax = LC, m = M rows) */
int_t in_jcol, in_pivrow, in_nseg, in_segrep[CAP], in_repfnz[CAP], in_xprune[CAP], in_ispruned[CAP], in_perm_r[M];
int_t in_xsup[CAP+1], in_xsup_end[CAP], in_supno[CAP+1], in_xlsub[CAP+1], in_xlsub_end[CAP], in_lsub[LC];
GlobalLU_t in_Glu;
void h_pruneL(void) {
  in_Glu.xsup = in_xsup; in_Glu.xsup_end = in_xsup_end; in_Glu.supno = in_supno;
  in_Glu.lsub = in_lsub; in_Glu.xlsub = in_xlsub; in_Glu.xlsub_end = in_xlsub_end;
  pxgstrf_pruneL(in_jcol, in_perm_r, in_pivrow, in_nseg, in_segrep, in_repfnz, in_xprune, in_ispruned, &in_Glu);
  __CPROVER_assert(0, "canary: pruneL returns");
  if (in_ispruned[g_c] != g_ispruned0[g_c] && in_lsub[g_k] != g_lsub0[g_k]) __CPROVER_assert(0, "canary: a column pruned with at least one swap");
  if (in_ispruned[g_c] != g_ispruned0[g_c] && in_xprune[g_c] + 2 <= g_xprune0[g_c] && in_xprune[g_c] >= 2 + g_kmin[g_c]) __CPROVER_assert(0, "canary: pruned column keeps two rows and drops two");
  if (in_nseg > 0 && in_segrep[0] == g_c && in_repfnz[g_c] != EMPTY && in_supno[g_c] == in_supno[g_c + 1] && in_supno[g_c] != in_supno[in_jcol] && in_ispruned[g_c] == 0) __CPROVER_assert(0, "canary: segment skipped because its supernode continues in the next column");
  if (in_nseg >= 2 && in_ispruned[in_segrep[0]] != g_ispruned0[in_segrep[0]] && in_ispruned[in_segrep[1]] != g_ispruned0[in_segrep[1]] && in_segrep[0] != in_segrep[1]) __CPROVER_assert(0, "canary: two columns pruned in one call");
}
