#include "slu_mt_@p@defs.h"
/* inputs: file-scope, nondeterministic initial values */
extern int g_seq, g_xerbla_calls, g_xerbla_arg;
int_t in_nprocs; SuperMatrix in_A, in_L, in_U, in_B; NCformat in_Astore; DNformat in_Bstore;
int_t in_perm_c[CAP], in_perm_r[CAP]; @T@ in_Bval[CAP]; int_t in_info;
void h_gssv(void) {
  in_A.Store = &in_Astore; in_B.Store = &in_Bstore; in_Bstore.nzval = in_Bval;
  p@p@gssv(in_nprocs, &in_A, in_perm_c, in_perm_r, &in_L, &in_U, &in_B, &in_info);
  __CPROVER_assert(0, "canary: driver returns");
#if BTYPE
  if (in_B.Stype != SLU_DN) __CPROVER_assert(0, "canary: wrong B->Stype reachable");
  if (in_B.Dtype != DT) __CPROVER_assert(0, "canary: wrong B->Dtype reachable");
#else
  if (in_info == -1) __CPROVER_assert(0, "canary: info -1 reachable");
  if (in_info == -2) __CPROVER_assert(0, "canary: info -2 reachable");
  if (in_info == -7) __CPROVER_assert(0, "canary: info -7 reachable");
  if (in_nprocs <= 0 && in_A.nrow != in_A.ncol && in_B.ncol < 0) __CPROVER_assert(0, "canary: triple violation reachable");
#endif
}
