/* gssv_stubs.c -- quiet stubs for p@p@gssv (units args_gssv, args_gssv_btype): every callee of the driver counts its call
 * in g_seq and writes nothing the caller can see except what the real routine is documented to produce (*info of the
 * factor / solve routines).  xerbla_ records its argument.  In args_gssv g_seq is not in the frame, so reaching any callee
 * is a frame violation as well as a failure of 'nothing_reached'.  In args_gssv_btype (EXPECTED to reach the computation:
 * a documented argument check the driver does not make) the only red obligations are pos7 / handler / nothing_reached. */
#include <stdlib.h>
#include "slu_mt_@p@defs.h"
int nondet_int(void);
int g_seq, g_xerbla_calls, g_xerbla_arg;
void verif_abort(char *msg) { __CPROVER_assume(0); }
int xerbla_(char *s, int *i) { g_xerbla_arg = *i; g_xerbla_calls++; return 0; }
double SuperLU_timer_(void) { double t; return t; }
int_t sp_ienv(int_t i) { return 8; }   /* tuning parameter: value irrelevant for the property */
void *superlu_malloc(size_t size) { g_seq++; void *p = malloc(size); __CPROVER_assume(p != NULL); return p; }
void superlu_free(void *p) { g_seq++; free(p); }
/* statistics arrays: static ghost storage (the legacy frame check does not treat objects allocated inside a stub as fresh) */
double g_utime[NPHASES]; flops_t g_ops[NPHASES]; procstat_t g_procstat[NP];
void StatAlloc(const int_t n, const int_t nprocs, const int_t panel_size, const int_t relax, Gstat_t *G) {
  g_seq++; __CPROVER_assume(nprocs <= NP);
  G->utime = g_utime; G->ops = g_ops; G->procstat = g_procstat;
}
void StatInit(const int_t n, const int_t nprocs, Gstat_t *G) { g_seq++; }
void StatFree(Gstat_t *G) { g_seq++; }
void PrintStat(Gstat_t *G) { g_seq++; }
void @p@Create_CompCol_Matrix(SuperMatrix *A, int_t m, int_t n, int_t nnz, @T@ *nzval, int_t *rowind, int_t *colptr,
                            Stype_t stype, Dtype_t dtype, Mtype_t mtype) {
  g_seq++;
}
void Destroy_SuperMatrix_Store(SuperMatrix *A) { g_seq++; }
void p@p@gstrf_init(int_t nprocs, fact_t fact, trans_t trans, yes_no_t refact, int_t panel_size, int_t relax,
                  @R@ u, yes_no_t usepr, double drop_tol, int_t *perm_c, int_t *perm_r, void *work, int_t lwork,
                  SuperMatrix *A, SuperMatrix *AC, superlumt_options_t *o, Gstat_t *G) { g_seq++; }
void pxgstrf_finalize(superlumt_options_t *o, SuperMatrix *AC) { g_seq++; }
void p@p@gstrf(superlumt_options_t *o, SuperMatrix *A, int_t *perm_r, SuperMatrix *L, SuperMatrix *U, Gstat_t *G, int_t *info) {
  g_seq++; int i = nondet_int(); __CPROVER_assume(i >= 0); *info = i;
}
void @p@gstrs(trans_t trans, SuperMatrix *L, SuperMatrix *U, int_t *perm_r, int_t *perm_c, SuperMatrix *B, Gstat_t *G, int_t *info) {
  g_seq++; *info = 0;
}
