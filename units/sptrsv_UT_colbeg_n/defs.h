/* the vocabulary is shared with unit sptrsv_LN (found through -I <this directory>) */
#include "../sptrsv_LN/defs.h"
