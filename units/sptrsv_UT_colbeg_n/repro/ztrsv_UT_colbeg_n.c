/* Native reproduction: complex sp_ztrsv / sp_ctrsv, branches "U","T" and "U","C", read Ustore->colbeg[n].
 *   SRC/zsp_blas2.c:292 / :371     solve_ops += 8*(U_NZ_START(jcol+1) - U_NZ_START(jcol));      (jcol = n-1 reads colbeg[n])
 * The factorization allocates xusub with intMalloc(n+1) (malloc, not calloc; SRC/pzmemory.c:317) and writes xusub[j] only for
 * j < n (pzgstrf_copy_to_ucol.c:67, pzgstrf_factor_snode.c:93), so colbeg[n] is whatever malloc returned: an uninitialised read,
 * and the subtraction / multiplication by 8 can overflow (undefined behaviour).  The value only feeds the flop counter, which is
 * discarded, so the SOLUTION is not affected; the real twins (d, s) use U_NZ_END(jcol) - U_NZ_START(jcol) instead.
 * (Besides: columns of an NCP matrix need not be contiguous, so the count is wrong even when colbeg[n] happens to be sane.)
 * Found by unit sptrsv_UT_colbeg_n[z]: obligations sp_ztrsv.overflow.*@zsp_blas2.c:292 / :371.
 * build + run (sanitised copy of the one translation unit, the rest from the library built out of /repo):
 *   gcc -g -fsanitize=signed-integer-overflow -I/repo/SRC -D__PTHREAD -DAdd_ -DUSE_VENDOR_BLAS -c /repo/SRC/zsp_blas2.c -o zsp_blas2_ubsan.o
 *   gcc -g -fsanitize=signed-integer-overflow -I/repo/SRC -D__PTHREAD -DAdd_ ztrsv_UT_colbeg_n.c zsp_blas2_ubsan.o \
 *       /tmp/unitsM/b/SRC/libsuperlu_mt_PTHREAD.a -lopenblas -lpthread -lm -o repro_colbeg_n
 *   MALLOC_PERTURB_=85 ./repro_colbeg_n          (glibc fills fresh malloc blocks with 0xAA: stands for "whatever was there") */
#include <stdio.h>
#include <stdlib.h>
#include "slu_mt_zdefs.h"
#define N 5
int main(void) {
  /* tridiagonal, diagonally dominant, complex; compressed columns */
  int_t nnz = 3 * N - 2, *colptr = intMalloc(N + 1), *rowind = intMalloc(nnz), *perm_c = intMalloc(N), *perm_r = intMalloc(N), info, i, j, k = 0;
  doublecomplex *a = doublecomplexMalloc(nnz), *b = doublecomplexMalloc(N), x[N];
  SuperMatrix A, L, U, B;
  for (j = 0; j < N; j++) {
    colptr[j] = k;
    for (i = j - 1; i <= j + 1; i++) if (i >= 0 && i < N) { rowind[k] = i; a[k].r = (i == j) ? 4 : -1; a[k].i = (i == j) ? 1 : 0.5; k++; }
  }
  colptr[N] = k;
  for (i = 0; i < N; i++) { b[i].r = 1; b[i].i = 0; perm_c[i] = i; }
  zCreate_CompCol_Matrix(&A, N, N, nnz, a, rowind, colptr, SLU_NC, SLU_Z, SLU_GE);
  zCreate_Dense_Matrix(&B, N, 1, b, N, SLU_DN, SLU_Z, SLU_GE);
  pzgssv(1, &A, perm_c, perm_r, &L, &U, &B, &info);
  printf("pzgssv info = %d\n", (int)info);
  NCPformat *Us = U.Store;
  printf("U: colbeg[n-1] = %d   colend[n-1] = %d   colbeg[n] = %d   <- never written by the factorization\n",
         (int)Us->colbeg[N - 1], (int)Us->colend[N - 1], (int)Us->colbeg[N]);
  for (i = 0; i < N; i++) { x[i].r = 1; x[i].i = 0; }
  sp_ztrsv("U", "T", "N", &L, &U, x, &info);      /* UBSan: signed integer overflow at zsp_blas2.c:292 */
  sp_ztrsv("U", "C", "N", &L, &U, x, &info);      /* UBSan: signed integer overflow at zsp_blas2.c:371 */
  printf("done\n");
  return 0;
}
