#include "slu_mt_ddefs.h"
int_t g_c, g_repfnz0[CAP];                       /* ghost: arbitrary column, pre-state copy */
int_t in_nseg, in_segrep[CAP], in_repfnz[CAP];   /* inputs */
void h_resetrep_col(void) {
  pxgstrf_resetrep_col(in_nseg, in_segrep, in_repfnz);
  __CPROVER_assert(0, "canary: resetrep_col returns");
  if (in_repfnz[g_c] != g_repfnz0[g_c]) __CPROVER_assert(0, "canary: an entry is reset");
  if (in_repfnz[g_c] == g_repfnz0[g_c] && g_repfnz0[g_c] != EMPTY && in_nseg == CAP) __CPROVER_assert(0, "canary: an entry is kept with a full segrep");
}
