/* vocabulary for p?gstrf_bmod2D_mv2 (sup-panel update of the w columns of a panel by ONE updating supernode, 2-D blocked, panel
 * columns taken in PAIRS: the columns both U-segments share go through ?matvec2 with two destinations, the extra leading columns of
 * the longer segment through one ?gemv_ before it; an unpaired last column through one ?gemv_).
 * Capacities: M rows (= stride of the n-by-w work arrays), W panel width, LC row subscripts, LUC stored values of L,
 * TVC scalars of tempv, NP threads.  The harness owns every array (in_*); the scalar arguments are the in_* scalars.
 * Supernode geometry (ghost scalars bound by REQ(geometry)): g_lptr = xlsub[fsupc] (start of the row list, in_nsupr rows),
 * g_xf = xlusup[fsupc] (start of the in_nsupr x in_nsupc column-major block, lda = in_nsupr).
 * Panel column c (0 <= c < w): its U-segment w.r.t. the supernode covers supernode columns KFNZ(c)..krep. */
#define KFNZ(c)    in_repfnz[(c)*in_m + in_krep]
#define ACTIVE(c)  (KFNZ(c) != EMPTY)
#define SEGSZE(c)  (in_krep - KFNZ(c) + 1)
#define NOZEROS(c) (KFNZ(c) - in_fsupc)
#define BLAS(c)    (ACTIVE(c) && SEGSZE(c) >= 4)                 /* the column goes through trsv/gemv/matvec2 (else hand-unrolled) */
#define INLIST(p)  (g_lptr <= (p) && (p) < g_lptr + in_nsupr)     /* position inside the supernode's row list */
#define DENSE(c,r) in_dense[(c)*in_m + (r)]
#define LDT        (in_maxsuper + in_rowblk)                      /* tempv slot of one panel column: TriTmp[maxsuper] ++ MatvecTmp[rowblk] */
#define TRI(c)     (in_tempv + (c)*LDT)
#define MATVEC(c)  (in_tempv + (c)*LDT + in_maxsuper)
/* offsets into lusup the update is defined on */
#define TRI_OFF(c)     (g_xf + in_nsupr*NOZEROS(c) + NOZEROS(c))            /* diagonal block: row no_zeros, column no_zeros */
#define RECT_OFF(k,r)  (g_xf + in_nsupr*((k) - in_fsupc) + in_nsupc + (r))  /* row nsupc+r (r-th row below the diagonal block), supernode column k (absolute) */
#define SNODE_END      (g_xf + in_nsupr*in_nsupc)
#define MINI(a,b) ((a) < (b) ? (a) : (b))
/* ghost indices: panel column g_c; position g_q in the supernode's row list (g_q < nsupc: a supernode column = row of the triangle,
 * g_q >= nsupc: row g_q-nsupc below the diagonal block); supernode column g_k (absolute) */
#define GROW (g_q - in_nsupc)
/* call records (ONE object).  *_calls: totals.  trsv_cnt: trsv calls for column g_c.  cov_cnt: matrix-vector calls whose block covers
 * entry (row GROW below the diagonal block, supernode column g_k) with destination column g_c.  y_cnt: calls that wrote the product
 * entry of (g_c, GROW).  xq / xk: the value trsv left for list position g_q / column g_k of column g_c.  yq: the last value a
 * matrix-vector kernel left in the product entry of (g_c, GROW). */
#ifndef SPEC_EXPAND
struct blas_rec { int trsv_calls, gemv_calls, mv2_calls, trsv_cnt, cov_cnt, y_cnt, xq_set, xk_set, yq_set; int_t trsv_aoff, trsv_n; };
#endif
