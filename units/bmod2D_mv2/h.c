#include "slu_mt_@p@defs.h"
#include "wf.h"
#include "defs.h"
/* ghosts: geometry; ghost panel column g_c / list position g_q / supernode column g_k / row id g_r / tempv index g_t / frame indices;
 * pre-state copies; call records */
int_t g_lptr, g_xf, g_c, g_q, g_k, g_r, g_t, g_p, g_l, g_x, g_pn; @T@ g_dense0_r, g_dense0_q, g_lu0, g_xq, g_xk, g_yq; float g_fcops0;
int_t g_lsub0, g_repfnz0, g_xlsub0, g_xlsub_end0, g_xlusup0, g_unused0[3], g_stat0[4];
struct blas_rec g_blas;
/* inputs */
int_t in_pnum, in_m, in_w, in_jcol, in_fsupc, in_krep, in_nsupc, in_nsupr, in_nrow, in_maxsuper, in_rowblk;
int_t in_repfnz[M*W], in_panel_lsub[M*W], in_w_lsub_end[W], in_spa_marker[M*W]; @T@ in_dense[M*W], in_tempv[TVC];
GlobalLU_t in_Glu; Gstat_t in_Gstat; procstat_t in_procstat[NP];
int_t in_xlsub[M+1], in_xlsub_end[M], in_xlusup[M+1], in_lsub[LC]; @T@ in_lusup[LUC];
@T@ nondet_@T@(void);
/* bounded repetition by macro (loop-free stubs); all extents <= 8 */
#define REP8(X) X(0) X(1) X(2) X(3) X(4) X(5) X(6) X(7)
_Static_assert(W <= 8 && M <= 8 && LC <= 9, "REP8 covers every extent (n <= nsupc <= 6, m <= nrow <= NRC)");

/* tuning parameters: maxsuper (3), rowblk (4) -- symbolic */
int_t sp_ienv(int_t ispec) {
  __CPROVER_assert(ispec == 3 || ispec == 4, "sp_ienv: only maxsuper and rowblk are asked for");
  return ispec == 3 ? in_maxsuper : in_rowblk;
}

/* Tables filled by the harness BEFORE the call (so that the call records need no symbolic multiplication -- 32-bit multipliers with
 * overflow checks in ~30 inlined kernel calls were 60% of the formula): g_kfnz[c] = KFNZ(c); g_colbase[j] = offset in lusup of
 * (row nsupc = first row below the diagonal block, j-th column of the supernode) = g_xf + nsupr*j + nsupc, j = 0..nsupc-1. */
int_t g_kfnz[W], g_colbase[M];
#define T_SEGSZE(c)  (in_krep - g_kfnz[c] + 1)
#define T_NOZEROS(c) (g_kfnz[c] - in_fsupc)
#define T_BLAS(c)    (g_kfnz[c] != EMPTY && T_SEGSZE(c) >= 4)

/* BLAS xTRSV as an argument-recording contract: x := inv(A)*x, A n-by-n unit lower triangular, leading dimension lda */
int @p@trsv_(char *uplo, char *trans, char *diag, int *n, @T@ *A, int *lda, @T@ *x, int *incx) {
  int_t c = -1, nz; long aoff;
  g_blas.trsv_calls++;
  __CPROVER_assert(*uplo == 'L' && *trans == 'N' && *diag == 'U' && *incx == 1, "trsv: lower, no transpose, unit diagonal, stride 1");
#define TSLOT(cc) if ((cc) < W && (cc) < in_w && x == TRI(cc)) c = (cc);
  REP8(TSLOT)
  __CPROVER_assert(c >= 0, "trsv: x is the start of a panel column's tempv slot");
  __CPROVER_assert(__CPROVER_same_object(A, in_lusup), "trsv: A points into lusup");
  if (c < 0 || !__CPROVER_same_object(A, in_lusup)) __CPROVER_assume(0);
  aoff = A - in_lusup;
  __CPROVER_assert(T_BLAS(c), "trsv: only for a U-segment of size >= 4");
  if (!T_BLAS(c)) __CPROVER_assume(0);
  nz = T_NOZEROS(c);
  __CPROVER_assert(*n == T_SEGSZE(c), "trsv: order = segsze");
  __CPROVER_assert(*lda == in_nsupr, "trsv: lda = rows of the supernode");
  __CPROVER_assert(aoff == g_colbase[nz] - in_nsupc + nz, "trsv: A = diagonal block at row no_zeros, column no_zeros of the supernode");
  /* with lda = nsupr and A at (no_zeros, no_zeros): the n x n triangle ends at row/column no_zeros+n-1 <= nsupc-1 < nsupr, inside the block */
  __CPROVER_assert(*n >= 0 && nz + *n <= in_nsupc, "trsv: extent of A inside the supernode's block of lusup");
  __CPROVER_assert(*n <= in_maxsuper, "trsv: x extent inside the TriTmp part of the slot");
  if (c == g_c) {
    g_blas.trsv_cnt++; g_blas.trsv_aoff = aoff; g_blas.trsv_n = *n;
    if (nz <= g_q && g_q < nz + *n && g_q < in_nsupc)
      __CPROVER_assert(x[g_q - nz] == g_dense0_q, "trsv: x[i] holds the gathered entry dense[lsub[lptr+no_zeros+i]] of THIS panel column");
  }
#define HAVOC_X(k) if ((k) < *n) x[k] = nondet_@T@();
  REP8(HAVOC_X)
  if (c == g_c) {
    if (nz <= g_q && g_q < nz + *n && g_q < in_nsupc) { g_xq = x[g_q - nz]; g_blas.xq_set++; }
    if (g_kfnz[c] <= g_k && g_k < g_kfnz[c] + *n && g_k <= in_krep) { g_xk = x[g_k - g_kfnz[c]]; g_blas.xk_set++; }
  }
  return 0;
}

/* one destination of a matrix-vector kernel: y (:)= (y +) A*x, A m-by-n with leading dimension lda at offset aoff of lusup.
 * overwrite = 1: y := A*x (gemv with beta = 0); overwrite = 0: y := y + A*x (?matvec2).
 * The destination column c is identified by y; x must point INTO the solved segment of the same column: x = TriTmp(c) + (k0 - kfnz(c))
 * for the first supernode column k0 the call multiplies with; A must then start in column k0 at a block-row boundary below the
 * diagonal block.  Coverage of the ghost entry (row GROW, column g_k) of the ghost panel column is counted. */
static void mv_dest(int_t m, int_t n, long aoff, int_t lda, @T@ *x, @T@ *y, int overwrite) {
  int_t c = -1, k0, j0, r, isblk = 0; long xo = -1;
  __CPROVER_assert(__CPROVER_same_object(x, in_tempv), "mv: x points into tempv");
  if (!__CPROVER_same_object(x, in_tempv)) __CPROVER_assume(0);
#define YSLOT(cc) if ((cc) < W && (cc) < in_w && y == MATVEC(cc)) { c = (cc); xo = x - TRI(cc); }
  REP8(YSLOT)
  __CPROVER_assert(c >= 0, "mv: y is the MatvecTmp part (slot + maxsuper) of a panel column's tempv slot");
  if (c < 0) __CPROVER_assume(0);
  __CPROVER_assert(T_BLAS(c), "mv: only for a U-segment of size >= 4");
  if (!T_BLAS(c)) __CPROVER_assume(0);
  __CPROVER_assert(0 <= xo && xo < T_SEGSZE(c), "mv: x starts inside the solved segment (TriTmp) of the SAME panel column as y");
  if (!(0 <= xo && xo < T_SEGSZE(c))) __CPROVER_assume(0);
  k0 = g_kfnz[c] + (int_t)xo; j0 = k0 - in_fsupc;       /* first supernode column the call multiplies with: absolute / relative */
  __CPROVER_assert(n >= 1 && n <= in_nsupc - j0, "mv: columns k0..k0+n-1 lie inside the U-segment kfnz..krep of the column");
  __CPROVER_assert(lda == in_nsupr, "mv: lda = rows of the supernode");
  __CPROVER_assert(g_colbase[j0] <= aoff && aoff < g_colbase[j0] + in_nrow, "mv: A starts in the supernode column x[0] belongs to, at a row below the diagonal block");
  if (!(g_colbase[j0] <= aoff && aoff < g_colbase[j0] + in_nrow)) __CPROVER_assume(0);
  r = aoff - g_colbase[j0];          /* block row start below the diagonal block */
#define ISBLK(b) if ((b) <= NRC && r == (b)*in_rowblk) isblk = 1;
  REP8(ISBLK)
  __CPROVER_assert(isblk, "mv: A starts at a block-row boundary (multiple of rowblk)");
  __CPROVER_assert(m == MINI(in_rowblk, in_nrow - r), "mv: rows = this block row (short last block)");
  /* with lda = nsupr, A at (nsupc+r, j0): the m x n block ends at row nsupc+r+m-1 < nsupr and column j0+n-1 < nsupc, inside the block */
  __CPROVER_assert(m >= 0 && r + m <= in_nrow && j0 + n <= in_nsupc, "mv: extent of A inside the supernode's block of lusup");
  __CPROVER_assert(xo + n <= in_maxsuper && m <= in_rowblk, "mv: x and y extents inside the slot");
  if (c == g_c && 0 <= GROW && r <= GROW && GROW < r + m) {
    if (overwrite) __CPROVER_assert(g_blas.y_cnt == 0, "mv: an overwriting product (beta = 0) is the FIRST contribution to this block row of the column");
    else if (g_blas.y_cnt == 0) __CPROVER_assert(y[GROW - r] == 0.0, "mv: an accumulating product starts from a zeroed entry");
    g_blas.y_cnt++;
    if (k0 <= g_k && g_k < k0 + n) {
      g_blas.cov_cnt++;
      __CPROVER_assert(g_blas.xk_set == 1 && (x[g_k - k0] == g_xk || g_xk != g_xk), "mv: x[k-k0] is the entry the triangular solve left for supernode column k");
    }
  }
#define HAVOC_Y(k) if ((k) < m) y[k] = nondet_@T@();
  REP8(HAVOC_Y)
  if (c == g_c && 0 <= GROW && r <= GROW && GROW < r + m) { g_yq = y[GROW - r]; g_blas.yq_set++; }
}

/* BLAS xGEMV: y := alpha*A*x + beta*y, A m-by-n, leading dimension lda */
int @p@gemv_(char *trans, int *m, int *n, @T@ *alpha, @T@ *A, int *lda, @T@ *x, int *incx, @T@ *beta, @T@ *y, int *incy) {
  g_blas.gemv_calls++;
  __CPROVER_assert(*trans == 'N' && *incx == 1 && *incy == 1, "gemv: no transpose, strides 1");
  __CPROVER_assert(*alpha == 1.0 && *beta == 0.0, "gemv: alpha = 1, beta = 0 (MatvecTmp := A*x)");
  __CPROVER_assert(__CPROVER_same_object(A, in_lusup), "gemv: A points into lusup");
  if (!__CPROVER_same_object(A, in_lusup)) __CPROVER_assume(0);
  mv_dest(*m, *n, A - in_lusup, *lda, x, y, 1);
  return 0;
}

/* library kernel ?matvec2 (?myblas2.c): y0 += A*x0, y1 += A*x1, A m-by-n, leading dimension lda -- two destinations, one pass over A */
void @p@matvec2(int_t lda, int_t m, int_t n, @T@ *A, @T@ *x0, @T@ *x1, @T@ *y0, @T@ *y1) {
  g_blas.mv2_calls++;
  __CPROVER_assert(__CPROVER_same_object(A, in_lusup), "matvec2: A points into lusup");
  if (!__CPROVER_same_object(A, in_lusup)) __CPROVER_assume(0);
  __CPROVER_assert(y0 != y1, "matvec2: two different destination columns");
  mv_dest(m, n, A - in_lusup, lda, x0, y0, 0);
  mv_dest(m, n, A - in_lusup, lda, x1, y1, 0);
}


int_t nondet_int_t(void);
#define REQ(label, c) __CPROVER_assume(c)
#define ENS(label, c) __CPROVER_assert(c, "ensures " #label)
#define NUM(v) ((v) == (v))
/* BOUNDED unit (label B(n)): no contract is enforced (same reason as bmod2D: a loop contract would havoc the cursor pointers
 * dense_col/TriTmp/repfnz_col/matvec[0], after which symex splits every access over all assignable objects).  The real routine is
 * executed symbolically with all loops unwound (--unwinding-assertions), for every geometry within the capacities.
 * The clauses are the ones a contract would carry: REQ = requires (assumed), ENS = ensures (asserted), frame = ghost index per array. */
void h_bmod2D_mv2(void) {
  /* ---------- inputs: nondeterministic ---------- */
  in_pnum = nondet_int_t(); in_m = nondet_int_t(); in_w = nondet_int_t(); in_jcol = nondet_int_t(); in_fsupc = nondet_int_t(); in_krep = nondet_int_t();
  in_nsupc = nondet_int_t(); in_nsupr = nondet_int_t(); in_nrow = nondet_int_t(); in_maxsuper = nondet_int_t(); in_rowblk = nondet_int_t();
  g_lptr = nondet_int_t(); g_xf = nondet_int_t(); g_c = nondet_int_t(); g_q = nondet_int_t(); g_k = nondet_int_t(); g_r = nondet_int_t(); g_t = nondet_int_t();
  g_p = nondet_int_t(); g_l = nondet_int_t(); g_x = nondet_int_t(); g_pn = nondet_int_t();
  __CPROVER_havoc_object(in_repfnz); __CPROVER_havoc_object(in_panel_lsub); __CPROVER_havoc_object(in_w_lsub_end); __CPROVER_havoc_object(in_spa_marker);
  __CPROVER_havoc_object(in_dense); __CPROVER_havoc_object(in_tempv); __CPROVER_havoc_object(in_procstat);
  __CPROVER_havoc_object(in_xlsub); __CPROVER_havoc_object(in_xlsub_end); __CPROVER_havoc_object(in_xlusup); __CPROVER_havoc_object(in_lsub); __CPROVER_havoc_object(in_lusup);
  in_Glu.lsub = in_lsub; in_Glu.xlsub = in_xlsub; in_Glu.xlsub_end = in_xlsub_end; in_Glu.lusup = in_lusup; in_Glu.xlusup = in_xlusup;
  in_Gstat.procstat = in_procstat;
  g_blas.trsv_calls = g_blas.gemv_calls = g_blas.mv2_calls = g_blas.trsv_cnt = g_blas.cov_cnt = g_blas.y_cnt = g_blas.xq_set = g_blas.xk_set = g_blas.yq_set = 0;
  /* ---------- requires ---------- */
  REQ(args, 0 <= in_pnum && in_pnum < NP && 1 <= in_m && in_m <= M && 1 <= in_w && in_w <= W && 0 <= in_jcol && in_jcol <= M);
  /* the updating supernode: columns fsupc..krep, nsupr >= nsupc rows, nrow rows below the diagonal block (call sites: nsupc = krep-fsupc+1,
   * nsupr = xlsub_end[fsupc]-xlsub[fsupc], nrow = nsupr-nsupc) */
  REQ(snode, 0 <= in_fsupc && in_fsupc <= in_krep && in_krep < in_m && in_nsupc == in_krep - in_fsupc + 1 && in_nsupc <= in_nsupr && in_nsupr <= LC && in_nrow == in_nsupr - in_nsupc && in_nrow <= NRC);
  /* slot bound (C05 precondition): the row list lies inside lsub, the nsupr*nsupc values inside lusup */
  REQ(geometry, g_lptr == in_xlsub[in_fsupc] && 0 <= g_lptr && g_lptr <= LC - in_nsupr && in_xlsub_end[in_fsupc] == g_lptr + in_nsupr && g_xf == in_xlusup[in_fsupc] && 0 <= g_xf && g_xf <= LUC && in_nsupr*in_nsupc <= LUC - g_xf);
  REQ(rows_in_range, FA(q1, LC, INLIST(q1) ==> (0 <= in_lsub[q1] && in_lsub[q1] < in_m)));
  REQ(rows_distinct, FA(q2, LC, FA(q3, LC, (INLIST(q2) && q2 < q3 && INLIST(q3)) ==> in_lsub[q2] != in_lsub[q3])));
  /* each panel column's U-segment w.r.t. this supernode is empty or starts at a column of the supernode */
#if W == 1   /* (a quantifier over a single value is dropped by the back end) */
  REQ(segments, KFNZ(0) == EMPTY || (in_fsupc <= KFNZ(0) && KFNZ(0) <= in_krep));
#else
  REQ(segments, FA(c1, W, c1 < in_w ==> (KFNZ(c1) == EMPTY || (in_fsupc <= KFNZ(c1) && KFNZ(c1) <= in_krep))));
#endif
#ifdef SHAPE
  REQ(shape_of_this_variant, SHAPE);
#endif
  /* blocking parameters: a supernode has at most maxsuper columns; tempv holds w slots of maxsuper+rowblk scalars
   * (p?gstrf_SetRWork: NUM_TEMPV = max(2n, (maxsuper+rowblk)*panel_size), panel_size >= w), zero on entry */
  REQ(blocking, in_nsupc <= in_maxsuper && in_maxsuper <= TVC && 1 <= in_rowblk && in_rowblk <= TVC && in_w*(in_maxsuper + in_rowblk) <= TVC);
  REQ(tempv_zero_on_entry, FA(t1, TVC, in_tempv[t1] == 0.0));
  /* ghost indices: panel column, list position, supernode column, row id, tempv index; one index per read-only array */
  REQ(ghosts, 0 <= g_c && g_c < in_w && 0 <= g_q && g_q < in_nsupr && in_fsupc <= g_k && g_k <= in_krep && 0 <= g_r && g_r < in_m && 0 <= g_t && g_t < TVC && 0 <= g_p && g_p < LUC && 0 <= g_l && g_l < LC && 0 <= g_x && g_x < M && 0 <= g_pn && g_pn < NP);
  /* tables for the call records (see above); filled from the pre-state */
#define FILLK(cc) if ((cc) < W) g_kfnz[cc] = (cc) < in_w ? KFNZ(cc) : EMPTY;
#define FILLB(jc) if ((jc) < M) g_colbase[jc] = g_xf + in_nsupr*(jc) + in_nsupc;
  REP8(FILLK) REP8(FILLB)
  g_dense0_r = DENSE(g_c, g_r); g_dense0_q = DENSE(g_c, in_lsub[g_lptr + g_q]);
  /* the compared pre-state values are numbers (NaN != NaN would make "kept" unprovable) */
  REQ(values_numbers, NUM(g_dense0_r) && NUM(g_dense0_q) && NUM(in_lusup[g_p]) && NUM(in_procstat[g_pn].fcops));
  g_lu0 = in_lusup[g_p]; g_lsub0 = in_lsub[g_l]; g_repfnz0 = in_repfnz[g_c*in_m + g_x]; g_xlsub0 = in_xlsub[g_x]; g_xlsub_end0 = in_xlsub_end[g_x]; g_xlusup0 = in_xlusup[g_x];
  g_unused0[0] = in_panel_lsub[g_c*in_m + g_x]; g_unused0[1] = in_spa_marker[g_c*in_m + g_x]; g_unused0[2] = in_w_lsub_end[g_c];
  g_fcops0 = in_procstat[g_pn].fcops; g_stat0[0] = in_procstat[g_pn].panels; g_stat0[1] = in_procstat[g_pn].skedwaits; g_stat0[2] = in_procstat[g_pn].pruned; g_stat0[3] = in_procstat[g_pn].unpruned;

  p@p@gstrf_bmod2D_mv2(in_pnum, in_m, in_w, in_jcol, in_fsupc, in_krep, in_nsupc, in_nsupr, in_nrow, in_repfnz, in_panel_lsub,
                 in_w_lsub_end, in_spa_marker, in_dense, in_tempv, &in_Glu, &in_Gstat);

  /* ---------- ensures ---------- */
  /* C02: the triangular solve of column g_c happens once, on the segsze x segsze diagonal block at row/column no_zeros */
  ENS(trsv_once_on_diagonal_block, !BLAS(g_c) || (g_blas.trsv_cnt == 1 && g_blas.trsv_aoff == TRI_OFF(g_c) && g_blas.trsv_n == SEGSZE(g_c)));
  ENS(no_kernel_for_small_segments, BLAS(g_c) || (g_blas.trsv_cnt == 0 && g_blas.y_cnt == 0 && g_blas.cov_cnt == 0));
  /* C02: every entry (row GROW below the diagonal block, supernode column g_k of the U-segment) enters the product of column g_c exactly
   * once -- whichever of gemv (extra leading columns / unpaired column) and matvec2 (columns shared with the partner) carries it */
  ENS(each_entry_below_multiplied_once, !(BLAS(g_c) && g_q >= in_nsupc && KFNZ(g_c) <= g_k) || g_blas.cov_cnt == 1);
  ENS(no_product_outside_segment, !(BLAS(g_c) && g_k < KFNZ(g_c)) || g_blas.cov_cnt == 0);
  ENS(block_row_written_by_one_or_two_kernels, !(BLAS(g_c) && g_q >= in_nsupc) || (1 <= g_blas.y_cnt && g_blas.y_cnt <= 2 && g_blas.yq_set == g_blas.y_cnt));
#if VALS
  /* C02: the finished product entry is subtracted from dense[lsub[lptr+nsupc+row]] of THAT panel column, once */
  ENS(product_scattered_to_its_row, !(BLAS(g_c) && g_q >= in_nsupc) || DENSE(g_c, in_lsub[g_lptr + g_q]) == g_dense0_q - g_yq || !NUM(g_dense0_q - g_yq));
  /* C02: the solved segment goes back to dense[lsub[lptr+no_zeros+i]] of THAT panel column */
  ENS(solved_segment_scattered, !(BLAS(g_c) && NOZEROS(g_c) <= g_q && g_q < in_nsupc) || (g_blas.xq_set == 1 && (DENSE(g_c, in_lsub[g_lptr + g_q]) == g_xq || !NUM(g_xq))));
  /* C05: dense[] of a panel column is written only at rows of the supernode's row list, and not above the segment's first row */
  ENS(dense_outside_list_kept, EX(e1, LC, INLIST(e1) && in_lsub[e1] == g_r) || DENSE(g_c, g_r) == g_dense0_r);
  ENS(dense_above_segment_kept, !(ACTIVE(g_c) && g_q < NOZEROS(g_c)) || DENSE(g_c, in_lsub[g_lptr + g_q]) == g_dense0_q);
  ENS(dense_empty_segment_kept, ACTIVE(g_c) || DENSE(g_c, g_r) == g_dense0_r);
  /* C02: in the hand-unrolled cases (segsze 1,2,3) the first entry of the segment is the top of a unit lower triangular solve: it is
   * read, never written -- in particular not by the final scatter of the (unused, all-zero) TriTmp slot */
  ENS(unrolled_first_row_kept, !(ACTIVE(g_c) && SEGSZE(g_c) <= 3 && g_q == NOZEROS(g_c)) || DENSE(g_c, in_lsub[g_lptr + g_q]) == g_dense0_q);
  ENS(tempv_zero_on_exit, in_tempv[g_t] == 0.0);
#endif
  /* frame: the supernode, the index structures, the unused SCATTER_FOUND arrays and the statistics other than this thread's flop count are not written */
  ENS(frame_lusup, in_lusup[g_p] == g_lu0);
  ENS(frame_index_arrays, in_lsub[g_l] == g_lsub0 && in_repfnz[g_c*in_m + g_x] == g_repfnz0 && in_xlsub[g_x] == g_xlsub0 && in_xlsub_end[g_x] == g_xlsub_end0 && in_xlusup[g_x] == g_xlusup0);
  ENS(frame_unused_arrays, in_panel_lsub[g_c*in_m + g_x] == g_unused0[0] && in_spa_marker[g_c*in_m + g_x] == g_unused0[1] && in_w_lsub_end[g_c] == g_unused0[2]);
  ENS(frame_statistics, in_Gstat.procstat == in_procstat && in_procstat[g_pn].panels == g_stat0[0] && in_procstat[g_pn].skedwaits == g_stat0[1] && in_procstat[g_pn].pruned == g_stat0[2] && in_procstat[g_pn].unpruned == g_stat0[3] && (g_pn == in_pnum || in_procstat[g_pn].fcops == g_fcops0));
  ENS(frame_glu, in_Glu.lsub == in_lsub && in_Glu.xlsub == in_xlsub && in_Glu.xlsub_end == in_xlsub_end && in_Glu.lusup == in_lusup && in_Glu.xlusup == in_xlusup);
  __CPROVER_assert(0, "canary: bmod2D_mv2 returns");
#if CANARIES
  if (BLAS(0) && NOZEROS(0) > 0) __CPROVER_assert(0, "canary: segsze >= 4 with no_zeros > 0");
  if (BLAS(0) && in_nrow > in_rowblk && in_nrow - in_rowblk < in_rowblk) __CPROVER_assert(0, "canary: several block rows, last one short");
#if W >= 2
  if (in_w >= 2 && BLAS(0) && BLAS(1) && KFNZ(0) < KFNZ(1)) __CPROVER_assert(0, "canary: pair, first column longer (gemv on column 0, then matvec2)");
  if (in_w >= 2 && BLAS(0) && BLAS(1) && KFNZ(0) > KFNZ(1)) __CPROVER_assert(0, "canary: pair, second column longer (gemv on column 1, then matvec2)");
  if (in_w >= 2 && BLAS(0) && BLAS(1) && KFNZ(0) == KFNZ(1)) __CPROVER_assert(0, "canary: pair, equal segments (matvec2 only)");
  if (in_w == 2 && ACTIVE(0) && SEGSZE(0) == 1 && ACTIVE(1) && SEGSZE(1) == 3 && in_nrow >= 2) __CPROVER_assert(0, "canary: unrolled cases 1 and 3");
  if (in_w == 2 && !ACTIVE(0) && ACTIVE(1) && SEGSZE(1) == 2 && in_nrow >= 1) __CPROVER_assert(0, "canary: empty segment and unrolled case 2");
#endif
#if W >= 3
  if (in_w == 3 && BLAS(0) && BLAS(1) && BLAS(2)) __CPROVER_assert(0, "canary: pair plus an unpaired third column");
  if (in_w == 3 && BLAS(0) && !BLAS(1) && BLAS(2) && KFNZ(0) != KFNZ(2)) __CPROVER_assert(0, "canary: pair separated by a non-BLAS column");
  if (in_w == 3 && !BLAS(0) && !BLAS(1) && BLAS(2)) __CPROVER_assert(0, "canary: single BLAS column in the last position");
#endif
  if (BLAS(0) && SNODE_END == LUC && in_w*(in_maxsuper + in_rowblk) == TVC && in_m == M && in_w == W && g_lptr + in_nsupr == LC) __CPROVER_assert(0, "canary: lusup, tempv, dense, lsub exactly filled");
#if W >= 3
  if (g_blas.mv2_calls >= 2) __CPROVER_assert(0, "canary: two matvec2 calls");
#endif
  if (g_blas.gemv_calls >= 3) __CPROVER_assert(0, "canary: three gemv calls");
#endif
}
