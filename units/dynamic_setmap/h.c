#include "slu_mt_ddefs.h"
int_t g_map0[CAP+1], g_nextl0, g_nextu0, g_nextlu0, g_nzlu0; int g_fits;
extern int g_locks, g_unlocks; extern void *g_lock_obj, *g_unlock_obj;
int_t in_pnum, in_jcol, in_num; pxgstrf_shared_t in_sh; GlobalLU_t in_Glu; Gstat_t in_Gstat; mutex_t in_locks[NO_GLU_LOCKS]; int_t in_map[CAP+1];
int_t g_ret;
void h_dynamic_setmap(void) {
  in_sh.Glu = &in_Glu; in_sh.Gstat = &in_Gstat; in_sh.lu_locks = in_locks; in_Glu.map_in_sup = in_map;
  g_ret = DynamicSetMap(in_pnum, in_jcol, in_num, &in_sh);
  __CPROVER_assert(0, "canary: DynamicSetMap returns");
  if (in_Glu.nextlu == in_Glu.nzlumax && in_num > 0) __CPROVER_assert(0, "canary: exact fit returns");
}
