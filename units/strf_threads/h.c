#include <stdlib.h>
#include "slu_mt_@p@defs.h"
int g_created, g_joined, g_finalized, g_finalized_after_joins, g_init_calls, g_thread_fn_ok; int_t g_cfg_init_info;
superlumt_options_t in_o; SuperMatrix in_A, in_L, in_U; Gstat_t in_Gstat; int_t in_perm_r[4], in_info; double in_utime[NPHASES];
static p@p@gstrf_threadarg_t pool_args[NPMAX]; pthread_t in_tid_pool[NPMAX];
p@p@gstrf_threadarg_t *p@p@gstrf_thread_init(SuperMatrix *A, SuperMatrix *L, SuperMatrix *U, superlumt_options_t *o, pxgstrf_shared_t *sh, Gstat_t *G, int_t *info) {
  g_init_calls++; *info = g_cfg_init_info; return g_cfg_init_info ? (p@p@gstrf_threadarg_t *)0 : pool_args;
}
void p@p@gstrf_thread_finalize(p@p@gstrf_threadarg_t *a, pxgstrf_shared_t *sh, SuperMatrix *A, int_t *perm_r, SuperMatrix *L, SuperMatrix *U) {
  g_finalized++; if (g_joined == g_created) g_finalized_after_joins = 1;
}
void *superlu_malloc(size_t n) { return in_tid_pool; }
void superlu_free(void *p) { }
double SuperLU_timer_(void) { double t; return t; }
double usertimer_(void) { double t; return t; }
int pthread_create(pthread_t *t, const pthread_attr_t *a, void *(*fn)(void *), void *arg) {
  if (fn != p@p@gstrf_thread || arg != (void *)&pool_args[g_created]) g_thread_fn_ok = 0;
  g_created++; return 0;
}
int pthread_join(pthread_t t, void **ret) { g_joined++; return 0; }
void *p@p@gstrf_thread(void *arg) { return 0; }
void h_strf(void) {
  in_Gstat.utime = in_utime;
  p@p@gstrf(&in_o, &in_A, in_perm_r, &in_L, &in_U, &in_Gstat, &in_info);
  __CPROVER_assert(0, "canary: p?gstrf returns");
  if (g_created >= 2) __CPROVER_assert(0, "canary: several threads");
  if (g_cfg_init_info != 0) __CPROVER_assert(0, "canary: early return");
}
