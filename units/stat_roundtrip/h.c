#include <stdlib.h>
#include "slu_mt_ddefs.h"
/* inputs */
Gstat_t in_Gstat; int_t in_n, in_nprocs, in_panel_size, in_relax; int_t g_w;
/* allocation model (trusted): libc, never failing */
void *superlu_malloc(size_t n) { void *p = malloc(n); __CPROVER_assume(p != (void *)0); return p; }
void superlu_free(void *p) { free(p); }
int_t *intCalloc(int_t n) { int_t *p = (int_t *)calloc((size_t)n, sizeof(int_t)); __CPROVER_assume(p != (int_t *)0); return p; }
int printf(const char *f, ...) { return 0; }
int sprintf(char *s, const char *f, ...) { return 0; }
int fprintf(FILE *s, const char *f, ...) { return 0; }
void verif_abort(char *msg) { __CPROVER_assert(0, "no abort when no allocation fails"); __CPROVER_assume(0); }
void h_stat_roundtrip(void) {
  __CPROVER_assume(1 <= in_nprocs && in_nprocs <= NPMAX && 0 <= in_panel_size && in_panel_size < WMAX && 0 <= in_relax && in_relax < WMAX);
  StatAlloc(in_n, in_nprocs, in_panel_size, in_relax, &in_Gstat);
  StatInit(in_n, in_nprocs, &in_Gstat);
  /* the histogram entry of the widest possible panel exists and is zero (ParallelInit increments panel_histo[w], w <= max(panel_size, relax)) */
  __CPROVER_assume(0 <= g_w && g_w <= (in_panel_size > in_relax ? in_panel_size : in_relax));
  __CPROVER_assert(in_Gstat.panel_histo[g_w] == 0, "histogram entry of every legal panel width exists and starts at zero");
  StatFree(&in_Gstat);
  __CPROVER_assert(0, "canary: round trip returns");
  if (in_nprocs == NPMAX && in_relax == WMAX - 1) __CPROVER_assert(0, "canary: largest block");
}
