#include "slu_mt_@p@defs.h"
extern void *p@p@gstrf_expand(int_t *, MemType, int_t, int_t, GlobalLU_t *);
extern ExpHeader *@p@expanders;
_Bool nondet_bool(void);
int g_n_malloc; size_t g_malloc_bytes; int_t g_skew, g_gap;
extern int g_locks, g_unlocks;
void *superlu_malloc(size_t size) { if (g_n_malloc < 1000000) g_n_malloc++; g_malloc_bytes = size; return nondet_bool() ? (void*)0 : __CPROVER_allocate(size, 0); }
void superlu_free(void *p) { __CPROVER_assert(0, "superlu_free is not reached by a first request"); }
void copy_mem_int(int_t howmany, void *old, void *new) { __CPROVER_assert(0, "copy_mem_int is not reached by a first request"); }
void user_bcopy(char *src, char *dest, int_t bytes) { __CPROVER_assert(0, "user_bcopy is not reached by a first request"); }
/* inputs */
int_t in_len, in_len_to_copy, in_keep_prev; MemType in_type; GlobalLU_t in_Glu; ExpHeader in_exp[4]; char in_work[WCAP];
void *g_ret; int_t g_len0;
void h_expand_first(void) {
  g_len0 = in_len;
  g_ret = p@p@gstrf_expand(&in_len, in_type, in_len_to_copy, in_keep_prev, &in_Glu);
  __CPROVER_assert(0, "canary: expand (first request) returns");
#if !NEARFULL
  if (g_ret && g_n_malloc == 1) {
    __CPROVER_assert(0, "canary: system request served");
    /* the store handed out is live memory of the advertised length */
    if (in_len > 0) { ((char*)g_ret)[0] = 0; ((char*)g_ret)[(size_t)in_len * ((in_type == LSUB || in_type == USUB) ? sizeof(int_t) : sizeof(@T@)) - 1] = 0; }
  }
  if (!g_ret && g_n_malloc == 1) __CPROVER_assert(0, "canary: system request fails");
#endif
  if (g_ret && g_n_malloc == 0) __CPROVER_assert(0, "canary: user-workspace request served");
  if (g_ret && g_n_malloc == 0 && (in_type == LUSUP || in_type == UCOL) && g_ret != (void*)(in_work + g_skew) && ((g_skew) & 7) != 0) __CPROVER_assert(0, "canary: alignment fix-up taken");
  if (!g_ret && g_n_malloc == 0) __CPROVER_assert(0, "canary: user-workspace request does not fit");
  if (!g_ret && g_n_malloc == 0 && g_gap > 0) __CPROVER_assert(0, "canary: block fits but its alignment shift does not -> NULL");
}
