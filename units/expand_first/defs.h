#define WF_USTACK (0 <= stack.top1 && stack.top1 <= stack.top2 && stack.top2 <= stack.size && stack.used == stack.top1 + (stack.size - stack.top2))
/* instantiation of specs/expand_first.spec for the unit that proves it on the real p?gstrf_expand */
#define EXP_TABLE_OK (@p@expanders == in_exp)
#define EXP_LEN_OK (prev_len == &in_len)

/* ---- instantiation of specs/expand_first.spec, user-workspace part (b = bytes requested, pad = alignment pad needed) */
#define LWORD(t) (((t) == LSUB || (t) == USUB) ? (int_t)sizeof(int_t) : (int_t)sizeof(@T@))
#define EXP_USTACK_WF (0 <= stack.top1 && stack.top1 <= stack.top2 && stack.top2 <= stack.size && stack.size <= WCAP - 16 && stack.used == stack.top1 + (stack.size - stack.top2))
#define EXP_USTACK_PRE (0 <= g_skew && g_skew <= 7 && stack.array == (void*)(in_work + g_skew) && EXP_USTACK_WF)
#define EXP_B ((*prev_len) * LWORD(type))
#define EXP_PAD (((type) == LUSUP || (type) == UCOL) ? ((8 - ((OLD(stack.top1) + g_skew) & 7)) & 7) : 0)
#define EXP_NO_ROOM (EXP_B + EXP_PAD + OLD(stack.used) >= stack.size)
#define EXP_USTACK_FAILED ((stack.top1 == OLD(stack.top1) && stack.used == OLD(stack.used)) || (EXP_B + OLD(stack.used) < stack.size && EXP_PAD > 0 && stack.top1 == OLD(stack.top1) + EXP_B && stack.used == OLD(stack.used) + EXP_B))
#define EXP_USTACK_POST (0 <= stack.top1 && stack.top1 <= 16777216 && -16777216 <= stack.used && stack.used <= 16777216 && stack.top1 == OLD(stack.top1) + EXP_B + EXP_PAD && stack.used == OLD(stack.used) + EXP_B + EXP_PAD && RET == (void*)(in_work + g_skew + OLD(stack.top1) + EXP_PAD) && ((type == LUSUP || type == UCOL) ==> ((OLD(stack.top1) + EXP_PAD + g_skew) & 7) == 0) && stack.top1 < stack.top2)
