#define WF_USTACK (0 <= stack.top1 && stack.top1 <= stack.top2 && stack.top2 <= stack.size && stack.used == stack.top1 + (stack.size - stack.top2))
#define BIG 1073741824
/* instantiation of specs/expand_first.spec for the unit that proves it on the real p?gstrf_expand */
#define EXP_TABLE_OK (@p@expanders == in_exp)
#define EXP_LEN_OK (prev_len == &in_len)
#define LWORD(t) (((t) == LSUB || (t) == USUB) ? (int_t)sizeof(int_t) : (int_t)sizeof(@T@))
#define EXP_USTACK_PRE (0 <= g_skew && g_skew <= 7 && stack.array == (void*)(in_work + g_skew) && 0 <= stack.top1 && stack.top1 <= WCAP - 16 && 0 <= stack.top2 && stack.top2 <= stack.size && stack.size <= WCAP - 16 && stack.used == stack.top1 + (stack.size - stack.top2))
/* what a successful first request in user-workspace mode guarantees: block of b bytes at the old top1, moved up by at most 7 bytes for alignment */
#define EXP_B ((*prev_len) * LWORD(type))
#define EXP_X (stack.top1 - OLD(stack.top1) - EXP_B)
#define EXP_USTACK_POST (0 <= stack.top1 && stack.top1 <= 16777216 && -16777216 <= stack.used && stack.used <= 16777216 && EXP_B + OLD(stack.used) < stack.size && 0 <= EXP_X && EXP_X <= 7 && stack.used == OLD(stack.used) + EXP_B + EXP_X && RET == (void*)(in_work + g_skew + OLD(stack.top1) + EXP_X) && ((type == LSUB || type == USUB) ==> EXP_X == 0) && ((type == LUSUP || type == UCOL) ==> ((OLD(stack.top1) + EXP_X + g_skew) & 7) == 0) && OLD(stack.top1) + EXP_B < stack.top2)
