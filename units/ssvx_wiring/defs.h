/* vocabulary of the argument checks of p?gssvx, written from the header comment of the routine */
#define o_ superlumt_options
#define E1 (nprocs <= 0)
#define E2 (!((o_->fact==DOFACT||o_->fact==EQUILIBRATE||o_->fact==FACTORED) && (o_->trans==NOTRANS||o_->trans==TRANS||o_->trans==CONJ) && (o_->refact==YES||o_->refact==NO) && (o_->usepr==YES||o_->usepr==NO) && o_->lwork >= -1))
#define E3 (!(A->nrow==A->ncol && A->nrow>=0 && (A->Stype==SLU_NC||A->Stype==SLU_NR) && A->Dtype==DT && A->Mtype==SLU_GE))
#define FACTD (o_->fact == FACTORED)
#define ROWEQU(e) (FACTD && ((e)==ROW || (e)==BOTH))
#define COLEQU(e) (FACTD && ((e)==COL || (e)==BOTH))
#define E6(e) (FACTD && !((e)==NOEQUIL || (e)==ROW || (e)==COL || (e)==BOTH))
#define MAX0(x) ((x) > 0 ? (x) : 0)
#define E11 (!(B->ncol >= 0 && ((DNformat*)B->Store)->lda >= MAX0(A->nrow) && B->Stype==SLU_DN && B->Dtype==DT && B->Mtype==SLU_GE))
#define E12 (!(X->ncol >= 0 && ((DNformat*)X->Store)->lda >= MAX0(A->nrow) && B->ncol==X->ncol && X->Stype==SLU_DN && X->Dtype==DT && X->Mtype==SLU_GE))
#define BM(i,j) Bmat[(i) + (j)*ldb]
#define XM(i,j) Xmat[(i) + (j)*ldx]
/* --- legal-call vocabulary --- */
#define LEGAL (!E1 && !E2 && !E3 && !E6(*equed) && !E11 && !E12)
#define NRHS (B->ncol)
#define LDB (((DNformat*)B->Store)->lda)
#define LDX (((DNformat*)X->Store)->lda)
#define IS_NR (A->Stype == SLU_NR)
#define DOF (o_->fact == DOFACT || o_->fact == EQUILIBRATE)
#define EFFTRANS (IS_NR ? (o_->trans == NOTRANS ? TRANS : NOTRANS) : o_->trans)
#define EFFNOTRAN (EFFTRANS == NOTRANS)
#define QUERY (DOF && o_->lwork == -1)
/* matrix every callee must see: A itself, or the NC view the driver creates for row-wise input */
#define AAOK(p) (IS_NR ? ((p) == g_create_A) : ((p) == A))
/* final equilibration state: what ?laqgs reported (EQUILIBRATE with gsequ info 0), the caller's flag (FACTORED), none (DOFACT) */
#define FINAL_EQUED (*equed)
#define ROWEQ_F (FINAL_EQUED == ROW || FINAL_EQUED == BOTH)
#define COLEQ_F (FINAL_EQUED == COL || FINAL_EQUED == BOTH)
#define SOLVED (g_n_gstrs == 1)
#define GHOST_FRAME g_seq, g_xerbla_calls, g_xerbla_arg, g_at_StatAlloc, g_at_StatFree, g_at_gsequ, g_at_laqgs, g_at_colorder, g_at_strf, g_at_growth, g_at_langs, g_at_gscon, g_at_gstrs, g_at_gsrfs, g_at_query, g_at_destroyAC, g_at_destroyAA, g_at_create, g_at_strf_init, g_at_finalize, g_at_malloc, g_at_free, g_n_gstrs, g_n_strf, g_n_gsrfs, g_n_gscon, g_n_malloc, g_n_free, g_n_gsequ, g_n_laqgs, g_n_growth, g_n_query, g_gstrs_trans, g_gsrfs_trans, g_init_trans, g_langs_norm, g_gscon_norm, g_gstrs_B, g_strf_A, g_gsrfs_A, g_gsrfs_B, g_gsrfs_X, g_langs_A, g_growth_A, g_colorder_A, g_gsequ_A, g_laqgs_A, g_create_A, g_gstrs_L, g_gstrs_U, g_gstrs_perm_r, g_gstrs_perm_c, g_growth_ncols, g_gsrfs_equed, g_strf_info, g_gsequ_info, g_rcond_out, g_create_nzval, g_create_rowind, g_create_colptr, g_create_m, g_create_n, g_create_nnz, g_create_stype, g_AC_token
#define CBM(i,j) in_Bval[(i) + (j)*LDB]
#define CXM(i,j) in_Xval[(i) + (j)*LDX]
