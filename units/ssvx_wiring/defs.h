/* vocabulary of the argument checks of p?gssvx, written from the header comment of the routine */
#define o_ superlumt_options
#define E1 (nprocs <= 0)
#define E2 (!((o_->fact==DOFACT||o_->fact==EQUILIBRATE||o_->fact==FACTORED) && (o_->trans==NOTRANS||o_->trans==TRANS||o_->trans==CONJ) && (o_->refact==YES||o_->refact==NO) && (o_->usepr==YES||o_->usepr==NO) && o_->lwork >= -1))
#define E3 (!(A->nrow==A->ncol && A->nrow>=0 && (A->Stype==SLU_NC||A->Stype==SLU_NR) && A->Dtype==DT && A->Mtype==SLU_GE))
#define FACTD (o_->fact == FACTORED)
#define ROWEQU(e) (FACTD && ((e)==ROW || (e)==BOTH))
#define COLEQU(e) (FACTD && ((e)==COL || (e)==BOTH))
#define E6(e) (FACTD && !((e)==NOEQUIL || (e)==ROW || (e)==COL || (e)==BOTH))
#define MAX0(x) ((x) > 0 ? (x) : 0)
#define E11 (!(B->ncol >= 0 && ((DNformat*)B->Store)->lda >= MAX0(A->nrow) && B->Stype==SLU_DN && B->Dtype==DT && B->Mtype==SLU_GE))
#define E12 (!(X->ncol >= 0 && ((DNformat*)X->Store)->lda >= MAX0(A->nrow) && B->ncol==X->ncol && X->Stype==SLU_DN && X->Dtype==DT && X->Mtype==SLU_GE))
#define BM(i,j) Bmat[(i) + (j)*ldb]
#define XM(i,j) Xmat[(i) + (j)*ldx]
/* --- legal-call vocabulary --- */
#define LEGAL (!E1 && !E2 && !E3 && !E6(*equed) && !E11 && !E12)
#define NRHS (B->ncol)
#define LDB (((DNformat*)B->Store)->lda)
#define LDX (((DNformat*)X->Store)->lda)
#define IS_NR (A->Stype == SLU_NR)
#define DOF (o_->fact == DOFACT || o_->fact == EQUILIBRATE)
#define EFFTRANS (IS_NR ? (o_->trans == NOTRANS ? TRANS : NOTRANS) : o_->trans)
#define EFFNOTRAN (EFFTRANS == NOTRANS)
#define QUERY (DOF && o_->lwork == -1)
/* matrix every callee must see: A itself, or the NC view the driver creates for row-wise input */
#define AAOK(p) (IS_NR ? ((p) == g_create_A) : ((p) == A))
/* final equilibration state: what ?laqgs reported (EQUILIBRATE with gsequ info 0), the caller's flag (FACTORED), none (DOFACT) */
#define FINAL_EQUED (*equed)
#define ROWEQ_F (FINAL_EQUED == ROW || FINAL_EQUED == BOTH)
#define COLEQ_F (FINAL_EQUED == COL || FINAL_EQUED == BOTH)
#define SOLVED (g_n_gstrs == 1)
#define GHOST_FRAME GH_
#define CBM(i,j) in_Bval[(i) + (j)*LDB]
#define CXM(i,j) in_Xval[(i) + (j)*LDX]
/* cell frames of the dense blocks (nrhs <= 2): only entries (i,j) with i < nrow, j < nrhs may ever be written */
#define CELL_AT(c,n_,ld,nr) (((nr) >= 1 && 0 <= (c) && (c) < (n_)) || ((nr) >= 2 && (ld) <= (c) && (c) < (ld) + (n_)))
#define CCELL_B(c) CELL_AT(c, A->nrow, LDB, NRHS)
#define CCELL_X(c) CELL_AT(c, A->nrow, LDX, NRHS)
#define LCELL_B(c) CELL_AT(c, A->nrow, ldb, nrhs)
#define LCELL_X(c) CELL_AT(c, A->nrow, ldx, nrhs)
