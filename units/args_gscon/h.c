#include "slu_mt_@p@defs.h"
/* inputs: file-scope, nondeterministic initial values */
extern int g_seq, g_n_malloc, g_n_free, g_xerbla_calls, g_xerbla_arg;
char in_norm[2]; SuperMatrix in_L, in_U; SCPformat in_Lstore; NCPformat in_Ustore; @R@ in_anorm, in_rcond; int_t in_info;
void h_gscon(void) {
  in_L.Store = &in_Lstore; in_U.Store = &in_Ustore;
  @p@gscon(in_norm, &in_L, &in_U, in_anorm, &in_rcond, &in_info);
  __CPROVER_assert(0, "canary: gscon returns");
  if (in_info == -1) __CPROVER_assert(0, "canary: info -1 reachable");
  if (in_info == -3) __CPROVER_assert(0, "canary: info -3 reachable");
  if (in_norm[0] == 'i' && in_info == -2) __CPROVER_assert(0, "canary: lower-case norm accepted, L rejected");
  if (in_norm[0] == 'x' && in_L.nrow < 0 && in_U.Dtype != DT) __CPROVER_assert(0, "canary: triple violation reachable");
}
