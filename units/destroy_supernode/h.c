#include <stdlib.h>
#include "slu_mt_@p@defs.h"
extern int g_n_malloc, g_n_free, g_free_other; extern void *g_watch[12]; extern int g_freed[12], g_free_seq[12];
/* inputs: descriptor values arbitrary; 0 <= n <= CAP because the constructor reads col_to_sup[n] */
SuperMatrix in_A; int_t in_m, in_n, in_nnz; Stype_t in_stype; Dtype_t in_dtype; Mtype_t in_mtype;
/* ghosts: the six arrays (heap objects) */
@T@ *g_nzval; int_t *g_nzcolptr, *g_rowind, *g_ricolptr, *g_col_to_sup, *g_sup_to_col;
void h_destroy_supernode(void) {
  int k;
  __CPROVER_assume(0 <= in_n && in_n <= CAP);
  g_nzval = malloc(sizeof(@T@)); g_nzcolptr = malloc(sizeof(int_t)); g_rowind = malloc(sizeof(int_t)); g_ricolptr = malloc(sizeof(int_t));
  g_col_to_sup = malloc((CAP + 1) * sizeof(int_t)); g_sup_to_col = malloc(sizeof(int_t));
  __CPROVER_assume(g_nzval != 0 && g_nzcolptr != 0 && g_rowind != 0 && g_ricolptr != 0 && g_col_to_sup != 0 && g_sup_to_col != 0);
  g_n_malloc = 0;
  @p@Create_SuperNode_Matrix(&in_A, in_m, in_n, in_nnz, g_nzval, g_nzcolptr, g_rowind, g_ricolptr, g_col_to_sup, g_sup_to_col,
                            in_stype, in_dtype, in_mtype);                                                       /* REAL constructor */
  __CPROVER_assert(g_n_malloc == 1, "constructor allocates the Store object only");
  for (k = 0; k < 12; k++) g_watch[k] = (void *)0;
  g_watch[0] = in_A.Store; g_watch[1] = g_nzval; g_watch[2] = g_nzcolptr; g_watch[3] = g_rowind; g_watch[4] = g_ricolptr;
  g_watch[5] = g_col_to_sup; g_watch[6] = g_sup_to_col;
  Destroy_SuperNode_Matrix(&in_A);                                                                               /* REAL destructor, under contract */
  __CPROVER_assert(0, "canary: constructor + destructor return");
  if (in_n == CAP && in_stype == SLU_SC) __CPROVER_assert(0, "canary: n = CAP reachable");
  /* nothing is freed here: cbmc's --memory-leak-check at the end of the harness decides that nothing is left allocated */
}
