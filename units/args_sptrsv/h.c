#include "slu_mt_@p@defs.h"
/* inputs: file-scope, nondeterministic initial values */
extern int g_seq, g_n_malloc, g_n_free, g_xerbla_calls, g_xerbla_arg;
char in_uplo[2], in_trans[2], in_diag[2]; SuperMatrix in_L, in_U; SCPformat in_Lstore; NCPformat in_Ustore; @T@ in_x[CAP]; int_t in_info;
int_t g_ret;
void h_sptrsv(void) {
  in_L.Store = &in_Lstore; in_U.Store = &in_Ustore;
  g_ret = sp_@p@trsv(in_uplo, in_trans, in_diag, &in_L, &in_U, in_x, &in_info);
  __CPROVER_assert(0, "canary: sp_trsv returns");
#if MODE == 0
  if (in_info == -1) __CPROVER_assert(0, "canary: info -1 reachable");
  if (in_info == -3) __CPROVER_assert(0, "canary: info -3 reachable");
  if (in_info == -5) __CPROVER_assert(0, "canary: info -5 reachable");
  if (in_uplo[0] == 'l' && in_trans[0] == 't' && in_diag[0] == 'n' && in_info == -4) __CPROVER_assert(0, "canary: lower-case letters accepted, L rejected");
  if (in_uplo[0] == 'x' && in_diag[0] == 'x' && in_U.nrow < 0) __CPROVER_assert(0, "canary: triple violation reachable");
#elif MODE == 1
  if (in_L.Dtype != DT) __CPROVER_assert(0, "canary: wrong L->Dtype reachable");
  if (in_L.Dtype == DT && in_L.Mtype == SLU_TRLU && in_U.Stype != SLU_NCP) __CPROVER_assert(0, "canary: wrong U->Stype alone reachable");
#elif MODE == 2
  if (in_uplo[0] == 'U' && in_L.nrow == 2) __CPROVER_assert(0, "canary: upper, order 2 reachable");
#elif MODE == 3
  if (in_uplo[0] == 'L' && in_trans[0] == 'N') __CPROVER_assert(0, "canary: quick return lower / no transpose");
  if (in_uplo[0] == 'U' && in_trans[0] == 'N') __CPROVER_assert(0, "canary: quick return upper / no transpose");
  if (in_uplo[0] == 'L' && in_trans[0] == 'T') __CPROVER_assert(0, "canary: quick return lower / transpose");
  if (in_uplo[0] == 'U' && in_trans[0] == 'T') __CPROVER_assert(0, "canary: quick return upper / transpose");
#endif
}
