#include <stdlib.h>
#include "slu_mt_@p@defs.h"
/* p?gstrf_thread with every callee an executable contract: C06 (c) "each thread reports the SMALLEST zero-pivot column it met".
 * Bounded: at most NPAN panels are handed to this thread, panel width <= W (loops unwound, label B). */
int_t g_min, g_err, g_calls, g_sched_calls;
int_t nondet_int_t(void);
p@p@gstrf_threadarg_t in_arg; superlumt_options_t in_o; pxgstrf_shared_t in_shared; SuperMatrix in_A; GlobalLU_t in_Glu; Gstat_t in_Gstat;
pan_status_t in_pan[CAP+1]; int_t in_spin[CAP+1], in_etree[CAP+1], in_super_bnd[CAP+1], in_perm_r[CAP], in_xlsub[CAP+1], in_xlsub_end[CAP+1], in_lsub[CAP];
procstat_t in_procstat[2]; panstat_t in_panstat[CAP+1]; cp_panel_t in_cp[CAP+1];
static int_t pool_i[64]; static @T@ pool_d[64];
/* C18: the three stamp arrays of the thread's work space must be reset before use, whatever the work space held and whatever nprocs is */
static int_t pool_lbusy[CAP], pool_marker[CAP * NO_MARKER], pool_spa[CAP * W]; int g_fill_lbusy, g_fill_marker, g_fill_spa;
int_t *intMalloc(int_t n) { int_t *p = malloc((size_t)(n > 0 ? n : 1) * sizeof(int_t)); __CPROVER_assume(p != NULL); return p; }
void superlu_free(void *p) { free(p); }
void ifill(int_t *a, int_t alen, int_t v) {
  if (a == pool_lbusy) g_fill_lbusy = (alen == in_A.nrow && v == EMPTY);
  if (a == pool_marker) g_fill_marker = (alen == in_A.nrow * NO_MARKER && v == EMPTY);
  if (a == pool_spa) g_fill_spa = (alen == in_A.nrow * in_o.panel_size && v == EMPTY);
}
double SuperLU_timer_(void) { double t; return t; }
int_t p@p@gstrf_WorkInit(int_t n, int_t w, int_t **iw, @T@ **dw) { *iw = pool_i; *dw = pool_d; return 0; }
void pxgstrf_SetIWork(int_t n, int_t w, int_t *iwork, int_t **segrep, int_t **parent, int_t **xplore, int_t **repfnz, int_t **panel_lsub, int_t **marker, int_t **lbusy)
{ *segrep = *parent = *xplore = *repfnz = *panel_lsub = pool_i; *marker = pool_marker; *lbusy = pool_lbusy; }
void p@p@gstrf_SetRWork(int_t n, int_t w, @T@ *dwork, @T@ **dense, @T@ **tempv) { *dense = *tempv = pool_d; }
void p@p@gstrf_WorkFree(int_t *iwork, @T@ *dwork, GlobalLU_t *Glu) { }
float p@p@gstrf_memory_use(const int_t a, const int_t b, const int_t c) { return 0; }
/* scheduler: hands out an arbitrary panel head (or none) and counts down */
void pxgstrf_scheduler(const int_t pnum, const int_t n, const int_t *etree, int_t *cur_pan, int_t *bcol, pxgstrf_shared_t *sh) {
  g_sched_calls++;
  int_t j = nondet_int_t();
  if (g_sched_calls >= NPAN) sh->tasks_remain = 0; else sh->tasks_remain = 1;
  if (j >= 0 && j < n && in_pan[j].size >= 1 && in_pan[j].size <= W && in_pan[j].size <= in_o.panel_size && j + in_pan[j].size <= n && (in_pan[j].type == RELAXED_SNODE || j >= 1)) { *cur_pan = j; *bcol = j; }
  else *cur_pan = EMPTY;
}
static int_t report(int_t jcol) {   /* a zero pivot in column jcol (or none): tracked in the ghost minimum */
  int_t r = nondet_int_t();
  if (r != 0) { r = jcol + 1; if (g_min == 0 || r < g_min) g_min = r; }
  return r;
}
int_t p@p@gstrf_factor_snode(const int_t pnum, const int_t jcol, SuperMatrix *A, const @R@ u, yes_no_t *usepr, int_t *perm_r, int_t *inv_perm_r, int_t *inv_perm_c, int_t *xprune, int_t *marker, int_t *col_lsub, @T@ *dense, @T@ *tempv, pxgstrf_shared_t *sh, int_t *info)
{ __CPROVER_assert(u == in_o.diag_pivot_thresh || (u != u && in_o.diag_pivot_thresh != in_o.diag_pivot_thresh), "the pivot step gets the caller's threshold options->diag_pivot_thresh unchanged (C02/C16: a threshold of 0 stays 0, so a nonzero diagonal is always accepted; a threshold of 1 stays partial pivoting)"); __CPROVER_assert(usepr == &in_o.usepr, "the pivot step gets the SHARED reuse flag of the options, so that dropping pivot reuse is seen by every thread (C08)"); g_calls++; *info = report(jcol + (nondet_int_t() ? 0 : in_pan[jcol].size - 1)); return 0; }
void pxgstrf_mark_busy_descends(int_t pnum, int_t jcol, int_t *etree, pxgstrf_shared_t *sh, int_t *bcol, int_t *lbusy) { __CPROVER_assert(g_fill_lbusy && g_fill_marker, "stamp arrays lbusy / marker were reset to EMPTY over all their entries before the first panel is processed (C18: nothing left in the work space by earlier calls is read)"); __CPROVER_assert(lbusy == pool_lbusy, "busy-descendant stamps are the thread's own"); }
void p@p@gstrf_panel_dfs(const int_t a, const int_t b, const int_t c, const int_t d, SuperMatrix *A, int_t *p1, int_t *p2, int_t *p3, int_t *p4, int_t *nseg, int_t *p6, int_t *p7, int_t *p8, int_t *p9, int_t *p10, int_t *p11, int_t *p12, int_t *p13, @T@ *dn, GlobalLU_t *G) { __CPROVER_assert(g_fill_lbusy && g_fill_marker, "stamp arrays lbusy / marker were reset to EMPTY over all their entries before the first panel is processed (C18: nothing left in the work space by earlier calls is read)"); *nseg = 0; }
void p@p@gstrf_panel_bmod(const int_t a, const int_t b, const int_t c, const int_t d, const int_t e, int_t *p1, int_t *p2, int_t *p3, int_t *p4, int_t *p5, int_t *p6, int_t *p7, int_t *p8, @T@ *d1, @T@ *d2, pxgstrf_shared_t *sh) { }
void pxgstrf_super_bnd_dfs(const int_t a, const int_t b, const int_t c, const int_t d, const int_t e, SuperMatrix *A, int_t *p1, int_t *p2, int_t *p3, int_t *p4, int_t *p5, int_t *p6, int_t *p7, pxgstrf_shared_t *sh) { }
int_t p@p@gstrf_column_dfs(const int_t a, const int_t b, const int_t c, const int_t d, int_t *p1, int_t *p2, int_t *p3, int_t e, int_t *p4, int_t *p5, int_t *p6, int_t *p7, int_t *p8, int_t *p9, int_t *p10, int_t *p11, pxgstrf_shared_t *sh) { return 0; }
int_t p@p@gstrf_column_bmod(const int_t a, const int_t b, const int_t c, const int_t d, int_t *p1, int_t *p2, @T@ *d1, @T@ *d2, pxgstrf_shared_t *sh, Gstat_t *G) { return 0; }
int_t p@p@gstrf_pivotL(const int_t pnum, const int_t jcol, const @R@ u, yes_no_t *usepr, int_t *perm_r, int_t *inv_perm_r, int_t *inv_perm_c, int_t *pivrow, GlobalLU_t *Glu, Gstat_t *Gs) { __CPROVER_assert(u == in_o.diag_pivot_thresh || (u != u && in_o.diag_pivot_thresh != in_o.diag_pivot_thresh), "the pivot step gets the caller's threshold options->diag_pivot_thresh unchanged (C02/C16: a threshold of 0 stays 0, so a nonzero diagonal is always accepted; a threshold of 1 stays partial pivoting)"); __CPROVER_assert(usepr == &in_o.usepr, "the pivot step gets the SHARED reuse flag of the options, so that dropping pivot reuse is seen by every thread (C08)"); g_calls++; *pivrow = 0; return report(jcol); }
int_t p@p@gstrf_copy_to_ucol(const int_t a, const int_t b, const int_t c, const int_t *p1, const int_t *p2, const int_t *p3, @T@ *d, pxgstrf_shared_t *sh) { return 0; }
void pxgstrf_pruneL(const int_t a, const int_t *p1, const int_t b, const int_t c, const int_t *p2, const int_t *p3, int_t *p4, int_t *p5, GlobalLU_t *G) { }
void pxgstrf_resetrep_col(const int_t a, const int_t *p1, int_t *p2) { }
void h_thread(void) {
  int_t n = in_A.ncol;
  __CPROVER_assume(n >= 1 && n <= CAP && in_A.nrow == n && in_o.panel_size >= 1 && in_o.panel_size <= W);
  in_arg.pnum = 0; in_arg.superlumt_options = &in_o; in_arg.pxgstrf_shared = &in_shared;
  in_o.etree = in_etree; in_o.part_super_h = in_super_bnd; in_o.perm_r = in_perm_r;
  in_shared.A = &in_A; in_shared.Glu = &in_Glu; in_shared.Gstat = &in_Gstat; in_shared.pan_status = in_pan; in_shared.spin_locks = in_spin;
  in_shared.inv_perm_c = in_perm_r; in_shared.inv_perm_r = in_perm_r; in_shared.xprune = in_xlsub; in_shared.ispruned = in_xlsub;
  in_Glu.lsub = in_lsub; in_Glu.xlsub = in_xlsub; in_Glu.xlsub_end = in_xlsub_end; in_Glu.dynamic_snode_bound = NO;
  in_Gstat.procstat = in_procstat; in_Gstat.panstat = in_panstat; in_Gstat.cp_panel = in_cp;
  for (int_t c = 0; c <= CAP; c++) { __CPROVER_assume(in_xlsub[c] >= 0 && in_xlsub[c] < CAP && in_xlsub_end[c] == in_xlsub[c]);   /* row lists of earlier columns play no role for the reported info */ }
  for (int_t c = 0; c < CAP; c++) { __CPROVER_assume(in_lsub[c] >= 0 && in_lsub[c] < n); }
  in_shared.tasks_remain = 1; g_min = 0; g_calls = 0; g_sched_calls = 0;
  p@p@gstrf_thread(&in_arg);
  __CPROVER_assert(in_arg.info == g_min, "thread reports the smallest zero-pivot column it met (0 if none)");
  __CPROVER_assert(0, "canary: thread returns");
  if (g_min != 0 && g_calls >= 3) __CPROVER_assert(0, "canary: several pivot steps, singular");
  if (g_sched_calls == NPAN && g_calls >= 2) __CPROVER_assert(0, "canary: all panels handed out");
}
