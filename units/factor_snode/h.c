#include "slu_mt_@p@defs.h"
int_t g_w, g_nsupr, g_p, g_q, g_t, g_first_sing, g_lsub0[LC]; int g_n_dfs, g_n_alloc, g_n_bmod, g_n_piv;
int_t nondet_int_t(void);
int_t in_pnum, in_jcol, in_info, in_lsub[LC], in_xlsub[CAP+1], in_xlsub_end[CAP+1], in_xprune[CAP+1], in_xlusup[CAP+1], in_xusub[CAP+1], in_xusub_end[CAP+1], in_supno[CAP+1], in_xsup[CAP+1], in_asub[NZ], in_colbeg[CAP+1], in_colend[CAP+1];
int_t in_perm_r[CAP], in_marker[CAP], in_col_lsub[CAP]; @T@ in_dense[CAP], in_tempv[CAP], in_aval[NZ]; @R@ in_u; yes_no_t in_usepr;
pxgstrf_shared_t in_shared; pan_status_t in_pan[CAP+1]; GlobalLU_t in_Glu; SuperMatrix in_A; NCPformat in_Astore; Gstat_t in_Gstat;
/* symbolic step: opens supernode number 0 for columns jcol..kcol-1 with g_nsupr rows stored at g_p (room for a second copy behind) */
int_t p@p@gstrf_snode_dfs(const int_t pnum, const int_t jcol, const int_t kcol, const int_t *asub, const int_t *xa_begin, const int_t *xa_end, int_t *xprune, int_t *marker, int_t *col_lsub, pxgstrf_shared_t *sh) {
  g_n_dfs++;
  in_supno[jcol] = 0;
  in_xsup[0] = jcol; in_xlsub[jcol] = g_p; in_xlsub_end[jcol] = g_p + g_nsupr;
  return 0;
}
int_t Glu_alloc(const int_t pnum, const int_t jcol, const int_t num, const MemType mt, int_t *prev, pxgstrf_shared_t *sh) {
  g_n_alloc++; __CPROVER_assert(mt == LUSUP && num == g_nsupr * g_w, "values for nsupr x w entries requested"); *prev = g_q; return 0;
}
int_t p@p@gstrf_snode_bmod(const int_t pnum, const int_t jcol, const int_t jsupno, const int_t fsupc, @T@ *dense, @T@ *tempv, GlobalLU_t *Glu, Gstat_t *G) {
  __CPROVER_assert(jcol == in_jcol + g_n_bmod && fsupc == in_jcol && in_xlusup[jcol] == g_q + g_n_bmod * g_nsupr, "column update gets its own slot");
  g_n_bmod++; return 0;
}
int_t p@p@gstrf_pivotL(const int_t pnum, const int_t jcol, const @R@ u, yes_no_t *usepr, int_t *perm_r, int_t *inv_perm_r, int_t *inv_perm_c, int_t *pivrow, GlobalLU_t *Glu, Gstat_t *G) {
  g_n_piv++; int_t r = nondet_int_t(); if (r != 0) { r = jcol + 1; if (g_first_sing == 0) g_first_sing = r; } return r;
}
void h_factor_snode(void) {
  in_shared.Glu = &in_Glu; in_shared.pan_status = in_pan; in_shared.Gstat = &in_Gstat;
  in_Glu.lsub = in_lsub; in_Glu.xlsub = in_xlsub; in_Glu.xlsub_end = in_xlsub_end; in_Glu.xusub = in_xusub; in_Glu.xusub_end = in_xusub_end; in_Glu.xsup = in_xsup; in_Glu.supno = in_supno; in_Glu.xlusup = in_xlusup;
  in_A.Store = &in_Astore; in_Astore.nzval = in_aval; in_Astore.rowind = in_asub; in_Astore.colbeg = in_colbeg; in_Astore.colend = in_colend;
  p@p@gstrf_factor_snode(in_pnum, in_jcol, &in_A, in_u, &in_usepr, in_perm_r, in_perm_r, in_perm_r, in_xprune, in_marker, in_col_lsub, in_dense, in_tempv, &in_shared, &in_info);
  __CPROVER_assert(0, "canary: factor_snode returns");
  if (g_nsupr + 1 < g_w) __CPROVER_assert(0, "canary: supernode with at least two rows fewer than columns");
  if (g_nsupr > g_w && g_w > 1) __CPROVER_assert(0, "canary: tall supernode, several columns");
  if (in_info != 0) __CPROVER_assert(0, "canary: singular supernode");
}
