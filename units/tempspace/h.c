#include <stdlib.h>
#include "slu_mt_@p@defs.h"
int_t in_n, in_w, in_p, g_ret;
int xerbla_(char *s, int *i) { __CPROVER_assert(0, "sp_ienv is called with a legal ispec"); return 0; }
void h_tempspace(void) {
  g_ret = superlu_@p@TempSpace(in_n, in_w, in_p);
  __CPROVER_assert(0, "canary: TempSpace returns");
  if (in_n > 1000000) __CPROVER_assert(0, "canary: order above 1e6");
#if PFIX == 0
  if (in_p == PMAX && in_w == 8 && in_n >= 40000) __CPROVER_assert(0, "canary: PMAX threads, order 40000");
#endif
  if (g_ret > 2000000000) __CPROVER_assert(0, "canary: close to INT_MAX");
}
