#include "slu_mt_@p@defs.h"
extern void @p@user_free(int_t, int_t);
int_t g_size0, g_used0, g_top10, g_top20;
extern int g_locks, g_unlocks; extern void *g_lock_obj, *g_unlock_obj;
int_t in_bytes, in_which_end;
void h_user_free(void) {
  @p@user_free(in_bytes, in_which_end);
  __CPROVER_assert(0, "canary: user_free returns");
  if (in_which_end == 0 && in_bytes > 0) __CPROVER_assert(0, "canary: HEAD release");
  if (in_which_end != 0 && in_bytes > 0) __CPROVER_assert(0, "canary: TAIL release");
}
