/* contracts of the two adjacency builders of SRC/get_perm_c.c, attached to re-declarations (the definitions are the
 * real ones in the same translation unit; calls from get_perm_c are REPLACED by these contracts: "replace" in unit.json).
 * ASSUMED (trusted): what the routines allocate and return, read off SRC/get_perm_c.c lines 166-174 and 299-307:
 *   - *bnz >= 0 is the number of off-diagonal entries of A'*A resp. A'+A,
 *   - *b_colptr is a newly allocated array of n+1 entries (always), *b_rowind one of *bnz entries ONLY IF *bnz != 0,
 *   - marker / t_colptr / t_rowind are released before returning (nothing else stays allocated).
 * This unit selects the empty-adjacency outcome (*bnz == 0: A'*A resp. A'+A is diagonal, e.g. every diagonal matrix):
 * the contract returns *bnz == 0, i.e. exactly ONE array (*b_colptr) is handed to the caller.
 * The array is the heap object g_colptr_obj that the harness allocates just before the call (an is_fresh in the replaced
 * contract costs 250 s here, the token object 5 s); get_perm_c may free it (__CPROVER_frees in the spec). */
#include <stdlib.h>
#include "slu_mt_@p@defs.h"
extern int g_n_malloc, g_n_free; int_t *g_colptr_obj;
void getata(const int_t m, const int_t n, const int_t nz, int_t *colptr, int_t *rowind,
            int_t *atanz, int_t **ata_colptr, int_t **ata_rowind)
  __CPROVER_requires(0 <= n && n <= CAP && 0 <= m)
  __CPROVER_assigns(*atanz, *ata_colptr)
  __CPROVER_ensures(*atanz == 0 && *ata_colptr == g_colptr_obj);
void at_plus_a(const int_t n, const int_t nz, int_t *colptr, int_t *rowind,
               int_t *bnz, int_t **b_colptr, int_t **b_rowind)
  __CPROVER_requires(0 <= n && n <= CAP)
  __CPROVER_assigns(*bnz, *b_colptr)
  __CPROVER_ensures(*bnz == 0 && *b_colptr == g_colptr_obj);
/* inputs: file-scope, nondeterministic initial values */
extern int g_seq;
int_t g_i;
int_t in_ispec; SuperMatrix in_A; NCformat in_Astore; int_t in_colptr[CAP+1], in_rowind[CAP]; int_t in_perm_c[CAP];
void get_perm_c(int_t, SuperMatrix *, int_t *);
void h_get_perm_c(void) {
  in_A.Store = &in_Astore; in_Astore.colptr = in_colptr; in_Astore.rowind = in_rowind;
  g_colptr_obj = malloc((CAP + 1) * sizeof(int_t)); __CPROVER_assume(g_colptr_obj != NULL);
  get_perm_c(in_ispec, &in_A, in_perm_c);
  __CPROVER_assert(0, "canary: get_perm_c returns");
  if (in_ispec == 1 && in_A.ncol == 3) __CPROVER_assert(0, "canary: A'*A ordering, order 3");
  if (in_ispec == 2 && in_A.ncol == 0) __CPROVER_assert(0, "canary: A'+A ordering, order 0");
}
