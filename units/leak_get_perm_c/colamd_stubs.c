/* get_colamd (ispec == 3) is not part of this unit: its COLAMD callees only count their call */
#include <stddef.h>
extern int g_seq;
size_t colamd_recommended(int nnz, int n_row, int n_col) { g_seq++; return 0; }
void colamd_set_defaults(double knobs[]) { g_seq++; }
int colamd(int n_row, int n_col, int Alen, int A[], int p[], double knobs[], int stats[]) { g_seq++; return 0; }
