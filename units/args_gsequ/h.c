#include "slu_mt_@p@defs.h"
/* inputs: file-scope, nondeterministic initial values */
extern int g_seq, g_n_malloc, g_n_free, g_xerbla_calls, g_xerbla_arg;
SuperMatrix in_A; NCformat in_Astore; int_t in_colptr[CAP+1], in_rowind[CAP]; @T@ in_nzval[CAP];
@R@ in_r[CAP], in_c[CAP], in_rowcnd, in_colcnd, in_amax; int_t in_info;
void h_gsequ(void) {
  in_A.Store = &in_Astore; in_Astore.colptr = in_colptr; in_Astore.rowind = in_rowind; in_Astore.nzval = in_nzval;
  @p@gsequ(&in_A, in_r, in_c, &in_rowcnd, &in_colcnd, &in_amax, &in_info);
  __CPROVER_assert(0, "canary: gsequ returns");
  if (in_A.nrow < 0) __CPROVER_assert(0, "canary: negative row count reachable");
  if (in_A.nrow > 0 && in_A.ncol > 0 && in_A.Mtype != SLU_GE) __CPROVER_assert(0, "canary: wrong Mtype with positive dimensions reachable");
}
