#include "slu_mt_@p@defs.h"
#include "wf.h"
#include "defs.h"
/* ghosts: geometry, ghost panel column / row below the diagonal block / list position / row id / tempv index; BLAS call records */
int_t g_lptr, g_xf, g_c, g_row, g_q, g_r, g_t, g_p, g_l, g_x; @T@ g_dense0_r, g_dense0_q, g_lu0; int_t g_lsub0, g_repfnz0, g_xlsub0, g_xlsub_end0, g_xlusup0, g_unused0[3];
struct blas_rec g_blas;
/* inputs */
int_t in_pnum, in_m, in_w, in_jcol, in_fsupc, in_krep, in_nsupc, in_nsupr, in_nrow, in_maxsuper, in_rowblk;
int_t in_repfnz[M*W], in_panel_lsub[M*W], in_w_lsub_end[W], in_spa_marker[M*W]; @T@ in_dense[M*W], in_tempv[TVC];
GlobalLU_t in_Glu; Gstat_t in_Gstat; procstat_t in_procstat[NP];
int_t in_xlsub[M+1], in_xlsub_end[M], in_xlusup[M+1], in_lsub[LC]; @T@ in_lusup[LUC];
@T@ nondet_@T@(void);
/* bounded repetition by macro (loop-free stubs); all extents <= 8 */
#define REP8(X) X(0) X(1) X(2) X(3) X(4) X(5) X(6) X(7)
_Static_assert(W <= 8 && M <= 8 && LC <= 9, "REP8 covers every extent (n <= nsupc <= 6, m <= nrow <= NRC)");

/* tuning parameters: maxsuper (3), rowblk (4) -- symbolic */
int_t sp_ienv(int_t ispec) {
  __CPROVER_assert(ispec == 3 || ispec == 4, "sp_ienv: only maxsuper and rowblk are asked for");
  return ispec == 3 ? in_maxsuper : in_rowblk;
}

/* which panel column owns the tempv slot x points to (2-D kernel: slot c starts at c*(maxsuper+rowblk)) */
static int_t slot_of(@T@ *x) {
  int_t found = -1;
#define SLOT(c) if ((c) < W && (c) < in_w && x == in_tempv + (c)*(in_maxsuper + in_rowblk)) found = (c);
  REP8(SLOT)
  return found;
}

/* BLAS xTRSV as an argument-recording contract: x := inv(A)*x, A n-by-n unit lower triangular, leading dimension lda */
int @p@trsv_(char *uplo, char *trans, char *diag, int *n, @T@ *A, int *lda, @T@ *x, int *incx) {
  int_t c = slot_of(x); long aoff = A - in_lusup;
  g_trsv_calls++;
  __CPROVER_assert(*uplo == 'L' && *trans == 'N' && *diag == 'U' && *incx == 1, "trsv: lower, no transpose, unit diagonal, stride 1");
  __CPROVER_assert(c >= 0, "trsv: x is the start of a panel column's tempv slot");
  if (c < 0) __CPROVER_assume(0);
  __CPROVER_assert(BLAS(c), "trsv: only for a U-segment of size >= 4");
  __CPROVER_assert(*n == SEGSZE(c), "trsv: order = segsze");
  __CPROVER_assert(*lda == in_nsupr, "trsv: lda = rows of the supernode");
  __CPROVER_assert(aoff == TRI_OFF(c), "trsv: A = diagonal block at row no_zeros, column no_zeros of the supernode");
  __CPROVER_assert(*n >= 0 && *lda >= 1 && g_xf <= aoff && (*n == 0 || aoff + (long)*lda*(*n - 1) + *n <= SNODE_END), "trsv: extent of A inside the supernode's block of lusup");
  __CPROVER_assert(*n <= in_maxsuper, "trsv: x extent inside the TriTmp part of the slot");
  if (c == g_c) { g_trsv_cnt++; g_trsv_aoff = aoff; g_trsv_n = *n; }
#define HAVOC_X(k) if ((k) < *n) x[k] = nondet_@T@();
  REP8(HAVOC_X)
  return 0;
}

/* BLAS xGEMV: y := alpha*A*x + beta*y, A m-by-n, leading dimension lda */
int @p@gemv_(char *trans, int *m, int *n, @T@ *alpha, @T@ *A, int *lda, @T@ *x, int *incx, @T@ *beta, @T@ *y, int *incy) {
  int_t c = slot_of(x), r, isblk = 0; long aoff = A - in_lusup;
  g_gemv_calls++;
  __CPROVER_assert(*trans == 'N' && *incx == 1 && *incy == 1, "gemv: no transpose, strides 1");
  __CPROVER_assert(*alpha == 1.0 && *beta == 0.0, "gemv: alpha = 1, beta = 0 (MatvecTmp := A*x)");
  __CPROVER_assert(c >= 0, "gemv: x is the start of a panel column's tempv slot");
  if (c < 0) __CPROVER_assume(0);
  __CPROVER_assert(y == x + in_maxsuper, "gemv: y = MatvecTmp part of the same slot");
  __CPROVER_assert(BLAS(c), "gemv: only for a U-segment of size >= 4");
  __CPROVER_assert(*n == SEGSZE(c), "gemv: columns = segsze");
  __CPROVER_assert(*lda == in_nsupr, "gemv: lda = rows of the supernode");
  r = aoff - RECT_OFF(c, 0);          /* block row start below the diagonal block, if A is in columns no_zeros.. */
  __CPROVER_assert(0 <= r && r < in_nrow, "gemv: A starts in column no_zeros of the supernode, at a row below the diagonal block");
#define ISBLK(b) if ((b) < M && r == (b)*in_rowblk) isblk = 1;
  REP8(ISBLK)
  __CPROVER_assert(isblk, "gemv: A starts at a block-row boundary (multiple of rowblk)");
  __CPROVER_assert(*m == MINI(in_rowblk, in_nrow - r), "gemv: rows = this block row");
  __CPROVER_assert(*m >= 0 && *n >= 1 && g_xf <= aoff && aoff + (long)*lda*(*n - 1) + *m <= SNODE_END, "gemv: extent of A inside the supernode's block of lusup");
  __CPROVER_assert(*n <= in_maxsuper && *m <= in_rowblk, "gemv: x and y extents inside the slot");
  if (c == g_c && r <= g_row && g_row < r + *m) { g_gemv_cnt++; g_gemv_aoff = aoff; g_gemv_m = *m; g_gemv_n = *n; }
#define HAVOC_Y(k) if ((k) < *m) y[k] = nondet_@T@();
  REP8(HAVOC_Y)
  return 0;
}


int_t nondet_int_t(void);
#define REQ(label, c) __CPROVER_assume(c)
#define ENS(label, c) __CPROVER_assert(c, "ensures " #label)
/* BOUNDED unit (label B(n)): no contract is enforced (a loop contract would havoc the cursor pointers dense_col/TriTmp/repfnz_col, after
 * which symex splits every access over all assignable objects: 70M clauses, out of memory; DFCC: out of memory as well).  The real
 * routine is executed symbolically with all loops unwound (--unwinding-assertions), for every geometry within the capacities.
 * The clauses are the ones a contract would carry: REQ = requires (assumed), ENS = ensures (asserted), frame = ghost index per array. */
void h_bmod2D(void) {
  /* ---------- inputs: nondeterministic ---------- */
  in_pnum = nondet_int_t(); in_m = nondet_int_t(); in_w = nondet_int_t(); in_jcol = nondet_int_t(); in_fsupc = nondet_int_t(); in_krep = nondet_int_t();
  in_nsupc = nondet_int_t(); in_nsupr = nondet_int_t(); in_nrow = nondet_int_t(); in_maxsuper = nondet_int_t(); in_rowblk = nondet_int_t();
  g_lptr = nondet_int_t(); g_xf = nondet_int_t(); g_c = nondet_int_t(); g_row = nondet_int_t(); g_q = nondet_int_t(); g_r = nondet_int_t(); g_t = nondet_int_t();
  g_p = nondet_int_t(); g_l = nondet_int_t(); g_x = nondet_int_t();
  __CPROVER_havoc_object(in_repfnz); __CPROVER_havoc_object(in_panel_lsub); __CPROVER_havoc_object(in_w_lsub_end); __CPROVER_havoc_object(in_spa_marker);
  __CPROVER_havoc_object(in_dense); __CPROVER_havoc_object(in_tempv); __CPROVER_havoc_object(in_procstat);
  __CPROVER_havoc_object(in_xlsub); __CPROVER_havoc_object(in_xlsub_end); __CPROVER_havoc_object(in_xlusup); __CPROVER_havoc_object(in_lsub); __CPROVER_havoc_object(in_lusup);
  in_Glu.lsub = in_lsub; in_Glu.xlsub = in_xlsub; in_Glu.xlsub_end = in_xlsub_end; in_Glu.lusup = in_lusup; in_Glu.xlusup = in_xlusup;
  in_Gstat.procstat = in_procstat;
  /* ---------- requires ---------- */
  REQ(args, 0 <= in_pnum && in_pnum < NP && 1 <= in_m && in_m <= M && 1 <= in_w && in_w <= W && 0 <= in_jcol && in_jcol <= M);
  /* the updating supernode: columns fsupc..krep, nsupr >= nsupc rows, nrow rows below the diagonal block */
  REQ(snode, 0 <= in_fsupc && in_fsupc <= in_krep && in_krep < in_m && in_nsupc == in_krep - in_fsupc + 1 && in_nsupc <= in_nsupr && in_nsupr <= LC && in_nrow == in_nsupr - in_nsupc && in_nrow <= NRC);
  REQ(geometry, g_lptr == in_xlsub[in_fsupc] && 0 <= g_lptr && g_lptr <= LC - in_nsupr && in_xlsub_end[in_fsupc] == g_lptr + in_nsupr && g_xf == in_xlusup[in_fsupc] && 0 <= g_xf && g_xf <= LUC && in_nsupr*in_nsupc <= LUC - g_xf);
  REQ(rows_in_range, FA(q1, LC, INLIST(q1) ==> (0 <= in_lsub[q1] && in_lsub[q1] < in_m)));
  REQ(rows_distinct, FA(q2, LC, FA(q3, LC, (INLIST(q2) && q2 < q3 && INLIST(q3)) ==> in_lsub[q2] != in_lsub[q3])));
  /* each panel column's U-segment w.r.t. this supernode is empty or starts at a column of the supernode */
#if W == 1   /* (a quantifier over a single value is dropped by the back end) */
  REQ(segments, KFNZ(0) == EMPTY || (in_fsupc <= KFNZ(0) && KFNZ(0) <= in_krep));
#else
  REQ(segments, FA(c1, W, c1 < in_w ==> (KFNZ(c1) == EMPTY || (in_fsupc <= KFNZ(c1) && KFNZ(c1) <= in_krep))));
#endif
  /* blocking parameters: a supernode has at most maxsuper columns; tempv holds w slots of maxsuper+rowblk scalars (NUM_TEMPV) */
  REQ(blocking, in_nsupc <= in_maxsuper && in_maxsuper <= TVC && 1 <= in_rowblk && in_rowblk <= TVC && in_w*(in_maxsuper + in_rowblk) <= TVC);
  REQ(tempv_zero_on_entry, FA(t1, TVC, in_tempv[t1] == 0.0));
  /* ghost indices: panel column, row below the diagonal block, list position, row id, tempv index; one index per read-only array */
  REQ(ghosts, 0 <= g_c && g_c < in_w && 0 <= g_row && g_row < M && 0 <= g_q && g_q < in_nsupr && 0 <= g_r && g_r < in_m && 0 <= g_t && g_t < TVC && 0 <= g_p && g_p < LUC && 0 <= g_l && g_l < LC && 0 <= g_x && g_x < M);
  g_dense0_r = DENSE(g_c, g_r); g_dense0_q = DENSE(g_c, in_lsub[g_lptr + g_q]);
  /* the compared pre-state values are numbers (NaN != NaN would make "kept" unprovable) */
  REQ(values_numbers, g_dense0_r == g_dense0_r && g_dense0_q == g_dense0_q && in_lusup[g_p] == in_lusup[g_p]);
  g_lu0 = in_lusup[g_p]; g_lsub0 = in_lsub[g_l]; g_repfnz0 = in_repfnz[g_c*in_m + g_x]; g_xlsub0 = in_xlsub[g_x]; g_xlsub_end0 = in_xlsub_end[g_x]; g_xlusup0 = in_xlusup[g_x];
  g_unused0[0] = in_panel_lsub[g_c*in_m + g_x]; g_unused0[1] = in_spa_marker[g_c*in_m + g_x]; g_unused0[2] = in_w_lsub_end[g_c];

  p@p@gstrf_bmod2D(in_pnum, in_m, in_w, in_jcol, in_fsupc, in_krep, in_nsupc, in_nsupr, in_nrow, in_repfnz, in_panel_lsub,
                 in_w_lsub_end, in_spa_marker, in_dense, in_tempv, &in_Glu, &in_Gstat);

  /* ---------- ensures ---------- */
  /* C02: the triangular solve of column g_c happens once, on the segsze x segsze diagonal block at row/column no_zeros */
  ENS(trsv_once_on_diagonal_block, !BLAS(g_c) || (g_trsv_cnt == 1 && g_trsv_aoff == TRI_OFF(g_c) && g_trsv_n == SEGSZE(g_c)));
  ENS(no_blas_for_small_segments, BLAS(g_c) || (g_trsv_cnt == 0 && g_gemv_cnt == 0));
  /* C02: every row g_row below the diagonal block is multiplied exactly once, by columns no_zeros..krep of the supernode */
  ENS(each_row_below_updated_once, !(BLAS(g_c) && g_row < in_nrow) || (g_gemv_cnt == 1 && g_gemv_n == SEGSZE(g_c) && g_gemv_aoff <= RECT_OFF(g_c, g_row) && RECT_OFF(g_c, g_row) < g_gemv_aoff + g_gemv_m));
#if VALS
  /* C05: dense[] of a panel column is written only at rows of the supernode's row list, and not above the segment's first row */
  ENS(dense_outside_list_kept, EX(e1, LC, INLIST(e1) && in_lsub[e1] == g_r) || DENSE(g_c, g_r) == g_dense0_r);
  ENS(dense_above_segment_kept, !(ACTIVE(g_c) && g_q < NOZEROS(g_c)) || DENSE(g_c, in_lsub[g_lptr + g_q]) == g_dense0_q);
  ENS(dense_empty_segment_kept, ACTIVE(g_c) || DENSE(g_c, g_r) == g_dense0_r);
  /* C02: in the hand-unrolled cases (segsze 1,2,3) the first entry of the segment is the top of a unit lower triangular solve: it is
   * read, never written -- in particular not by the final scatter of the (unused, all-zero) TriTmp slot */
  ENS(unrolled_first_row_kept, !(ACTIVE(g_c) && SEGSZE(g_c) <= 3 && g_q == NOZEROS(g_c)) || DENSE(g_c, in_lsub[g_lptr + g_q]) == g_dense0_q);
  ENS(tempv_zero_on_exit, in_tempv[g_t] == 0.0);
#endif
  /* frame: the supernode, the index structures and the unused SCATTER_FOUND arrays are not written */
  ENS(frame_lusup, in_lusup[g_p] == g_lu0);
  ENS(frame_index_arrays, in_lsub[g_l] == g_lsub0 && in_repfnz[g_c*in_m + g_x] == g_repfnz0 && in_xlsub[g_x] == g_xlsub0 && in_xlsub_end[g_x] == g_xlsub_end0 && in_xlusup[g_x] == g_xlusup0);
  ENS(frame_unused_arrays, in_panel_lsub[g_c*in_m + g_x] == g_unused0[0] && in_spa_marker[g_c*in_m + g_x] == g_unused0[1] && in_w_lsub_end[g_c] == g_unused0[2]);
  __CPROVER_assert(0, "canary: bmod2D returns");
#if !VALS   /* the case canaries live in the variant whose formula carries no floating-point arithmetic */
  if (BLAS(0) && NOZEROS(0) > 0) __CPROVER_assert(0, "canary: segsze >= 4 with no_zeros > 0");
  if (BLAS(0) && in_nrow > in_rowblk && in_nrow - in_rowblk < in_rowblk) __CPROVER_assert(0, "canary: several block rows, last one short");
  if (in_w == 2 && BLAS(0) && BLAS(1) && KFNZ(0) != KFNZ(1)) __CPROVER_assert(0, "canary: two BLAS columns with different segments");
  if (in_w == 2 && ACTIVE(0) && SEGSZE(0) == 1 && ACTIVE(1) && SEGSZE(1) == 3 && in_nrow >= 2) __CPROVER_assert(0, "canary: unrolled cases 1 and 3");
  if (in_w == 2 && !ACTIVE(0) && ACTIVE(1) && SEGSZE(1) == 2 && in_nrow >= 1) __CPROVER_assert(0, "canary: empty segment and unrolled case 2");
  if (BLAS(0) && SNODE_END == LUC && in_w*(in_maxsuper + in_rowblk) == TVC && in_m == M && in_w == W && g_lptr + in_nsupr == LC) __CPROVER_assert(0, "canary: lusup, tempv, dense, lsub exactly filled");
  if (g_gemv_calls >= 4) __CPROVER_assert(0, "canary: four gemv calls");
#endif
}
