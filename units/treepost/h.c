#include "slu_mt_ddefs.h"
#include <stdlib.h>
/* BOUNDED unit (label B(n)): the real TreePostorder / nr_etdfs is executed symbolically for every forest on n <= CAP vertices,
 * loops unwound, and its result is compared with the definition of a postorder computed here by brute force.
 * FOREST: 0 = any valid forest (parent[v] in 0..n, every vertex reaches the dummy root n), 1 = parent[v] in (v, n] (the shape sp_coletree returns). */
int_t in_n, in_parent[CAP];
int_t g_post[CAP + 1], g_v, g_u;
/* superlu_malloc / superlu_free of SRC/util.c are malloc / free.  Here every block is carved from a heap object of the constant size
 * BLOCK (symbolic-size heap objects make the SAT back end run out of memory) and ends exactly at the end of that object, so an overrun
 * of the requested size is still an out-of-bounds access; free() gets the object's base address back. */
#define BLOCK ((CAP + 1) * sizeof(int_t))
void *superlu_malloc(size_t size) {
  char *b;
  __CPROVER_assert(size <= BLOCK, "allocator model: request within the modelled block size");
  b = malloc(BLOCK);
  return b ? b + (BLOCK - size) : (void *) 0;
}
void superlu_free(void *addr) { free((char *) addr - __CPROVER_POINTER_OFFSET(addr)); }

/* u is v or a descendant of v: follow parents at most n times */
static int desc(int_t u, int_t v) {
  int_t k, x = u;
  for (k = 0; k <= CAP; k++) { if (x == v) return 1; if (x >= in_n) return 0; x = in_parent[x]; }
  return 0;
}
int_t nondet_int_t(void);
void h_treepost(void) {
  int_t v, u, k, x, *post, size;
  /* no contract is enforced in a bounded unit, so the inputs are made nondeterministic here (statics would start at 0) */
  in_n = nondet_int_t();
  for (v = 0; v < CAP; v++) in_parent[v] = nondet_int_t();
  __CPROVER_assume(0 <= in_n && in_n <= CAP);
  for (v = 0; v < CAP; v++) if (v < in_n) {
#if FOREST == 1
    __CPROVER_assume(v < in_parent[v] && in_parent[v] <= in_n);
#else
    __CPROVER_assume(0 <= in_parent[v] && in_parent[v] <= in_n);
#endif
  }
  for (v = 0; v < CAP; v++) if (v < in_n) {                    /* acyclic: v reaches the dummy root n within n steps */
    x = v;
    for (k = 0; k < CAP; k++) if (x < in_n) x = in_parent[x];
    __CPROVER_assume(x == in_n);
  }
  post = TreePostorder(in_n, in_parent);
  for (v = 0; v <= CAP; v++) if (v <= in_n) g_post[v] = post[v];
  superlu_free(post);                                          /* the result is the only allocation that may be live (--memory-leak-check) */

  /* (1) bijection on 0..n, dummy root last */
  __CPROVER_assert(g_post[in_n] == in_n, "post[n] == n");
  for (v = 0; v <= CAP; v++) if (v <= in_n) {
    __CPROVER_assert(0 <= g_post[v] && g_post[v] <= in_n, "post[v] in 0..n");
    for (u = 0; u < v; u++) __CPROVER_assert(g_post[u] != g_post[v], "post is injective");
  }
  /* (2) children are numbered before their parents */
  for (v = 0; v < CAP; v++) if (v < in_n) __CPROVER_assert(g_post[v] < g_post[in_parent[v]], "child numbered before parent");
  /* (3) every subtree occupies a contiguous range of numbers ending at its root */
  for (v = 0; v < CAP; v++) if (v < in_n) {
    size = 0;
    for (u = 0; u < CAP; u++) if (u < in_n && desc(u, v)) size++;
    for (u = 0; u < CAP; u++) if (u < in_n)
      __CPROVER_assert(desc(u, v) == (g_post[v] - size < g_post[u] && g_post[u] <= g_post[v]), "subtree is the contiguous range ending at its root");
  }
  /* (4) a forest that is already numbered in postorder keeps its numbering (header comment of TreePostorder) */
  {
    int po = 1;
    for (v = 0; v < CAP; v++) if (v < in_n) {
      if (in_parent[v] <= v) po = 0;
      size = 0;
      for (u = 0; u < CAP; u++) if (u < in_n && desc(u, v)) size++;
      for (u = 0; u < CAP; u++) if (u < in_n && desc(u, v) != (v - size < u && u <= v)) po = 0;
    }
    for (v = 0; v < CAP; v++) if (v < in_n) __CPROVER_assert(!po || g_post[v] == v, "postordered input keeps its numbering");
    if (po && in_n == CAP && in_parent[0] == 2) __CPROVER_assert(0, "canary: postordered input with a branching vertex");
  }
  __CPROVER_assert(0, "canary: TreePostorder returns");
  if (in_n == CAP) __CPROVER_assert(0, "canary: full size reachable");
  if (in_n == 0) __CPROVER_assert(0, "canary: empty forest");
  if (in_n >= 3 && g_post[0] == 2) __CPROVER_assert(0, "canary: order changed by the postorder");
  if (in_n >= 3 && in_parent[0] == in_n && in_parent[1] == in_n && in_parent[2] == in_n) __CPROVER_assert(0, "canary: forest with several roots");
}
