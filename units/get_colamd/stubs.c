/* executable contracts (ASSUMED, see "trusted" in unit.json) of everything get_colamd calls.
 *  - colamd_recommended: the value the real routine returns (2*nnz + nnz/5 + 6*(n_col+1) + 4*(n_row+1) + n_col if that is < INT_MAX and no
 *    argument is negative, else 0): this formula is PROVED for the real routine by unit colamd_recommended.
 *  - colamd_set_defaults: overwrites the 20 knobs.
 *  - colamd: checks what it is handed (assertions below = obligations of get_colamd), destroys A[0..Alen) and p[0..n_col], writes stats,
 *    returns FALSE or TRUE nondeterministically; on TRUE p[0..n_col) holds the order in_q (an arbitrary permutation: requires-clause
 *    colamd_order of the spec).  That the real colamd returns a permutation is checked only at B(n): unit colamd_b.
 *  - superlu_malloc: malloc that may return NULL (any call, nondeterministically); superlu_free: free.  Both counted.
 *  - verif_abort (the library's USER_ABORT hook): does not return; carries the two canaries "reached after a NULL" / "after a failing colamd". */
#include <stdlib.h>
#include <limits.h>
#include "slu_mt_ddefs.h"
#include "colamd.h"
#include "ghost.h"
#if CAP > 12
#error "extend PUT"
#endif
/* largest workspace the unit models: colamd_recommended(NZ, MCAP, CAP) */
#define RECMAX (2 * NZ + NZ / 5 + 6 * (CAP + 1) + 4 * (MCAP + 1) + CAP)
struct gc_ghost g_log;
extern int_t in_m, in_n, in_nnz, in_colptr[CAP + 1], in_rowind[NZ], in_q[CAP];
extern int_t g_k, g_c;
_Bool nondet_bool(void);

void verif_abort(char *msg) {
  if (g_log.alloc_failed) __CPROVER_assert(0, "canary: abort hook reached after the allocator returned NULL");
  if (g_log.colamd_calls && !g_log.colamd_ret) __CPROVER_assert(0, "canary: abort hook reached after colamd returned FALSE");
  __CPROVER_assume(0);
}
int sprintf(char *s, const char *f, ...) { return 0; }

/* every block is carved from a heap object of the constant size BLOCK (symbolic-size heap objects make the SAT back end run out of memory)
 * and ends exactly at the end of that object: an overrun of the requested size is an out-of-bounds access, the room behind the returned
 * pointer is exactly `size` bytes (what the colamd contract checks), a request of 0 bytes yields a pointer with no room at all.
 * free() gets the object's base address back, so cbmc's --memory-leak-check sees the blocks. */
#define BLOCK ((size_t) RECMAX * sizeof(int_t))
void *superlu_malloc(size_t size) {
  char *b;
  if (nondet_bool()) { g_log.alloc_failed = 1; return (void *) 0; }
  __CPROVER_assert(size <= BLOCK, "allocator model: request within the modelled block size");
  b = malloc(BLOCK);
  __CPROVER_assume(b != (char *) 0);
  g_log.n_malloc++;
  return b + (BLOCK - size);
}
void superlu_free(void *addr) { g_log.n_free++; if (addr) free((char *) addr - __CPROVER_POINTER_OFFSET(addr)); }

size_t colamd_recommended(int nnz, int n_row, int n_col) {
  long long e;
  g_log.rec_calls++; g_log.rec_nnz = nnz; g_log.rec_m = n_row; g_log.rec_n = n_col;
  if (nnz < 0 || n_row < 0 || n_col < 0) g_log.rec_ret = 0;
  else {
    e = 2LL * nnz + nnz / 5 + 6LL * (n_col + 1LL) + 4LL * (n_row + 1LL) + n_col;
    g_log.rec_ret = e < INT_MAX ? (size_t) e : 0;
  }
  return g_log.rec_ret;
}
void colamd_set_defaults(double knobs[COLAMD_KNOBS]) {
  g_log.def_calls++; g_log.def_knobs = knobs;
  if (knobs) __CPROVER_havoc_slice(knobs, COLAMD_KNOBS * sizeof(double));
}
#define ROOM(ptr) (__CPROVER_OBJECT_SIZE(ptr) - __CPROVER_POINTER_OFFSET(ptr))
int colamd(int n_row, int n_col, int Alen, int A[], int p[], double knobs[COLAMD_KNOBS], int stats[COLAMD_STATS]) {
  g_log.colamd_calls++;
  __CPROVER_assert(g_log.alloc_failed == 0, "colamd is not reached after the allocator returned NULL");
  __CPROVER_assert(A != (int *) 0 && p != (int *) 0 && stats != (int *) 0, "colamd gets non-NULL A, p, stats");
  __CPROVER_assert(n_row == in_m && n_col == in_n, "colamd gets (m, n)");
  __CPROVER_assert(g_log.rec_calls == 1 && g_log.rec_nnz == in_nnz && g_log.rec_m == in_m && g_log.rec_n == in_n && Alen >= 0 && (size_t) Alen == g_log.rec_ret,
                   "Alen is the value colamd_recommended returned for (nnz, m, n)");
  __CPROVER_assert(__CPROVER_rw_ok(A, (size_t) Alen * sizeof(int)) && ROOM(A) >= (size_t) Alen * sizeof(int), "the workspace A has Alen ints");
  __CPROVER_assert(__CPROVER_rw_ok(p, ((size_t) n_col + 1) * sizeof(int)) && ROOM(p) >= ((size_t) n_col + 1) * sizeof(int), "p has n_col+1 ints");
  __CPROVER_assert(__CPROVER_rw_ok(stats, COLAMD_STATS * sizeof(int)), "stats has COLAMD_STATS ints");
  __CPROVER_assert(knobs == (double *) 0 || (g_log.def_calls == 1 && knobs == g_log.def_knobs && __CPROVER_r_ok(knobs, COLAMD_KNOBS * sizeof(double))),
                   "knobs is NULL or the array colamd_set_defaults initialised");
  __CPROVER_assert(!__CPROVER_same_object(A, in_rowind) && !__CPROVER_same_object(p, in_colptr) && !__CPROVER_same_object(A, p),
                   "A and p are copies: colamd destroys them, the matrix must survive");
  /* the copies are complete: pointwise at the ghost indices g_k (an entry) and g_c (a column pointer) */
  if (0 <= g_k && g_k < in_nnz && g_k < NZ) __CPROVER_assert(ROOM(A) > (size_t) g_k * sizeof(int) && A[g_k] == in_rowind[g_k], "A[k] == rowind[k] for k < nnz");
  if (0 <= g_c && g_c <= in_n && g_c <= CAP) __CPROVER_assert(ROOM(p) > (size_t) g_c * sizeof(int) && p[g_c] == in_colptr[g_c], "p[c] == colptr[c] for c <= n");
  /* effects */
  /* A[0..Alen) and p[0..n_col] are destroyed.  Both blocks come from the allocator model above (asserted: they end with their object and have
   * exactly the room checked), so the whole BLOCK-sized objects are havocked: a superset of the two slices (the bytes in front of a block are
   * never read) with a CONSTANT size -- a havoc_slice of symbolic size made the formula 6.6M variables / 29M clauses. */
  __CPROVER_assert(__CPROVER_OBJECT_SIZE(A) == BLOCK && __CPROVER_OBJECT_SIZE(p) == BLOCK, "colamd's arrays are blocks of the allocator model");
  __CPROVER_havoc_slice((char *) A - __CPROVER_POINTER_OFFSET(A), BLOCK);
  __CPROVER_havoc_slice((char *) p - __CPROVER_POINTER_OFFSET(p), BLOCK);
  __CPROVER_havoc_slice(stats, COLAMD_STATS * sizeof(int));
  g_log.colamd_ret = nondet_bool() ? 1 : 0;
#define PUT(k) if (k < CAP && k < n_col) p[k] = in_q[k < CAP ? k : 0];
  if (g_log.colamd_ret) { PUT(0) PUT(1) PUT(2) PUT(3) PUT(4) PUT(5) PUT(6) PUT(7) PUT(8) PUT(9) PUT(10) PUT(11) }
  return g_log.colamd_ret;
}
