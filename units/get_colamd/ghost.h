/* ghost log of unit get_colamd: ONE object (a single frame target), written by the executable contracts in stubs.c */
#ifndef GET_COLAMD_GHOST_H
#define GET_COLAMD_GHOST_H
#include <stddef.h>
struct gc_ghost {
  int rec_calls, rec_nnz, rec_m, rec_n; size_t rec_ret;      /* colamd_recommended: call count, its arguments, the value it returned */
  int def_calls; double *def_knobs;                          /* colamd_set_defaults: call count, the knob array it initialised */
  int colamd_calls, colamd_ret;                              /* colamd: call count, what it returned */
  int n_malloc, n_free, alloc_failed;                        /* allocator: successful allocations, releases, "a NULL was handed out" */
};
#endif
