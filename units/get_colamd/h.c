/* harness of unit get_colamd: wires the inputs and calls the real get_colamd (SRC/get_perm_c.c) once */
#include "slu_mt_ddefs.h"
#include "ghost.h"
extern struct gc_ghost g_log;
/* inputs */
int_t in_m, in_n, in_nnz, in_colptr[CAP + 1], in_rowind[NZ], in_perm_c[CAP];
int_t in_q[CAP], in_qinv[CAP];                 /* the order colamd returns when it succeeds, and its inverse (spec: requires colamd_order) */
/* ghosts: universally chosen indices; pre-state copy of perm_c */
int_t g_i, g_j, g_v, g_k, g_c, g_perm0[CAP];
void get_colamd(const int_t, const int_t, const int_t, int_t *, int_t *, int_t *);
void h_get_colamd(void) {
  get_colamd(in_m, in_n, in_nnz, in_colptr, in_rowind, in_perm_c);
  __CPROVER_assert(0, "canary: get_colamd returns");
  if (in_n == CAP && in_nnz == NZ) __CPROVER_assert(0, "canary: full capacity");
  if (in_n == 0) __CPROVER_assert(0, "canary: order 0");
  if (in_n >= 2 && in_perm_c[0] != 0) __CPROVER_assert(0, "canary: perm_c is not the identity");
  if (in_n >= 3 && in_q[0] == 1 && in_q[1] == 2 && in_q[2] == 0) __CPROVER_assert(0, "canary: colamd order that is not an involution");
#ifdef ANY_M
  if (g_log.rec_ret == 0) __CPROVER_assert(0, "canary: returns although colamd_recommended reported 0");
#endif
}
