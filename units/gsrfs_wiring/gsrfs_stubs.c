/* gsrfs_stubs.c -- executable contracts (ASSUMED, see "trusted") for the callees of ?gsrfs.
 * Each stub checks the arguments it receives against the caller's request (in_trans, in_A, ...) and the protocol state, records the call
 * in the ghost log, and overwrites its outputs with arbitrary values.
 *   protocol state:  g_col    column being processed (advanced when ?lacon_ returns kase == 0)
 *                    g_phase  0 = before the first residual, 1 = refinement (after ?copy_), 2 = error estimate (after ?lacon_)
 *                    g_corr   corrections (?gstrs calls in phase 1) made for column g_col so far;  g_max_corr  its maximum over all columns
 *                    g_round  ?lacon_ calls made for column g_col so far;  g_last_kase  the value it returned last
 *   ghost column g_c (universally chosen by the harness): g_est_c = estimate ?lacon_ left in ferr[g_c] when it returned kase == 0
 *   g_work = the vector work[] (first ?Malloc), every callee must be handed that vector. */
#include <stdlib.h>
#include "slu_mt_@p@defs.h"
extern trans_t in_trans; extern SuperMatrix in_A, in_L, in_U, in_B, in_X; extern DNformat in_Bstore, in_Xstore;
extern int_t in_perm_r[CAP], in_perm_c[CAP], in_info; extern @T@ in_Bval[CAP*2], in_Xval[CAP*2]; extern @R@ in_ferr[2], in_berr[2]; extern Gstat_t in_Gstat;
#include "gsrfs_ghost.h"
struct gsrfs_log g_log; int_t g_c;
@R@ nondet_real(void); int_t nondet_int_t(void); _Bool nondet_bool(void); double nondet_lamch(void);

void verif_abort(char *msg) { __CPROVER_assume(0); }
int sprintf(char *s, const char *f, ...) { return 0; }
int xerbla_(char *s, int *i) { g_xerbla_arg = *i; g_xerbla_calls++; return 0; }
double @r@lamch_(char *c) {
  if (*c == 'E' || *c == 'e') return @eps@;
  if (*c == 'S' || *c == 's') return @sfmin@;
  return nondet_lamch();
}
/* Allocators: malloc of exactly the requested number of elements, never NULL (the library aborts on NULL).  The order of the system is fixed per
 * run (variant parameter NFIX), so every request has a CONSTANT size that the stub checks: cbmc then sees one fixed-size object per work array.
 * (A symbolic size costs 25 GB of array constraints in this function; a dispatch over constant sizes multiplies every floating-point operation
 * on work[] / rwork[] by the number of candidate objects.) */
@T@ *@T@Malloc(int_t n) { __CPROVER_assert(n == 2 * NFIX, "work[]: 2*n elements"); @T@ *p = malloc(2 * NFIX * sizeof(@T@)); __CPROVER_assume(p != NULL); if (g_n_alloc == 0) g_work = p; g_n_alloc++; return p; }
int_t *intMalloc(int_t n) { __CPROVER_assert(n == 2 * NFIX, "iwork[]: 2*n elements"); int_t *p = malloc(2 * NFIX * sizeof(int_t)); __CPROVER_assume(p != NULL); g_n_alloc++; return p; }
/* superlu_malloc is called twice by ?gsrfs: second allocation = rwork[] (n reals), fourth = the one-column header Bjcol.Store */
void *superlu_malloc(size_t n) {
  void *p;
  __CPROVER_assert((g_n_alloc == 1 && n == NFIX * sizeof(@R@)) || (g_n_alloc == 3 && n == sizeof(DNformat)), "superlu_malloc: rwork[] second, Bjcol.Store fourth");
  if (g_n_alloc == 1) p = malloc(NFIX * sizeof(@R@)); else p = malloc(sizeof(DNformat));
  __CPROVER_assume(p != NULL); g_n_alloc++; return p;
}
void superlu_free(void *p) { g_n_free++; free(p); }

#define ORDER in_A.nrow
/* overwrite p[0..ORDER) with arbitrary values (ORDER <= CAP <= 4; element-wise: cheaper for the solver than a byte-wise havoc) */
#define HAVOC(p, nd) { if (ORDER > 0) (p)[0] = nd(); if (ORDER > 1) (p)[1] = nd(); if (ORDER > 2) (p)[2] = nd(); if (ORDER > 3) (p)[3] = nd(); }
@T@ nondet_val(void);
#define TRANST (in_trans == NOTRANS ? TRANS : NOTRANS)

int @p@copy_(int *n, @T@ *x, int *incx, @T@ *y, int *incy) {
  __CPROVER_assert(*n == ORDER && *incx == 1 && *incy == 1, "copy: order and unit strides");
  __CPROVER_assert(x == &in_Bval[g_col * in_Bstore.lda] && y == g_work, "copy: column g_col of B into work[]");
  __CPROVER_assert(g_phase != 2 && g_round == 0, "copy: not during the error estimate");
  HAVOC(y, nondet_val);
  g_phase = 1; g_copy_calls++;
  return 0;
}
int_t sp_@p@gemv(char *trans, @T@ alpha, SuperMatrix *A, @T@ *x, int_t incx, @T@ beta, @T@ *y, int_t incy) {
  __CPROVER_assert(g_phase == 1, "gemv: residual follows the copy of B(:,j)");
  __CPROVER_assert(*trans == (in_trans == NOTRANS ? 'N' : 'T'), "gemv: transc is 'N' iff trans == NOTRANS, else 'T'");
  __CPROVER_assert(alpha == -1 && beta == 1 && incx == 1 && incy == 1, "gemv: r = b - op(A) x");
  __CPROVER_assert(A == &in_A && x == &in_Xval[g_col * in_Xstore.lda] && y == g_work, "gemv: A, column g_col of X, work[]");
  HAVOC(y, nondet_val);
  g_gemv_calls++;
  return 0;
}
int @p@axpy_(int *n, @T@ *a, @T@ *x, int *incx, @T@ *y, int *incy) {
  __CPROVER_assert(g_phase == 1, "axpy: only during refinement");
  __CPROVER_assert(*n == ORDER && *a == 1 && *incx == 1 && *incy == 1, "axpy: x += correction");
  __CPROVER_assert(x == g_work && y == &in_Xval[g_col * in_Xstore.lda], "axpy: work[] added to column g_col of X");
  HAVOC(y, nondet_val);
  g_axpy_calls++;
  return 0;
}
void @p@gstrs(trans_t trans, SuperMatrix *L, SuperMatrix *U, int_t *perm_r, int_t *perm_c, SuperMatrix *B, Gstat_t *Gstat, int_t *info) {
  __CPROVER_assert(L == &in_L && U == &in_U && perm_r == in_perm_r && perm_c == in_perm_c && Gstat == &in_Gstat && info == &in_info, "gstrs: the caller's factors, permutations, statistics");
  __CPROVER_assert(B->ncol == 1 && B->nrow == in_B.nrow && B->Stype == SLU_DN && B->Dtype == SLU_@P@ && B->Mtype == SLU_GE && ((DNformat *)B->Store)->nzval == g_work && ((DNformat *)B->Store)->lda == in_Bstore.lda, "gstrs: one-column view of work[]");
  __CPROVER_assert(g_phase == 1 || g_phase == 2, "gstrs: after a residual or an estimator request");
  if (g_phase == 1) {
    __CPROVER_assert(trans == in_trans, "gstrs: correction solves with trans");
    __CPROVER_assert(g_corr < 5, "gstrs: at most ITMAX = 5 corrections per right-hand side");
    g_corr++; if (g_corr > g_max_corr) g_max_corr = g_corr;
  } else {
    __CPROVER_assert(g_last_kase == 1 || g_last_kase == 2, "gstrs: estimator asked for a product");
    __CPROVER_assert(trans == (g_last_kase == 1 ? TRANST : in_trans), "gstrs: kase 1 solves with the transposed system (transt), kase 2 with trans");
  }
  HAVOC(g_work, nondet_val);
  g_gstrs_calls++;
}
#if @cplx@
int_t @p@lacon_(int_t *n, @T@ *v, @T@ *x, @R@ *est, int_t *kase)
#else
int_t @p@lacon_(int_t *n, @T@ *v, @T@ *x, int_t *isgn, @R@ *est, int_t *kase)
#endif
{
  __CPROVER_assert(n == &in_A.nrow && x == g_work && v == g_work + ORDER && est == &in_ferr[g_col], "lacon: order, work[], second half of work[], ferr[j]");
  __CPROVER_assert(g_phase == 1 || g_phase == 2, "lacon: after the refinement of this column");
  __CPROVER_assert(g_round == 0 ? *kase == 0 : (*kase == g_last_kase && *kase != 0), "lacon: kase 0 on the first call of a column, else the kase it returned");
  HAVOC(x, nondet_val);
  HAVOC(v, nondet_val);
#if !@cplx@
  HAVOC(isgn, nondet_int_t);
#endif
  int_t k = nondet_int_t(); __CPROVER_assume(0 <= k && k <= 2);
  if (g_round >= MAXROUNDS) k = 0;          /* the estimator stops after at most MAXROUNDS products (see "assumptions") */
  *kase = k; g_last_kase = k; g_lacon_calls++;
  if (k == 0) {
    @R@ e = nondet_real(); __CPROVER_assume(e == e && EST_OK); *est = e;
    if (g_col == g_c) g_est_c = e;
    g_col++; g_phase = 0; g_corr = 0; g_round = 0;
  } else {
    g_phase = 2; g_round++;
  }
  return 0;
}
