/* gsrfs_ghost.h -- the ghost call log of gsrfs_stubs.c, ONE object (g_log) so that it is a single target in every assigns clause
 * (the cost of DFCC's write-set checks grows with the number of targets).  Field meaning: see gsrfs_stubs.c. */
#ifndef GSRFS_GHOST_H
#define GSRFS_GHOST_H
#ifndef SPEC_EXPAND   /* the spec expansion only needs the field macros below */
struct gsrfs_log { int xerbla_calls, xerbla_arg, n_alloc, n_free, col, phase, corr, max_corr, round, copy_calls, gemv_calls, axpy_calls, gstrs_calls, lacon_calls; int_t last_kase; @R@ est_c; @T@ *work; };
extern struct gsrfs_log g_log;
#endif
#define g_xerbla_calls g_log.xerbla_calls
#define g_xerbla_arg g_log.xerbla_arg
#define g_n_alloc g_log.n_alloc
#define g_n_free g_log.n_free
#define g_col g_log.col
#define g_phase g_log.phase
#define g_corr g_log.corr
#define g_max_corr g_log.max_corr
#define g_round g_log.round
#define g_copy_calls g_log.copy_calls
#define g_gemv_calls g_log.gemv_calls
#define g_axpy_calls g_log.axpy_calls
#define g_gstrs_calls g_log.gstrs_calls
#define g_lacon_calls g_log.lacon_calls
#define g_last_kase g_log.last_kase
#define g_est_c g_log.est_c
#define g_work g_log.work
#endif
