#include "slu_mt_@p@defs.h"
#include "gsrfs_ghost.h"
extern int_t g_c;
/* ghosts: row g_i, candidate maximum g_m */
int_t g_i; @R@ g_m;
/* inputs */
trans_t in_trans; equed_t in_equed; SuperMatrix in_A, in_L, in_U, in_B, in_X; NCformat in_Astore; SCPformat in_Lstore; NCPformat in_Ustore; DNformat in_Bstore, in_Xstore;
int_t in_colptr[CAP+1], in_rowind[NZ], in_perm_r[CAP], in_perm_c[CAP], in_info; @T@ in_Aval[NZ], in_Bval[CAP*2], in_Xval[CAP*2];
@R@ in_R[CAP], in_C[CAP], in_ferr[2], in_berr[2]; Gstat_t in_Gstat;
void h_gsrfs_wiring(void) {
  in_A.Store = &in_Astore; in_Astore.nzval = in_Aval; in_Astore.rowind = in_rowind; in_Astore.colptr = in_colptr;
  in_L.Store = &in_Lstore; in_U.Store = &in_Ustore; in_B.Store = &in_Bstore; in_Bstore.nzval = in_Bval; in_X.Store = &in_Xstore; in_Xstore.nzval = in_Xval;
  in_trans = TRANS_FIX;   /* variant parameter: the transpose option is a constant of each run (symex drops the other branch of every notran test) */
  @p@gsrfs(in_trans, &in_A, &in_L, &in_U, in_perm_r, in_perm_c, in_equed, in_R, in_C, &in_B, &in_X, in_ferr, in_berr, &in_Gstat, &in_info);
  __CPROVER_assert(0, "canary: gsrfs returns");
  if (g_col == 2 && in_equed == NOEQUIL) __CPROVER_assert(0, "canary: two right-hand sides, no scaling");
  if (g_col == 2 && in_equed == BOTH) __CPROVER_assert(0, "canary: two right-hand sides, both scalings");
  if (g_col >= 1 && in_equed == ROW && g_gstrs_calls >= 3) __CPROVER_assert(0, "canary: row scaling, three solves");
  if (g_max_corr == 5) __CPROVER_assert(0, "canary: five corrections for one column");
  if (g_col == 2 && g_gstrs_calls == 0) __CPROVER_assert(0, "canary: no correction, estimator stops at once");
  if (g_col == 1 && g_lacon_calls == MAXROUNDS + 1) __CPROVER_assert(0, "canary: estimator uses all its rounds");
  if (g_col == 0 && in_info == 0) __CPROVER_assert(0, "canary: quick return");
  if (in_info < 0) __CPROVER_assert(0, "canary: argument error");
}
