/* vocabulary for ?gsrfs wiring.  Inputs are harness objects (in_*); the ghost log g_* is written by gsrfs_stubs.c. */
#define NN in_A.nrow
#define NRHS in_B.ncol
#define LDB in_Bstore.lda
#define LDX in_Xstore.lda
#define MAX0(x) ((x) > 0 ? (x) : 0)
#define SQ(M) ((M).nrow == (M).ncol && (M).nrow >= 0)
#define TR_OK (in_trans == NOTRANS || in_trans == TRANS || in_trans == CONJ)
#define A_OK (SQ(in_A) && in_A.Stype == SLU_NC && in_A.Dtype == SLU_@P@ && in_A.Mtype == SLU_GE)
#define L_OK (SQ(in_L) && in_L.Stype == SLU_SCP && in_L.Dtype == SLU_@P@ && in_L.Mtype == SLU_TRLU)
#define U_OK (SQ(in_U) && in_U.Stype == SLU_NCP && in_U.Dtype == SLU_@P@ && in_U.Mtype == SLU_TRU)
#define B_OK (LDB >= MAX0(NN) && in_B.Stype == SLU_DN && in_B.Dtype == SLU_@P@ && in_B.Mtype == SLU_GE)
#define X_OK (LDX >= MAX0(NN) && in_X.Stype == SLU_DN && in_X.Dtype == SLU_@P@ && in_X.Mtype == SLU_GE)
#define LEGAL (TR_OK && A_OK && L_OK && U_OK && B_OK && X_OK)
#define QUICK (NN == 0 || NRHS == 0)
#define NOTRAN (in_trans == NOTRANS)
#define ROWEQU (in_equed == ROW || in_equed == BOTH)
#define COLEQU (in_equed == COL || in_equed == BOTH)
/* log facts that hold whenever no column is being processed (head of the loop over the right-hand sides, exit) */
#define IDLE (g_phase == 0 && g_corr == 0 && g_round == 0)
#define STEADY (g_xerbla_calls == 0 && g_n_alloc == 4 && g_n_free == 0 && in_info == 0 && g_work == work && 0 <= g_max_corr && g_max_corr <= 5)
#define COUNTS(j, c) (0 <= (j) && (j) <= 2 && 0 <= (c) && (c) <= 5 && 0 <= g_axpy_calls && g_axpy_calls <= 5 * (j) + (c) && 0 <= g_gstrs_calls && g_gstrs_calls <= (5 + MAXROUNDS) * (j) + (c) && 0 <= g_lacon_calls && g_lacon_calls <= (MAXROUNDS + 1) * (j) && 0 <= g_copy_calls && g_copy_calls <= 12 && g_copy_calls == g_gemv_calls && g_copy_calls == g_axpy_calls + (j))
#define IWORK_OK(q) FA(q, CAP, q < in_A.nrow ==> (0 <= iwork[q] && iwork[q] <= NZ))
#define COLRANGE(i, k) (in_colptr[k] <= i && i <= in_colptr[k+1])
/* column c of X is zero / ferr[g_c] still holds the estimate ?lacon_ returned for column g_c (C13 d: "divided by max |x_i| unless that is zero") */
#define XZERO(c, q) FA(q, CAP, q < in_A.nrow ==> in_Xval[q + (c) * in_Xstore.lda] == 0)
#define FERR_KEPT(q) (XZERO(g_c, q) ==> in_ferr[g_c] == g_est_c)
#define SCALES_FINITE(q) FA(q, CAP, -SCALE_MAX <= in_R[q] && in_R[q] <= SCALE_MAX && -SCALE_MAX <= in_C[q] && in_C[q] <= SCALE_MAX)
