/* structurally singular: all three columns have their only entry in row 0 -> one relaxed supernode with 1 row and 3 columns */
#include "slu_mt_ddefs.h"
int main(int argc, char**argv){
  int n = 3, np = argc > 1 ? atoi(argv[1]) : 1;
  int colptr[] = {0,1,2,3}; int rowind[] = {0,0,0}; double val[] = {1,2,3};
  double rhs[] = {1,1,1};
  int perm_c[3], perm_r[3], info = -99;
  SuperMatrix A, L, U, B;
  dCreate_CompCol_Matrix(&A, n, n, 3, val, rowind, colptr, SLU_NC, SLU_D, SLU_GE);
  dCreate_Dense_Matrix(&B, n, 1, rhs, n, SLU_DN, SLU_D, SLU_GE);
  get_perm_c(0, &A, perm_c);
  pdgssv(np, &A, perm_c, perm_r, &L, &U, &B, &info);
  printf("info=%d\n", info);
  return 0;
}
