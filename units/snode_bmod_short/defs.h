/* vocabulary for p?gstrf_snode_bmod (numeric update of column jcol inside its own relaxed supernode fsupc..).
 * Capacities: M rows/columns, LC row subscripts, LUC stored values (in_lusup has LUC scalars, in_Glu.nzlumax <= LUC are in use), NP threads.
 * Ghost geometry ([geometry]): g_lptr = xlsub[fsupc], g_nsupr rows, g_nsupc = jcol - fsupc columns before jcol, g_xf = xlusup[fsupc],
 * g_xj = xlusup[jcol] = start of jcol's own slot (g_nsupr scalars). */
#define INLIST(p)  (g_lptr <= (p) && (p) < g_lptr + g_nsupr)
#define G_NROW (g_nsupr - g_nsupc)
/* ghost list position g_q (valid when g_q < g_nsupr; the list may be empty) and the row stored there */
#define QPOS (g_q < g_nsupr ? g_lptr + g_q : 0)
#define QROW in_lsub[QPOS]
#define QSLOT (g_q < g_nsupr ? g_xj + g_q : 0)          /* where that row's value goes in lusup */
