#include "slu_mt_@p@defs.h"
#include "defs.h"
/* ghosts: geometry, ghost list position / row id / lusup index, pre-state copies, BLAS call records (offsets into in_lusup) */
int_t g_lptr, g_nsupr, g_nsupc, g_xf, g_xj, g_q, g_r, g_p; @T@ g_dense0[M], g_lu0[LUC];
int g_trsv_calls, g_gemv_calls, g_order; int_t g_trsv_aoff, g_trsv_xoff, g_trsv_n, g_trsv_lda, g_gemv_aoff, g_gemv_xoff, g_gemv_yoff, g_gemv_m, g_gemv_n, g_gemv_lda;
/* inputs */
int_t in_pnum, in_jcol, in_jsupno, in_fsupc, in_m;
@T@ in_dense[M], in_tempv[2*M];
GlobalLU_t in_Glu; Gstat_t in_Gstat; procstat_t in_procstat[NP];
int_t in_xlsub[M+1], in_xlsub_end[M], in_xlusup[M+1], in_xlusup_end[M], in_lsub[LC]; @T@ in_lusup[LUC];
@T@ nondet_@T@(void);
#define REP8(X) X(0) X(1) X(2) X(3) X(4) X(5) X(6) X(7)
_Static_assert(M <= 8, "REP8 covers every extent");

/* BLAS xTRSV as an argument-recording contract: x := inv(A)*x, A n-by-n unit lower triangular, leading dimension lda.
 * Legal arguments per the BLAS interface: n >= 0, lda >= max(1,n), incx != 0 (otherwise XERBLA). */
int @p@trsv_(char *uplo, char *trans, char *diag, int *n, @T@ *A, int *lda, @T@ *x, int *incx) {
  long aoff = A - in_lusup, xoff = x - in_lusup;
  g_trsv_calls++; g_order = g_order*2 + 0;
  __CPROVER_assert(*uplo == 'L' && *trans == 'N' && *diag == 'U' && *incx == 1, "trsv: lower, no transpose, unit diagonal, stride 1");
  __CPROVER_assert(*n >= 0 && *lda >= 1 && *lda >= *n, "trsv: legal BLAS arguments (n >= 0, lda >= max(1,n))");
  __CPROVER_assert(0 <= aoff && (*n == 0 || aoff + (long)*lda*(*n - 1) + *n <= in_Glu.nzlumax), "trsv: extent of A inside lusup");
  __CPROVER_assert(0 <= xoff && xoff + *n <= in_Glu.nzlumax, "trsv: extent of x inside lusup");
  g_trsv_aoff = aoff; g_trsv_xoff = xoff; g_trsv_n = *n; g_trsv_lda = *lda;
#define HAVOC_X(k) if ((k) < *n) x[k] = nondet_@T@();
  REP8(HAVOC_X)
  return 0;
}
/* BLAS xGEMV: y := alpha*A*x + beta*y, A m-by-n, leading dimension lda.  Legal: m >= 0, n >= 0, lda >= max(1,m). */
int @p@gemv_(char *trans, int *m, int *n, @T@ *alpha, @T@ *A, int *lda, @T@ *x, int *incx, @T@ *beta, @T@ *y, int *incy) {
  long aoff = A - in_lusup, xoff = x - in_lusup, yoff = y - in_lusup;
  g_gemv_calls++; g_order = g_order*2 + 1;
  __CPROVER_assert(*trans == 'N' && *incx == 1 && *incy == 1, "gemv: no transpose, strides 1");
  __CPROVER_assert(*alpha == -1.0 && *beta == 1.0, "gemv: alpha = -1, beta = 1 (y := y - A*x)");
  __CPROVER_assert(*m >= 0 && *n >= 0 && *lda >= 1 && *lda >= *m, "gemv: legal BLAS arguments (m, n >= 0, lda >= max(1,m))");
  __CPROVER_assert(0 <= aoff && (*n == 0 || *m == 0 || aoff + (long)*lda*(*n - 1) + *m <= in_Glu.nzlumax), "gemv: extent of A inside lusup");
  __CPROVER_assert(0 <= xoff && xoff + *n <= in_Glu.nzlumax && 0 <= yoff && yoff + *m <= in_Glu.nzlumax, "gemv: extents of x and y inside lusup");
  g_gemv_aoff = aoff; g_gemv_xoff = xoff; g_gemv_yoff = yoff; g_gemv_m = *m; g_gemv_n = *n; g_gemv_lda = *lda;
#define HAVOC_Y(k) if ((k) < *m) y[k] = nondet_@T@();
  REP8(HAVOC_Y)
  return 0;
}

int g_ret;
void h_snode_bmod(void) {
  in_Glu.lsub = in_lsub; in_Glu.xlsub = in_xlsub; in_Glu.xlsub_end = in_xlsub_end; in_Glu.lusup = in_lusup; in_Glu.xlusup = in_xlusup;
  in_Glu.xlusup_end = in_xlusup_end; in_Gstat.procstat = in_procstat;
  g_ret = p@p@gstrf_snode_bmod(in_pnum, in_jcol, in_jsupno, in_fsupc, in_dense, in_tempv, &in_Glu, &in_Gstat);
  __CPROVER_assert(0, "canary: snode_bmod returns");
  if (g_nsupr >= 1 && g_nsupc == g_nsupr + 1) __CPROVER_assert(0, "canary: one column more than rows");
}
