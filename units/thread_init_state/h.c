#include "slu_mt_@p@defs.h"
/* ---- ghost: call log ---- */
int g_at_parfin, g_n_parfin; pxgstrf_shared_t *g_parfin_arg;
int g_seq, g_at_relax, g_at_parinit, g_at_preset, g_at_meminit, g_at_free, g_n_intmalloc, g_n_malloc, g_n_free, g_ifill_calls;
int_t *g_ifill_ptr, g_ifill_len, g_ifill_val; void *g_free_ptr; int_t g_j, g_p;
int_t g_mi_n, g_mi_annz; superlumt_options_t *g_mi_opt; SuperMatrix *g_mi_L, *g_mi_U; GlobalLU_t *g_glu;
#define LOG(at) do { g_seq++; (at) = g_seq; } while (0)
/* ---- inputs ---- */
SuperMatrix in_A, in_L, in_U; NCPformat in_Astore; superlumt_options_t in_o; pxgstrf_shared_t in_sh; Gstat_t in_Gstat; int_t in_info;
int_t in_perm_c[CAP], in_perm_r[CAP];
int_t in_ipr[CAP], in_ipc[CAP], in_xprune[CAP], in_ispruned[CAP], in_map[CAP+1]; pxgstrf_relax_t in_relax[CAP+2]; p@p@gstrf_threadarg_t in_targ[NP];
int_t in_dyn, in_preset, g_nzlumax_at_preset; float in_meminit_ret;
/* ---- executable contracts of the callees ---- */
int_t *intMalloc(int_t n) { g_n_intmalloc++; return g_n_intmalloc == 1 ? in_ipr : g_n_intmalloc == 2 ? in_ipc : in_xprune; }
int_t *intCalloc(int_t n) { __CPROVER_array_set(in_ispruned, (int_t)0); return in_ispruned; }
void *superlu_malloc(size_t size) { g_n_malloc++; return g_n_malloc == 1 ? (void*)in_relax : (void*)in_targ; }
void superlu_free(void *p) { if (g_n_free == 0) { LOG(g_at_free); g_free_ptr = p; } g_n_free++; }
int_t ParallelFinalize(pxgstrf_shared_t *s) { LOG(g_at_parfin); g_n_parfin++; g_parfin_arg = s; return 0; }
void ifill(int_t *a, int_t alen, int_t ival) { g_ifill_calls++; g_ifill_ptr = a; g_ifill_len = alen; g_ifill_val = ival; }
void pxgstrf_relax_snode(const int_t n, superlumt_options_t *o, pxgstrf_relax_t *r) { LOG(g_at_relax); }
int ParallelInit(int_t n, pxgstrf_relax_t *r, superlumt_options_t *o, pxgstrf_shared_t *s) { LOG(g_at_parinit); return 0; }
int_t @p@PresetMap(const int_t n, SuperMatrix *A, pxgstrf_relax_t *r, superlumt_options_t *o, GlobalLU_t *Glu) {
  LOG(g_at_preset); g_glu = Glu; g_nzlumax_at_preset = Glu->nzlumax;   /* what the static Glu held when this call started (thread_init does not write it before) */
  __CPROVER_assert(Glu == in_sh.Glu, "PresetMap receives the Glu that was published in pxgstrf_shared");
  __CPROVER_assert(Glu->nsuper == -1 && Glu->nextl == 0 && Glu->nextu == 0 && Glu->nextlu == 0, "Glu counters are reset before the slot map is built");
  Glu->map_in_sup = in_map; Glu->dynamic_snode_bound = in_dyn;
  return in_preset;
}
float p@p@gstrf_MemInit(int_t n, int_t annz, superlumt_options_t *o, SuperMatrix *L, SuperMatrix *U, GlobalLU_t *Glu) {
  LOG(g_at_meminit); g_mi_n = n; g_mi_annz = annz; g_mi_opt = o; g_mi_L = L; g_mi_U = U;
  __CPROVER_assert(Glu == g_glu && Glu == in_sh.Glu, "MemInit receives the same static Glu");
  /* C18: the fields MemInit (refact == NO) reads are written by this very call, whatever the static held before */
  __CPROVER_assert(Glu->dynamic_snode_bound == in_dyn && Glu->map_in_sup == in_map, "MemInit reads dynamic_snode_bound / map_in_sup written by this call");
#if REFACT
  __CPROVER_assert(Glu->nzlumax == g_nzlumax_at_preset, "MemInit (refactorization) reads the LUSUP bound kept from the first factorization, not this call's preset size");
#else
  __CPROVER_assert(Glu->nzlumax == in_preset, "MemInit reads nzlumax = the preset bound computed by this call");
#endif
  __CPROVER_assert(Glu->nsuper == -1 && Glu->nextl == 0 && Glu->nextu == 0 && Glu->nextlu == 0, "Glu counters still reset when MemInit runs");
  return in_meminit_ret;
}
p@p@gstrf_threadarg_t *g_ret;
void h_thread_init(void) {
  in_A.Store = &in_Astore; in_o.perm_c = in_perm_c; in_o.perm_r = in_perm_r;
  g_ret = p@p@gstrf_thread_init(&in_A, &in_L, &in_U, &in_o, &in_sh, &in_Gstat, &in_info);
  __CPROVER_assert(0, "canary: thread_init returns");
  if (g_ret) __CPROVER_assert(0, "canary: normal return with thread arguments");
  if (!g_ret) __CPROVER_assert(0, "canary: early return with info set");
  if (in_o.usepr == YES && in_A.ncol == CAP) __CPROVER_assert(0, "canary: pivot reuse, largest n");
}
