#include <stdlib.h>
#include "slu_mt_@p@defs.h"
extern int g_n_malloc, g_n_free, g_free_other; extern void *g_watch[12]; extern int g_freed[12], g_free_seq[12];
/* inputs: descriptor values arbitrary; 0 <= n <= CAP because the constructor reads col_to_sup[n] */
SuperMatrix in_A; int_t in_m, in_n, in_nnz; Stype_t in_stype; Dtype_t in_dtype; Mtype_t in_mtype;
/* ghosts: the nine arrays (heap objects, as p?gstrf_MemInit allocates them when lwork == 0) */
@T@ *g_nzval; int_t *g_nzcolbeg, *g_nzcolend, *g_rowind, *g_ricolbeg, *g_ricolend, *g_col_to_sup, *g_s2cbeg, *g_s2cend;
void h_destroy_scp(void) {
  int k;
  __CPROVER_assume(0 <= in_n && in_n <= CAP);
  g_nzval = malloc(sizeof(@T@)); g_nzcolbeg = malloc(sizeof(int_t)); g_nzcolend = malloc(sizeof(int_t));
  g_rowind = malloc(sizeof(int_t)); g_ricolbeg = malloc(sizeof(int_t)); g_ricolend = malloc(sizeof(int_t));
  g_col_to_sup = malloc((CAP + 1) * sizeof(int_t)); g_s2cbeg = malloc(sizeof(int_t)); g_s2cend = malloc(sizeof(int_t));
  __CPROVER_assume(g_nzval != 0 && g_nzcolbeg != 0 && g_nzcolend != 0 && g_rowind != 0 && g_ricolbeg != 0 && g_ricolend != 0
                   && g_col_to_sup != 0 && g_s2cbeg != 0 && g_s2cend != 0);
  g_n_malloc = 0;
  @p@Create_SuperNode_Permuted(&in_A, in_m, in_n, in_nnz, g_nzval, g_nzcolbeg, g_nzcolend, g_rowind, g_ricolbeg, g_ricolend,
                              g_col_to_sup, g_s2cbeg, g_s2cend, in_stype, in_dtype, in_mtype);                    /* REAL constructor */
  __CPROVER_assert(g_n_malloc == 1, "constructor allocates the Store object only");
  for (k = 0; k < 12; k++) g_watch[k] = (void *)0;
  g_watch[0] = in_A.Store; g_watch[1] = g_nzval; g_watch[2] = g_nzcolbeg; g_watch[3] = g_nzcolend; g_watch[4] = g_rowind;
  g_watch[5] = g_ricolbeg; g_watch[6] = g_ricolend; g_watch[7] = g_col_to_sup; g_watch[8] = g_s2cbeg; g_watch[9] = g_s2cend;
  Destroy_SuperNode_SCP(&in_A);                                                                                  /* REAL destructor, under contract */
  __CPROVER_assert(0, "canary: constructor + destructor return");
  if (in_n == CAP && in_stype == SLU_SCP) __CPROVER_assert(0, "canary: n = CAP reachable");
  /* nothing is freed here: cbmc's --memory-leak-check at the end of the harness decides that nothing is left allocated */
}
