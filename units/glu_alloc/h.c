#include "slu_mt_ddefs.h"
/* ghosts: pre-state copies, lock log (written by stubs/c14_stubs.c), "request fits" flag read by the abort stub */
int_t g_nextl0, g_nextu0, g_nextlu0, g_nzl0, g_nzu0, g_nzlu0; int g_fits;
extern int g_locks, g_unlocks; extern void *g_lock_obj, *g_unlock_obj;
/* inputs */
int_t in_pnum, in_jcol, in_num; MemType in_mt; int_t in_prev_next;
pxgstrf_shared_t in_sh; GlobalLU_t in_Glu; Gstat_t in_Gstat; mutex_t in_locks[NO_GLU_LOCKS];
int_t g_ret;
void h_glu_alloc(void) {
  in_sh.Glu = &in_Glu; in_sh.Gstat = &in_Gstat; in_sh.lu_locks = in_locks;
  g_ret = Glu_alloc(in_pnum, in_jcol, in_num, in_mt, &in_prev_next, &in_sh);
  __CPROVER_assert(0, "canary: Glu_alloc returns");
  if (in_mt == UCOL) __CPROVER_assert(0, "canary: UCOL request returns");
  if (in_mt == USUB) __CPROVER_assert(0, "canary: USUB request returns");
  if (in_mt == LSUB) __CPROVER_assert(0, "canary: LSUB request returns");
  if (in_mt == LSUB && in_Glu.nextl == in_Glu.nzlmax && in_num > 0) __CPROVER_assert(0, "canary: exact fit returns");
}
