#include "slu_mt_@p@defs.h"
/* inputs = the token stream of the file */
char in_title[TLENC]; int in_m, in_n, in_nonz, in_cnt[CAP], in_row[NZC]; double in_val[NZC];
/* outputs */
int_t in_mo, in_no, in_nonzo; @T@ *in_nzval; int_t *in_rowind, *in_colptr; @T@ in_a[NZC]; int_t in_asub[NZC], in_xa[CAP + 1];
/* ghosts: prefix sums of the counts, universally chosen column / entry, title length */
int g_pre[CAP + 1], g_c, g_t, g_tl;
void @p@readmt(int_t *, int_t *, int_t *, @T@ **, int_t **, int_t **);
void h_mt(void) {
  @p@readmt(&in_mo, &in_no, &in_nonzo, &in_nzval, &in_rowind, &in_colptr);
  __CPROVER_assert(0, "canary: reader returns");
  if (in_n == CAP && g_pre[CAP] == NZC) __CPROVER_assert(0, "canary: largest instance");
  if (in_n >= 2 && in_cnt[0] == 0 && in_cnt[1] == 2) __CPROVER_assert(0, "canary: empty column followed by a column of two");
  if (g_pre[in_n] < in_nonz) __CPROVER_assert(0, "canary: header announces more entries than the file holds");
  if (in_n == 0) __CPROVER_assert(0, "canary: no columns");
  if (g_tl == TLENC - 1) __CPROVER_assert(0, "canary: 79-character title");
}
