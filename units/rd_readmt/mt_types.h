/* value type of the precision without the library headers (which include <stdio.h>) */
#if CPLX
typedef struct { @R@ r, i; } @T@;
#endif
