/* vocabulary for ?readmt: token stream in_cnt / in_row / in_val, ghost prefix sums g_pre[0..n] of the column counts */
#define A (*nzval)
#define ASUB (*rowind)
#define XA (*colptr)
#define N in_n
#define TOTAL g_pre[in_n]
