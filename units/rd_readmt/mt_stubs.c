/* TRUSTED stand-ins for the libc calls of ?readmt (C20 c): scanf is a TOKEN STREAM over harness arrays
 *   "%d%d%d"   -> the header numbers in_m, in_n, in_nonz
 *   "%d"       -> the entry count of the next column, in_cnt[g_col++]
 *   "%d%lf\n"  -> the next entry in file order: row id in_row[g_ent] (as printed, i.e. 1-based) and value in_val[g_ent]; g_ent++
 * getchar delivers the title line in_title[]; ?allocateA hands out the harness arrays in_a[NZC], in_asub[NZC], in_xa[CAP+1]
 * and remembers the sizes asked for; the entry branch of scanf asserts that the slot it is told to fill lies inside the
 * nnz slots that were asked for (this is the index-safety obligation of the routine, checked against the real request). */
/* no system header: <stdio.h> would bring the variadic prototype of scanf; the stub has a fixed signature (three pointer
 * slots, the routine's calls use one to three of them) because the contract instrumentation inlines callees and cannot
 * carry variadic arguments.  glibc renames scanf to __isoc99_scanf. */
typedef struct _IO_FILE FILE; typedef int int_t;
#include "mt_types.h"
void *malloc(unsigned long);
extern int in_m, in_n, in_nonz, in_cnt[CAP], in_row[NZC]; extern double in_val[NZC]; extern char in_title[TLENC];
extern @T@ in_a[NZC]; extern int_t in_asub[NZC], in_xa[CAP + 1];
int g_col, g_ent, g_getc, g_hdr, g_alloc_n, g_alloc_nnz;
int __isoc99_scanf(const char *fmt, void *p1, void *p2, void *p3) {
  if (fmt[2] == '%' && fmt[4] == '%' && fmt[5] == 'd') {               /* "%d%d%d" */
    *(int *)p1 = in_m; *(int *)p2 = in_n; *(int *)p3 = in_nonz; g_hdr++; return 3;
  } else if (fmt[2] == 0) {                                            /* "%d" */
    __CPROVER_assert(0 <= g_col && g_col < CAP, "scanf: reader asks for at most n column counts");
    *(int *)p1 = in_cnt[g_col]; g_col++; return 1;
  } else {                                                             /* "%d%lf\n" / "%d%f\n" */
    __CPROVER_assert(0 <= g_ent && g_ent < NZC, "scanf: reader asks for at most sum(counts) entries");
    __CPROVER_assert(g_ent < g_alloc_nnz && p1 == (void *)&in_asub[g_ent] && p2 == (void *)&in_a[g_ent], "scanf: entry k of the file is stored in slot k, inside the nonz slots allocated");
    *(int *)p1 = in_row[g_ent]; *(@T@ *)p2 = (@T@)in_val[g_ent]; g_ent++; return 2;
  }
}
int getchar(void) { __CPROVER_assert(0 <= g_getc && g_getc < TLENC, "getchar: title line not exhausted"); return in_title[g_getc++]; }
int printf(const char *f, ...) { return 0; }
int fprintf(FILE *fp, const char *f, ...) { return 0; }
void @p@allocateA(int_t n, int_t nnz, @T@ **a, int_t **asub, int_t **xa) {
  __CPROVER_assert(0 <= nnz && nnz <= NZC && 0 <= n && n <= CAP, "allocateA: request within the capacity of the proof");
  g_alloc_n = n; g_alloc_nnz = nnz; *a = in_a; *asub = in_asub; *xa = in_xa;
  /* tool workaround (goto-instrument 6.11, legacy contracts): without any heap allocation in the program the instrumentation
   * rejects the transformed dumptitle loop ("Loops remain in function"); one unused allocation keeps it on the working path */
  { void *unused = malloc(1); (void)unused; }
}
