#include <stdlib.h>
#include "slu_mt_@p@defs.h"
int_t g_nnzL, g_nnzU, g_k; int g_n_countnz, g_n_fixup, g_n_createL, g_n_createU, g_n_parfin, g_n_free, g_order_ok; int_t g_createL_nnz, g_createU_nnz; void *g_createL_lusup, *g_createL_lsub, *g_createL_xsup, *g_createU_ucol;
p@p@gstrf_threadarg_t in_args[NPMAX]; pxgstrf_shared_t in_shared; SuperMatrix in_A, in_L, in_U; SCPformat in_Lstore; NCPformat in_Ustore; GlobalLU_t in_Glu; superlumt_options_t in_o;
int_t in_perm_r[CAP], in_supno[CAP+1], in_info, in_xprune[CAP];
ExpHeader *@p@expanders;     /* the library's global (defined in p?memory.c, which is not linked here) */
int_t nondet_int_t(void);
void countnz(const int_t n, int_t *xprune, int_t *nnzL, int_t *nnzU, GlobalLU_t *Glu) { g_n_countnz++; if (g_n_fixup != 0) g_order_ok = 0; g_nnzL = nondet_int_t(); g_nnzU = nondet_int_t(); *nnzL = g_nnzL; *nnzU = g_nnzU; }
void fixupL(const int_t n, const int_t *perm_r, GlobalLU_t *Glu) { g_n_fixup++; if (g_n_countnz != 1) g_order_ok = 0; }
void @p@Create_SuperNode_Permuted(SuperMatrix *L, int_t m, int_t n, int_t nnz, @T@ *nzval, int_t *nzval_colbeg, int_t *nzval_colend, int_t *rowind, int_t *rowind_colbeg, int_t *rowind_colend, int_t *col_to_sup, int_t *sup_to_colbeg, int_t *sup_to_colend, Stype_t s, Dtype_t d, Mtype_t mt)
{ g_n_createL++; g_createL_nnz = nnz; g_createL_lusup = nzval; g_createL_lsub = rowind; g_createL_xsup = sup_to_colbeg; if (g_n_fixup != 1) g_order_ok = 0; }
void @p@Create_CompCol_Permuted(SuperMatrix *U, int_t m, int_t n, int_t nnz, @T@ *nzval, int_t *rowind, int_t *colbeg, int_t *colend, Stype_t s, Dtype_t d, Mtype_t mt)
{ g_n_createU++; g_createU_nnz = nnz; g_createU_ucol = nzval; }
int_t ParallelFinalize(pxgstrf_shared_t *sh) { g_n_parfin++; return 0; }
void superlu_free(void *p) { g_n_free++; }
void h_finalize(void) {
  in_args[0].superlumt_options = &in_o; in_shared.Glu = &in_Glu; in_shared.info = &in_info; in_shared.xprune = in_xprune;
  in_Glu.supno = in_supno; in_L.Store = &in_Lstore; in_U.Store = &in_Ustore;
  p@p@gstrf_thread_finalize(in_args, &in_shared, &in_A, in_perm_r, &in_L, &in_U);
  __CPROVER_assert(0, "canary: finalize returns");
  if (in_info != 0 && in_o.nprocs >= 3) __CPROVER_assert(0, "canary: singular with several threads");
  if (in_o.refact == YES) __CPROVER_assert(0, "canary: refactorization path");
}
