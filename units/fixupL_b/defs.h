#include "../fixupL/defs.h"
