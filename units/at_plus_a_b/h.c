#include "slu_mt_ddefs.h"
#include <stdlib.h>
/* BOUNDED unit (label B(n)): the real at_plus_a (SRC/get_perm_c.c) is executed symbolically, loops unwound, for EVERY square column
 * structure of order n = CAP (one run per order: variants) with at most NZ stored subscripts: 0 <= colptr[0] <= ... <= colptr[n] <= nz,
 * rows in [0,n), columns unsorted, repeated subscripts and stored diagonal entries allowed, nz >= colptr[n] arbitrary (<= NZ).
 * ORACLE (brute force, computed here):  M[i][j] = "column j of A stores row i";  B[i][j] = (i != j) && (M[i][j] || M[j][i]).
 * Checked after the call: (colptr', rowind', bnz) is a well-formed column structure whose column j holds every i with B[i][j] exactly
 * once and nothing else; bnz = number of such pairs; A is not written; *b_rowind is not written when bnz == 0; only the results stay
 * allocated; a refused allocation never comes back (stubs/slu_alloc_mayfail_stub.c). */
#define D (CAP > 0 ? CAP : 1)
#define BZ (D * D)
extern int g_n_malloc, g_n_free, g_alloc_failed;
int_t in_n, in_nz, in_colptr[D + 1], in_rowind[NZ > 0 ? NZ : 1];
int_t g_colptr0[D + 1], g_rowind0[NZ > 0 ? NZ : 1];
int_t in_bnz, *in_b_colptr, *in_b_rowind, *g_b_rowind0;
int_t nondet_int_t(void);
extern void superlu_free(void *);
extern void at_plus_a(const int_t, const int_t, int_t *, int_t *, int_t *, int_t **, int_t **);
void h_at_plus_a(void) {
  int_t i, j, p, q, total;
  _Bool M[D][D], B[D][D];
  int_t sentinel;
  in_n = CAP;
  in_nz = nondet_int_t();
  for (j = 0; j <= D; j++) in_colptr[j] = nondet_int_t();
  for (p = 0; p < (NZ > 0 ? NZ : 1); p++) in_rowind[p] = nondet_int_t();
  in_bnz = nondet_int_t();
  in_b_colptr = (int_t *) 0;
  in_b_rowind = g_b_rowind0 = &sentinel;        /* get_perm_c passes the address of an uninitialised local; any value */
  g_n_malloc = 0; g_n_free = 0; g_alloc_failed = 0;
  __CPROVER_assume(0 <= in_nz && in_nz <= NZ);
  __CPROVER_assume(0 <= in_colptr[0]);
  for (j = 0; j < CAP; j++) __CPROVER_assume(in_colptr[j] <= in_colptr[j + 1]);
  __CPROVER_assume(in_colptr[CAP] <= in_nz);
#if STRICT   /* the shape every NC matrix of the library has: colptr[0] == 0, colptr[n] == nnz; STRICT == 2: nz == NZ too */
  __CPROVER_assume(in_colptr[0] == 0 && in_colptr[CAP] == in_nz);
#endif
#if STRICT == 2
  __CPROVER_assume(in_nz == NZ);
#endif
  for (p = 0; p < NZ; p++) __CPROVER_assume(0 <= in_rowind[p] && in_rowind[p] < D);
  for (j = 0; j <= CAP; j++) g_colptr0[j] = in_colptr[j];
  for (p = 0; p < NZ; p++) g_rowind0[p] = in_rowind[p];
  for (i = 0; i < CAP; i++) for (j = 0; j < CAP; j++) {
    M[i][j] = 0;
    for (p = 0; p < NZ; p++) if (in_colptr[j] <= p && p < in_colptr[j + 1] && in_rowind[p] == i) M[i][j] = 1;
  }
  total = 0;
  for (i = 0; i < CAP; i++) for (j = 0; j < CAP; j++) { B[i][j] = (i != j) && (M[i][j] || M[j][i]); if (B[i][j]) total++; }

  at_plus_a(in_n, in_nz, in_colptr, in_rowind, &in_bnz, &in_b_colptr, &in_b_rowind);

  __CPROVER_assert(!g_alloc_failed, "at_plus_a does not return after a refused allocation");
  __CPROVER_assert(in_bnz == total, "bnz is the number of off-diagonal entries of A'+A");
  __CPROVER_assert(in_b_colptr[0] == 0 && in_b_colptr[CAP] == in_bnz, "b_colptr starts at 0 and ends at bnz");
  for (j = 0; j < CAP; j++) __CPROVER_assert(in_b_colptr[j] <= in_b_colptr[j + 1], "b_colptr is monotone");
  if (in_bnz == 0) __CPROVER_assert(in_b_rowind == g_b_rowind0, "*b_rowind is not written when bnz == 0");
  for (p = 0; p < BZ; p++) if (p < in_bnz) __CPROVER_assert(0 <= in_b_rowind[p] && in_b_rowind[p] < CAP, "b_rowind entries are vertices");
  for (j = 0; j < CAP; j++) for (i = 0; i < CAP; i++) {
    _Bool mem = 0;
    for (p = 0; p < BZ; p++) if (in_b_colptr[j] <= p && p < in_b_colptr[j + 1] && p < in_bnz && in_b_rowind[p] == i) mem = 1;
    __CPROVER_assert(mem == B[i][j], "column j of the result holds i iff i != j and (A(i,j) or A(j,i)) is stored");
  }
  for (j = 0; j < CAP; j++) for (p = 0; p < BZ; p++) for (q = p + 1; q < BZ; q++)
    if (in_b_colptr[j] <= p && q < in_b_colptr[j + 1] && q < in_bnz) __CPROVER_assert(in_b_rowind[p] != in_b_rowind[q], "no repeated subscript in a column of the result");
  for (j = 0; j <= CAP; j++) __CPROVER_assert(g_colptr0[j] == in_colptr[j], "colptr of A not written");
  for (p = 0; p < NZ; p++) __CPROVER_assert(g_rowind0[p] == in_rowind[p], "rowind of A not written");
  __CPROVER_assert(g_n_malloc - g_n_free == (in_bnz != 0 ? 2 : 1), "only the results stay allocated (3 temporaries released)");
  g_n_free = 0;

  __CPROVER_assert(0, "canary: at_plus_a returns");
  if (in_bnz == 0) __CPROVER_assert(0, "canary: empty adjacency structure");
#if NZ > 0 && CAP > 0
  if (in_colptr[CAP] == 0) __CPROVER_assert(0, "canary: A has no stored entry although nz > 0 is possible");
  if (M[0][0]) __CPROVER_assert(0, "canary: stored diagonal");
#endif
  if (in_nz == 0) __CPROVER_assert(0, "canary: nz == 0");
#if CAP >= 2 && NZ >= 2
  if (in_bnz == CAP * (CAP - 1)) __CPROVER_assert(0, "canary: full adjacency structure");
  if (M[0][1] && !M[1][0]) __CPROVER_assert(0, "canary: unsymmetric entry");
  if (M[0][1] && M[1][0]) __CPROVER_assert(0, "canary: symmetric pair (deduplicated)");
  if (in_colptr[1] == 2 && in_rowind[0] == in_rowind[1]) __CPROVER_assert(0, "canary: repeated subscript");
  if (in_colptr[0] == in_colptr[1] && in_colptr[1] < in_colptr[2]) __CPROVER_assert(0, "canary: empty first column");
#endif
  superlu_free(in_b_colptr); if (in_bnz != 0) superlu_free(in_b_rowind);      /* nothing else may be live (--memory-leak-check) */
}
