/* gcc -D__PTHREAD -DAdd_ -I/repo/SRC native_repro.c /repo/SRC/dgsequ.c /repo/SRC/dlamch.c /repo/SRC/xerbla.c /repo/SRC/lsame.c -lm */
#include <stdio.h>
#include "slu_mt_ddefs.h"
int main(void){
  /* 2x2: row 0 = [1e300, 1e-100]; row 1 = [1, 0 (not stored)] -> column 1 holds the single entry 1e-100 (nonzero) */
  double val[3] = {1e300, 1.0, 1e-100}; int_t rowind[3] = {0, 1, 0}; int_t colptr[3] = {0, 2, 3};
  NCformat S = {3, val, rowind, colptr}; SuperMatrix A = {SLU_NC, SLU_D, SLU_GE, 2, 2, &S};
  double r[2], c[2], rowcnd, colcnd, amax; int_t info;
  dgsequ(&A, r, c, &rowcnd, &colcnd, &amax, &info);
  printf("info=%d (nrow=2: info=4 claims column 2 is exactly zero) r=[%g %g] amax=%g a(0,1)=%g\n", (int)info, r[0], r[1], amax, val[2]);
  /* tiny matrix: rowcnd > 1 */
  double v2[2] = {1e-310, 2e-310}; int_t ri2[2] = {0,1}; int_t cp2[3] = {0,1,2};
  NCformat S2 = {2, v2, ri2, cp2}; SuperMatrix A2 = {SLU_NC, SLU_D, SLU_GE, 2, 2, &S2};
  dgsequ(&A2, r, c, &rowcnd, &colcnd, &amax, &info);
  printf("tiny: info=%d rowcnd=%g colcnd=%g r=[%g %g]\n", (int)info, rowcnd, colcnd, r[0], r[1]);
  return 0; }
