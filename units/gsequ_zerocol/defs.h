/* vocabulary for ?gsequ.  The harness owns the matrix: in_A (SuperMatrix) -> in_Astore (NCformat) -> in_colptr[CAP+1],
 * in_rowind[NZ], in_val[NZ]; outputs in_r[CAP], in_c[CAP], in_rowcnd, in_colcnd, in_amax, in_info.
 * Ghosts (universally chosen): g_i row, g_j column, g_k stored position. */
#define NR in_A.nrow
#define NC in_A.ncol
#define CP(j) in_colptr[j]
#define RI(k) in_rowind[k]
#define AV(k) in_val[k]
#define ABSA(k) ABSV(AV(k))
/* stored positions of the matrix / of column j */
#define INR(k) (CP(0) <= (k) && (k) < CP(NC))
#define INCOL(k,j) (CP(j) <= (k) && (k) < CP((j)+1))
#define SML ((@R@)@sfmin@)
#define BIG ((@R@)(1. / @sfmin@))
#if PREC_IS_d
#define FMAX 1.7976931348623157e308
#define ABSV(x) __CPROVER_fabs(x)
#else
#define FMAX 3.40282346638528859812e38f
#define ABSV(x) __CPROVER_fabsf(x)
#endif
#define FINITE(x) (ABSV(x) <= FMAX)
#define ARGS_OK (NR >= 0 && NC >= 0 && in_A.Stype == SLU_NC && in_A.Dtype == SLU_@P@ && in_A.Mtype == SLU_GE)
#define NONEMPTY (ARGS_OK && NR > 0 && NC > 0)
/* row i / column j hold no nonzero value (all stored entries are exactly 0, or there is none) */
#define ZROW(i,q) FA(q, NZ, (INR(q) && RI(q) == (i)) ==> AV(q) == 0)
#define ZCOL(j,q) FA(q, NZ, INCOL(q,j) ==> AV(q) == 0)
#define IN_SCALE(x) (SML <= (x) && (x) <= BIG)
/* the largest stored magnitude, named through the ghost argmax g_m (0 when nothing is stored) */
#define AMAXV g_amax
