#include <stdlib.h>
#include "slu_mt_@p@defs.h"
_Bool nondet_bool(void);
/* ghost: allocation log (first three requests: size and block), exit log */
int g_n_malloc, g_alloc_failed, g_exit_calls, g_exit_code; size_t g_req[3]; void *g_blk[3];
void *superlu_malloc(size_t size) {
  void *p;
  if (nondet_bool()) { p = (void *)0; g_alloc_failed = 1; }
  else { p = malloc(size); __CPROVER_assume(p != (void *)0); }
  if (g_n_malloc < 3) { g_req[g_n_malloc] = size; g_blk[g_n_malloc] = p; }
  if (g_n_malloc < 1000000) g_n_malloc++;
  return p;
}
void superlu_free(void *p) { free(p); }
void exit(int code) {
  g_exit_calls++; g_exit_code = code;
  __CPROVER_assert(g_alloc_failed, "the process is ended only after a refused request");
  __CPROVER_assert(g_n_malloc >= 1 && g_n_malloc <= 3 && g_blk[g_n_malloc - 1] == (void *)0, "the process is ended right after the refused request (no further request, nothing dereferenced in between)");
  __CPROVER_assert(code == 1, "process exits with status 1");
  __CPROVER_assert(0, "canary: refused request -> exit path reachable");
  if (g_n_malloc == 3) __CPROVER_assert(0, "canary: third request refused -> exit path reachable");
  __CPROVER_assume(0);
}
/* inputs */
int_t in_n, in_nnz; @T@ *in_a; int_t *in_asub, *in_xa;
void h_allocateA(void) {
  @p@allocateA(in_n, in_nnz, &in_a, &in_asub, &in_xa);
  __CPROVER_assert(0, "canary: allocateA returns");
  if (in_nnz == 0 && in_n == 0) __CPROVER_assert(0, "canary: empty matrix served");
  if (in_n == NMAX) __CPROVER_assert(0, "canary: n == INT_MAX - 1 served");
  /* the arrays are usable over exactly nnz / nnz / n+1 cells */
  if (in_nnz > 0) { in_a[in_nnz - 1] = in_a[0]; in_asub[in_nnz - 1] = in_asub[0]; }
  in_xa[in_n] = in_xa[0];
  __CPROVER_assert(!__CPROVER_r_ok((char *)in_xa, ((size_t)in_n + 1) * sizeof(int_t) + 1), "column-pointer block is not longer than n+1 cells");
  SUPERLU_FREE(in_a); SUPERLU_FREE(in_asub); SUPERLU_FREE(in_xa);   /* as the callers do: nothing else is left allocated (--memory-leak-check) */
}
