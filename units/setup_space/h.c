#include "slu_mt_@p@defs.h"
extern void p@p@gstrf_SetupSpace(void *, int_t);
extern int g_lock_inits;
int_t g_size0, g_used0, g_top10, g_top20; void *g_array0; int g_ws0;
int_t in_lwork; char in_work[8];
void h_setup_space(void) {
  p@p@gstrf_SetupSpace(in_work, in_lwork);
  __CPROVER_assert(0, "canary: SetupSpace returns");
  if (in_lwork == 0) __CPROVER_assert(0, "canary: system-malloc mode");
  if (in_lwork > 0) __CPROVER_assert(0, "canary: user-workspace mode");
}
