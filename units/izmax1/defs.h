/* clause vocabulary of unit izmax1 (expanded before weaving) */
#define FAI(k,lim,body) __CPROVER_forall { int k; (0 <= k && k < (lim)) ==> (body) }
/* |Re| of array slot k, defined without fabs */
#define ABSR(k) (in_cx[k].r < 0 ? -in_cx[k].r : in_cx[k].r)
/* slot of the e-th (0-based) vector element */
#define SLOT(e) (g_off + (e) * in_incx)
#define NGOOD (1 <= in_n && 0 <= g_i && g_i < in_n)
/* f2c's scratch variable: d__1 in izmax1.c, r__1 in icmax1.c */
#if PREC_IS_c
#define TMP1 r__1
#else
#define TMP1 d__1
#endif
