#include "slu_@r@complex.h"
extern int i@p@max1_(int *, @T@ *, int *);
/* ghosts: offset of the vector inside the array, placement (start/end), an arbitrary element, the result */
int g_off, g_end, g_i, g_ret;
/* inputs */
int in_n, in_incx; @T@ in_cx[XCAP];
void h_imax1(void) {
  g_ret = i@p@max1_(&in_n, in_cx + g_off, &in_incx);
  __CPROVER_assert(0, "canary: imax1 returns");
  if (in_n < 1) __CPROVER_assert(0, "canary: n < 1");
  if (in_n == 1 && in_incx < 0) __CPROVER_assert(0, "canary: n == 1, any stride");
  if (in_n >= 3 && in_incx == 1 && g_ret == 2) __CPROVER_assert(0, "canary: unit stride, interior maximum");
  if (in_n >= 3 && in_incx >= 2 && g_ret == in_n) __CPROVER_assert(0, "canary: stride > 1, last element is the maximum");
  if (in_n >= 3 && in_incx >= 2 && g_ret == 1 && g_end == 1 && g_off > 0) __CPROVER_assert(0, "canary: stride > 1, end-aligned, first element is the maximum");
  if (in_n >= 3 && g_ret == 1 && g_i == 2 && in_cx[g_off].r == -in_cx[g_off + 2*in_incx].r && in_cx[g_off].r > 0) __CPROVER_assert(0, "canary: tie, first wins");
  if (in_n == XCAP && in_incx == 1) __CPROVER_assert(0, "canary: full capacity");
}
