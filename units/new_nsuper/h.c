/* harness of unit new_nsuper: NewNsuper, lockon, lockoff (SRC/pxgstrf_synch.c); only wires objects and calls */
#include "slu_mt_ddefs.h"
/* inputs */
int_t in_pnum, in_block; pxgstrf_shared_t in_sh; GlobalLU_t in_glu; Gstat_t in_gstat; mutex_t in_locks[NO_GLU_LOCKS];
/* ghosts: pre-state of the counter, lock-stub records */
int_t g_data0, g_data_at_lock, g_data_at_unlock; int g_locked, g_nlock, g_nunlock, g_badlock; int_t g_ret;
/* trusted: the lock gives atomicity; the stubs record that lock/unlock bracket the update once, on NSUPER_LOCK, and what the counter
 * holds when the lock is taken and when it is released */
int pthread_mutex_lock(pthread_mutex_t *m) { if (g_locked || m != &in_locks[NSUPER_LOCK]) g_badlock = 1; g_locked = 1; g_nlock++; g_data_at_lock = in_glu.nsuper; return 0; }
int pthread_mutex_unlock(pthread_mutex_t *m) { if (!g_locked || m != &in_locks[NSUPER_LOCK]) g_badlock = 1; g_locked = 0; g_nunlock++; g_data_at_unlock = in_glu.nsuper; return 0; }
#if V_NEWNSUPER
void h_NewNsuper(void) {
  in_sh.lu_locks = in_locks; in_sh.Glu = &in_glu; in_sh.Gstat = &in_gstat;
  g_ret = NewNsuper(in_pnum, &in_sh, &in_glu.nsuper);
  __CPROVER_assert(0, "canary: NewNsuper returns");
  if (g_ret == 0) __CPROVER_assert(0, "canary: first supernode gets number 0");
  if (g_ret > 1000) __CPROVER_assert(0, "canary: large supernode number");
}
#endif
#if V_LOCKON
void h_lockon(void) {
  g_ret = lockon(&in_block);
  __CPROVER_assert(0, "canary: lockon returns");
}
#endif
#if V_LOCKOFF
void h_lockoff(void) {
  g_ret = lockoff(&in_block);
  __CPROVER_assert(0, "canary: lockoff returns");
  if (g_data0 != 0) __CPROVER_assert(0, "canary: lockoff on a held lock");
}
#endif
