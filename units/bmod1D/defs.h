/* vocabulary for p?gstrf_bmod2D / bmod1D (sup-panel update of the w columns of a panel by ONE updating supernode).
 * Capacities: M rows (= stride of the n-by-w work arrays), W panel width, LC row subscripts, LUC stored values of L,
 * TVC scalars of tempv (1-D kernel: tempv[0..segsze) = solved segment, tempv[segsze..segsze+nrow) = product), NP threads.  The harness owns every array (in_*); the scalar arguments are the in_* scalars.
 * Supernode geometry (ghost scalars bound by REQ(geometry)): g_lptr = xlsub[fsupc] (start of the row list, in_nsupr rows),
 * g_xf = xlusup[fsupc] (start of the in_nsupr x in_nsupc column-major block, lda = in_nsupr).
 * Panel column c (0 <= c < w): its U-segment w.r.t. the supernode covers supernode columns KFNZ(c)..krep. */
#define KFNZ(c)    in_repfnz[(c)*in_m + in_krep]
#define ACTIVE(c)  (KFNZ(c) != EMPTY)
#define SEGSZE(c)  (in_krep - KFNZ(c) + 1)
#define NOZEROS(c) (KFNZ(c) - in_fsupc)
#define BLAS(c)    (ACTIVE(c) && SEGSZE(c) >= 4)                 /* the column goes through trsv/gemv (else hand-unrolled) */
#define INLIST(p)  (g_lptr <= (p) && (p) < g_lptr + in_nsupr)     /* position inside the supernode's row list */
#define DENSE(c,r) in_dense[(c)*in_m + (r)]
/* offsets into lusup the update is defined on */
#define TRI_OFF(c)   (g_xf + in_nsupr*NOZEROS(c) + NOZEROS(c))               /* diagonal block: row no_zeros, column no_zeros */
#define RECT_OFF(c,r) (g_xf + in_nsupr*NOZEROS(c) + in_nsupc + (r))          /* row nsupc+r, column no_zeros */
#define SNODE_END    (g_xf + in_nsupr*in_nsupc)
#define MINI(a,b) ((a) < (b) ? (a) : (b))
/* BLAS call records (one object, so that the frame has one target): total calls; calls, and their arguments, that concern the ghost
 * panel column g_c (trsv) resp. the ghost row g_row below the diagonal block of column g_c (gemv) */
#ifndef SPEC_EXPAND
struct blas_rec { int trsv_calls, gemv_calls, trsv_cnt, gemv_cnt; int_t trsv_aoff, trsv_n, gemv_aoff, gemv_m, gemv_n; };
#endif
#define g_trsv_calls g_blas.trsv_calls
#define g_gemv_calls g_blas.gemv_calls
#define g_trsv_cnt g_blas.trsv_cnt
#define g_gemv_cnt g_blas.gemv_cnt
#define g_trsv_aoff g_blas.trsv_aoff
#define g_trsv_n g_blas.trsv_n
#define g_gemv_aoff g_blas.gemv_aoff
#define g_gemv_m g_blas.gemv_m
#define g_gemv_n g_blas.gemv_n
