#include "slu_mt_@p@defs.h"
/* BOUNDED unit (label B(n)): the real p?gstrf_snode_dfs (row structure of a relaxed supernode [jcol, kcol]) is executed symbolically for
 * m = n = CAP fixed (marker[], col_lsub[] have exactly m entries: an overrun is out of bounds), every 0 <= jcol <= kcol < n, every column
 * structure of A with at most COLLEN entries per column.  NewNsuper / Glu_alloc(LSUB) are executable contracts (as in unit column_dfs_snode).
 * Proved (C09): memory safety; the supernode [jcol,kcol] gets the next fresh number with consistent xsup/xsup_end/supno; its row list is
 * exactly the set of rows of A(:, jcol..kcol), without duplicates, stored at the old nextl with 2*|rows| subscripts allocated; frame. */
#define M CAP
int_t nondet_int_t(void);
int_t in_pnum, in_jcol, in_kcol, in_asub[NNZ], in_xa_begin[M], in_xa_end[M], in_xprune[M], in_marker[M], in_col_lsub[M];
pxgstrf_shared_t in_sh; GlobalLU_t in_Glu; Gstat_t in_Gstat;
int_t in_xsup[M+1], in_xsup_end[M+1], in_supno[M], in_lsub[LC], in_xlsub[M], in_xlsub_end[M];
int_t in_alloc_fails, in_memerr;
int_t g_marker0[M], g_lsub0[LC], g_xlsub0[M], g_xlsub_end0[M], g_xprune0[M], g_xsup0[M+1], g_xsup_end0[M+1], g_supno0[M];
int_t g_nsuper0, g_nextl0, g_ret, g_alloc_num, g_alloc_prev, g_p, g_q, g_r, g_c;
int g_alloc_calls, g_newsup_calls, g_argbad;
void verif_abort(char *);
/* NewNsuper (SRC/pxgstrf_synch.c): i = ++(*data) under NSUPER_LOCK */
int_t NewNsuper(const int_t pnum, pxgstrf_shared_t *sh, int_t *data) {
  g_newsup_calls++;
  if (pnum != in_pnum || sh != &in_sh || data != &in_Glu.nsuper) g_argbad = 1;
  return ++(*data);
}
/* Glu_alloc(LSUB) (SRC/pmemory.c, real routine proved in unit glu_alloc): *prev_next = nextl; nextl += num; a request that does not fit
 * nzlmax takes the abort path; a positive return (never produced by the real routine, but tested by the caller) leaves everything unchanged */
int_t Glu_alloc(const int_t pnum, const int_t jcol, const int_t num, const MemType mem_type, int_t *prev_next, pxgstrf_shared_t *sh) {
  g_alloc_calls++; g_alloc_num = num; g_alloc_prev = in_Glu.nextl;
  if (pnum != in_pnum || jcol != in_jcol || mem_type != LSUB || sh != &in_sh || num < 0) g_argbad = 1;
  if (in_alloc_fails) return in_memerr;
  if (num < 0 || num > in_Glu.nzlmax - in_Glu.nextl) verif_abort("Memory allocation failed");
  *prev_next = in_Glu.nextl; in_Glu.nextl += num;
  return 0;
}
void h_snode_dfs(void) {
  int_t c, p, r, xj, xe, cnt, inA, inL, news;
  in_pnum = nondet_int_t(); in_jcol = nondet_int_t(); in_kcol = nondet_int_t(); in_alloc_fails = nondet_int_t(); in_memerr = nondet_int_t();
  for (c = 0; c < M; c++) { in_xa_begin[c] = nondet_int_t(); in_xa_end[c] = nondet_int_t(); in_xprune[c] = nondet_int_t(); in_marker[c] = nondet_int_t();
    in_col_lsub[c] = nondet_int_t(); in_supno[c] = nondet_int_t(); in_xlsub[c] = nondet_int_t(); in_xlsub_end[c] = nondet_int_t(); }
  for (c = 0; c <= M; c++) { in_xsup[c] = nondet_int_t(); in_xsup_end[c] = nondet_int_t(); }
  for (p = 0; p < NNZ; p++) in_asub[p] = nondet_int_t();
  for (p = 0; p < LC; p++) in_lsub[p] = nondet_int_t();
  in_Glu.nsuper = nondet_int_t(); in_Glu.nextl = nondet_int_t();
  in_sh.Glu = &in_Glu; in_sh.Gstat = &in_Gstat;
  in_Glu.xsup = in_xsup; in_Glu.xsup_end = in_xsup_end; in_Glu.supno = in_supno; in_Glu.lsub = in_lsub; in_Glu.xlsub = in_xlsub; in_Glu.xlsub_end = in_xlsub_end;
  in_Glu.nzlmax = LC;
  /* ---------- well-formed pre-state ---------- */
  __CPROVER_assume(0 <= in_jcol && in_jcol <= in_kcol && in_kcol < M && in_memerr > 0);
  __CPROVER_assume(-1 <= in_Glu.nsuper && in_Glu.nsuper <= M - 2);          /* at most n-1 supernodes exist besides the one opened here */
  __CPROVER_assume(0 <= in_Glu.nextl && in_Glu.nextl <= LC);
  for (c = 0; c < M; c++) __CPROVER_assume(0 <= in_xa_begin[c] && in_xa_begin[c] <= in_xa_end[c] && in_xa_end[c] <= NNZ && in_xa_end[c] - in_xa_begin[c] <= COLLEN);
  for (p = 0; p < NNZ; p++) __CPROVER_assume(0 <= in_asub[p] && in_asub[p] < M);
  /* marker[] carries numbers of columns this thread worked on before; kcol is visited here for the first time */
  for (r = 0; r < M; r++) __CPROVER_assume(EMPTY <= in_marker[r] && in_marker[r] < M && in_marker[r] != in_kcol);
  for (c = 0; c < M; c++) { g_marker0[c] = in_marker[c]; g_xlsub0[c] = in_xlsub[c]; g_xlsub_end0[c] = in_xlsub_end[c]; g_xprune0[c] = in_xprune[c]; g_supno0[c] = in_supno[c]; }
  for (c = 0; c <= M; c++) { g_xsup0[c] = in_xsup[c]; g_xsup_end0[c] = in_xsup_end[c]; }
  for (p = 0; p < LC; p++) g_lsub0[p] = in_lsub[p];
  g_nsuper0 = in_Glu.nsuper; g_nextl0 = in_Glu.nextl; g_alloc_calls = 0; g_newsup_calls = 0; g_argbad = 0;

  g_ret = p@p@gstrf_snode_dfs(in_pnum, in_jcol, in_kcol, in_asub, in_xa_begin, in_xa_end, in_xprune, in_marker, in_col_lsub, &in_sh);

  /* ---------- results (pointwise: g_p, g_q positions of lsub, g_r a row, g_c a column / supernode number) ---------- */
  g_p = nondet_int_t(); g_q = nondet_int_t(); g_r = nondet_int_t(); g_c = nondet_int_t();
  __CPROVER_assume(0 <= g_p && g_p < LC && 0 <= g_q && g_q < LC && 0 <= g_r && g_r < M && 0 <= g_c && g_c <= M);
  news = g_nsuper0 + 1;
  __CPROVER_assert(g_argbad == 0, "callees get the documented arguments");
  __CPROVER_assert(g_ret == 0 || (in_alloc_fails && g_ret == in_memerr), "return value: 0, or the allocator's error code");
  __CPROVER_assert(g_newsup_calls == 1 && in_Glu.nsuper == news, "one fresh supernode number taken");
  __CPROVER_assert(in_xsup[news] == in_jcol && in_xsup_end[news] == in_kcol + 1, "xsup / xsup_end of the new supernode delimit [jcol, kcol]");
  if (g_c < M) __CPROVER_assert(in_supno[g_c] == ((in_jcol <= g_c && g_c <= in_kcol) ? news : g_supno0[g_c]), "supno: the supernode's columns get the new number, others kept");
  if (g_c != news) __CPROVER_assert(in_xsup[g_c] == g_xsup0[g_c] && in_xsup_end[g_c] == g_xsup_end0[g_c], "xsup / xsup_end of other supernodes kept");
  if (g_c < M) __CPROVER_assert(in_xprune[g_c] == g_xprune0[g_c], "xprune not written");
  __CPROVER_assert(in_marker[g_r] == g_marker0[g_r] || in_marker[g_r] == in_kcol, "marker: kept or set to kcol");
  __CPROVER_assert(g_alloc_calls == 1 && g_alloc_prev == g_nextl0, "Glu_alloc(LSUB) called once");
  inA = 0;
  for (c = 0; c < M; c++) if (in_jcol <= c && c <= in_kcol) for (p = 0; p < NNZ; p++) if (in_xa_begin[c] <= p && p < in_xa_end[c] && in_asub[p] == g_r) inA = 1;
  __CPROVER_assert((in_marker[g_r] == in_kcol) == inA, "marker[r] == kcol exactly for the rows of A(:, jcol..kcol)");
  if (g_ret == 0) {
    xj = in_xlsub[in_jcol]; xe = in_xlsub_end[in_jcol]; cnt = xe - xj;
    __CPROVER_assert(xj == g_nextl0 && 0 <= cnt && cnt <= M && g_alloc_num == 2 * cnt && in_Glu.nextl == g_nextl0 + 2 * cnt && in_Glu.nextl <= LC, "row list at the old nextl, exactly 2*|rows| subscripts allocated, inside lsub");
    inL = 0;
    for (p = 0; p < LC; p++) if (xj <= p && p < xe && in_lsub[p] == g_r) inL = 1;
    __CPROVER_assert(inL == inA, "row list of the supernode == set of rows of A(:, jcol..kcol)");
    if (xj <= g_p && g_p < xe) {
      __CPROVER_assert(0 <= in_lsub[g_p] && in_lsub[g_p] < M, "stored row index < n");
      if (xj <= g_q && g_q < g_p) __CPROVER_assert(in_lsub[g_q] != in_lsub[g_p], "stored rows distinct");
    }
    if (g_p < xj || g_p >= xe) __CPROVER_assert(in_lsub[g_p] == g_lsub0[g_p], "lsub changed only in the new list");
    if (g_c < M && g_c != in_jcol) __CPROVER_assert(in_xlsub[g_c] == g_xlsub0[g_c] && in_xlsub_end[g_c] == g_xlsub_end0[g_c], "xlsub / xlsub_end of other columns kept");
  } else {
    __CPROVER_assert(in_lsub[g_p] == g_lsub0[g_p] && in_Glu.nextl == g_nextl0, "allocation error: lsub and nextl unchanged");
    if (g_c < M) __CPROVER_assert(in_xlsub[g_c] == g_xlsub0[g_c] && in_xlsub_end[g_c] == g_xlsub_end0[g_c], "allocation error: xlsub / xlsub_end unchanged");
  }
  /* ---------- canaries ---------- */
  __CPROVER_assert(0, "canary: snode_dfs returns");
  if (g_ret != 0) __CPROVER_assert(0, "canary: allocation error returned");
  if (g_ret == 0 && cnt == M && in_kcol > in_jcol) __CPROVER_assert(0, "canary: all rows, several columns");
  if (g_ret == 0 && cnt == 0) __CPROVER_assert(0, "canary: empty supernode structure");
  if (g_ret == 0 && cnt == 1 && in_kcol == in_jcol + 1 && in_xa_end[in_jcol] - in_xa_begin[in_jcol] == 1 && in_xa_end[in_kcol] - in_xa_begin[in_kcol] == 1) __CPROVER_assert(0, "canary: two columns sharing their row");
  if (g_ret == 0 && cnt >= 1 && in_Glu.nextl == LC) __CPROVER_assert(0, "canary: L subscript storage exactly filled");
  if (g_nsuper0 == -1) __CPROVER_assert(0, "canary: first supernode of the factorization");
}
