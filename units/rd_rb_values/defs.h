/* same vocabulary as the Harwell-Boeing twin */
#include "../rd_values/defs.h"
