#include "slu_mt_@p@defs.h"
int_t g_lsub0[LC]; @T@ g_lu0[LUC]; int_t g_m, g_k, g_d, g_r, g_c, g_q;
int_t g_ret;
void h_pivotL(void) {
  int_t pnum, jcol; @R@ u; yes_no_t *usepr; int_t *perm_r, *inv_perm_r, *inv_perm_c, *pivrow; GlobalLU_t *Glu; Gstat_t *Gstat;
  g_ret = p@p@gstrf_pivotL(pnum, jcol, u, usepr, perm_r, inv_perm_r, inv_perm_c, pivrow, Glu, Gstat);
  __CPROVER_assert(0, "canary: pivotL returns");
  if (g_ret == 0) __CPROVER_assert(0, "canary: nonsingular step reachable");
  if (g_ret != 0) __CPROVER_assert(0, "canary: singular step reachable");
}
