/* vocabulary for the Fortran edit-descriptor parsers ?ParseIntFormat / ?ParseFloatFormat.
 * The field is the FW-character array in_buf (NOT NUL-terminated: dreadhb/dreadrb fill it with fscanf("%16c")).
 * Ghost positions (universally chosen) say where the tokens of the descriptor sit; the expected values g_n, g_w are
 * therefore known without parsing. */
#define B(k) in_buf[k]
#define BLANKS(q,a,b) FA(q, FW, ((a) <= q && q < (b)) ==> B(q) == ' ')
/* a decimal number of 1 or 2 digits at position p (leading zero allowed) */
#define NUMAT(p,len,v) (0 <= (v) && (v) <= 99 && (((len) == 1 && (v) <= 9 && B(p) == '0' + (v)) || ((len) == 2 && B(p) == '0' + (v) / 10 && B((p) + 1) == '0' + (v) % 10)))
#define INRANGE(p) (0 <= (p) && (p) < FW)
