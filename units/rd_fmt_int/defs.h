/* vocabulary for the Fortran edit-descriptor parser ?ParseIntFormat.
 * The field is FW = 16 characters and NOT NUL-terminated (dreadhb/dreadrb fill it with fscanf("%16c")).
 * Ghost positions (universally chosen) say where the tokens sit:  [bl] ( [bl] n [bl] I|i [bl] w [bl] )  anything
 * so the expected values g_n, g_w are known without parsing.
 * RB=1: the function is the static copy in ?readrb.c, reached through ?readrb; the field then lives in that routine's buf[100]. */
#if RB
#define B(k) buf[k]
#define NUM (*num)
#define SIZE (*size)
#else
#define B(k) in_buf[k]
#define NUM in_num
#define SIZE in_size
#endif
#define BLANKS(q,a,b) FA(q, FW, ((a) <= q && q < (b)) ==> B(q) == ' ')
/* a decimal number of 1 or 2 digits at position p (leading zero allowed) */
#define NUMAT(p,len,v) (0 <= (v) && (v) <= 99 && (((len) == 1 && (v) <= 9 && B(p) == '0' + (v)) || ((len) == 2 && B(p) == '0' + (v) / 10 && B((p) + 1) == '0' + (v) % 10)))
#define INRANGE(p) (0 <= (p) && (p) < FW)
