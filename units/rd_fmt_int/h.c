#include "slu_mt_@p@defs.h"
/* the FW-character field exactly as fscanf("%16c") leaves it: no terminator, so any read past the field is a bounds violation */
char in_buf[FW]; int_t in_num, in_size;
/* ghosts: expected values and token positions */
int_t g_n, g_w, g_po, g_pn, g_ln, g_pi, g_pw, g_lw, g_pc, g_ret; char g_buf0[FW];
#if RB
void @p@readrb(int_t *, int_t *, int_t *, @T@ **, int_t **, int_t **);
int_t in_nrow, in_ncol, in_nonz; @T@ *in_nzval; int_t *in_rowind, *in_colptr; extern int g_fields_delivered, g_fgets_calls;
#else
int_t @p@ParseIntFormat(char *, int_t *, int_t *);
#endif
static void canaries(void) {
  __CPROVER_assert(0, "canary: parser returns");
  if (g_po > 0 && g_pn > g_po + 1 && g_pi > g_pn + g_ln && g_pw > g_pi + 1 && g_pc > g_pw + g_lw) __CPROVER_assert(0, "canary: blanks at every legal place");
  if (g_pc == FW - 1 && g_po == 0) __CPROVER_assert(0, "canary: descriptor fills the field");
  if (g_n == 99 && g_w == 99) __CPROVER_assert(0, "canary: two-digit values");
  if (g_buf0[g_pi] == 'i') __CPROVER_assert(0, "canary: lower case");
  if (g_n == 16 && g_w == 5 && g_po == 0 && g_pc == 5) __CPROVER_assert(0, "canary: (16I5)");
}
#if RB
void rb_canaries(void) { canaries(); }
#endif
void h_fmt(void) {
#if RB
  g_fields_delivered = 0; g_fgets_calls = 0;
  @p@readrb(&in_nrow, &in_ncol, &in_nonz, &in_nzval, &in_rowind, &in_colptr);
#else
  g_ret = @p@ParseIntFormat(in_buf, &in_num, &in_size);
#endif
  canaries();
}
