/* vocabulary for ?laqgs.  Harness objects: in_A -> in_Astore -> in_colptr[CAP+1], in_rowind[NZ], in_val[NZ]; scale factors in_r[CAP],
 * in_c[CAP]; scalars in_rowcnd, in_colcnd, in_amax; output in_equed.  Ghosts: g_v0[] pre-state copy of the values, g_k a stored
 * position, g_j the column that holds it. */
#define NR in_A.nrow
#define NC in_A.ncol
#define CP(j) in_colptr[j]
#define RI(k) in_rowind[k]
#define AV(k) in_val[k]
#define V0(k) g_v0[k]
#define INR(k) (CP(0) <= (k) && (k) < CP(NC))
#define INCOL(k,j) (CP(j) <= (k) && (k) < CP((j)+1))
#if PREC_IS_d
#define FMAX 1.7976931348623157e308
#else
#define FMAX 3.40282346638528859812e38f
#endif
#define FINITE(x) (ABSV(x) <= FMAX)
/* the two magnitude thresholds exactly as the routine forms them from ?lamch_ */
#define SMALLV ((@R@)((double)@sfmin@ / ((double)@eps@ * 2)))
#define LARGEV ((@R@)(1. / SMALLV))
#define THRESHV (0.1)
/* documented rule (header comment): row scaling iff ROWCND < THRESH or AMAX outside [SMALL, LARGE]; column scaling iff COLCND < THRESH */
#define ROWSC (in_rowcnd < THRESHV || in_amax < SMALLV || in_amax > LARGEV)
#define COLSC (in_colcnd < THRESHV)
#define NONEMPTY (NR > 0 && NC > 0)
