#include "slu_mt_@p@defs.h"
/* ghosts: pre-state copy of the values, an arbitrary stored position and its column */
@T@ g_v0[NZ]; int_t g_k, g_j;
/* inputs */
SuperMatrix in_A; NCformat in_Astore; int_t in_colptr[CAP+1], in_rowind[NZ]; @T@ in_val[NZ];
@R@ in_r[CAP], in_c[CAP], in_rowcnd, in_colcnd, in_amax; equed_t in_equed;
void h_laqgs(void) {
  in_A.Store = &in_Astore; in_Astore.nzval = in_val; in_Astore.rowind = in_rowind; in_Astore.colptr = in_colptr;
  @p@laqgs(&in_A, in_r, in_c, in_rowcnd, in_colcnd, in_amax, &in_equed);
  __CPROVER_assert(0, "canary: laqgs returns");
  if (in_A.nrow > 1 && in_A.ncol > 1) {
    if (in_equed == NOEQUIL) __CPROVER_assert(0, "canary: NOEQUIL reachable");
    if (in_equed == ROW) __CPROVER_assert(0, "canary: ROW reachable");
    if (in_equed == COL) __CPROVER_assert(0, "canary: COL reachable");
    if (in_equed == BOTH) __CPROVER_assert(0, "canary: BOTH reachable");
    if (in_equed == ROW && in_rowcnd >= 0.1) __CPROVER_assert(0, "canary: ROW because of amax reachable");
  }
}
