#include "slu_mt_@p@defs.h"
/* ghosts: pre-state of B's arrays */
@T@ g_bval0[NZ]; int_t g_browind0[NZ], g_bcolptr0[CAP+1];
/* inputs */
SuperMatrix in_A, in_B; NCformat in_Astore, in_Bstore;
int_t in_acolptr[CAP+1], in_arowind[NZ], in_bcolptr[CAP+1], in_browind[NZ]; @T@ in_aval[NZ], in_bval[NZ];
void h_copy(void) {
  in_A.Store = &in_Astore; in_Astore.nzval = in_aval; in_Astore.rowind = in_arowind; in_Astore.colptr = in_acolptr;
  in_B.Store = &in_Bstore; in_Bstore.nzval = in_bval; in_Bstore.rowind = in_browind; in_Bstore.colptr = in_bcolptr;
  @p@Copy_CompCol_Matrix(&in_A, &in_B);
  __CPROVER_assert(0, "canary: Copy_CompCol_Matrix returns");
  if (in_Astore.nnz == NZ && in_A.ncol == CAP) __CPROVER_assert(0, "canary: full capacity reachable");
  if (in_Astore.nnz == 0 && in_A.ncol == 0) __CPROVER_assert(0, "canary: empty matrix reachable");
}
