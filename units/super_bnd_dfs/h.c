#include "slu_mt_ddefs.h"
/* BOUNDED oracle unit (label B(n)): the real pxgstrf_super_bnd_dfs is executed symbolically (loops unwound, no contract) on the H-supernode
 * [jcol, jcol+w) of an m x m problem, m == n == CAP fixed, so every work array has exactly its allocated size (marker m, parent m,
 * xplore 2m: pmemory.c pxgstrf_SetIWork; xsup n+1, xsup_end n, supno n+1, xlsub n+1, xlsub_end n: p?memory.c; xprune, ispruned, inv_perm_r n:
 * p?gstrf_thread_init.c) and an overrun is an out-of-bounds access.
 *
 * Checked: (a) memory safety of the real code (cbmc --bounds-check --pointer-check --signed-overflow-check);
 *  (b) the number handed to DynamicSetMap(pnum, jcol, num, shared) -- the only place the result goes: it becomes the LUSUP extent
 *      [map_in_sup[jcol], +num) reserved for the H-supernode -- is EXACTLY  w * (brute-force row count), where the brute-force count is
 *      the number of distinct unpivoted rows that occur in A(:, jcol..jcol+w-1) or are reachable from a pivoted entry of those columns
 *      through the (pruned) L structure, computed below by a fixpoint iteration that shares no code with the routine;
 *  (c) marker[] changes only to the value n + jcol, exactly at the counted rows and at the pivot rows of the explored representatives;
 *      perm_r, iperm_r, xprune, ispruned and the L structure are not written. */
#define M CAP
int_t nondet_int_t(void);
/* inputs */
int_t in_pnum, in_jcol, in_w;
int_t in_asub[NZ], in_colbeg[M], in_colend[M];
int_t in_perm_r[M], in_iperm_r[M], in_xprune[M], in_ispruned[M], in_marker[M], in_parent[M], in_xplore[2 * M];
int_t in_xsup[M + 1], in_xsup_end[M], in_supno[M + 1], in_lsub[LC], in_xlsub[M + 1], in_xlsub_end[M];
SuperMatrix in_A; NCPformat in_Astore; pxgstrf_shared_t in_sh; GlobalLU_t in_Glu;
/* ghosts */
int_t g_num, g_marker0[M], g_perm0[M], g_iperm0[M], g_xprune0[M], g_ispruned0[M], g_lsub0[LC], g_r, g_p, g_cnt;
int g_calls, g_argbad, g_rs[M], g_cs[M];

/* callee: DynamicSetMap (SRC/pmemory.c; real routine proved in unit dynamic_setmap) reserves num entries of LUSUP for the H-supernode
 * that starts at jcol.  Here: record the request. */
int_t DynamicSetMap(const int_t pnum, const int_t jcol, const int_t num, pxgstrf_shared_t *sh) {
  g_calls++; g_num = num;
  if (pnum != in_pnum || jcol != in_jcol || sh != &in_sh) g_argbad = 1;
  return 0;
}

/* scan range of the search at supernode representative k, from the data structure's definition:
 * pruned -> [copy start of a one-column supernode | own list start, xprune[k]);  not pruned -> rows of the supernode below column k */
static int_t scan_lo(int_t k) {
  int_t s = in_supno[k], fs = in_xsup[s];
  if (in_ispruned[k]) return (in_xsup_end[s] - in_xsup[s] == 1) ? in_xlsub_end[k] : in_xlsub[k];
  return in_xlsub[fs] + k - fs + 1;
}
static int_t scan_hi(int_t k) {
  int_t s = in_supno[k], fs = in_xsup[s];
  return in_ispruned[k] ? in_xprune[k] : in_xlsub_end[fs];
}

void h_super_bnd_dfs(void) {
  int_t c, q, r, p, s, k, jj, lo, hi, round, npiv;
  /* ---------- inputs (no contract is enforced in a bounded unit: make them nondeterministic here) ---------- */
  in_pnum = nondet_int_t(); in_jcol = nondet_int_t(); in_w = nondet_int_t();
  for (c = 0; c < M; c++) {
    in_colbeg[c] = nondet_int_t(); in_colend[c] = nondet_int_t(); in_perm_r[c] = nondet_int_t(); in_iperm_r[c] = nondet_int_t();
    in_xprune[c] = nondet_int_t(); in_ispruned[c] = nondet_int_t(); in_marker[c] = nondet_int_t(); in_parent[c] = nondet_int_t();
    in_xplore[c] = nondet_int_t(); in_xplore[M + c] = nondet_int_t(); in_xsup_end[c] = nondet_int_t(); in_xlsub_end[c] = nondet_int_t();
  }
  for (c = 0; c <= M; c++) { in_xsup[c] = nondet_int_t(); in_supno[c] = nondet_int_t(); in_xlsub[c] = nondet_int_t(); }
  for (p = 0; p < NZ; p++) in_asub[p] = nondet_int_t();
  for (p = 0; p < LC; p++) in_lsub[p] = nondet_int_t();
  in_A.Store = &in_Astore; in_A.nrow = M; in_A.ncol = M; in_Astore.rowind = in_asub; in_Astore.colbeg = in_colbeg; in_Astore.colend = in_colend;
  in_sh.Glu = &in_Glu;
  in_Glu.xsup = in_xsup; in_Glu.xsup_end = in_xsup_end; in_Glu.supno = in_supno; in_Glu.lsub = in_lsub; in_Glu.xlsub = in_xlsub; in_Glu.xlsub_end = in_xlsub_end;

  /* ---------- well-formed pre-state ---------- */
  __CPROVER_assume(JLO <= in_jcol && in_jcol <= JHI && WMIN <= in_w && in_w <= WMAX && in_jcol + in_w <= M);
  /* the columns of the H-supernode in A: extents inside rowind, at most ACOL entries each (bound of this unit), rows < m */
  for (c = 0; c < M; c++) if (in_jcol <= c && c < in_jcol + in_w)
    __CPROVER_assume(0 <= in_colbeg[c] && in_colbeg[c] <= in_colend[c] && in_colend[c] <= NZ && in_colend[c] - in_colbeg[c] <= ACOL);
  for (p = 0; p < NZ; p++) __CPROVER_assume(0 <= in_asub[p] && in_asub[p] < M);
  /* pivots: every column before jcol is finished and has its pivot row; perm_r / iperm_r are inverse to each other on them,
   * every other row is unpivoted (sequential view; in the pipelined run only the e-tree descendants of jcol are visited, and
   * p?gstrf_panel_bmod has waited for them) */
  for (c = 0; c < M; c++) if (c < in_jcol) __CPROVER_assume(0 <= in_iperm_r[c] && in_iperm_r[c] < M && in_perm_r[in_iperm_r[c]] == c);
  for (r = 0; r < M; r++) __CPROVER_assume(in_perm_r[r] == EMPTY || (0 <= in_perm_r[r] && in_perm_r[r] < in_jcol && in_iperm_r[in_perm_r[r]] == r));
  /* marker[m..2m-1] of p?gstrf_thread holds panel columns (< n) or n + an earlier H-supernode start: never n + jcol */
  for (r = 0; r < M; r++) __CPROVER_assume(EMPTY <= in_marker[r] && in_marker[r] < 2 * M && in_marker[r] != M + in_jcol);
  /* finished columns: supernode maps consistent */
  for (c = 0; c < M; c++) if (c < in_jcol) {
    __CPROVER_assume(0 <= in_supno[c] && in_supno[c] < M);
    s = in_supno[c];
    __CPROVER_assume(0 <= in_xsup[s] && in_xsup[s] <= c && c < in_xsup_end[s] && in_xsup_end[s] <= in_jcol);
    for (q = 0; q < M; q++) if (in_xsup[s] <= q && q < in_xsup_end[s]) __CPROVER_assume(in_supno[q] == s);
  }
  /* what is scanned at a representative lies in lsub, is short (RL: bound of this unit) and holds rows */
  for (k = 0; k < M; k++) if (k < in_jcol && in_xsup_end[in_supno[k]] - 1 == k) {
    __CPROVER_assume(0 <= in_xlsub[k] && in_xlsub[k] <= LC && 0 <= in_xlsub_end[k] && in_xlsub_end[k] <= LC && 0 <= in_xprune[k] && in_xprune[k] <= LC);
    __CPROVER_assume(0 <= in_xlsub[in_xsup[in_supno[k]]] && in_xlsub[in_xsup[in_supno[k]]] <= LC && 0 <= in_xlsub_end[in_xsup[in_supno[k]]] && in_xlsub_end[in_xsup[in_supno[k]]] <= LC);
    lo = scan_lo(k); hi = scan_hi(k);
    __CPROVER_assume(0 <= lo && lo <= LC && hi <= LC && hi - lo <= RL);
    for (p = 0; p < LC; p++) if (lo <= p && p < hi) __CPROVER_assume(0 <= in_lsub[p] && in_lsub[p] < M);
  }

  /* ---------- ghost copies ---------- */
  for (r = 0; r < M; r++) { g_marker0[r] = in_marker[r]; g_perm0[r] = in_perm_r[r]; g_iperm0[r] = in_iperm_r[r]; g_xprune0[r] = in_xprune[r]; g_ispruned0[r] = in_ispruned[r]; }
  for (p = 0; p < LC; p++) g_lsub0[p] = in_lsub[p];
  g_calls = 0; g_argbad = 0; g_num = -1;

  pxgstrf_super_bnd_dfs(in_pnum, M, M, in_jcol, in_w, &in_A, in_perm_r, in_iperm_r, in_xprune, in_ispruned, in_marker, in_parent, in_xplore, &in_sh);

  /* ---------- oracle: least fixpoint of "row seen" / "representative seen" ---------- */
  for (r = 0; r < M; r++) { g_rs[r] = 0; g_cs[r] = 0; }
  for (jj = 0; jj < M; jj++) if (in_jcol <= jj && jj < in_jcol + in_w)
    for (p = 0; p < NZ; p++) if (in_colbeg[jj] <= p && p < in_colend[jj]) g_rs[in_asub[p]] = 1;
  for (round = 0; round < M; round++) {          /* each round follows one more level; there are fewer than m representatives */
    for (r = 0; r < M; r++) if (g_rs[r] && g_perm0[r] != EMPTY) g_cs[in_xsup_end[in_supno[g_perm0[r]]] - 1] = 1;
    for (c = 0; c < M; c++) if (g_cs[c]) {
      lo = scan_lo(c); hi = scan_hi(c);
      for (p = 0; p < LC; p++) if (lo <= p && p < hi) g_rs[g_lsub0[p]] = 1;
    }
  }
  g_cnt = 0; npiv = 0;
  for (r = 0; r < M; r++) { if (g_rs[r] && g_perm0[r] == EMPTY) g_cnt++; if (g_perm0[r] != EMPTY && g_perm0[r] != r) npiv++; }

  /* ---------- results ---------- */
  __CPROVER_assert(g_calls == 1 && !g_argbad, "one reservation, for this H-supernode");
  __CPROVER_assert(g_num >= g_cnt * in_w, "row bound not smaller than brute-force count (no under-allocation)");
  __CPROVER_assert(g_num == g_cnt * in_w, "row bound equals brute-force count times w");
  g_r = nondet_int_t(); g_p = nondet_int_t(); __CPROVER_assume(0 <= g_r && g_r < M && 0 <= g_p && g_p < LC);
  __CPROVER_assert(in_marker[g_r] == g_marker0[g_r] || in_marker[g_r] == M + in_jcol, "marker changes only to n + jcol");
  __CPROVER_assert((in_marker[g_r] == M + in_jcol) == ((g_rs[g_r] && g_perm0[g_r] == EMPTY) || (g_perm0[g_r] != EMPTY && g_cs[in_xsup_end[in_supno[g_perm0[g_r]]] - 1] && in_xsup_end[in_supno[g_perm0[g_r]]] - 1 == g_perm0[g_r])), "marked rows: the counted rows and the pivot rows of the explored representatives");
  __CPROVER_assert(in_perm_r[g_r] == g_perm0[g_r] && in_iperm_r[g_r] == g_iperm0[g_r] && in_xprune[g_r] == g_xprune0[g_r] && in_ispruned[g_r] == g_ispruned0[g_r] && in_lsub[g_p] == g_lsub0[g_p], "inputs not written");

  __CPROVER_assert(0, "canary: super_bnd_dfs returns");
  if (npiv > 0 && g_cnt >= 1 && g_num > 0) __CPROVER_assert(0, "canary: off-diagonal pivoting, rows counted");
#if JHI >= 2
  if (g_cs[0] && g_cs[1] && g_cnt >= 1) __CPROVER_assert(0, "canary: two representatives explored");
#endif
  if (in_jcol >= 1 && g_cs[in_jcol - 1] && in_ispruned[in_jcol - 1] && g_cnt >= 1) __CPROVER_assert(0, "canary: pruned representative explored");
#if WMAX >= 2
  if (in_w >= 2 && g_cnt >= 2) __CPROVER_assert(0, "canary: H-supernode of two columns");
#endif
}
