#include "slu_mt_@p@defs.h"
#include "work_sizes.h"
extern int_t p@p@gstrf_WorkInit(int_t, int_t, int_t **, @T@ **);
/* ghosts: pre-state of the file-static user stack, misalignment of the caller's buffer */
int_t g_size0, g_used0, g_top10, g_top20, g_skew, g_isz, g_dsz, g_users0;
/* inputs */
int_t in_n, in_w, in_maxsuper, in_rowblk; int_t *in_iworkptr; @T@ *in_dworkptr; char in_work[WCAP];
int_t sp_ienv(int_t ispec) { int_t r; if (ispec == 3) return in_maxsuper; if (ispec == 4) return in_rowblk; return r; }
int_t g_ret;
void h_work_init_user(void) {
  g_ret = p@p@gstrf_WorkInit(in_n, in_w, &in_iworkptr, &in_dworkptr);
  __CPROVER_assert(0, "canary: WorkInit (user workspace) returns");
  if (g_ret == 0) {
    __CPROVER_assert(0, "canary: success reachable");
    /* both blocks are usable memory of the caller's buffer */
    in_iworkptr[0] = 0; in_iworkptr[ISIZE_INTS(in_n, in_w) - 1] = 0;
    in_dworkptr[DSIZE_REALS(in_n, in_w, in_maxsuper, in_rowblk) - 1] = in_dworkptr[0];
    if (((g_top20 + g_skew) & 7) != 0) __CPROVER_assert(0, "canary: block not aligned, pointer aligned inside it");
  }
  if (g_ret != 0) __CPROVER_assert(0, "canary: the blocks do not fit");
  if (g_ret == 0 && g_users0 == 2) __CPROVER_assert(0, "canary: third holder of TAIL blocks");
}
