/* WF_USTACK: well-formedness of the two-ended user stack (file-static `stack` of p?memory.c) */
#define WF_USTACK (0 <= stack.top1 && stack.top1 <= stack.top2 && stack.top2 <= stack.size && stack.used == stack.top1 + (stack.size - stack.top2))
#define GHOST_STACK (g_size0 == stack.size && g_used0 == stack.used && g_top10 == stack.top1 && g_top20 == stack.top2)
#define INTMAX 2147483647
/* offset of the dwork pointer handed out, relative to the start of the user stack */
#define DOFF ((char*)in_dworkptr - (in_work + g_skew))
