/* vocabulary for p?gstrf_panel_bmod (sup-panel updates of the w columns jcol..jcol+w-1 by every supernode segment in segrep[], then
 * by the "busy" supernodes on the etree path bcol -> jcol that other threads are still finishing).
 * Capacities: M rows = columns (stride of the m-by-w work arrays), W panel width, LC row subscripts, LUC stored values, TVC scalars of
 * tempv, NP threads.  Segment q (0 <= q < nseg0, processing order = reverse of segrep[]): representative KREP(q), supernode
 * KF(q)..KREP(q). */
#define KREP(q)  in_segrep[in_nseg0 - 1 - (q)]
#define SUPF(c)  in_xsup[in_supno[c]]
#define KF(q)    SUPF(KREP(q))
#define NSUPC(q) (KREP(q) - KF(q) + 1)
#define NSUPR_AT(f) (in_xlsub_end[f] - in_xlsub[f])
#define NSUPR(q) NSUPR_AT(KF(q))
#define NROW(q)  (NSUPR(q) - NSUPC(q))
/* kernel selection rule of panel_bmod: 2-D blocking iff the supernode has at least colblk columns and rowblk rows below them */
#define WANT2D(nsupc,nrow) ((nsupc) >= in_colblk && (nrow) >= in_rowblk)
#define INLIST_AT(f,p) (in_xlsub[f] <= (p) && (p) < in_xlsub_end[f])
/* busy range: columns bcol..jcol-1 (other threads are finishing them); SLAST(c) = current last column of c's supernode */
#define BUSY(c)  (in_bcol <= (c) && (c) < in_jcol)
#define SLAST(c) (in_xsup_end[in_supno[c]] - 1)
#define ISFIRST(c) (in_xsup[in_supno[c]] == (c))
/* element (row x) of panel column c (0 <= c < w) of the m-by-w work arrays */
#define RF(c,x)  in_repfnz[(c)*in_m + (x)]
#define MKR(c,x) in_spa_marker[(c)*in_m + (x)]
#define PLS(c,x) in_panel_lsub[(c)*in_m + (x)]
#define DN(c,x)  in_dense[(c)*in_m + (x)]
/* repfnz entry of row b (a column of a supernode): EMPTY or a column of b's supernode not after b */
#define REPWF(c,b) (RF(c,b) == EMPTY || (SUPF(b) <= RF(c,b) && RF(c,b) <= (b)))
/* number of rows of panel column c that carry its marker jcol+c (= number of entries its panel_lsub list holds) */
#define MK1(c,r) (((r) < M && (r) < in_m && in_spa_marker[((r) < M && (r) < in_m) ? (c)*in_m + (r) : 0] == in_jcol + (c)) ? 1 : 0)
#define CNT(c) (MK1(c,0) + MK1(c,1) + MK1(c,2) + MK1(c,3) + MK1(c,4) + MK1(c,5) + MK1(c,6) + MK1(c,7))
/* the U-segment of the busy supernode f.. in panel column c: zero in the pivot rows of columns f..v-1 */
#define ZEROS_BEFORE(z,c,f,v) FA(z, M, ((f) <= z && z < (v)) ==> DN(c, in_inv_perm_r[z]) == 0.0)
/* definition of repfnz_col[krep] after the busy phase looked at supernode f..k: the first column of f..k whose pivot row holds a nonzero
 * of dense_col, else the old value `old` */
#define LEADDEF(za,zb,c,f,k,old) ((RF(c,k) == (old) && ZEROS_BEFORE(za, c, f, (k) + 1)) || \
  ((f) <= RF(c,k) && RF(c,k) <= (k) && DN(c, in_inv_perm_r[RF(c,k)]) != 0.0 && ZEROS_BEFORE(zb, c, f, RF(c,k))))
/* the kernel call recorded for the ghost segment g_s is the one the segment defines (g_sd_* = descriptor taken from the pre-state) */
#define RECORD_OK (g_k.krep_s == g_sd_krep && g_k.fsupc_s == g_sd_kf && g_k.nsupc_s == g_sd_krep - g_sd_kf + 1 && g_k.nsupr_s == g_sd_nsupr && \
  g_k.nrow_s == g_sd_nsupr - (g_sd_krep - g_sd_kf + 1) && g_k.kind_s == (WANT2D(g_sd_krep - g_sd_kf + 1, g_sd_nsupr - (g_sd_krep - g_sd_kf + 1)) ? 2 : 1))
/* length of panel column c's list while loop 6 appends to column jj - jcol (its end is still in the local j) */
#define CUR_END(c) ((c) == jj - jcol ? j : in_w_lsub_end[c])
#define NEW_ENTRY_OK(end) ((g_wend0 <= g_x && g_x < (end)) ==> (0 <= PLS(g_c, g_x) && PLS(g_c, g_x) < in_m && MKR(g_c, PLS(g_c, g_x)) == in_jcol + g_c))
#ifndef SPEC_EXPAND
struct kern_rec { int calls, calls1d, calls2d, awaits, kind_s; int_t fsupc_s, krep_s, nsupc_s, nsupr_s, nrow_s; };
#endif
