/* vocabulary for p?gstrf_panel_bmod (sup-panel updates of the w columns jcol..jcol+w-1 by every supernode segment in segrep[], then
 * by the "busy" supernodes on the etree path bcol -> jcol that other threads are still finishing).
 * Capacities: M rows = columns (stride of the m-by-w work arrays), W panel width, LC row subscripts, LUC stored values, TVC scalars of
 * tempv, NP threads.  Segment q (0 <= q < nseg0, processing order = reverse of segrep[]): representative KREP(q), supernode
 * KF(q)..KREP(q). */
#define KREP(q)  in_segrep[in_nseg0 - 1 - (q)]
#define SUPF(c)  in_xsup[in_supno[c]]
#define KF(q)    SUPF(KREP(q))
#define NSUPC(q) (KREP(q) - KF(q) + 1)
#define NSUPR_AT(f) (in_xlsub_end[f] - in_xlsub[f])
#define NSUPR(q) NSUPR_AT(KF(q))
#define NROW(q)  (NSUPR(q) - NSUPC(q))
/* kernel selection rule of panel_bmod: 2-D blocking iff the supernode has at least colblk columns and rowblk rows below them */
#define WANT2D(nsupc,nrow) ((nsupc) >= in_colblk && (nrow) >= in_rowblk)
#define INLIST_AT(f,p) (in_xlsub[f] <= (p) && (p) < in_xlsub_end[f])
/* busy range: columns bcol..jcol-1 (other threads are finishing them); SLAST(c) = current last column of c's supernode */
#define BUSY(c)  (in_bcol <= (c) && (c) < in_jcol)
#define SLAST(c) (in_xsup_end[in_supno[c]] - 1)
#define ISFIRST(c) (in_xsup[in_supno[c]] == (c))
/* element (row x) of panel column c (0 <= c < w) of the m-by-w work arrays; column offset c*m without a symbolic product (W <= 4) */
#define COLOFF(c) ((c) == 0 ? 0 : (c) == 1 ? in_m : (c) == 2 ? 2*in_m : 3*in_m)
#define RF(c,x)  in_repfnz[COLOFF(c) + (x)]
#define MKR(c,x) in_spa_marker[COLOFF(c) + (x)]
#define PLS(c,x) in_panel_lsub[COLOFF(c) + (x)]
#define DN(c,x)  in_dense[COLOFF(c) + (x)]
/* repfnz entry of row b (a column of a supernode): EMPTY or a column of b's supernode not after b */
#define REPWF(c,b) (RF(c,b) == EMPTY || (SUPF(b) <= RF(c,b) && RF(c,b) <= (b)))
/* number of rows of panel column c that carry its marker jcol+c (= number of entries its panel_lsub list holds) */
#define MK1(c,r) (((r) < M && (r) < in_m && in_spa_marker[((r) < M && (r) < in_m) ? COLOFF(c) + (r) : 0] == in_jcol + (c)) ? 1 : 0)
#define CNT(c) (MK1(c,0) + MK1(c,1) + MK1(c,2) + MK1(c,3) + MK1(c,4) + MK1(c,5) + MK1(c,6) + MK1(c,7))
/* the U-segment of the busy supernode f.. in panel column c: zero in the pivot rows of columns f..v-1 */
#define ZEROS_BEFORE(z,c,f,v) FA(z, M, ((f) <= z && z < (v)) ==> DN(c, in_inv_perm_r[z]) == 0.0)
/* definition of repfnz_col[krep] after the busy phase looked at supernode f..k: the first column of f..k whose pivot row holds a nonzero
 * of dense_col, else the old value `old` */
#define LEADDEF(za,zb,c,f,k,old) ((RF(c,k) == (old) && ZEROS_BEFORE(za, c, f, (k) + 1)) || \
  ((f) <= RF(c,k) && RF(c,k) <= (k) && DN(c, in_inv_perm_r[RF(c,k)]) != 0.0 && ZEROS_BEFORE(zb, c, f, RF(c,k))))
/* the kernel call recorded for the ghost segment g_s is the one the segment defines (g_sd_* = descriptor taken from the pre-state) */
#define RECORD_OK (g_k.krep_s == g_sd_krep && g_k.fsupc_s == g_sd_kf && g_k.nsupc_s == g_sd_krep - g_sd_kf + 1 && g_k.nsupr_s == g_sd_nsupr && \
  g_k.nrow_s == g_sd_nsupr - (g_sd_krep - g_sd_kf + 1) && g_k.kind_s == (WANT2D(g_sd_krep - g_sd_kf + 1, g_sd_nsupr - (g_sd_krep - g_sd_kf + 1)) ? 2 : 1))
/* length of panel column c's list while loop 6 appends to column jj - jcol (its end is still in the local j) */
#define CUR_END(c) ((c) == jj - jcol ? j : in_w_lsub_end[c])
#define NEW_ENTRY_OK(end) ((g_wend0 <= g_x && g_x < (end)) ==> (0 <= PLS(g_c, g_x) && PLS(g_c, g_x) < in_m && MKR(g_c, PLS(g_c, g_x)) == in_jcol + g_c))
/* ---- the contract, clause by clause (REQ_* = requires, ENS_* = ensures): used by the spec of the inductive unit panel_bmod_pc and by the
 * harness of the bounded unit panel_bmod, so both state the same thing */
#define REQ_args (0 <= in_pnum && in_pnum < NP && 1 <= in_m && in_m <= M && 1 <= in_w && in_w <= W && 0 <= in_jcol && in_jcol <= in_m - in_w && 0 <= in_bcol && in_bcol <= in_m)
#define REQ_segrep_capacity (0 <= in_nseg0 && in_nseg0 <= in_m && (in_bcol < in_jcol ==> in_nseg0 + (in_jcol - in_bcol) <= in_m))
#define REQ_storage (0 <= in_Glu.nzlmax && in_Glu.nzlmax <= LC && 0 <= in_Glu.nzlumax && in_Glu.nzlumax <= LUC)
/* --- the segments found by the panel DFS: finished supernodes before the panel */
#define REQ_segments (FA(q1, M, q1 < in_nseg0 ==> (0 <= KREP(q1) && KREP(q1) < in_jcol && 0 <= in_supno[KREP(q1)] && in_supno[KREP(q1)] < in_m && 0 <= KF(q1) && KF(q1) <= KREP(q1))))
#define REQ_row_lists (FA(q2, M, q2 < in_nseg0 ==> (0 <= in_xlsub[KF(q2)] && in_xlsub[KF(q2)] <= in_xlsub_end[KF(q2)] && in_xlsub_end[KF(q2)] <= in_Glu.nzlmax && NSUPC(q2) <= NSUPR(q2) && NSUPR(q2) <= in_m)))
#define REQ_rows_in_range (FA(p1, LC, 0 <= in_lsub[p1] && in_lsub[p1] < in_m))
#define REQ_rows_distinct (g_s < in_nseg0 ==> FA(p2, LC, FA(p3, LC, (INLIST_AT(g_sd_kf, p2) && p2 < p3 && INLIST_AT(g_sd_kf, p3)) ==> in_lsub[p2] != in_lsub[p3])))
#define REQ_value_blocks (FA(q4, M, q4 < in_nseg0 ==> (0 <= in_xlusup[KF(q4)] && in_xlusup[KF(q4)] <= LUC && NSUPR(q4)*NSUPC(q4) <= in_Glu.nzlumax - in_xlusup[KF(q4)])))
#define REQ_repfnz_wf (FA(q5, M, FA(c1, W, (q5 < in_nseg0 && c1 < in_w) ==> (RF(c1, KREP(q5)) == EMPTY || (KF(q5) <= RF(c1, KREP(q5)) && RF(c1, KREP(q5)) <= KREP(q5))))))
#define REQ_blocking (1 <= in_rowblk && in_rowblk <= TVC && 1 <= in_colblk && 1 <= in_maxsuper && in_maxsuper <= TVC && 0 <= in_tvlen && in_tvlen <= TVC && 2*in_m <= in_tvlen && in_w*(in_maxsuper + in_rowblk) <= in_tvlen && FA(q6, M, q6 < in_nseg0 ==> NSUPC(q6) <= in_maxsuper))
#define REQ_tempv_zero_on_entry (FA(t1, TVC, in_tempv[t1] == 0.0))
/* --- the busy supernodes: every column of bcol..jcol-1 belongs to a supernode lying inside the range */
#define REQ_etree (FA(e1, M, e1 < in_m ==> (e1 < in_etree[e1] && in_etree[e1] <= in_m)))
#define REQ_busy_supernodes (FA(b1, M, BUSY(b1) ==> (0 <= in_supno[b1] && in_supno[b1] < in_m && in_bcol <= in_xsup[in_supno[b1]] && in_xsup[in_supno[b1]] <= b1 && 0 < in_xsup_end[in_supno[b1]] && in_xsup_end[in_supno[b1]] <= in_m && b1 <= SLAST(b1) && SLAST(b1) < in_jcol)))
#define REQ_busy_contiguous (FA(b2, M, FA(b3, M, (BUSY(b2) && in_xsup[in_supno[b2]] <= b3 && b3 <= SLAST(b2)) ==> in_supno[b3] == in_supno[b2])))
/* the climb lands on first columns: bcol starts a supernode, and so does the parent of a busy supernode's last column */
#define REQ_climb_hits_first_columns ((in_bcol < in_jcol ==> ISFIRST(in_bcol)) && FA(b4, M, (BUSY(b4) && in_etree[SLAST(b4)] < in_jcol) ==> ISFIRST(in_etree[SLAST(b4)])))
#define REQ_busy_pivot_rows (FA(b5, M, BUSY(b5) ==> (0 <= in_inv_perm_r[b5] && in_inv_perm_r[b5] < in_m)))
#define REQ_busy_lists (FA(b6, M, BUSY(b6) ==> (0 <= in_xlsub[b6] && in_xlsub[b6] <= in_xlsub_end[b6] && in_xlsub_end[b6] <= in_Glu.nzlmax && (ISFIRST(b6) ==> (SLAST(b6) - b6 + 1 <= NSUPR_AT(b6) && NSUPR_AT(b6) <= in_m && SLAST(b6) - b6 + 1 <= in_maxsuper && 0 <= in_xlusup[b6] && in_xlusup[b6] <= LUC && NSUPR_AT(b6)*(SLAST(b6) - b6 + 1) <= in_Glu.nzlumax - in_xlusup[b6])))))
#define REQ_busy_rows_distinct ((BUSY(g_v) && ISFIRST(g_v)) ==> FA(p4, LC, FA(p5, LC, (INLIST_AT(g_v, p4) && p4 < p5 && INLIST_AT(g_v, p5)) ==> in_lsub[p4] != in_lsub[p5])))
#define REQ_busy_repfnz (FA(b8, M, FA(c2, W, (BUSY(b8) && c2 < in_w) ==> REPWF(c2, b8))))
/* the m-by-w marker / list pair is consistent: panel_lsub[*,c] holds one entry per row that carries column c's marker */
#define REQ_markers (FA(c3, W, c3 < in_w ==> in_w_lsub_end[c3] == CNT(c3)))
/* ghost table: g_onch[c] == 1 iff busy column c lies on the etree chain that starts at the first column of its supernode and stays inside it */
#define REQ_ghost_chain (FA(h1, M, BUSY(h1) ==> ((g_onch[h1] == 0 || g_onch[h1] == 1) && ((g_onch[h1] == 1) == (ISFIRST(h1) || EX(h2, M, BUSY(h2) && h2 < h1 && g_onch[h2] == 1 && in_etree[h2] == h1 && in_supno[h2] == in_supno[h1]))))))
#define REQ_ghosts (0 <= g_s && g_s < M && 0 <= g_v && g_v < M && 0 <= g_t && g_t < TVC && 0 <= g_x && g_x < in_m && 0 <= g_c && g_c < in_w && 0 <= g_q && g_q < in_m)
#define REQ_ghost_segment (g_s < in_nseg0 ==> (g_sd_krep == KREP(g_s) && g_sd_kf == KF(g_s) && g_sd_nsupr == NSUPR(g_s)))
#define REQ_ghost_copy (g_rep0 == RF(g_c, g_x) && g_mark0 == MKR(g_c, g_x) && g_plsub0 == PLS(g_c, g_x) && g_wend0 == in_w_lsub_end[g_c] && g_segrep0 == in_segrep[g_q] && g_spin0 == in_spin[g_x])
#define REQ_ghost_init (g_k.calls == 0 && g_k.calls1d == 0 && g_k.calls2d == 0 && g_k.awaits == 0 && g_k.kind_s == 0 && g_next_busy == in_bcol && FA(i1, M, g_is_busy_krep[i1] == 0))
/* C02: one kernel call per segment of the DFS plus one per busy supernode appended; the ghost segment got the kernel and geometry it defines */
#define ENS_every_segment_updated_once (g_k.calls == in_nseg && g_k.calls1d + g_k.calls2d == g_k.calls && in_nseg >= in_nseg0)
#define ENS_kernel_of_segment (g_s < in_nseg0 ==> RECORD_OK)
#define ENS_no_busy_supernode_nothing_else (in_bcol >= in_jcol ==> (in_nseg == in_nseg0 && g_k.awaits == 0 && RF(g_c, g_x) == g_rep0 && MKR(g_c, g_x) == g_mark0 && PLS(g_c, g_x) == g_plsub0 && in_w_lsub_end[g_c] == g_wend0 && in_spin[g_x] == g_spin0))
#define ENS_climb_complete (in_bcol < in_jcol ==> (in_nseg > in_nseg0 && g_next_busy >= in_jcol))
#define ENS_tempv_zero_on_exit (in_tempv[g_t] == 0.0)
#define ENS_segrep_prefix_kept (g_q < in_nseg0 ==> in_segrep[g_q] == g_segrep0)
#define ENS_segrep_appended ((in_nseg0 <= g_q && g_q < in_nseg) ==> in_segrep[g_q] == g_busy_krep[g_q >= in_nseg0 ? g_q - in_nseg0 : 0])
#define ENS_repfnz_kept_outside_busy_reps (g_is_busy_krep[g_x] == 1 || RF(g_c, g_x) == g_rep0)
#define ENS_markers_consistent (in_w_lsub_end[g_c] == CNT(g_c) && in_w_lsub_end[g_c] >= g_wend0)
#define ENS_marker_only_set (MKR(g_c, g_x) == g_mark0 || MKR(g_c, g_x) == in_jcol + g_c)
#define ENS_list_prefix_kept (g_x < g_wend0 ==> PLS(g_c, g_x) == g_plsub0)
#define ENS_list_new_entries_marked (NEW_ENTRY_OK(in_w_lsub_end[g_c]))
#define ENS_spin_only_cleared (in_spin[g_x] == g_spin0 || in_spin[g_x] == 0)
#ifndef SPEC_EXPAND
struct kern_rec { int calls, calls1d, calls2d, awaits, kind_s; int_t fsupc_s, krep_s, nsupc_s, nsupr_s, nrow_s; };
#endif
