/* vocabulary for p?gstrf_panel_bmod (sup-panel updates of the w columns jcol..jcol+w-1 by every supernode segment in segrep[], then
 * by the "busy" supernodes on the etree path bcol -> jcol that other threads are still finishing).
 * Capacities: M rows = columns (stride of the n-by-w work arrays), W panel width, LC row subscripts, LUC stored values, TVC scalars of
 * tempv, NP threads.  Segment q (0 <= q < nseg0, processing order = reverse of segrep[]): representative KREP(q), supernode
 * KF(q)..KREP(q) as far as it is complete. */
#define KREP(q)  in_segrep[in_nseg0 - 1 - (q)]
#define SUPF(c)  in_xsup[in_supno[c]]
#define KF(q)    SUPF(KREP(q))
#define NSUPC(q) (KREP(q) - KF(q) + 1)
#define NSUPR_AT(f) (in_xlsub_end[f] - in_xlsub[f])
#define NSUPR(q) NSUPR_AT(KF(q))
#define NROW(q)  (NSUPR(q) - NSUPC(q))
/* kernel selection rule of panel_bmod: 2-D blocking iff the supernode has at least colblk columns and rowblk rows below them */
#define WANT2D(nsupc,nrow) ((nsupc) >= in_colblk && (nrow) >= in_rowblk)
#define INLIST_AT(f,p) (in_xlsub[f] <= (p) && (p) < in_xlsub_end[f])
#ifndef SPEC_EXPAND
struct kern_rec { int calls, calls1d, calls2d, bad, kind_s, awaits; int_t fsupc_s, krep_s, nsupc_s, nsupr_s, nrow_s; };
#endif
