#include "slu_mt_@p@defs.h"
#include "wf.h"
#include "defs.h"
#include "panel_bmod_model.h"
/* BOUNDED unit (label B): loop 3 of p?gstrf_panel_bmod is a do-while.  CBMC's static ("legacy") contract instrumentation has no loop
 * contracts for do-while loops and refuses an uncontracted loop inside a contracted one, and it refuses to enforce a function contract
 * on a function in which loops remain; the dynamic-frames instrumentation takes all six loop contracts (unit panel_bmod_pc, thorough
 * tier: > 3 min of symbolic execution).  Here: loops 1, 5, 6 are closed by their loop contracts (spec), loops 2 (climb), 3
 * (do-while) and 4 (panel columns, w <= W) are unwound with unwinding assertions for a busy range of at most NBUSY columns; the contract of defs.h is assumed
 * (REQ_*) and asserted (ENS_*) around the call of the real routine. */
#define REQ(l) __CPROVER_assume(REQ_##l)
#define ENS(l) __CPROVER_assert(ENS_##l, "ensures " #l)
/* pre-state copies for the frame (what is NOT written): one ghost index per array */
int_t g_p, g_l; @T@ g_lu0; int_t g_lsub0, g_idx0[8];
void h_panel_bmod(void) {
  int_t nb;
  in_sh.Glu = &in_Glu; in_sh.Gstat = &in_Gstat; in_sh.spin_locks = in_spin; in_Gstat.procstat = in_procstat;
  in_Glu.xsup = in_xsup; in_Glu.xsup_end = in_xsup_end; in_Glu.supno = in_supno; in_Glu.lsub = in_lsub; in_Glu.xlsub = in_xlsub;
  in_Glu.xlsub_end = in_xlsub_end; in_Glu.lusup = in_lusup; in_Glu.xlusup = in_xlusup;
  /* ---------- requires ---------- */
  __CPROVER_assume(in_nseg == in_nseg0);
  REQ(args); REQ(segrep_capacity); REQ(storage);
  __CPROVER_assume(in_jcol - in_bcol <= NBUSY && BUSYSEL);        /* the bound of this unit / the variant's case */
  REQ(segments); REQ(row_lists); REQ(rows_in_range); REQ(ghosts); REQ(ghost_segment); REQ(rows_distinct); REQ(value_blocks); REQ(repfnz_wf);
  REQ(blocking); REQ(tempv_zero_on_entry);
  REQ(etree); REQ(busy_supernodes); REQ(busy_contiguous); REQ(climb_hits_first_columns); REQ(busy_pivot_rows); REQ(busy_lists);
  REQ(busy_rows_distinct); REQ(busy_repfnz); REQ(markers); REQ(ghost_chain); REQ(ghost_copy); REQ(ghost_init);
  __CPROVER_assume(0 <= g_p && g_p < LUC && 0 <= g_l && g_l < LC && in_lusup[g_p] == in_lusup[g_p]);
  g_lu0 = in_lusup[g_p]; g_lsub0 = in_lsub[g_l];
  g_idx0[0] = in_xsup[g_x]; g_idx0[1] = in_xsup_end[g_x]; g_idx0[2] = in_supno[g_x]; g_idx0[3] = in_xlsub[g_x]; g_idx0[4] = in_xlsub_end[g_x];
  g_idx0[5] = in_xlusup[g_x]; g_idx0[6] = in_etree[g_x]; g_idx0[7] = in_inv_perm_r[g_x];

  p@p@gstrf_panel_bmod(in_pnum, in_m, in_w, in_jcol, in_bcol, in_inv_perm_r, in_etree, &in_nseg, in_segrep, in_repfnz, in_panel_lsub,
                     in_w_lsub_end, in_spa_marker, in_dense, in_tempv, &in_sh);

  /* ---------- ensures ---------- */
  ENS(every_segment_updated_once); ENS(kernel_of_segment); ENS(no_busy_supernode_nothing_else); ENS(climb_complete); ENS(tempv_zero_on_exit);
  ENS(segrep_prefix_kept); ENS(segrep_appended); ENS(repfnz_kept_outside_busy_reps); ENS(markers_consistent); ENS(marker_only_set);
  ENS(list_prefix_kept); ENS(list_new_entries_marked); ENS(spin_only_cleared);
  __CPROVER_assert(in_lusup[g_p] == g_lu0 && in_lsub[g_l] == g_lsub0 && in_xsup[g_x] == g_idx0[0] && in_xsup_end[g_x] == g_idx0[1] && in_supno[g_x] == g_idx0[2] && in_xlsub[g_x] == g_idx0[3] && in_xlsub_end[g_x] == g_idx0[4] && in_xlusup[g_x] == g_idx0[5], "ensures frame_L: the supernodes (values, row lists, index arrays) are read only");
  __CPROVER_assert(in_etree[g_x] == g_idx0[6] && in_inv_perm_r[g_x] == g_idx0[7], "ensures frame_etree_perm: etree, inv_perm_r are read only");

  nb = in_nseg - in_nseg0;                 /* representatives appended by the busy phase */
  __CPROVER_assert(0, "canary: panel_bmod returns");
#if SEGCAN
  if (in_nseg0 == 0 && nb == 0) __CPROVER_assert(0, "canary: no segment, no busy supernode");
  if (g_k.calls1d >= 1 && g_k.calls2d >= 1) __CPROVER_assert(0, "canary: both kernels used in one panel");
  if (in_nseg0 >= 3) __CPROVER_assert(0, "canary: three segments");
  if (g_k.kind_s == 1 && g_s < in_nseg0 && g_sd_krep - g_sd_kf + 1 >= in_colblk) __CPROVER_assert(0, "canary: 1-D although enough columns (too few rows below)");
  if (g_k.kind_s == 2 && g_s < in_nseg0 && g_sd_krep - g_sd_kf + 1 == in_colblk && g_sd_nsupr - (g_sd_krep - g_sd_kf + 1) == in_rowblk) __CPROVER_assert(0, "canary: 2-D exactly at both thresholds");
  if (g_s < in_nseg0 && in_xlusup[g_sd_kf] + g_sd_nsupr*(g_sd_krep - g_sd_kf + 1) == in_Glu.nzlumax && in_Glu.nzlumax == LUC && in_xlsub_end[g_sd_kf] == LC) __CPROVER_assert(0, "canary: supernode block ends exactly at nzlumax, list at nzlmax");
  if (in_w == W && in_m == M) __CPROVER_assert(0, "canary: full capacity m = M, w = W");
#endif
#if BUSYCAN
  /* canaries of the busy phase; those that need a busy range of 2 / 3 columns only where the variant admits one (NBUSY) */
#if NBUSY >= 2
  if (nb >= 2) __CPROVER_assert(0, "canary: two busy supernodes on the path");
  if (g_k.awaits >= 2) __CPROVER_assert(0, "canary: waited twice");
  if (nb >= 1 && g_busy_krep[0] > in_bcol) __CPROVER_assert(0, "canary: busy supernode with several columns");
#endif
#if NBUSY >= 3
  if (nb == 1 && g_busy_krep[0] >= in_bcol + 2 && g_onch[in_bcol + 1] == 0) __CPROVER_assert(0, "canary: busy supernode that is not an etree path (relaxed)");
#endif
  if (nb >= 1 && g_k.awaits >= 1) __CPROVER_assert(0, "canary: waited for a busy column");
  if (nb >= 1 && g_k.awaits == 0) __CPROVER_assert(0, "canary: busy range already finished, no wait");
  if (nb >= 1 && g_is_busy_krep[g_x] == 1 && RF(g_c, g_x) != g_rep0) __CPROVER_assert(0, "canary: leading nonzero of a busy segment found");
  if (nb >= 1 && in_w_lsub_end[g_c] > g_wend0) __CPROVER_assert(0, "canary: new fill rows appended to panel_lsub");
  if (nb >= 1 && in_nseg0 >= 1) __CPROVER_assert(0, "canary: finished and busy supernodes in one call");
  if (nb >= 1 && g_k.calls2d >= 1 && in_nseg0 == 0) __CPROVER_assert(0, "canary: 2-D kernel for a busy supernode");
  if (nb >= 1 && in_w == W) __CPROVER_assert(0, "canary: busy supernode, full panel width");
#endif
}
