#include "slu_mt_@p@defs.h"
#include "wf.h"
#include "defs.h"
/* ghosts: ghost segment, ghost indices for the frame, kernel call records */
int_t g_s, g_b, g_t, g_x, g_c, g_p, g_l, g_q; struct kern_rec g_k;
int_t g_next_busy, g_busy_krep[M], g_is_busy_krep[M];      /* climb position expected next; representatives appended by the busy phase */
int g_await_bad;
/* pre-state copies (ghost index per array) */
@T@ g_lu0; int_t g_lsub0, g_idx0[8], g_repfnz0[M*W], g_segrep0, g_wend0[W], g_mark0, g_plsub0;
/* inputs */
int_t in_pnum, in_m, in_w, in_jcol, in_bcol, in_nseg, in_nseg0, in_rowblk, in_colblk, in_maxsuper, in_tvlen;
int_t in_inv_perm_r[M], in_etree[M], in_segrep[M], in_repfnz[M*W], in_panel_lsub[M*W], in_w_lsub_end[W], in_spa_marker[M*W]; @T@ in_dense[M*W], in_tempv[TVC];
pxgstrf_shared_t in_sh; GlobalLU_t in_Glu; Gstat_t in_Gstat; procstat_t in_procstat[NP]; volatile int_t in_spin[M];
int_t in_xsup[M+1], in_xsup_end[M+1], in_supno[M+1], in_xlsub[M+1], in_xlsub_end[M], in_xlusup[M+1], in_lsub[LC]; @T@ in_lusup[LUC];
@T@ nondet_@T@(void); float nondet_float(void);
#define REP8(X) X(0) X(1) X(2) X(3) X(4) X(5) X(6) X(7)
_Static_assert(W <= 8 && M <= 8, "REP8 covers every extent");

/* tuning parameters: rowblk (4), colblk (5) -- symbolic */
int_t sp_ienv(int_t ispec) {
  __CPROVER_assert(ispec == 4 || ispec == 5, "sp_ienv: only rowblk and colblk are asked for");
  return ispec == 4 ? in_rowblk : in_colblk;
}
/* await(&spin_locks[c]) spins until another thread clears the flag of column c.  Contract: the argument is the flag of a column of the busy
 * range [bcol, jcol), the flag is set (the caller tests it first: never waits on a finished column); on return the flag is clear. */
int_t await(volatile int_t *status) {
  long c = status - in_spin;
  g_k.awaits++;
  __CPROVER_assert(__CPROVER_POINTER_OBJECT(status) == __CPROVER_POINTER_OBJECT(in_spin) && in_bcol <= c && c < in_jcol, "await: waits for a column of the busy range [bcol, jcol)");
  __CPROVER_assert(*status != 0, "await: only called for a column that is still busy");
  *status = 0;
  return 0;
}

/* first column of fsupc..krep whose pivot row holds a nonzero of panel column cc's dense[], -1 if none (definition of repfnz for a busy segment) */
static int_t lead_of(int_t cc, int_t fsupc, int_t krep) {
  int_t first = -1;
#define LEADCOL(i) if (first < 0 && (i) < M && fsupc <= (i) && (i) <= krep && in_dense[cc*in_m + in_inv_perm_r[i]] != 0.0) first = (i);
  REP8(LEADCOL)
  return first;
}

/* p?gstrf_bmod1D / p?gstrf_bmod2D by contract.  The assertions are the PRECONDITIONS of units bmod1D / bmod2D (clause names in brackets)
 * plus the caller-side facts of this unit (which segment, which kernel); the effect is the callee's frame: dense[], flop counter. */
static void kernel(int kind, const int_t pnum, const int_t m, const int_t w, const int_t jcol, const int_t fsupc, const int_t krep,
                   const int_t nsupc, int_t nsupr, int_t nrow, int_t *repfnz, int_t *panel_lsub, int_t *w_lsub_end, int_t *spa_marker,
                   @T@ *dense, @T@ *tempv, GlobalLU_t *Glu, Gstat_t *Gstat) {
  int segs_ok = 1;
  __CPROVER_assert(pnum == in_pnum && m == in_m && w == in_w && jcol == in_jcol, "kernel: pnum, m, w, jcol passed through");
  __CPROVER_assert(repfnz == in_repfnz && panel_lsub == in_panel_lsub && w_lsub_end == in_w_lsub_end && spa_marker == in_spa_marker && dense == in_dense && tempv == in_tempv && Glu == &in_Glu && Gstat == &in_Gstat, "kernel: the panel's work arrays, Glu and Gstat passed through");
  if (g_k.calls < in_nseg0) {          /* phase 1: the segments found by the panel DFS */
    __CPROVER_assert(krep == KREP(g_k.calls), "kernel: segments in topological order (reverse of segrep[]), none skipped, none twice");
    __CPROVER_assert(0 <= krep && krep < in_m && fsupc == in_xsup[in_supno[krep]], "kernel: fsupc = first column of krep's supernode");
    __CPROVER_assert(g_k.awaits == 0, "kernel: no waiting before the finished supernodes are applied");
  } else {                             /* phase 2: busy supernodes on the etree path bcol -> jcol, bottom up */
    int_t c = fsupc, t = g_k.calls - in_nseg0, lead_ok = 1, chain_ok = 1, stop = 0;
    __CPROVER_assert(in_bcol < in_jcol && fsupc == g_next_busy && in_bcol <= fsupc && fsupc < in_jcol, "kernel(busy): starts where the climb stands (bcol, then the parent of the previous representative)");
    __CPROVER_assert(krep == in_xsup_end[in_supno[fsupc]] - 1 && fsupc <= krep && krep < in_jcol, "kernel(busy): krep = current last column of the busy supernode");
    /* every column on the etree chain from fsupc inside the supernode has been waited for (flag clear) -- recomputed here independently */
#define CHAIN(i) if (!stop) { if (in_spin[c] != 0) chain_ok = 0; if (in_etree[c] >= in_jcol || in_supno[in_etree[c]] != in_supno[fsupc]) stop = 1; else c = in_etree[c]; }
    REP8(CHAIN)
    __CPROVER_assert(chain_ok, "kernel(busy): every column of the supernode on the etree chain from fsupc is finished (spin flag clear) when the kernel is called");
    __CPROVER_assert(in_nseg == in_nseg0 + t + 1 && in_segrep[in_nseg0 + t] == krep, "kernel(busy): the representative was appended to segrep[], nseg counts it");
    /* repfnz[krep] of every panel column: unchanged, or the first column of fsupc..krep whose pivot row holds a nonzero of dense[] */
#define LEAD(cc) if ((cc) < W && (cc) < in_w) { int_t v = in_repfnz[(cc)*in_m + krep], f = lead_of((cc), fsupc, krep); \
      if (f >= 0 ? v != f : v != g_repfnz0[(cc)*in_m + krep]) lead_ok = 0; }
    REP8(LEAD)
    __CPROVER_assert(lead_ok, "kernel(busy): repfnz_col[krep] = leading nonzero of the busy U-segment in dense_col (else untouched)");
    g_busy_krep[t] = krep; g_is_busy_krep[krep] = 1; g_next_busy = in_etree[krep];
  }
  __CPROVER_assert(0 <= fsupc && fsupc <= krep && nsupc == krep - fsupc + 1, "kernel [snode]: 0 <= fsupc <= krep < m, nsupc = krep - fsupc + 1");
  __CPROVER_assert(nsupr == NSUPR_AT(fsupc) && nrow == nsupr - nsupc, "kernel [snode]: nsupr = length of the row list, nrow = nsupr - nsupc");
  __CPROVER_assert(nsupc <= nsupr, "kernel [snode]: nsupc <= nsupr (the supernode stores a row for each of its columns)");
  __CPROVER_assert(0 <= in_xlsub[fsupc] && in_xlsub[fsupc] <= in_Glu.nzlmax - nsupr, "kernel [geometry]: row list inside lsub");
  __CPROVER_assert(0 <= in_xlusup[fsupc] && nsupr*nsupc <= in_Glu.nzlumax - in_xlusup[fsupc], "kernel [geometry]: nsupr x nsupc block inside lusup");
  __CPROVER_assert(FA(ka, LC, INLIST_AT(fsupc, ka) ==> (0 <= in_lsub[ka] && in_lsub[ka] < in_m)), "kernel [rows_in_range]");
  /* pointwise: checked at the call for the ghost segment g_s / the ghost busy supernode starting at g_b (both arbitrary) */
  if (g_k.calls < in_nseg0 ? g_k.calls == g_s : fsupc == g_b)
    __CPROVER_assert(FA(kb, LC, FA(kc, LC, (INLIST_AT(fsupc, kb) && kb < kc && INLIST_AT(fsupc, kc)) ==> in_lsub[kb] != in_lsub[kc])), "kernel [rows_distinct]");
#define SEG_OK(c) if ((c) < W && (c) < in_w && !(in_repfnz[(c)*in_m + krep] == EMPTY || (fsupc <= in_repfnz[(c)*in_m + krep] && in_repfnz[(c)*in_m + krep] <= krep))) segs_ok = 0;
  REP8(SEG_OK)
  __CPROVER_assert(segs_ok, "kernel [segments]: every repfnz_col[krep] is EMPTY or a column of the supernode");
  __CPROVER_assert((kind == 2) == WANT2D(nsupc, nrow), "kernel choice: 2-D iff nsupc >= colblk and nrow >= rowblk");
  if (kind == 2) __CPROVER_assert(nsupc <= in_maxsuper && 1 <= in_rowblk && in_w*(in_maxsuper + in_rowblk) <= in_tvlen, "kernel(2-D) [blocking]: nsupc <= maxsuper, tempv holds w slots of maxsuper + rowblk");
  else __CPROVER_assert(nsupr <= in_tvlen, "kernel(1-D) [tempv_size]: tempv holds nsupr scalars");
  __CPROVER_assert(in_tempv[g_t] == 0.0, "kernel [tempv_zero_on_entry]");
  if (g_k.calls == g_s) { g_k.kind_s = kind; g_k.fsupc_s = fsupc; g_k.krep_s = krep; g_k.nsupc_s = nsupc; g_k.nsupr_s = nsupr; g_k.nrow_s = nrow; }
  g_k.calls++; if (kind == 2) g_k.calls2d++; else g_k.calls1d++;
  /* effect (frame of units bmod1D/bmod2D): dense[] (rows of the supernode's list), the flop counter; tempv is zero again */
  __CPROVER_havoc_object(in_dense);
  in_procstat[in_pnum].fcops = nondet_float();
}
void p@p@gstrf_bmod1D(const int_t pnum, const int_t m, const int_t w, const int_t jcol, const int_t fsupc, const int_t krep, const int_t nsupc,
                    int_t nsupr, int_t nrow, int_t *repfnz, int_t *panel_lsub, int_t *w_lsub_end, int_t *spa_marker, @T@ *dense, @T@ *tempv,
                    GlobalLU_t *Glu, Gstat_t *Gstat) {
  kernel(1, pnum, m, w, jcol, fsupc, krep, nsupc, nsupr, nrow, repfnz, panel_lsub, w_lsub_end, spa_marker, dense, tempv, Glu, Gstat);
}
void p@p@gstrf_bmod2D(const int_t pnum, const int_t m, const int_t w, const int_t jcol, const int_t fsupc, const int_t krep, const int_t nsupc,
                    int_t nsupr, int_t nrow, int_t *repfnz, int_t *panel_lsub, int_t *w_lsub_end, int_t *spa_marker, @T@ *dense, @T@ *tempv,
                    GlobalLU_t *Glu, Gstat_t *Gstat) {
  kernel(2, pnum, m, w, jcol, fsupc, krep, nsupc, nsupr, nrow, repfnz, panel_lsub, w_lsub_end, spa_marker, dense, tempv, Glu, Gstat);
}

int_t nondet_int_t(void);
#define REQ(label, c) __CPROVER_assume(c)
#define ENS(label, c) __CPROVER_assert(c, "ensures " #label)
#define BUSY(c)  (in_bcol <= (c) && (c) < in_jcol)
#define SLAST(c) (in_xsup_end[in_supno[c]] - 1)                 /* current last column of c's (busy) supernode */
#define ISFIRST(c) (in_xsup[in_supno[c]] == (c))
/* number of rows of panel column cc that carry its marker (= entries its panel_lsub list must hold) */
static int_t cnt_marked(int_t cc) {
  int_t n = 0;
#define MARKED(r) if ((r) < M && (r) < in_m && in_spa_marker[cc*in_m + (r)] == in_jcol + cc) n++;
  REP8(MARKED)
  return n;
}
/* BOUNDED unit (label B(n)): loop 3 of p?gstrf_panel_bmod is a do-while, for which CBMC has no loop contracts (legacy instrumentation then
 * refuses the function; DFCC with a contract on loop 1 only ran out of memory), and loop 4 advances cursor pointers.  The real routine is
 * executed symbolically with ALL SIX loops unwound (unwinding assertions) for every input within the capacities.
 * REQ = requires (assumed), ENS = ensures (asserted); the callee preconditions are asserted inside the kernel stubs. */
void h_panel_bmod(void) {
  int_t nb, i;
  /* ---------- inputs: nondeterministic ---------- */
  in_pnum = nondet_int_t(); in_m = nondet_int_t(); in_w = nondet_int_t(); in_jcol = nondet_int_t(); in_bcol = nondet_int_t(); in_nseg = nondet_int_t();
  in_rowblk = nondet_int_t(); in_colblk = nondet_int_t(); in_maxsuper = nondet_int_t(); in_tvlen = nondet_int_t();
  g_s = nondet_int_t(); g_b = nondet_int_t(); g_t = nondet_int_t(); g_x = nondet_int_t(); g_c = nondet_int_t(); g_p = nondet_int_t(); g_l = nondet_int_t(); g_q = nondet_int_t();
  __CPROVER_havoc_object(in_inv_perm_r); __CPROVER_havoc_object(in_etree); __CPROVER_havoc_object(in_segrep); __CPROVER_havoc_object(in_repfnz);
  __CPROVER_havoc_object(in_panel_lsub); __CPROVER_havoc_object(in_w_lsub_end); __CPROVER_havoc_object(in_spa_marker); __CPROVER_havoc_object(in_dense);
  __CPROVER_havoc_object(in_tempv); __CPROVER_havoc_object(in_procstat); __CPROVER_havoc_object((void *)in_spin); __CPROVER_havoc_object(in_xsup);
  __CPROVER_havoc_object(in_xsup_end); __CPROVER_havoc_object(in_supno); __CPROVER_havoc_object(in_xlsub); __CPROVER_havoc_object(in_xlsub_end);
  __CPROVER_havoc_object(in_xlusup); __CPROVER_havoc_object(in_lsub); __CPROVER_havoc_object(in_lusup); __CPROVER_havoc_object(g_repfnz0);
  in_Glu.nzlmax = nondet_int_t(); in_Glu.nzlumax = nondet_int_t();
  in_sh.Glu = &in_Glu; in_sh.Gstat = &in_Gstat; in_sh.spin_locks = in_spin; in_Gstat.procstat = in_procstat;
  in_Glu.xsup = in_xsup; in_Glu.xsup_end = in_xsup_end; in_Glu.supno = in_supno; in_Glu.lsub = in_lsub; in_Glu.xlsub = in_xlsub;
  in_Glu.xlsub_end = in_xlsub_end; in_Glu.lusup = in_lusup; in_Glu.xlusup = in_xlusup;
  in_nseg0 = in_nseg; g_next_busy = in_bcol;
  /* ---------- requires ---------- */
  REQ(args, 0 <= in_pnum && in_pnum < NP && 1 <= in_m && in_m <= M && 1 <= in_w && in_w <= W && 0 <= in_jcol && in_jcol <= in_m - in_w && 0 <= in_bcol && in_bcol <= M);
  REQ(ghost_ranges, 0 <= g_s && g_s < M && 0 <= g_b && g_b < M);
  REQ(bounded, 0 <= in_nseg0 && in_nseg0 <= NSEGC && in_jcol - in_bcol <= NBUSY);
  REQ(segrep_capacity, in_bcol >= in_jcol || in_nseg0 + (in_jcol - in_bcol) <= in_m);
  REQ(storage, 0 <= in_Glu.nzlmax && in_Glu.nzlmax <= LC && 0 <= in_Glu.nzlumax && in_Glu.nzlumax <= LUC);
  /* --- the segments found by the panel DFS (finished supernodes before the panel) */
  REQ(segments, FA(q1, M, q1 < in_nseg0 ==> (0 <= KREP(q1) && KREP(q1) < in_jcol && 0 <= in_supno[KREP(q1)] && in_supno[KREP(q1)] < in_m && 0 <= KF(q1) && KF(q1) <= KREP(q1))));
  REQ(row_lists, FA(q2, M, q2 < in_nseg0 ==> (0 <= in_xlsub[KF(q2)] && in_xlsub[KF(q2)] <= in_xlsub_end[KF(q2)] && in_xlsub_end[KF(q2)] <= in_Glu.nzlmax)));
#if !SHORT
  REQ(rows_cover_columns, FA(q7, M, q7 < in_nseg0 ==> NSUPC(q7) <= NSUPR(q7)));
#else
  REQ(fewer_rows_than_columns, in_nseg0 >= 1 && NSUPC(0) > NSUPR(0));      /* exhibit: structurally singular input, see MUTANTS.md */
#endif
  REQ(rows_in_range, FA(p1, LC, 0 <= in_lsub[p1] && in_lsub[p1] < in_m));
  REQ(rows_distinct, g_s >= in_nseg0 || FA(p2, LC, FA(p3, LC, (INLIST_AT(KF(g_s), p2) && p2 < p3 && INLIST_AT(KF(g_s), p3)) ==> in_lsub[p2] != in_lsub[p3])));   /* pointwise at g_s */
  REQ(value_blocks, FA(q4, M, q4 < in_nseg0 ==> (0 <= in_xlusup[KF(q4)] && in_xlusup[KF(q4)] <= LUC && NSUPR(q4)*NSUPC(q4) <= in_Glu.nzlumax - in_xlusup[KF(q4)])));
  REQ(repfnz_wf, FA(q5, M, FA(c1, W, (q5 < in_nseg0 && c1 < in_w) ==> (in_repfnz[c1*in_m + KREP(q5)] == EMPTY || (KF(q5) <= in_repfnz[c1*in_m + KREP(q5)] && in_repfnz[c1*in_m + KREP(q5)] <= KREP(q5))))));
  REQ(blocking, 1 <= in_rowblk && in_rowblk <= TVC && 1 <= in_colblk && 1 <= in_maxsuper && in_maxsuper <= TVC && 0 <= in_tvlen && in_tvlen <= TVC && 2*in_m <= in_tvlen && in_w*(in_maxsuper + in_rowblk) <= in_tvlen && FA(q6, M, q6 < in_nseg0 ==> NSUPC(q6) <= in_maxsuper));
  REQ(tempv_zero_on_entry, FA(t1, TVC, in_tempv[t1] == 0.0));
  /* --- the busy supernodes on the etree path bcol -> jcol */
  REQ(etree, FA(e1, M, e1 < in_m ==> (e1 < in_etree[e1] && in_etree[e1] <= in_m)));
  REQ(busy_supernodes, FA(b1, M, BUSY(b1) ==> (0 <= in_supno[b1] && in_supno[b1] < in_m && 0 <= in_xsup[in_supno[b1]] && in_xsup[in_supno[b1]] <= b1 && b1 <= SLAST(b1) && SLAST(b1) < in_jcol)));
  REQ(busy_contiguous, FA(b2, M, FA(b3, M, (BUSY(b2) && in_xsup[in_supno[b2]] <= b3 && b3 <= SLAST(b2)) ==> in_supno[b3] == in_supno[b2])));
  /* the climb lands on first columns: bcol starts a supernode, and so does the parent of a busy supernode's last column */
  REQ(climb_hits_first_columns, (in_bcol < in_jcol ==> ISFIRST(in_bcol)) && FA(b4, M, (BUSY(b4) && in_etree[SLAST(b4)] < in_jcol) ==> ISFIRST(in_etree[SLAST(b4)])));
  REQ(busy_pivot_rows, FA(b5, M, BUSY(b5) ==> (0 <= in_inv_perm_r[b5] && in_inv_perm_r[b5] < in_m)));
  REQ(busy_lists, FA(b6, M, BUSY(b6) ==> (0 <= in_xlsub[b6] && in_xlsub[b6] <= in_xlsub_end[b6] && in_xlsub_end[b6] <= in_Glu.nzlmax && in_xlsub_end[b6] - in_xlsub[b6] <= LKC && (ISFIRST(b6) ==> (SLAST(b6) - b6 + 1 <= NSUPR_AT(b6) && SLAST(b6) - b6 + 1 <= in_maxsuper && 0 <= in_xlusup[b6] && in_xlusup[b6] <= LUC && NSUPR_AT(b6)*(SLAST(b6) - b6 + 1) <= in_Glu.nzlumax - in_xlusup[b6])))));
  REQ(busy_rows_distinct, !(BUSY(g_b) && ISFIRST(g_b)) || FA(p4, LC, FA(p5, LC, (INLIST_AT(g_b, p4) && p4 < p5 && INLIST_AT(g_b, p5)) ==> in_lsub[p4] != in_lsub[p5])));   /* pointwise at g_b */
  REQ(busy_repfnz, FA(b8, M, FA(c2, W, (BUSY(b8) && c2 < in_w) ==> (in_repfnz[c2*in_m + b8] == EMPTY || (in_xsup[in_supno[b8]] <= in_repfnz[c2*in_m + b8] && in_repfnz[c2*in_m + b8] <= b8)))));
  /* the n-by-w marker / list pair is consistent: panel_lsub[*,c] holds one entry per row that carries column c's marker */
  REQ(markers, in_w_lsub_end[0] == cnt_marked(0) && (in_w < 2 || in_w_lsub_end[1] == cnt_marked(1)));
  REQ(ghosts, 0 <= g_s && g_s < M && 0 <= g_b && g_b < M && 0 <= g_t && g_t < TVC && 0 <= g_x && g_x < in_m && 0 <= g_c && g_c < in_w && 0 <= g_p && g_p < LUC && 0 <= g_l && g_l < LC && 0 <= g_q && g_q < in_m);
  REQ(ghost_copy, FA(r1, M*W, g_repfnz0[r1] == in_repfnz[r1]) && in_lusup[g_p] == in_lusup[g_p]);
  g_lu0 = in_lusup[g_p]; g_lsub0 = in_lsub[g_l]; g_segrep0 = in_segrep[g_q]; g_wend0[0] = in_w_lsub_end[0]; g_wend0[W-1] = in_w_lsub_end[W-1];
  g_mark0 = in_spa_marker[g_c*in_m + g_x]; g_plsub0 = in_panel_lsub[g_c*in_m + g_x];
  g_idx0[0] = in_xsup[g_x]; g_idx0[1] = in_xsup_end[g_x]; g_idx0[2] = in_supno[g_x]; g_idx0[3] = in_xlsub[g_x]; g_idx0[4] = in_xlsub_end[g_x];
  g_idx0[5] = in_xlusup[g_x]; g_idx0[6] = in_etree[g_x]; g_idx0[7] = in_inv_perm_r[g_x];

  p@p@gstrf_panel_bmod(in_pnum, in_m, in_w, in_jcol, in_bcol, in_inv_perm_r, in_etree, &in_nseg, in_segrep, in_repfnz, in_panel_lsub,
                     in_w_lsub_end, in_spa_marker, in_dense, in_tempv, &in_sh);

  /* ---------- ensures ---------- */
  nb = in_nseg - in_nseg0;                 /* representatives appended by the busy phase */
  ENS(every_segment_updated_once, g_k.calls == in_nseg0 + nb && g_k.calls1d + g_k.calls2d == g_k.calls && nb >= 0);
  ENS(no_busy_supernode_nothing_else, in_bcol < in_jcol || (nb == 0 && g_k.awaits == 0));
  ENS(climb_complete, in_bcol >= in_jcol || (nb >= 1 && g_next_busy >= in_jcol));
  ENS(kernel_of_segment, g_s >= in_nseg0 || (g_k.krep_s == KREP(g_s) && g_k.fsupc_s == KF(g_s) && g_k.nsupc_s == NSUPC(g_s) && g_k.nsupr_s == NSUPR(g_s) && g_k.nrow_s == NROW(g_s) && g_k.kind_s == (WANT2D(NSUPC(g_s), NROW(g_s)) ? 2 : 1)));
  /* frame */
  ENS(frame_L, in_lusup[g_p] == g_lu0 && in_lsub[g_l] == g_lsub0 && in_xsup[g_x] == g_idx0[0] && in_xsup_end[g_x] == g_idx0[1] && in_supno[g_x] == g_idx0[2] && in_xlsub[g_x] == g_idx0[3] && in_xlsub_end[g_x] == g_idx0[4] && in_xlusup[g_x] == g_idx0[5]);
  ENS(frame_etree_perm, in_etree[g_x] == g_idx0[6] && in_inv_perm_r[g_x] == g_idx0[7]);
  ENS(frame_tempv, in_tempv[g_t] == 0.0);
  ENS(frame_segrep_prefix, g_q >= in_nseg0 || in_segrep[g_q] == g_segrep0);
  ENS(segrep_appended, !(in_nseg0 <= g_q && g_q < in_nseg) || in_segrep[g_q] == g_busy_krep[g_q - in_nseg0]);
  ENS(frame_repfnz, g_is_busy_krep[g_x] == 1 || in_repfnz[g_c*in_m + g_x] == g_repfnz0[g_c*in_m + g_x]);
  ENS(frame_markers_without_busy, in_bcol < in_jcol || (in_spa_marker[g_c*in_m + g_x] == g_mark0 && in_panel_lsub[g_c*in_m + g_x] == g_plsub0 && in_w_lsub_end[g_c] == g_wend0[g_c]));
  /* the marker / list pair stays consistent; lists only grow, by rows that now carry the marker */
  ENS(markers_consistent, in_w_lsub_end[g_c] == cnt_marked(g_c) && in_w_lsub_end[g_c] >= g_wend0[g_c]);
  ENS(marker_only_set, in_spa_marker[g_c*in_m + g_x] == g_mark0 || in_spa_marker[g_c*in_m + g_x] == in_jcol + g_c);
  ENS(list_prefix_kept, g_x >= g_wend0[g_c] || in_panel_lsub[g_c*in_m + g_x] == g_plsub0);
  ENS(list_new_entries_marked, !(g_wend0[g_c] <= g_x && g_x < in_w_lsub_end[g_c]) || (0 <= in_panel_lsub[g_c*in_m + g_x] && in_panel_lsub[g_c*in_m + g_x] < in_m && in_spa_marker[g_c*in_m + in_panel_lsub[g_c*in_m + g_x]] == in_jcol + g_c));
  __CPROVER_assert(0, "canary: panel_bmod returns");
#if SEGCAN
  if (in_nseg0 == 0) __CPROVER_assert(0, "canary: no segment");
  if (g_k.calls1d >= 1 && g_k.calls2d >= 1) __CPROVER_assert(0, "canary: both kernels used in one panel");
  if (g_k.calls >= 3) __CPROVER_assert(0, "canary: three segments");
  if (g_k.kind_s == 1 && g_s < in_nseg0 && NSUPC(g_s) >= in_colblk) __CPROVER_assert(0, "canary: 1-D although enough columns (too few rows below)");
  if (g_k.kind_s == 2 && g_s < in_nseg0 && NSUPC(g_s) == in_colblk && NROW(g_s) == in_rowblk) __CPROVER_assert(0, "canary: 2-D exactly at both thresholds");
  if (in_nseg0 >= 1 && in_xlusup[KF(0)] + NSUPR(0)*NSUPC(0) == in_Glu.nzlumax && in_Glu.nzlumax == LUC && in_xlsub_end[KF(0)] == LC) __CPROVER_assert(0, "canary: supernode block ends exactly at nzlumax, list at nzlmax");
#endif
#if BUSYCAN
  if (nb >= 2) __CPROVER_assert(0, "canary: two busy supernodes on the path");
  if (g_k.awaits >= 2) __CPROVER_assert(0, "canary: waited twice");
  if (nb >= 1 && g_k.awaits == 0) __CPROVER_assert(0, "canary: busy range already finished, no wait");
  if (nb >= 1 && g_busy_krep[0] > in_bcol) __CPROVER_assert(0, "canary: busy supernode with several columns");
  if (nb >= 1 && in_repfnz[g_busy_krep[0]] != g_repfnz0[g_busy_krep[0]]) __CPROVER_assert(0, "canary: leading nonzero of a busy segment found");
  if (nb >= 1 && in_w_lsub_end[0] > g_wend0[0]) __CPROVER_assert(0, "canary: new fill rows appended to panel_lsub");
  if (nb >= 1 && in_nseg0 >= 1) __CPROVER_assert(0, "canary: finished and busy supernodes in one call");
  if (nb >= 1 && g_k.calls2d >= 1 && in_nseg0 == 0) __CPROVER_assert(0, "canary: 2-D kernel for a busy supernode");
#endif
}
