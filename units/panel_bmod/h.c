#include "slu_mt_@p@defs.h"
#include "wf.h"
#include "defs.h"
/* ghosts: ghost segment, ghost indices for the frame, kernel call records */
int_t g_s, g_t, g_x; struct kern_rec g_k;
/* inputs */
int_t in_pnum, in_m, in_w, in_jcol, in_bcol, in_nseg, in_nseg0, in_rowblk, in_colblk, in_maxsuper, in_tvlen;
int_t in_inv_perm_r[M], in_etree[M], in_segrep[M], in_repfnz[M*W], in_panel_lsub[M*W], in_w_lsub_end[W], in_spa_marker[M*W]; @T@ in_dense[M*W], in_tempv[TVC];
pxgstrf_shared_t in_sh; GlobalLU_t in_Glu; Gstat_t in_Gstat; procstat_t in_procstat[NP]; volatile int_t in_spin[M];
int_t in_xsup[M+1], in_xsup_end[M+1], in_supno[M+1], in_xlsub[M+1], in_xlsub_end[M], in_xlusup[M+1], in_lsub[LC]; @T@ in_lusup[LUC];
@T@ nondet_@T@(void); float nondet_float(void);
#define REP8(X) X(0) X(1) X(2) X(3) X(4) X(5) X(6) X(7)
_Static_assert(W <= 8 && M <= 8, "REP8 covers every extent");

/* tuning parameters: rowblk (4), colblk (5) -- symbolic */
int_t sp_ienv(int_t ispec) {
  __CPROVER_assert(ispec == 4 || ispec == 5, "sp_ienv: only rowblk and colblk are asked for");
  return ispec == 4 ? in_rowblk : in_colblk;
}
/* no busy supernode in this unit (bcol >= jcol): nothing to wait for */
int_t await(volatile int_t *status) { __CPROVER_assert(0, "await: not reached without busy supernodes"); g_k.awaits++; return 0; }

/* p?gstrf_bmod1D / p?gstrf_bmod2D by contract.  The assertions are the PRECONDITIONS of units bmod1D / bmod2D (clause names in brackets)
 * plus the caller-side facts of this unit (which segment, which kernel); the effect is the callee's frame: dense[], flop counter. */
static void kernel(int kind, const int_t pnum, const int_t m, const int_t w, const int_t jcol, const int_t fsupc, const int_t krep,
                   const int_t nsupc, int_t nsupr, int_t nrow, int_t *repfnz, int_t *panel_lsub, int_t *w_lsub_end, int_t *spa_marker,
                   @T@ *dense, @T@ *tempv, GlobalLU_t *Glu, Gstat_t *Gstat) {
  int segs_ok = 1;
  __CPROVER_assert(pnum == in_pnum && m == in_m && w == in_w && jcol == in_jcol, "kernel: pnum, m, w, jcol passed through");
  __CPROVER_assert(repfnz == in_repfnz && panel_lsub == in_panel_lsub && w_lsub_end == in_w_lsub_end && spa_marker == in_spa_marker && dense == in_dense && tempv == in_tempv && Glu == &in_Glu && Gstat == &in_Gstat, "kernel: the panel's work arrays, Glu and Gstat passed through");
  __CPROVER_assert(g_k.calls < in_nseg0 && krep == KREP(g_k.calls), "kernel: segments in topological order (reverse of segrep[]), none skipped, none twice");
  __CPROVER_assert(0 <= krep && krep < in_m && fsupc == in_xsup[in_supno[krep]], "kernel: fsupc = first column of krep's supernode");
  __CPROVER_assert(0 <= fsupc && fsupc <= krep && nsupc == krep - fsupc + 1, "kernel [snode]: 0 <= fsupc <= krep < m, nsupc = krep - fsupc + 1");
  __CPROVER_assert(nsupr == NSUPR_AT(fsupc) && nrow == nsupr - nsupc, "kernel [snode]: nsupr = length of the row list, nrow = nsupr - nsupc");
  __CPROVER_assert(nsupc <= nsupr, "kernel [snode]: nsupc <= nsupr (the supernode stores a row for each of its columns)");
  __CPROVER_assert(0 <= in_xlsub[fsupc] && in_xlsub[fsupc] <= in_Glu.nzlmax - nsupr, "kernel [geometry]: row list inside lsub");
  __CPROVER_assert(0 <= in_xlusup[fsupc] && nsupr*nsupc <= in_Glu.nzlumax - in_xlusup[fsupc], "kernel [geometry]: nsupr x nsupc block inside lusup");
  __CPROVER_assert(FA(ka, LC, INLIST_AT(fsupc, ka) ==> (0 <= in_lsub[ka] && in_lsub[ka] < in_m)), "kernel [rows_in_range]");
  __CPROVER_assert(FA(kb, LC, FA(kc, LC, (INLIST_AT(fsupc, kb) && kb < kc && INLIST_AT(fsupc, kc)) ==> in_lsub[kb] != in_lsub[kc])), "kernel [rows_distinct]");
#define SEG_OK(c) if ((c) < W && (c) < in_w && !(in_repfnz[(c)*in_m + krep] == EMPTY || (fsupc <= in_repfnz[(c)*in_m + krep] && in_repfnz[(c)*in_m + krep] <= krep))) segs_ok = 0;
  REP8(SEG_OK)
  __CPROVER_assert(segs_ok, "kernel [segments]: every repfnz_col[krep] is EMPTY or a column of the supernode");
  __CPROVER_assert((kind == 2) == WANT2D(nsupc, nrow), "kernel choice: 2-D iff nsupc >= colblk and nrow >= rowblk");
  if (kind == 2) __CPROVER_assert(nsupc <= in_maxsuper && 1 <= in_rowblk && in_w*(in_maxsuper + in_rowblk) <= in_tvlen, "kernel(2-D) [blocking]: nsupc <= maxsuper, tempv holds w slots of maxsuper + rowblk");
  else __CPROVER_assert(nsupr <= in_tvlen, "kernel(1-D) [tempv_size]: tempv holds nsupr scalars");
  __CPROVER_assert(in_tempv[g_t] == 0.0, "kernel [tempv_zero_on_entry]");
  if (g_k.calls == g_s) { g_k.kind_s = kind; g_k.fsupc_s = fsupc; g_k.krep_s = krep; g_k.nsupc_s = nsupc; g_k.nsupr_s = nsupr; g_k.nrow_s = nrow; }
  g_k.calls++; if (kind == 2) g_k.calls2d++; else g_k.calls1d++;
  /* effect (frame of units bmod1D/bmod2D): dense[] (rows of the supernode's list), the flop counter; tempv is zero again */
  __CPROVER_havoc_object(in_dense);
  in_procstat[in_pnum].fcops = nondet_float();
}
void p@p@gstrf_bmod1D(const int_t pnum, const int_t m, const int_t w, const int_t jcol, const int_t fsupc, const int_t krep, const int_t nsupc,
                    int_t nsupr, int_t nrow, int_t *repfnz, int_t *panel_lsub, int_t *w_lsub_end, int_t *spa_marker, @T@ *dense, @T@ *tempv,
                    GlobalLU_t *Glu, Gstat_t *Gstat) {
  kernel(1, pnum, m, w, jcol, fsupc, krep, nsupc, nsupr, nrow, repfnz, panel_lsub, w_lsub_end, spa_marker, dense, tempv, Glu, Gstat);
}
void p@p@gstrf_bmod2D(const int_t pnum, const int_t m, const int_t w, const int_t jcol, const int_t fsupc, const int_t krep, const int_t nsupc,
                    int_t nsupr, int_t nrow, int_t *repfnz, int_t *panel_lsub, int_t *w_lsub_end, int_t *spa_marker, @T@ *dense, @T@ *tempv,
                    GlobalLU_t *Glu, Gstat_t *Gstat) {
  kernel(2, pnum, m, w, jcol, fsupc, krep, nsupc, nsupr, nrow, repfnz, panel_lsub, w_lsub_end, spa_marker, dense, tempv, Glu, Gstat);
}

void h_panel_bmod(void) {
  in_sh.Glu = &in_Glu; in_sh.Gstat = &in_Gstat; in_sh.spin_locks = in_spin; in_Gstat.procstat = in_procstat;
  in_Glu.xsup = in_xsup; in_Glu.xsup_end = in_xsup_end; in_Glu.supno = in_supno; in_Glu.lsub = in_lsub; in_Glu.xlsub = in_xlsub;
  in_Glu.xlsub_end = in_xlsub_end; in_Glu.lusup = in_lusup; in_Glu.xlusup = in_xlusup;
  p@p@gstrf_panel_bmod(in_pnum, in_m, in_w, in_jcol, in_bcol, in_inv_perm_r, in_etree, &in_nseg, in_segrep, in_repfnz, in_panel_lsub,
                     in_w_lsub_end, in_spa_marker, in_dense, in_tempv, &in_sh);
  __CPROVER_assert(0, "canary: panel_bmod returns");
  if (in_nseg0 == 0) __CPROVER_assert(0, "canary: no segment");
  if (g_k.calls1d >= 1 && g_k.calls2d >= 1) __CPROVER_assert(0, "canary: both kernels used in one panel");
  if (g_k.calls >= 3) __CPROVER_assert(0, "canary: three segments");
  if (g_k.kind_s == 1 && g_s < in_nseg0 && NSUPC(g_s) >= in_colblk) __CPROVER_assert(0, "canary: 1-D although enough columns (too few rows below)");
  if (g_k.kind_s == 2 && g_s < in_nseg0 && NSUPC(g_s) == in_colblk && NROW(g_s) == in_rowblk) __CPROVER_assert(0, "canary: 2-D exactly at both thresholds");
  if (g_k.calls >= 1 && in_xlusup[KF(0)] + NSUPR(0)*NSUPC(0) == in_Glu.nzlumax && in_Glu.nzlumax == LUC && in_xlsub_end[KF(0)] == LC) __CPROVER_assert(0, "canary: supernode block ends exactly at nzlumax, list at nzlmax");
}
