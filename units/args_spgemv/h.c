#include "slu_mt_@p@defs.h"
/* inputs: file-scope, nondeterministic initial values */
extern int g_seq, g_n_malloc, g_n_free, g_xerbla_calls, g_xerbla_arg;
char in_trans[2]; @T@ in_alpha, in_beta; SuperMatrix in_A; NCformat in_Astore; int_t in_colptr[CAP+1], in_rowind[CAP]; @T@ in_nzval[CAP];
@T@ in_x[CAP], in_y[CAP]; int_t in_incx, in_incy;
int_t g_ret;
void h_spgemv(void) {
  in_A.Store = &in_Astore; in_Astore.colptr = in_colptr; in_Astore.rowind = in_rowind; in_Astore.nzval = in_nzval;
  g_ret = sp_@p@gemv(in_trans, in_alpha, &in_A, in_x, in_incx, in_beta, in_y, in_incy);
  __CPROVER_assert(0, "canary: sp_gemv returns");
#if MODE == 0
  if (g_xerbla_arg == 1) __CPROVER_assert(0, "canary: position 1 reachable");
  if (g_xerbla_arg == 3) __CPROVER_assert(0, "canary: position 3 reachable");
  if (g_xerbla_arg == 5) __CPROVER_assert(0, "canary: position 5 reachable");
  if (g_xerbla_arg == 8 && in_trans[0] == 'c') __CPROVER_assert(0, "canary: position 8 with trans 'c' reachable");
  if (in_trans[0] == 'x' && in_A.ncol < 0 && in_incx == 0 && in_incy == 0) __CPROVER_assert(0, "canary: quadruple violation reachable");
#elif MODE == 1
  if (in_A.Stype == SLU_DN) __CPROVER_assert(0, "canary: dense A reachable");
  if (in_A.Stype == SLU_NC && in_A.Dtype != DT) __CPROVER_assert(0, "canary: wrong A->Dtype alone reachable");
#elif MODE == 2
  if (in_A.nrow == 0 && in_A.ncol == 3) __CPROVER_assert(0, "canary: no rows");
  if (in_A.nrow == 3 && in_A.ncol == 0) __CPROVER_assert(0, "canary: no columns");
  if (in_A.nrow == 3 && in_A.ncol == 3) __CPROVER_assert(0, "canary: alpha == 0 and beta == 1 with a 3 x 3 matrix");
#endif
}
