#include "slu_mt_@p@defs.h"
/* inputs: file-scope, nondeterministic initial values */
extern int g_seq, g_n_malloc, g_n_free, g_xerbla_calls, g_xerbla_arg;
char in_norm[2]; SuperMatrix in_L, in_U; SCPformat in_Lstore; NCPformat in_Ustore; @R@ in_anorm, in_rcond; int_t in_info;
void h_gscon(void) {
  in_L.Store = &in_Lstore; in_U.Store = &in_Ustore;
  @p@gscon(in_norm, &in_L, &in_U, in_anorm, &in_rcond, &in_info);
  __CPROVER_assert(0, "canary: gscon returns");
  if (in_L.nrow == 0 && in_U.nrow == 3) __CPROVER_assert(0, "canary: L of order 0, U of order 3");
  if (in_L.nrow == 3 && in_U.nrow == 0 && in_norm[0] == 'I') __CPROVER_assert(0, "canary: U of order 0, infinity norm");
}
