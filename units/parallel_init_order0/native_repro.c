#include "slu_mt_ddefs.h"
int main(int argc, char**argv){
  int n = 0;
  int colptr[] = {0};
  int rowind[] = {0};
  double val[] = {0};
  double rhs[] = {1};
  int perm_c[1], perm_r[1], info = -99;
  SuperMatrix A, L, U, B;
  dCreate_CompCol_Matrix(&A, n, n, 0, val, rowind, colptr, SLU_NC, SLU_D, SLU_GE);
  dCreate_Dense_Matrix(&B, n, 1, rhs, 1, SLU_DN, SLU_D, SLU_GE);
  fprintf(stderr, "calling get_perm_c\n");
  get_perm_c(0, &A, perm_c);
  fprintf(stderr, "calling pdgssv\n");
  pdgssv(1, &A, perm_c, perm_r, &L, &U, &B, &info);
  printf("info=%d\n", info);
  return 0;
}
