/* vocabulary for ?langs: in_norm[2] the norm letter, in_A -> in_Astore -> in_colptr[CAP+1], in_rowind[NZ], in_val[NZ]; g_ret the result.
 * Ghosts: g_k arbitrary stored position, g_m a stored position of maximal magnitude. */
#define NR in_A.nrow
#define NC in_A.ncol
#define CP(j) in_colptr[j]
#define RI(k) in_rowind[k]
#define AV(k) in_val[k]
#define ABSA(k) ABSV(AV(k))
#define INR(k) (CP(0) <= (k) && (k) < CP(NC))
#define NONEMPTY (NR > 0 && NC > 0)
#define LETTER (in_norm[0])
#define IS_M (LETTER == 'M' || LETTER == 'm')
#define IS_1 (LETTER == 'O' || LETTER == 'o' || LETTER == '1')
#define IS_I (LETTER == 'I' || LETTER == 'i')
#define IS_F (LETTER == 'F' || LETTER == 'f' || LETTER == 'E' || LETTER == 'e')
#define AMAXV (CP(0) < CP(NC) ? ABSA(g_m) : 0)
