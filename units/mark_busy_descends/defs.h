/* vocabulary for pxgstrf_mark_busy_descends.  CAP = n.  pan_status has n+1 entries, etree n, lbusy n, supno n+1, xsup n+1. */
#define RELAXED0 (in_pan[g_b0].type == RELAXED_SNODE)
/* column k lies on the e-tree path that starts at g_S and stops below jcol (g_on is pinned to exactly that set by [path_set]) */
#define ONPATH(k) (g_on[k] != 0)
/* marked by this call: the supernode/panel [g_F, g_S) and the path */
#define MARKED(k) ((g_F <= (k) && (k) < g_S) || ONPATH(k))
