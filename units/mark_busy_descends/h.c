#include "slu_mt_ddefs.h"
/* ghosts: entry value of *bcol, start g_S of the marked path, first marked column g_F, arbitrary column g_k, path set, pre-state of lbusy */
int_t g_b0, g_S, g_F, g_k, g_on[CAP + 1], g_lbusy0[CAP];
/* inputs (n = CAP) */
int_t in_pnum, in_jcol, in_bcol, in_etree[CAP], in_lbusy[CAP], in_supno[CAP + 1], in_xsup[CAP + 1];
pan_status_t in_pan[CAP + 1]; pxgstrf_shared_t in_shared; GlobalLU_t in_Glu;
void h_mark_busy(void) {
  in_shared.Glu = &in_Glu; in_shared.pan_status = in_pan; in_Glu.supno = in_supno; in_Glu.xsup = in_xsup;
  pxgstrf_mark_busy_descends(in_pnum, in_jcol, in_etree, &in_shared, &in_bcol, in_lbusy);
  __CPROVER_assert(0, "canary: mark_busy_descends returns");
  if (g_b0 >= in_jcol) __CPROVER_assert(0, "canary: no busy descendant");
  if (g_b0 < in_jcol && in_pan[g_b0].type == RELAXED_SNODE && g_S + 2 < in_jcol && g_on[g_S + 2] != 0 && in_etree[g_S] == g_S + 2) __CPROVER_assert(0, "canary: relaxed busy panel, path of at least two columns that skips one");
  if (g_b0 < in_jcol && in_pan[g_b0].type != RELAXED_SNODE && g_F + 2 <= g_b0 && g_on[g_b0] != 0) __CPROVER_assert(0, "canary: regular busy panel behind a supernode of two columns");
}
