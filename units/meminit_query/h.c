#include "slu_mt_@p@defs.h"
extern float p@p@gstrf_MemInit(int_t, int_t, superlumt_options_t *, SuperMatrix *, SuperMatrix *, GlobalLU_t *);
extern ExpHeader *@p@expanders;
_Bool nondet_bool(void);
/* ghost: allocation log */
int g_n_malloc, g_n_free, g_n_intmalloc; size_t g_malloc_bytes; void *g_exp0;
int_t g_size0, g_used0, g_top10, g_top20; GlobalLU_t g_Glu0;
extern int g_locks, g_unlocks, g_lock_inits;
int g_abort_ok;   /* set when the expander-table request (the only one the query can make) fails: MemInit then stops through the abort path */
void *superlu_malloc(size_t size) { g_n_malloc++; g_malloc_bytes = size; if (nondet_bool()) { if (g_n_malloc == 1 && g_exp0 == 0) g_abort_ok = 1; return (void*)0; } return __CPROVER_allocate(size, 0); }
void superlu_free(void *p) { g_n_free++; }
int_t *intMalloc(int_t n) { g_n_intmalloc++; return nondet_bool() ? (int_t*)0 : (int_t*)__CPROVER_allocate((size_t)n * sizeof(int_t), 0); }
/* expansion helpers: p?gstrf_expand copies old contents only when no_expand != 0, never from MemInit */
void copy_mem_int(int_t howmany, void *old, void *new) { __CPROVER_assert(0, "copy_mem_int is not reached from MemInit"); }
void user_bcopy(char *src, char *dest, int_t bytes) { __CPROVER_assert(0, "user_bcopy is not reached from MemInit"); }
/* inputs */
int_t in_n, in_annz, in_maxsuper, in_rowblk, in_fill6, in_fill7, in_fill8;
superlumt_options_t in_o; SuperMatrix in_L, in_U; SCPformat in_Lstore; NCPformat in_Ustore; GlobalLU_t in_Glu; ExpHeader in_exp[4];
int_t sp_ienv(int_t ispec) { int_t r; switch (ispec) { case 3: return in_maxsuper; case 4: return in_rowblk; case 6: return in_fill6; case 7: return in_fill7; case 8: return in_fill8; } return r; }
float g_ret;
void h_meminit_query(void) {
  in_L.Store = &in_Lstore; in_U.Store = &in_Ustore;
  g_ret = p@p@gstrf_MemInit(in_n, in_annz, &in_o, &in_L, &in_U, &in_Glu);
  __CPROVER_assert(0, "canary: MemInit (query) returns");
  if (in_o.refact == NO) __CPROVER_assert(0, "canary: query of a first factorization");
  if (in_o.refact == YES) __CPROVER_assert(0, "canary: query of a refactorization");
  if (g_n_malloc == 1) __CPROVER_assert(0, "canary: expander table created by the query");
  if (in_fill7 < 0 && in_fill6 >= 0) __CPROVER_assert(0, "canary: mixed fill factor / absolute size");
}
