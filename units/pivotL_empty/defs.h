/* vocabulary for p?gstrf_pivotL.  The harness owns the arrays (in_*), so clauses name them directly;
 * ghost scalars g_fsupc.. are bound to the supernode geometry by the requires clause [geometry].
 * Capacities: CAP columns/row ids, LC row subscripts, LUC stored values, NP threads.
 * Ghost copies g_lsub0/g_lu0 hold the pre-state. */
#define LSUB(q) in_lsub[g_lptr + (q)]
#define LSUB0(q) g_lsub0[g_lptr + (q)]
#define VAL(c,q) in_lusup[g_xf + (c)*g_nsupr + (q)]
#define VAL0(c,q) g_lu0[g_xf + (c)*g_nsupr + (q)]
#define ABS0(q) ABSV(VAL0(g_nsupc,q))
#define ISCAND(q) (g_nsupc <= (q) && (q) < g_nsupr)
#define PIVMAX ABS0(g_m)
#define PIV VAL(g_nsupc,g_nsupc)
#define DIAGIND in_inv_perm_c[jcol]
#define OLDROW g_oldrow
