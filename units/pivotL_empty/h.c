#include "slu_mt_@p@defs.h"
/* ghost pre-state copies and ghost indices (universally chosen) */
int_t g_lsub0[LC]; @T@ g_lu0[LUC]; int_t g_m, g_k, g_d, g_r, g_c, g_q, g_fsupc, g_lptr, g_nsupr, g_nsupc, g_xf, g_xj, g_oldrow, g_o; yes_no_t g_usepr0;
/* inputs */
int_t in_pnum, in_jcol; @R@ in_u; yes_no_t in_usepr; int_t in_perm_r[CAP], in_inv_perm_r[CAP], in_inv_perm_c[CAP], in_pivrow;
GlobalLU_t in_Glu; Gstat_t in_Gstat; procstat_t in_procstat[NP];
int_t in_xsup[CAP+1], in_supno[CAP+1], in_xlsub[CAP+1], in_xlsub_end[CAP], in_xlusup[CAP+1], in_lsub[LC]; @T@ in_lusup[LUC];
int_t g_ret;
void h_pivotL_empty(void) {
  in_Glu.xsup = in_xsup; in_Glu.supno = in_supno; in_Glu.xlsub = in_xlsub; in_Glu.xlsub_end = in_xlsub_end;
  in_Glu.xlusup = in_xlusup; in_Glu.lsub = in_lsub; in_Glu.lusup = in_lusup; in_Gstat.procstat = in_procstat;
  g_ret = p@p@gstrf_pivotL(in_pnum, in_jcol, in_u, &in_usepr, in_perm_r, in_inv_perm_r, in_inv_perm_c, &in_pivrow, &in_Glu, &in_Gstat);
  __CPROVER_assert(0, "canary: pivotL returns");
  
  
}
