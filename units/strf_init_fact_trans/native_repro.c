/* native witness for unit strf_init_fact_trans (C18): p?gstrf_init takes the documented inputs `fact` and `trans`
 * ("pdgstrf_init() initializes the option structure superlumt_options, using the user-input parameters") but stores neither;
 * the fields fact / trans (and ColPerm) of the structure keep whatever the caller's memory held.  An option structure prepared by
 * pdgstrf_init(..., fact = DOFACT, trans = NOTRANS, ...) and handed to the expert driver is rejected (info = -2) or, worse, is
 * interpreted according to the stale bytes (here: the bytes say FACTORED, so pdgssvx skips the factorization and solves with
 * factors that do not exist).
 * build: gcc -g -fsanitize=address,undefined -D__PTHREAD -DAdd_ -DUSE_VENDOR_BLAS -I/repo/SRC native_repro.c /repo/SRC/*.c -lblas -lpthread -lm
 * exit status: 0 = fields hold the arguments; 1 = they do not (current tree). */
#include <string.h>
#include "slu_mt_ddefs.h"
int main(void) {
  int_t n = 2, colptr[] = {0, 1, 2}, rowind[] = {0, 1}; double val[] = {2.0, 4.0};
  int_t perm_c[2] = {0, 1}, perm_r[2];
  SuperMatrix A, AC; superlumt_options_t o; Gstat_t G; int bad = 0;
  dCreate_CompCol_Matrix(&A, n, n, 2, val, rowind, colptr, SLU_NC, SLU_D, SLU_GE);
  StatAlloc(n, 1, 1, 1, &G); StatInit(n, 1, &G);
  memset(&o, 0x5a, sizeof o);                      /* what a previous use of the stack / heap left there */
  pdgstrf_init(1, DOFACT, NOTRANS, NO, 1, 1, 1.0, NO, 0.0, perm_c, perm_r, NULL, 0, &A, &AC, &o, &G);
  printf("after pdgstrf_init(fact=DOFACT(%d), trans=NOTRANS(%d)): options.fact = %d, options.trans = %d, options.ColPerm = %d\n",
         (int)DOFACT, (int)NOTRANS, (int)o.fact, (int)o.trans, (int)o.ColPerm);
  if (o.fact != DOFACT) { printf("WITNESS: options.fact does not hold the argument\n"); bad = 1; }
  if (o.trans != NOTRANS) { printf("WITNESS: options.trans does not hold the argument\n"); bad = 1; }
  {  /* consequence: the expert driver rejects (or misreads) the structure */
    double rhs[2] = {2.0, 4.0}, x[2], R[2], C[2], rpg, rcond, ferr[1], berr[1]; equed_t equed = NOEQUIL; int_t info = -99;
    SuperMatrix B, X, L, U; superlu_memusage_t mu;
    dCreate_Dense_Matrix(&B, n, 1, rhs, n, SLU_DN, SLU_D, SLU_GE); dCreate_Dense_Matrix(&X, n, 1, x, n, SLU_DN, SLU_D, SLU_GE);
    o.refact = NO;
    pxgstrf_finalize(&o, &AC);                      /* pdgssvx allocates its own */
    o.etree = intMalloc(n); o.colcnt_h = intMalloc(n); o.part_super_h = intMalloc(n);
    pdgssvx(1, &o, &A, perm_c, perm_r, &equed, R, C, &L, &U, &B, &X, &rpg, &rcond, ferr, berr, &mu, &info);
    printf("pdgssvx with the structure prepared by pdgstrf_init(DOFACT, NOTRANS): info = %d (expected 0)\n", (int)info);
    if (info != 0) bad = 1;
    else { Destroy_SuperNode_SCP(&L); Destroy_CompCol_NCP(&U); }
    Destroy_SuperMatrix_Store(&B); Destroy_SuperMatrix_Store(&X);
    SUPERLU_FREE(o.etree); SUPERLU_FREE(o.colcnt_h); SUPERLU_FREE(o.part_super_h);
  }
  StatFree(&G); Destroy_SuperMatrix_Store(&A);
  return bad;
}
