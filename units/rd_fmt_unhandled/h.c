#include "slu_mt_@p@defs.h"
/* the field as fscanf("%16c"/"%20c") leaves it: FW characters, no terminator */
char in_buf[FW]; int_t in_num, in_size, g_ret;
#if RB
/* the static copy of the parser in ?readrb.c is reached through ?readrb; libc is stubs/rb_drv_stubs.c, which delivers in_buf as the value-format field */
void @p@readrb(int_t *, int_t *, int_t *, @T@ **, int_t **, int_t **);
int_t in_nrow, in_ncol, in_nonz; @T@ *in_nzval; int_t *in_rowind, *in_colptr; extern int g_fields_delivered, g_fgets_calls;
#else
int_t @p@Parse@KIND@Format(char *, int_t *, int_t *);
#endif
void h_fmt(void) {
#if RB
  g_fields_delivered = 0; g_fgets_calls = 0;
  @p@readrb(&in_nrow, &in_ncol, &in_nonz, &in_nzval, &in_rowind, &in_colptr);
#else
  g_ret = @p@Parse@KIND@Format(in_buf, &in_num, &in_size);
#endif
  __CPROVER_assert(0, "canary: parser returns");
}
