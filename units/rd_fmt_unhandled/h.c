#include "slu_mt_@p@defs.h"
/* the field as fscanf("%16c"/"%20c") leaves it: FW characters, no terminator */
char in_buf[FW]; int_t in_num, in_size, g_ret;
int_t @p@Parse@KIND@Format(char *, int_t *, int_t *);
void h_fmt(void) {
  g_ret = @p@Parse@KIND@Format(in_buf, &in_num, &in_size);
  __CPROVER_assert(0, "canary: parser returns");
}
