/* one concrete, standard-conforming Fortran edit descriptor per variant (CASE), left-justified in the blank-padded field;
 * EXP_N / EXP_W are the repeat count and the field width the descriptor means (an omitted repeat count means 1). */
#if RB
#define B(k) buf[k]
#define NUM (*num)
#define SIZE (*size)
#define BUFOBJ buf
#else
#define B(k) in_buf[k]
#define NUM in_num
#define SIZE in_size
#define BUFOBJ in_buf
#endif
#if CASE == 1   /* (1P,5E16.8) */
#define DESCRIPTOR (B(0) == '(' && B(1) == '1' && B(2) == 'P' && B(3) == ',' && B(4) == '5' && B(5) == 'E' && B(6) == '1' && B(7) == '6' && B(8) == '.' && B(9) == '8' && B(10) == ')' && B(11) == ' ' && B(12) == ' ' && B(13) == ' ' && B(14) == ' ' && B(15) == ' ' && B(16) == ' ' && B(17) == ' ' && B(18) == ' ' && B(19) == ' ')
#define EXP_N 5
#define EXP_W 16
#endif
#if CASE == 2   /* (E16.8) */
#define DESCRIPTOR (B(0) == '(' && B(1) == 'E' && B(2) == '1' && B(3) == '6' && B(4) == '.' && B(5) == '8' && B(6) == ')' && B(7) == ' ' && B(8) == ' ' && B(9) == ' ' && B(10) == ' ' && B(11) == ' ' && B(12) == ' ' && B(13) == ' ' && B(14) == ' ' && B(15) == ' ' && B(16) == ' ' && B(17) == ' ' && B(18) == ' ' && B(19) == ' ')
#define EXP_N 1
#define EXP_W 16
#endif
#if CASE == 3   /* (1PE16.8) */
#define DESCRIPTOR (B(0) == '(' && B(1) == '1' && B(2) == 'P' && B(3) == 'E' && B(4) == '1' && B(5) == '6' && B(6) == '.' && B(7) == '8' && B(8) == ')' && B(9) == ' ' && B(10) == ' ' && B(11) == ' ' && B(12) == ' ' && B(13) == ' ' && B(14) == ' ' && B(15) == ' ' && B(16) == ' ' && B(17) == ' ' && B(18) == ' ' && B(19) == ' ')
#define EXP_N 1
#define EXP_W 16
#endif
#if CASE == 4   /* (5G16.8) */
#define DESCRIPTOR (B(0) == '(' && B(1) == '5' && B(2) == 'G' && B(3) == '1' && B(4) == '6' && B(5) == '.' && B(6) == '8' && B(7) == ')' && B(8) == ' ' && B(9) == ' ' && B(10) == ' ' && B(11) == ' ' && B(12) == ' ' && B(13) == ' ' && B(14) == ' ' && B(15) == ' ' && B(16) == ' ' && B(17) == ' ' && B(18) == ' ' && B(19) == ' ')
#define EXP_N 5
#define EXP_W 16
#endif
#if CASE == 5   /* (I8) */
#define DESCRIPTOR (B(0) == '(' && B(1) == 'I' && B(2) == '8' && B(3) == ')' && B(4) == ' ' && B(5) == ' ' && B(6) == ' ' && B(7) == ' ' && B(8) == ' ' && B(9) == ' ' && B(10) == ' ' && B(11) == ' ' && B(12) == ' ' && B(13) == ' ' && B(14) == ' ' && B(15) == ' ')
#define EXP_N 1
#define EXP_W 8
#endif
#if CASE == 6   /* (kPE16.8), k any digit: scale factor present, repeat count omitted (seed C20c) */
#define DESCRIPTOR (B(0) == '(' && ('0' <= B(1) && B(1) <= '9') && B(2) == 'P' && B(3) == 'E' && B(4) == '1' && B(5) == '6' && B(6) == '.' && B(7) == '8' && B(8) == ')' && B(9) == ' ' && B(10) == ' ' && B(11) == ' ' && B(12) == ' ' && B(13) == ' ' && B(14) == ' ' && B(15) == ' ' && B(16) == ' ' && B(17) == ' ' && B(18) == ' ' && B(19) == ' ')
#define EXP_N 1
#define EXP_W 16
#endif
#if CASE == 7   /* (kP,D24.12), k any digit */
#define DESCRIPTOR (B(0) == '(' && ('0' <= B(1) && B(1) <= '9') && B(2) == 'P' && B(3) == ',' && B(4) == 'D' && B(5) == '2' && B(6) == '4' && B(7) == '.' && B(8) == '1' && B(9) == '2' && B(10) == ')' && B(11) == ' ' && B(12) == ' ' && B(13) == ' ' && B(14) == ' ' && B(15) == ' ' && B(16) == ' ' && B(17) == ' ' && B(18) == ' ' && B(19) == ' ')
#define EXP_N 1
#define EXP_W 24
#endif
#if CASE == 8   /* (kP,nE16.8), k any digit, n in 1..9 */
#define DESCRIPTOR (B(0) == '(' && ('0' <= B(1) && B(1) <= '9') && B(2) == 'P' && B(3) == ',' && ('1' <= B(4) && B(4) <= '9') && B(5) == 'E' && B(6) == '1' && B(7) == '6' && B(8) == '.' && B(9) == '8' && B(10) == ')' && B(11) == ' ' && B(12) == ' ' && B(13) == ' ' && B(14) == ' ' && B(15) == ' ' && B(16) == ' ' && B(17) == ' ' && B(18) == ' ' && B(19) == ' ')
#define EXP_N (B(4) - '0')
#define EXP_W 16
#endif
#if CASE == 9   /* (kPnF13.6), k any digit, n in 1..9 */
#define DESCRIPTOR (B(0) == '(' && ('0' <= B(1) && B(1) <= '9') && B(2) == 'P' && ('1' <= B(3) && B(3) <= '9') && B(4) == 'F' && B(5) == '1' && B(6) == '3' && B(7) == '.' && B(8) == '6' && B(9) == ')' && B(10) == ' ' && B(11) == ' ' && B(12) == ' ' && B(13) == ' ' && B(14) == ' ' && B(15) == ' ' && B(16) == ' ' && B(17) == ' ' && B(18) == ' ' && B(19) == ' ')
#define EXP_N (B(3) - '0')
#define EXP_W 13
#endif
