#include "slu_mt_@p@defs.h"
#include "wf.h"
#include "defs.h"
/* ghosts: ghost segment / list position / row id / lusup index / tempv index; pre-state copies; BLAS and allocator call records */
int_t g_s, g_q, g_r, g_p, g_t; @T@ g_dense0[CAP], g_lu0[LUC]; struct blas_rec g_blas; int g_alloc_calls, g_argbad;
/* per-segment blocks of the DEFINITION (bound to TRI_OFF.. by the requires clause [ghost_blocks]; keeps the stub assertions free of index arithmetic) */
int_t g_isblas[CAP], g_tri[CAP], g_rect[CAP], g_segsz[CAP], g_rows[CAP], g_lda[CAP];
/* inputs */
int_t in_pnum, in_jcol, in_fpanelc, in_nseg, in_n, in_alloc_pos, in_alloc_fails, in_memerr;
int_t in_segrep[CAP], in_repfnz[CAP]; @T@ in_dense[CAP], in_tempv[CAP];
pxgstrf_shared_t in_sh; GlobalLU_t in_Glu; Gstat_t in_Gstat; procstat_t in_procstat[NP];
int_t in_xsup[CAP+1], in_supno[CAP+1], in_xlsub[CAP+1], in_xlsub_end[CAP], in_xlusup[CAP+1], in_xlusup_end[CAP], in_lsub[LC]; @T@ in_lusup[LUC];
int_t g_ret;
@T@ nondet_@T@(void);
#define REP8(X) X(0) X(1) X(2) X(3) X(4) X(5) X(6) X(7)
_Static_assert(CAP <= 8, "REP8 covers every extent");

/* Glu_alloc(LUSUP) by contract (real routine: unit glu_alloc_lusup): hands out the next nsupr-long slot of jcol's supernode region.
 * Where that slot lies is an INPUT here (in_alloc_pos), constrained by the requires clauses [slot_inside_lusup], [slot_follows_columns]. */
int_t Glu_alloc(const int_t pnum, const int_t jcol, const int_t num, const MemType mem_type, int_t *prev_next, pxgstrf_shared_t *sh) {
  g_alloc_calls++;
  if (pnum != in_pnum || jcol != in_jcol || mem_type != LUSUP || sh != &in_sh || num != JNSUPR) g_argbad = 1;
  if (in_alloc_fails) return in_memerr;
  *prev_next = in_alloc_pos;
  return 0;
}

/* BLAS xTRSV as an argument-recording contract: x := inv(A)*x, A n-by-n unit lower triangular, leading dimension lda */
int @p@trsv_(char *uplo, char *trans, char *diag, int *n, @T@ *A, int *lda, @T@ *x, int *incx) {
  long aoff = A - in_lusup; int x_in_lusup = __CPROVER_POINTER_OBJECT(x) == __CPROVER_POINTER_OBJECT(in_lusup);
  long xoff = x_in_lusup ? x - in_lusup : x - in_tempv;
  if (g_blas.trsv_calls != g_blas.gemv_calls) g_blas.order_bad = 1;
  g_blas.trsv_calls++;
  __CPROVER_assert(*uplo == 'L' && *trans == 'N' && *diag == 'U' && *incx == 1, "trsv: lower, no transpose, unit diagonal, stride 1");
  __CPROVER_assert(*n >= 0 && *lda >= 1 && *lda >= *n, "trsv: legal BLAS arguments (n >= 0, lda >= max(1,n))");
  __CPROVER_assert(0 <= aoff && (*n == 0 || aoff + (long)*lda*(*n - 1) + *n <= in_Glu.nzlumax), "trsv: extent of A inside lusup");
  __CPROVER_assert(x_in_lusup || __CPROVER_POINTER_OBJECT(x) == __CPROVER_POINTER_OBJECT(in_tempv), "trsv: x points into tempv or lusup");
  __CPROVER_assert(0 <= xoff && xoff + *n <= (x_in_lusup ? in_Glu.nzlumax : CAP), "trsv: extent of x inside its array");
  if (!x_in_lusup) {   /* a sup-col update inside the segment loop: must be the block some outside segment is defined on */
    __CPROVER_assert(x == in_tempv, "trsv(segment): x = tempv");
    __CPROVER_assert(EX(qa, CAP, g_isblas[qa] && aoff == g_tri[qa] && *n == g_segsz[qa] && *lda == g_lda[qa]), "trsv(segment): A = diagonal block rows/columns kfnz..krep of an updating supernode");
    if (g_isblas[g_s] && aoff == g_tri[g_s] && *n == g_segsz[g_s] && *lda == g_lda[g_s]) g_blas.seg_trsv++;
  }
  g_blas.trsv_aoff = aoff; g_blas.trsv_xoff = xoff; g_blas.trsv_n = *n; g_blas.trsv_lda = *lda; g_blas.last_x_in_lusup = x_in_lusup;
#define HAVOC_X(k) if ((k) < *n) x[k] = nondet_@T@();
  REP8(HAVOC_X)
  return 0;
}
/* BLAS xGEMV: y := alpha*A*x + beta*y, A m-by-n, leading dimension lda */
int @p@gemv_(char *trans, int *m, int *n, @T@ *alpha, @T@ *A, int *lda, @T@ *x, int *incx, @T@ *beta, @T@ *y, int *incy) {
  long aoff = A - in_lusup; int x_in_lusup = __CPROVER_POINTER_OBJECT(x) == __CPROVER_POINTER_OBJECT(in_lusup);
  long xoff = x_in_lusup ? x - in_lusup : x - in_tempv, yoff = x_in_lusup ? y - in_lusup : y - in_tempv;
  if (g_blas.trsv_calls != g_blas.gemv_calls + 1) g_blas.order_bad = 1;
  g_blas.gemv_calls++;
  __CPROVER_assert(*trans == 'N' && *incx == 1 && *incy == 1, "gemv: no transpose, strides 1");
  __CPROVER_assert(*m >= 0 && *n >= 0 && *lda >= 1 && *lda >= *m, "gemv: legal BLAS arguments (m, n >= 0, lda >= max(1,m))");
  __CPROVER_assert(0 <= aoff && (*n == 0 || *m == 0 || aoff + (long)*lda*(*n - 1) + *m <= in_Glu.nzlumax), "gemv: extent of A inside lusup");
  __CPROVER_assert(__CPROVER_POINTER_OBJECT(y) == __CPROVER_POINTER_OBJECT(x) && (x_in_lusup || __CPROVER_POINTER_OBJECT(x) == __CPROVER_POINTER_OBJECT(in_tempv)), "gemv: x, y point into the same array (tempv or lusup)");
  __CPROVER_assert(0 <= xoff && xoff + *n <= yoff && yoff + *m <= (x_in_lusup ? in_Glu.nzlumax : CAP), "gemv: x then y, disjoint, inside their array");
  if (!x_in_lusup) {
    __CPROVER_assert(*alpha == 1.0 && *beta == 0.0, "gemv(segment): alpha = 1, beta = 0 (tempv1 := A*x)");
    __CPROVER_assert(x == in_tempv && y == in_tempv + *n, "gemv(segment): x = tempv[0..segsze), y = tempv + segsze");
    __CPROVER_assert(EX(qb, CAP, g_isblas[qb] && aoff == g_rect[qb] && *n == g_segsz[qb] && *m == g_rows[qb] && *lda == g_lda[qb]), "gemv(segment): A = rows below krep, columns kfnz..krep of an updating supernode");
    if (g_isblas[g_s] && aoff == g_rect[g_s] && *n == g_segsz[g_s] && *m == g_rows[g_s] && *lda == g_lda[g_s]) g_blas.seg_gemv++;
  } else {
    __CPROVER_assert(*alpha == -1.0 && *beta == 1.0, "gemv(own supernode): alpha = -1, beta = 1 (y := y - A*x)");
  }
  g_blas.gemv_aoff = aoff; g_blas.gemv_xoff = xoff; g_blas.gemv_yoff = yoff; g_blas.gemv_m = *m; g_blas.gemv_n = *n; g_blas.gemv_lda = *lda;
#define HAVOC_Y(k) if ((k) < *m) y[k] = nondet_@T@();
  REP8(HAVOC_Y)
  return 0;
}

void h_column_bmod(void) {
  in_sh.Glu = &in_Glu; in_sh.Gstat = &in_Gstat; in_Gstat.procstat = in_procstat;
  in_Glu.xsup = in_xsup; in_Glu.supno = in_supno; in_Glu.lsub = in_lsub; in_Glu.xlsub = in_xlsub; in_Glu.xlsub_end = in_xlsub_end;
  in_Glu.lusup = in_lusup; in_Glu.xlusup = in_xlusup; in_Glu.xlusup_end = in_xlusup_end;
  g_ret = p@p@gstrf_column_bmod(in_pnum, in_jcol, in_fpanelc, in_nseg, in_segrep, in_repfnz, in_dense, in_tempv, &in_sh, &in_Gstat);
  __CPROVER_assert(0, "canary: column_bmod returns");
  if (g_ret != 0) __CPROVER_assert(0, "canary: allocation error returned");
  if (g_ret == 0 && g_blas.trsv_calls >= 2 && !g_blas.order_bad) __CPROVER_assert(0, "canary: a sup-col segment update and the own-supernode update");
  if (g_ret == 0 && BLASSEG(g_s) && KF(g_s) < in_fpanelc && in_repfnz[KREP(g_s)] < in_fpanelc) __CPROVER_assert(0, "canary: updating supernode starts left of the panel, segment clipped");
  if (g_ret == 0 && BLASSEG(g_s) && KFNZ(g_s) > MAXI(KF(g_s), in_fpanelc)) __CPROVER_assert(0, "canary: segment with leading zeros (no_zeros > 0)");
  if (g_ret == 0 && in_nseg >= 2 && OUTSIDE(0) && OUTSIDE(1) && SEGSZE(0) == 1 && SEGSZE(1) == 3) __CPROVER_assert(0, "canary: unrolled cases 1 and 3");
  if (g_ret == 0 && JF < in_fpanelc && in_fpanelc < in_jcol) __CPROVER_assert(0, "canary: own supernode starts left of the panel");
  if (g_ret == 0 && JFST < in_jcol && JSLOT + JNSUPR == in_Glu.nzlumax && in_Glu.nzlumax == LUC) __CPROVER_assert(0, "canary: own slot ends exactly at nzlumax = capacity");
}
