/* vocabulary for p?gstrf_column_bmod (sup-col updates of column jcol by the segments found inside the current panel, then the
 * update of jcol by the earlier columns of its own supernode).
 * Capacities: CAP columns = rows, LC row subscripts, LUC stored values of L (in_Glu.nzlumax <= LUC in use), NP threads.
 * Column c belongs to the supernode starting at SUPF(c); all columns of a supernode share the row list [LPTR(c), LPTR(c)+NSUPR(c));
 * column c's values start at in_xlusup[c], leading dimension NSUPR(c).
 * Segment q (0 <= q < nseg, processing order = reverse of segrep[]) has representative KREP(q); it is "outside" when it is not in
 * jcol's own supernode.  The panel starts at fpanelc: the parts of a supernode left of the panel were applied by panel_bmod. */
#define MAXI(a,b) ((a) > (b) ? (a) : (b))
#define SUPF(c)   in_xsup[in_supno[c]]
#define LPTR(c)   in_xlsub[SUPF(c)]
#define NSUPR(c)  (in_xlsub_end[SUPF(c)] - in_xlsub[SUPF(c)])
#define JSUP      in_supno[in_jcol]
#define JF        in_xsup[JSUP]                       /* first column of jcol's supernode */
#define JLPTR     in_xlsub[JF]
#define JNSUPR    (in_xlsub_end[JF] - in_xlsub[JF])
#define JFST      MAXI(JF, in_fpanelc)               /* first column of jcol's supernode that updates jcol here */
#define KREP(q)   in_segrep[in_nseg - 1 - (q)]
#define OUTSIDE(q) (in_supno[KREP(q)] != JSUP)
#define KF(q)     SUPF(KREP(q))
#define KFNZ(q)   MAXI(in_repfnz[KREP(q)], in_fpanelc) /* first column of the segment that lies in the panel */
#define SEGSZE(q) (KREP(q) - KFNZ(q) + 1)
#define BLASSEG(q) (0 <= (q) && (q) < in_nseg && OUTSIDE(q) && SEGSZE(q) >= 4)
/* DEFINITION of the blocks (independent of the routine's pointer arithmetic): the segment covers supernode columns KFNZ..KREP;
 * column KFNZ is stored from in_xlusup[KFNZ], its diagonal entry is at list position KFNZ - KF */
#define TRI_OFF(q)  (in_xlusup[KFNZ(q)] + (KFNZ(q) - KF(q)))
#define RECT_OFF(q) (in_xlusup[KFNZ(q)] + (KREP(q) + 1 - KF(q)))
#define RECT_ROWS(q) (NSUPR(KREP(q)) - (KREP(q) + 1 - KF(q)))
/* jcol's own slot (handed out by Glu_alloc(LUSUP)): in_alloc_pos .. + JNSUPR */
#define JSLOT in_alloc_pos
#define INJLIST(p) (JLPTR <= (p) && (p) < JLPTR + JNSUPR)
#define QPOS (g_q < JNSUPR ? JLPTR + g_q : 0)
#define QROW in_lsub[QPOS]
#define QSLOT (g_q < JNSUPR ? JSLOT + g_q : 0)
#ifndef SPEC_EXPAND
struct blas_rec { int trsv_calls, gemv_calls, seg_trsv, seg_gemv, order_bad; long trsv_aoff, trsv_xoff, gemv_aoff, gemv_xoff, gemv_yoff; int trsv_n, trsv_lda, gemv_m, gemv_n, gemv_lda, last_x_in_lusup; };
#endif
