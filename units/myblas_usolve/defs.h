/* vocabulary for ?usolve (SRC/?myblas2.c): rhs[0..ncol) := inv(upper(M(0:ncol,0:ncol))) * rhs, diagonal included, M column-major, leading dimension ldm.
 * Inputs: in_ldm, in_ncol.  M and rhs are objects of EXACTLY the extent the routine may touch (allocated by the harness with a symbolic
 * size: g_Mobj has UEND entries, g_robj has ncol entries), so any access outside that extent leaves the object, for every ncol and ldm.
 * g_p an arbitrary (universally chosen) position of rhs, g_v0 its value on entry. */
#define N in_ncol
#define LD in_ldm
/* what ?usolve may READ of M: M[0] .. M[(ncol-1)*ldm + ncol-1] (last entry: the diagonal of the last column) */
#define UEND (N >= 1 ? (N - 1) * LD + N : 0)
#define INSIDE(p) (0 <= (p) && (p) < N)
#define ISNAN(v) ((v) != (v))
#if CPLX
#define POIS(v) (ISNAN((v).r) || ISNAN((v).i))
#else
#define POIS(v) ISNAN(v)
#endif
/* carried by both loops: an entry that is NaN on entry is NaN ever after */
#define FRAME_INV ((INSIDE(g_p) && g_nan0) ==> POIS(g_robj[INSIDE(g_p) ? g_p : 0]))
