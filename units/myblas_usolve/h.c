#include "slu_mt_@p@defs.h"
#include "defs.h"
/* Harness of unit myblas_usolve: the REAL ?usolve of SRC/?myblas2.c on a symbolic block.  inputs in_*, ghosts g_*. */
int_t in_ldm, in_ncol;
@T@ *g_Mobj, *g_robj; int_t g_p; int g_nan0;
void *malloc(__CPROVER_size_t);
void h_usolve(void) {
  __CPROVER_assume(0 <= in_ncol && in_ncol <= CAP && in_ncol <= in_ldm && in_ldm <= LDMAX);    /* repeated as clause [dims]; here so that the sizes below do not wrap */
  g_Mobj = malloc((__CPROVER_size_t)UEND * sizeof(@T@));       /* contents arbitrary */
  g_robj = malloc((__CPROVER_size_t)N * sizeof(@T@));
  __CPROVER_assume(g_Mobj != 0 && g_robj != 0);
  @p@usolve(in_ldm, in_ncol, g_Mobj, g_robj);
  __CPROVER_assert(0, "canary: usolve returns");
  if (in_ncol == 0) __CPROVER_assert(0, "canary: ncol 0");
  if (in_ncol == 1) __CPROVER_assert(0, "canary: ncol 1");
  if (in_ncol == CAP && in_ldm == LDMAX) __CPROVER_assert(0, "canary: largest block");
  if (in_ncol == 9 && in_ldm == 9) __CPROVER_assert(0, "canary: ncol 9, ldm == ncol");
  if (INSIDE(g_p) && g_nan0 && in_ncol > 3) __CPROVER_assert(0, "canary: a NaN in rhs on entry");
}
