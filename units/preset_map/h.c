#include <stdlib.h>
#include "slu_mt_@p@defs.h"
/* BOUNDED unit (label B(n)): the real ?PresetMap (static storage image of the L supernodes in lusup[]) is executed symbolically for every
 * 1 <= n <= NMAX <= CAP, every partition of 0..n-1 into H-supernodes (part_super_h), every valid list of relaxed supernodes, every colcnt_h >= 1,
 * every column structure of A with at most COLLEN entries per column, in the static (DYN=0) and the dynamic (DYN=1) scheme.
 * The result is compared with the definition of the slot layout written down here (not with a copy of the routine):
 *   a SLOT starts at column 0; a slot starting at s is
 *     - relaxed, if s is the first column of a relaxed supernode [s, last): it extends to e = the first H-supernode start >= last;
 *       rows = number of distinct rows of A(:, s..last-1); it reserves size*rows + (e-last)*max(rows, colcnt_h[k]) values, where k is the
 *       start of the H-supernode containing column last-1 (the e-last trailing columns have part_super_h == 0 and therefore allocate out of
 *       this slot through their negative map_in_sup offset) -- in BOTH schemes;
 *     - otherwise an H-supernode [s, e = s + part_super_h[s]): it reserves (e-s)*colcnt_h[s] values in the static scheme, nothing in the dynamic one.
 *   Slots are laid out back to back from position 0. */
int_t nondet_int_t(void);
int_t in_n; pxgstrf_relax_t in_relax[CAP+2]; int_t in_colcnt[CAP], in_super_bnd[CAP];
SuperMatrix in_A; NCPformat in_Astore; int_t in_rowind[NNZ], in_colbeg[CAP], in_colend[CAP];
superlumt_options_t in_o; GlobalLU_t in_Glu;
int_t g_sb0[CAP], g_sb1[CAP], g_map[CAP+1], g_colcnt0[CAP], g_ret, g_nslots, g_relaxed_slots, g_straddle, g_split, g_c, g_maxpos, g_colcnt_wins, g_rows_win;
int g_argbad;

/* ---- callees: executable contracts ---- */
char *getenv(const char *name) { return DYN ? "1" : (char *) 0; }   /* SuperLU_DYNAMIC_SNODE_STORE set / unset (one variant each) */
int_t sp_ienv(int_t ispec) { if (ispec != 3) g_argbad = 1; return MAXSUP; }
/* intMalloc / intCalloc (SRC/pmemory.c): exact-size heap blocks (an overrun is out of bounds), a failed allocation exits.
 * One allocation site per size: heap objects of symbolic size make the SAT back end run out of memory. */
static int_t *block(int_t n, int zero) {
  int_t *p = 0, i;
  switch (n) {
    case 1: p = malloc(1 * sizeof(int_t)); break;  case 2: p = malloc(2 * sizeof(int_t)); break;  case 3: p = malloc(3 * sizeof(int_t)); break;
    case 4: p = malloc(4 * sizeof(int_t)); break;  case 5: p = malloc(5 * sizeof(int_t)); break;  case 6: p = malloc(6 * sizeof(int_t)); break;
    case 7: p = malloc(7 * sizeof(int_t)); break;
    default: __CPROVER_assert(0, "allocator model: size within the modelled range");
  }
  __CPROVER_assume(p != (int_t *) 0);
  if (zero) for (i = 0; i < CAP + 1; i++) if (i < n) p[i] = 0;
  return p;
}
int_t *intMalloc(int_t n) { if (n != in_n) g_argbad = 1; return block(n, 0); }
int_t *intCalloc(int_t n) { if (n != in_n + 1) g_argbad = 1; return block(n, 1); }
void ifill(int_t *a, int_t alen, int_t ival) { int_t i; for (i = 0; i < CAP; i++) if (i < alen) a[i] = ival; }

static int_t small(void) { return nondet_int_t() & 7; }
static int_t small4(void) { return nondet_int_t() & 15; }
static int is_head(int_t c) { return g_sb1[c] != 0; }

void h_preset_map(void) {
  int_t c, r, p, q, t, pos, nrs, s, last, e, k, rows, size, W, first, reserve, rsi, found, slot_of;
  /* ---------- inputs ---------- (small non-negative numbers are built from 3 resp. 4 nondeterministic bits: the upper bits are then constants
   * for the bit-level encoding and the products formed by the routine stay small circuits; the ranges are narrowed by the assumptions below) */
  in_n = small();
  for (c = 0; c < CAP; c++) { in_colcnt[c] = small(); in_super_bnd[c] = small(); in_colbeg[c] = small4(); in_colend[c] = small4(); }
  for (c = 0; c < CAP + 2; c++) { in_relax[c].fcol = small(); in_relax[c].size = small(); }
  for (p = 0; p < NNZ; p++) in_rowind[p] = small();
  in_A.Stype = SLU_NCP; in_A.nrow = in_n; in_A.ncol = in_n; in_A.Store = &in_Astore;
  in_Astore.rowind = in_rowind; in_Astore.colbeg = in_colbeg; in_Astore.colend = in_colend; in_Astore.nnz = NNZ; in_Astore.nzval = 0;
  in_o.colcnt_h = in_colcnt; in_o.part_super_h = in_super_bnd;
  in_Glu.map_in_sup = 0; in_Glu.nextlu = nondet_int_t(); in_Glu.dynamic_snode_bound = nondet_int_t() ? YES : NO;

  /* ---------- valid inputs ---------- */
  __CPROVER_assume(1 <= in_n && in_n <= NMAX);      /* NMAX <= CAP: bound of the variant */
  /* part_super_h: size at the first column of each H-supernode, 0 elsewhere; the supernodes partition 0..n-1 */
  pos = 0;
  for (c = 0; c < CAP; c++) if (c < in_n) {
    if (c == pos) { __CPROVER_assume(1 <= in_super_bnd[c] && in_super_bnd[c] <= in_n - c); pos += in_super_bnd[c]; }
    else __CPROVER_assume(in_super_bnd[c] == 0);
  }
  for (c = 0; c < CAP; c++) if (c < in_n) __CPROVER_assume(1 <= in_colcnt[c] && in_colcnt[c] <= CAP);
  /* relaxed supernodes as pxgstrf_relax_snode returns them: [0].size = their number, disjoint increasing column ranges, sentinel fcol = n;
   * each begins at the first column of an H-supernode (a relaxed supernode begins at a leaf of the etree) */
  nrs = in_relax[0].size;
  __CPROVER_assume(0 <= nrs && nrs <= in_n);
  pos = 0;
  for (r = 1; r <= CAP; r++) if (r <= nrs) {
    __CPROVER_assume(pos <= in_relax[r].fcol && in_relax[r].fcol < in_n && 1 <= in_relax[r].size && in_relax[r].size <= in_n - in_relax[r].fcol);
    __CPROVER_assume(in_super_bnd[in_relax[r].fcol] != 0);
    pos = in_relax[r].fcol + in_relax[r].size;
  }
  __CPROVER_assume(in_relax[nrs + 1].fcol == in_n);
  /* A: column extents inside rowind[], row indices < n, short columns (bound of this unit) */
  for (c = 0; c < CAP; c++) if (c < in_n) __CPROVER_assume(0 <= in_colbeg[c] && in_colbeg[c] <= in_colend[c] && in_colend[c] <= NNZ && in_colend[c] - in_colbeg[c] <= COLLEN);
  for (p = 0; p < NNZ; p++) __CPROVER_assume(0 <= in_rowind[p] && in_rowind[p] < in_n);
  for (c = 0; c < CAP; c++) { g_sb0[c] = in_super_bnd[c]; g_colcnt0[c] = in_colcnt[c]; }
  g_argbad = 0;

  g_ret = @p@PresetMap(in_n, &in_A, in_relax, &in_o, &in_Glu);

  for (c = 0; c < CAP; c++) g_sb1[c] = in_super_bnd[c];
  for (c = 0; c <= CAP; c++) if (c <= in_n) g_map[c] = in_Glu.map_in_sup[c];
  free(in_Glu.map_in_sup);                 /* the only allocation that may be live (--memory-leak-check): marker[] must have been freed */

  /* ---------- results ---------- */
  __CPROVER_assert(g_argbad == 0, "callees get the documented arguments");
  __CPROVER_assert(in_Glu.dynamic_snode_bound == (DYN ? YES : NO), "storage scheme follows the environment variable");
  for (c = 0; c < CAP; c++) if (c < in_n) __CPROVER_assert(in_colcnt[c] == g_colcnt0[c], "colcnt_h not modified");
  /* (1) H-supernodes wider than maxsuper are split: first piece W mod maxsuper (maxsuper if 0), then pieces of maxsuper; others untouched */
  g_split = 0;
  for (c = 0; c < CAP; c++) if (c < in_n && g_sb0[c] != 0) {
    W = g_sb0[c];
    if (W > MAXSUP) { first = W % MAXSUP; if (first == 0) first = MAXSUP; g_split = 1; } else first = W;
    for (t = 0; t < CAP; t++) if (t < W)
      __CPROVER_assert(g_sb1[c + t] == (t == 0 ? first : ((t - first) % MAXSUP == 0 ? MAXSUP : 0)), "part_super_h after splitting: pieces of at most maxsuper columns covering the old supernode");
  }
  /* (2) slot layout */
  pos = 0; s = 0; rsi = 1; g_nslots = 0; g_relaxed_slots = 0; g_straddle = 0; g_colcnt_wins = 0; g_rows_win = 0; g_maxpos = 0;
  g_c = nondet_int_t(); __CPROVER_assume(0 <= g_c && g_c < in_n); slot_of = -1;
  for (q = 0; q < CAP; q++) if (s < in_n) {
    __CPROVER_assert(is_head(s), "a slot starts at the first column of an H-supernode");
    if (rsi <= nrs && in_relax[rsi].fcol == s) {
      size = in_relax[rsi].size; last = s + size; rsi++; g_relaxed_slots++;
      rows = 0;
      for (r = 0; r < CAP; r++) if (r < in_n) {
        found = 0;
        for (c = 0; c < CAP; c++) if (s <= c && c < last) for (p = 0; p < NNZ; p++) if (in_colbeg[c] <= p && p < in_colend[c] && in_rowind[p] == r) found = 1;
        rows += found;
      }
      e = last; k = s;
      for (c = 0; c < CAP; c++) if (c < in_n) { if (is_head(c) && s <= c && c < last) k = c; }
      for (c = CAP - 1; c >= 0; c--) if (c < in_n && c >= last && is_head(c)) e = c;
      if (e == last && !(last < in_n && is_head(last))) e = in_n;     /* no H-supernode starts at or after last */
      if (e > last) { g_straddle = 1; if (g_colcnt0[k] > rows) g_colcnt_wins = 1; if (rows > g_colcnt0[k]) g_rows_win = 1; }
      reserve = size * rows + (e - last) * (rows > g_colcnt0[k] ? rows : g_colcnt0[k]);
      __CPROVER_assert(g_map[s] == pos, "relaxed slot starts where the previous slot ends (both schemes)");
    } else {
      e = s + g_sb1[s];
      reserve = DYN ? 0 : (e - s) * g_colcnt0[s];
      __CPROVER_assert(g_map[s] == (DYN ? 0 : pos), "H-supernode slot: starts where the previous slot ends (static scheme); left 0 for DynamicSetMap (dynamic scheme)");
    }
    __CPROVER_assert(s < e && e <= in_n, "slot is a non-empty column range");
    for (t = 1; t < CAP; t++) if (s + t < e) __CPROVER_assert(g_map[s + t] == -t, "inside a slot map_in_sup[s+t] == -t (Glu_alloc(LUSUP) finds the leader)");
    if (s <= g_c && g_c < e) slot_of = s;
    /* end of this slot = start of the next one; re-based on the routine's own start of this slot (equal to pos by the assertion just made),
     * so that every obligation compares one reserved size only */
    if (!DYN || reserve != 0 || g_map[s] != 0) pos = g_map[s] + reserve;
    s = e; g_nslots++;
    __CPROVER_assert(pos >= g_maxpos, "slot starts are non-decreasing, slots do not overlap"); g_maxpos = pos;
  }
  __CPROVER_assert(s == in_n, "slots cover all columns");
  __CPROVER_assert(rsi == nrs + 1, "every relaxed supernode heads a slot");
  __CPROVER_assert(g_ret == pos, "return value: end of the last slot (static: all slots; dynamic: relaxed slots only)");
  if (DYN) __CPROVER_assert(in_Glu.nextlu == pos && g_map[in_n] == 0, "dynamic scheme: nextlu = end of the relaxed slots");
  else __CPROVER_assert(g_map[in_n] == pos, "static scheme: map_in_sup[n] = end of the last slot");
  __CPROVER_assert(slot_of == (g_map[g_c] < 0 ? g_c + g_map[g_c] : g_c) && g_map[slot_of] >= 0, "leader lookup of Glu_alloc(LUSUP) lands on the start of the column's slot");

  /* ---------- canaries ---------- */
  __CPROVER_assert(0, "canary: PresetMap returns");
  if (g_straddle) __CPROVER_assert(0, "canary: an H-supernode extends past the end of a relaxed supernode");
  if (g_colcnt_wins) __CPROVER_assert(0, "canary: trailing columns reserved with colcnt_h > rows of the relaxed supernode");
  if (g_rows_win) __CPROVER_assert(0, "canary: trailing columns reserved with rows of the relaxed supernode > colcnt_h");
  if (g_split && in_n == NMAX && g_sb0[0] == NMAX) __CPROVER_assert(0, "canary: one H-supernode of full width is split");
  if (g_nslots >= 3 && g_relaxed_slots >= 1 && g_relaxed_slots < g_nslots) __CPROVER_assert(0, "canary: relaxed and H-supernode slots mixed");
  if (in_n == 1) __CPROVER_assert(0, "canary: order 1");
  if (nrs == 0) __CPROVER_assert(0, "canary: no relaxed supernode");
}
