#include "slu_mt_ddefs.h"
#include <stdlib.h>
/* BOUNDED unit (label B(n)): the real getata (SRC/get_perm_c.c) is executed symbolically, loops unwound, for EVERY m x n column
 * structure with m = ROWS, n = CAP (one run per shape: variants) and at most NZ stored subscripts: 0 <= colptr[0] <= ... <= colptr[n] <= nz,
 * rows in [0,m), columns unsorted, repeated subscripts allowed, nz >= colptr[n] arbitrary (<= NZ).
 * ORACLE (brute force, computed here):  M[k][j] = "column j of A stores row k";  B[i][j] = (i != j) && exists k: M[k][i] && M[k][j].
 * Checked after the call: (colptr', rowind', atanz) is a well-formed column structure whose column j holds every i with B[i][j] exactly
 * once and nothing else (hence symmetric); atanz = number of such pairs; A is not written; *ata_rowind is not written when atanz == 0;
 * only the results stay allocated; a refused allocation never comes back (stubs/slu_alloc_mayfail_stub.c). */
#define D (CAP > 0 ? CAP : 1)
#define DM (ROWS > 0 ? ROWS : 1)
#define DZ (NZ > 0 ? NZ : 1)
#define BZ (D * D)
extern int g_n_malloc, g_n_free, g_alloc_failed;
int_t in_m, in_n, in_nz, in_colptr[D + 1], in_rowind[DZ];
int_t g_colptr0[D + 1], g_rowind0[DZ];
int_t in_bnz, *in_b_colptr, *in_b_rowind, *g_b_rowind0;
int_t nondet_int_t(void);
extern void superlu_free(void *);
extern void getata(const int_t, const int_t, const int_t, int_t *, int_t *, int_t *, int_t **, int_t **);
void h_getata(void) {
  int_t i, j, k, p, q, total;
  _Bool M[DM][D], B[D][D];
  int_t sentinel;
  in_m = ROWS; in_n = CAP;
  in_nz = nondet_int_t();
  for (j = 0; j <= D; j++) in_colptr[j] = nondet_int_t();
  for (p = 0; p < DZ; p++) in_rowind[p] = nondet_int_t();
  in_bnz = nondet_int_t();
  in_b_colptr = (int_t *) 0;
  in_b_rowind = g_b_rowind0 = &sentinel;        /* get_perm_c passes the address of an uninitialised local; any value */
  g_n_malloc = 0; g_n_free = 0; g_alloc_failed = 0;
  __CPROVER_assume(0 <= in_nz && in_nz <= NZ);
  __CPROVER_assume(0 <= in_colptr[0]);
  for (j = 0; j < CAP; j++) __CPROVER_assume(in_colptr[j] <= in_colptr[j + 1]);
  __CPROVER_assume(in_colptr[CAP] <= in_nz);
#if ROWS == 0      /* no row: no subscript can be stored */
  __CPROVER_assume(in_colptr[0] == in_colptr[CAP]);
#endif
#if STRICT   /* the shape every NC matrix of the library has: colptr[0] == 0, colptr[n] == nnz; STRICT == 2: nz == NZ too */
  __CPROVER_assume(in_colptr[0] == 0 && in_colptr[CAP] == in_nz);
#endif
#if STRICT == 2
  __CPROVER_assume(in_nz == NZ);
#endif
  for (p = 0; p < NZ; p++) __CPROVER_assume(0 <= in_rowind[p] && in_rowind[p] < DM);
  for (j = 0; j <= CAP; j++) g_colptr0[j] = in_colptr[j];
  for (p = 0; p < NZ; p++) g_rowind0[p] = in_rowind[p];
  for (k = 0; k < ROWS; k++) for (j = 0; j < CAP; j++) {
    M[k][j] = 0;
    for (p = 0; p < NZ; p++) if (in_colptr[j] <= p && p < in_colptr[j + 1] && in_rowind[p] == k) M[k][j] = 1;
  }
  total = 0;
  for (i = 0; i < CAP; i++) for (j = 0; j < CAP; j++) {
    B[i][j] = 0;
    for (k = 0; k < ROWS; k++) if (i != j && M[k][i] && M[k][j]) B[i][j] = 1;
    if (B[i][j]) total++;
  }

  getata(in_m, in_n, in_nz, in_colptr, in_rowind, &in_bnz, &in_b_colptr, &in_b_rowind);

  __CPROVER_assert(!g_alloc_failed, "getata does not return after a refused allocation");
  __CPROVER_assert(in_bnz == total, "atanz is the number of off-diagonal entries of A'*A");
  __CPROVER_assert(in_b_colptr[0] == 0 && in_b_colptr[CAP] == in_bnz, "ata_colptr starts at 0 and ends at atanz");
  for (j = 0; j < CAP; j++) __CPROVER_assert(in_b_colptr[j] <= in_b_colptr[j + 1], "ata_colptr is monotone");
  if (in_bnz == 0) __CPROVER_assert(in_b_rowind == g_b_rowind0, "*ata_rowind is not written when atanz == 0");
  for (p = 0; p < BZ; p++) if (p < in_bnz) __CPROVER_assert(0 <= in_b_rowind[p] && in_b_rowind[p] < CAP, "ata_rowind entries are columns of A");
  for (j = 0; j < CAP; j++) for (i = 0; i < CAP; i++) {
    _Bool mem = 0;
    for (p = 0; p < BZ; p++) if (in_b_colptr[j] <= p && p < in_b_colptr[j + 1] && p < in_bnz && in_b_rowind[p] == i) mem = 1;
    __CPROVER_assert(mem == B[i][j], "column j of the result holds i iff i != j and columns i and j of A share a row");
  }
  for (j = 0; j < CAP; j++) for (p = 0; p < BZ; p++) for (q = p + 1; q < BZ; q++)
    if (in_b_colptr[j] <= p && q < in_b_colptr[j + 1] && q < in_bnz) __CPROVER_assert(in_b_rowind[p] != in_b_rowind[q], "no repeated subscript in a column of the result");
  for (j = 0; j <= CAP; j++) __CPROVER_assert(g_colptr0[j] == in_colptr[j], "colptr of A not written");
  for (p = 0; p < NZ; p++) __CPROVER_assert(g_rowind0[p] == in_rowind[p], "rowind of A not written");
  __CPROVER_assert(g_n_malloc - g_n_free == (in_bnz != 0 ? 2 : 1), "only the results stay allocated (3 temporaries released)");

  __CPROVER_assert(0, "canary: getata returns");
  if (in_bnz == 0) __CPROVER_assert(0, "canary: empty adjacency structure");
  if (in_nz == 0) __CPROVER_assert(0, "canary: nz == 0");
#if NZ > 0 && CAP > 0 && ROWS > 0
  if (in_colptr[CAP] == 0) __CPROVER_assert(0, "canary: A has no stored entry although nz > 0 is possible");
#endif
#if CAP >= 2 && NZ >= 2 && ROWS >= 1
  if (in_bnz == CAP * (CAP - 1)) __CPROVER_assert(0, "canary: full adjacency structure");
  if (in_colptr[1] == 2 && in_rowind[0] == in_rowind[1]) __CPROVER_assert(0, "canary: repeated subscript");
  if (in_colptr[0] == in_colptr[1] && in_colptr[1] < in_colptr[2]) __CPROVER_assert(0, "canary: empty first column");
#endif
#if CAP >= 3 && NZ >= 4 && ROWS >= 2
  if (B[0][1] && B[1][2] && !B[0][2]) __CPROVER_assert(0, "canary: path 0-1-2 without the edge 0-2");
  if (M[0][0] && M[0][1] && M[1][0] && M[1][1]) __CPROVER_assert(0, "canary: two columns sharing two rows (deduplicated)");
#endif
  superlu_free(in_b_colptr); if (in_bnz != 0) superlu_free(in_b_rowind);      /* nothing else may be live (--memory-leak-check) */
}
