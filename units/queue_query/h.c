/* harness of unit queue_query: wires the queue and calls the real QueryQueue once */
#include <stdlib.h>
#include "slu_mt_ddefs.h"
/* inputs: queue header; the slot array is a heap object of exactly in_n slots (symbolic in_n) */
queue_t in_q; int_t in_n;
/* ghosts */
int g_n_printf; int g_ret;
/* trusted: printf only counts its calls */
int printf(const char *fmt, ...) { g_n_printf++; return 0; }
void h_QueryQueue(void) {
  __CPROVER_assume(0 <= in_n);
  in_q.queue = (qitem_t *)malloc((size_t)in_n * sizeof(qitem_t));
  __CPROVER_assume(in_q.queue != (qitem_t *)0);
  g_n_printf = 0;
  g_ret = QueryQueue(&in_q);
  __CPROVER_assert(0, "canary: QueryQueue returns");
  if (g_n_printf == 1) __CPROVER_assert(0, "canary: empty queue listed");
  if (g_n_printf >= 3 && in_q.head > 0 && in_q.tail < in_n) __CPROVER_assert(0, "canary: several items listed, queue strictly inside its slots");
  if (in_q.tail == in_n && in_n > 0 && g_n_printf >= 2) __CPROVER_assert(0, "canary: last slot listed");
}
