#include "slu_mt_ddefs.h"
/* inputs (same names as units/relax_snode and units/parallel_init, whose clause texts are reused verbatim) */
int_t in_n; superlumt_options_t in_opt; int_t in_etree[CAP]; pxgstrf_relax_t in_relax[CAP + 2];
/* the work array desc[0..n]: one block, handed out by intCalloc, end-aligned in its object so that an overrun is out of bounds
 * (allocation model of units/relax_snode/h.c; the block keeps its contents after superlu_free, which is only accounted) */
int_t g_desc[CAP + 1]; int g_nalloc, g_nfree, g_live, g_badfree; int_t *g_ptr;
#define REP(M_) M_(0) M_(1) M_(2) M_(3) M_(4) M_(5) M_(6) M_(7) M_(8) M_(9) M_(10) M_(11) M_(12) M_(13) M_(14)
#if CAP > 14
#error "extend REP"
#endif
int_t *intCalloc(int_t n) {
  if (g_nalloc != 0 || n < 0 || n > CAP + 1) { __CPROVER_assert(0, "allocator model: one block of at most CAP+1 ints"); __CPROVER_assume(0); }
  g_nalloc = 1; g_live = 1; g_ptr = g_desc + (CAP + 1 - n);
#define ZERO(k) if (k < CAP + 1 && k >= CAP + 1 - n) g_desc[k < CAP + 1 ? k : 0] = 0;
  REP(ZERO)
  return g_ptr;
}
void superlu_free(void *addr) { if (addr != g_ptr || !g_live) g_badfree = 1; g_live = 0; g_nfree++; }
void pxgstrf_relax_snode(const int_t, superlumt_options_t *, pxgstrf_relax_t *);
void h_relax_tree(void) {
  in_opt.etree = in_etree;
  pxgstrf_relax_snode(in_n, &in_opt, in_relax);
  __CPROVER_assert(0, "canary: relax_snode returns");
  if (in_n == CAP && in_relax[0].size == 1) __CPROVER_assert(0, "canary: whole matrix is one relaxed supernode");
  if (in_n == CAP && in_relax[0].size == CAP) __CPROVER_assert(0, "canary: all singletons");
  if (in_n == CAP && in_relax[0].size == 2 && in_relax[1].size >= 2 && in_relax[2].size >= 2 && in_relax[2].fcol > in_relax[1].fcol + in_relax[1].size) __CPROVER_assert(0, "canary: two subtrees of several columns with uncovered columns between them");
  if (in_n >= 4 && in_relax[0].size >= 2 && in_relax[2].size >= 3 && in_etree[in_relax[2].fcol] != in_relax[2].fcol + 1) __CPROVER_assert(0, "canary: relaxed supernode that is a branching subtree");
  if (in_n >= 3 && in_etree[0] == in_n && in_etree[1] == in_n) __CPROVER_assert(0, "canary: forest with several roots");
}
