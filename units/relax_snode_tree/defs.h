/* vocabulary for ParallelInit (SRC/pxgstrf_synch.c).  CAP = column capacity, HC = capacity of the panel-width histogram
 * (panel_size, relax <= HC-1).  Inputs live in in_*; the arrays ParallelInit allocates are reached through in_sh. */
#define N in_n
#define M in_relax[0].size
#define FCOL(k) in_relax[k].fcol
#define RSIZE(k) in_relax[k].size
#define REND(k) (in_relax[k].fcol + in_relax[k].size)
#define PS in_opt.panel_size
#define HW ((in_opt.panel_size > in_opt.relax ? in_opt.panel_size : in_opt.relax) + 1)
#define WTOP (in_opt.panel_size / 2 == 0 ? 1 : in_opt.panel_size / 2)
#define PAN in_sh.pan_status
#define SZ(j) in_sh.pan_status[j].size
#define ST(j) in_sh.pan_status[j].state
#define UK(j) in_sh.pan_status[j].ukids
#define TY(j) in_sh.pan_status[j].type
#define Q in_sh.taskq
#define HISTO in_gstat.panel_histo
/* the code's DADPANEL */
#define DAD(j) in_etree[(j) + SZ(j) - 1]
/* sums over all columns c = 0..CAP-1 (CAP is a compile-time constant): SUM(F,a,b) = F(0,a,b) + ... + F(CAP-1,a,b) */
#define S1(F,a,b) (F(0,a,b))
#define S2(F,a,b) (S1(F,a,b) + F(1,a,b))
#define S3(F,a,b) (S2(F,a,b) + F(2,a,b))
#define S4(F,a,b) (S3(F,a,b) + F(3,a,b))
#define S5(F,a,b) (S4(F,a,b) + F(4,a,b))
#define S6(F,a,b) (S5(F,a,b) + F(5,a,b))
#define S7(F,a,b) (S6(F,a,b) + F(6,a,b))
#define S8(F,a,b) (S7(F,a,b) + F(7,a,b))
#define S9(F,a,b) (S8(F,a,b) + F(8,a,b))
#define S10(F,a,b) (S9(F,a,b) + F(9,a,b))
#define S11(F,a,b) (S10(F,a,b) + F(10,a,b))
#define S12(F,a,b) (S11(F,a,b) + F(11,a,b))
#define S13(F,a,b) (S12(F,a,b) + F(12,a,b))
#define S14(F,a,b) (S13(F,a,b) + F(13,a,b))
#if CAP > 14
#error "extend the S<k> macros in defs.h"
#endif
#define SCAT_(k) S ## k
#define SCAT(k) SCAT_(k)
#define SUM(F,a,b) SCAT(CAP)(F,a,b)
/* number of etree children of column t (all of them / those below column i) */
#define KID_(c,t,x) (((c) < (x) && in_etree[c] == (t)) ? 1 : 0)
#define KIDS(t) SUM(KID_, t, in_n)
#define KIDSLT(t,i) SUM(KID_, t, i)
/* number of columns whose etree parent lies in h..h+w-1 */
#define INTO_(c,h,w) (((c) < in_n && (h) <= in_etree[c] && in_etree[c] - (h) < (w)) ? 1 : 0)
#define INTO(h,w) SUM(INTO_, h, w)
/* ... and that lie outside h..h+w-1 themselves (a child precedes its parent, so "outside" is "below h") */
#define OUT_(c,h,w) (((c) < in_n && (c) < (h) && (h) <= in_etree[c] && in_etree[c] - (h) < (w)) ? 1 : 0)
#define OUT(h,w) SUM(OUT_, h, w)
/* number of panel heads below column i / of REGULAR_PANEL heads below column i */
#define HD_(c,i,x) (((c) < (i) && SZ(c) > 0) ? 1 : 0)
#define NHEADS(i) SUM(HD_, i, 0)
#define REG_(c,i,x) (((c) < (i) && SZ(c) > 0 && TY(c) == REGULAR_PANEL) ? 1 : 0)
#define NREG(i) SUM(REG_, i, 0)
/* column t is covered by some relaxed supernode */
#define COVERED(t,kv) EX(kv, CAP + 1, 1 <= kv && kv <= M && FCOL(kv) <= (t) && (t) - FCOL(kv) < RSIZE(kv))
/* layout of the panels below column i: t is a head whose panel ends at or before i and is followed by a head (or by i),
 * or t lies inside a panel: size = -(offset to its head) */
#define CHAIN(t,i) (SZ(t) > 0 ? (SZ(t) <= (i) - (t) && (SZ(t) == (i) - (t) || SZ((t) + SZ(t)) > 0)) \
                              : (SZ(t) < 0 && SZ(t) >= -(t) && SZ((t) + SZ(t)) > -SZ(t)))
/* ---- additions for relax_snode_tree: the work array desc[0..n] of pxgstrf_relax_snode (handed out by the intCalloc model, kept in g_ptr) */
#define DESC(t) g_ptr[t]
/* the recurrence the first loop computes: desc[t] = sum over the children c of t (below column x) of desc[c] + 1 */
#define DSUM_(c,t,x) (((c) < (x) && in_etree[c] == (t)) ? g_ptr[c] + 1 : 0)
#define DSUM(t,x) SUM(DSUM_, t, x)
/* last column of relaxed supernode k */
#define RLAST(k) (in_relax[k].fcol + in_relax[k].size - 1)
