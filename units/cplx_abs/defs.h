/* clause vocabulary of unit cplx_abs */
#define ABSV(x) ((x) < 0 ? -(x) : (x))
#define ISNUM(x) ((x) == (x))
#define RE (in_z.r)
#define IM (in_z.i)
#define MAXV (ABSV(RE) >= ABSV(IM) ? ABSV(RE) : ABSV(IM))
#define SMALLINT(x) ((x) == -2 || (x) == -1 || (x) == 0 || (x) == 1 || (x) == 2)
