#include "slu_@r@complex.h"
extern int g_sqrt_calls, g_exp_calls, g_cos_calls, g_sin_calls; extern double g_exp_arg, g_cos_arg, g_sin_arg, g_e, g_c, g_s;
/* ghosts */
double g_ret; int g_ri, g_zi; @T@ g_z0;
/* inputs */
@T@ in_z, in_v[2];
void h_abs(void) {
  g_ret = @p@_abs(&in_z);
  __CPROVER_assert(0, "canary: abs returns");
  if (g_sqrt_calls == 1) __CPROVER_assert(0, "canary: sqrt path");
  if (g_sqrt_calls == 0 && in_z.i != 0 && in_z.r != 0) __CPROVER_assert(0, "canary: negligible smaller component");
  if (in_z.r != in_z.r) __CPROVER_assert(0, "canary: NaN real part");
  if (in_z.r < 0 && in_z.i > -in_z.r && g_ret > in_z.i) __CPROVER_assert(0, "canary: |im| > |re|, result above both");
  if (in_z.r == 0 && in_z.i == 0) __CPROVER_assert(0, "canary: zero");
  if (g_ret > 1.7976931348623157e308 && in_z.r < 1.7976931348623157e308 && in_z.i < in_z.r && in_z.i > 0) __CPROVER_assert(0, "canary: finite operands, result overflows");
}
void h_abs1(void) {
  g_ret = @p@_abs1(&in_z);
  __CPROVER_assert(0, "canary: abs1 returns");
  if (in_z.r < 0 && in_z.i < 0) __CPROVER_assert(0, "canary: both parts negative");
}
void h_exp(void) {
  @p@_exp(&in_v[g_ri], &in_v[g_zi]);
  __CPROVER_assert(0, "canary: exp returns");
  if (g_ri == g_zi) __CPROVER_assert(0, "canary: r aliases z");
  if (g_ri != g_zi) __CPROVER_assert(0, "canary: r and z distinct");
}
