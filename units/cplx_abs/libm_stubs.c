/* libc / libm callees of SRC/?complex.c as executable contracts */
#include <stdio.h>
int g_sqrt_calls, g_exp_calls, g_cos_calls, g_sin_calls; double g_exp_arg, g_cos_arg, g_sin_arg, g_e, g_c, g_s;
double nondet_double(void);
int fprintf(FILE *f, const char *fmt, ...) { return 0; }
void exit(int code) { __CPROVER_assume(0); }
double sqrt(double x) {
  g_sqrt_calls++;
  __CPROVER_assert(x != x || (1.0 <= x && x <= 2.0), "sqrt argument is NaN or in [1, 2] (scaled: cannot overflow)");
  double r = nondet_double();
  if (x != x) return x;
  __CPROVER_assume(1.0 <= r && r <= 1.4142135623730951 && (x == 1.0 ? r == 1.0 : 1));
  return r;
}
double exp(double x) { g_exp_calls++; g_exp_arg = x; return g_e; }
double cos(double x) { g_cos_calls++; g_cos_arg = x; return g_c; }
double sin(double x) { g_sin_calls++; g_sin_arg = x; return g_s; }
