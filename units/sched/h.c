#include "slu_mt_ddefs.h"
/* ghost pre-state copies, ghost indices (universally chosen), lock-stub counters */
int_t g_state0[CAP+1], g_ukids0[CAP+1], g_spin0[CAP], g_queue0[CAP], g_fb0[CAP+1], g_head0, g_tail0, g_count0, g_tasks0, g_cur0, g_dad0;
int_t g_j, g_c, g_q, g_J; int_t g_on[CAP+1];
int g_locked, g_nlock, g_nunlock, g_badlock;
/* inputs */
int_t in_pnum, in_n, in_etree[CAP], in_cur, in_bcol;
pxgstrf_shared_t in_sh; pan_status_t in_pan[CAP+1]; int_t in_spin[CAP], in_fb[CAP+1], in_queue[CAP]; mutex_t in_locks[NO_GLU_LOCKS];
/* trusted: the lock gives atomicity; the stubs only record that lock/unlock bracket the body once, on SCHED_LOCK */
int pthread_mutex_lock(pthread_mutex_t *m) { if (g_locked || m != &in_locks[SCHED_LOCK]) g_badlock = 1; g_locked = 1; g_nlock++; return 0; }
int pthread_mutex_unlock(pthread_mutex_t *m) { if (!g_locked || m != &in_locks[SCHED_LOCK]) g_badlock = 1; g_locked = 0; g_nunlock++; return 0; }
void h_sched(void) {
  in_sh.taskq.queue = in_queue; in_sh.lu_locks = in_locks; in_sh.spin_locks = in_spin; in_sh.pan_status = in_pan; in_sh.fb_cols = in_fb;
  pxgstrf_scheduler(in_pnum, in_n, in_etree, &in_cur, &in_bcol, &in_sh);
  /* representation invariant the PC(CAP) proof rests on when it is read for n > CAP: the per-panel counters range up to n (fan-in of an
   * etree node / of the dummy root, panel size and negative offsets), so their type must hold every int_t value (seed C04c) */
  __CPROVER_assert(sizeof(((pan_status_t *)0)->ukids) >= sizeof(int_t) && sizeof(((pan_status_t *)0)->size) >= sizeof(int_t) && (int_t)-1 < 0, "panel record: the counters ukids and size are as wide as int_t and signed");
  __CPROVER_assert(0, "canary: scheduler returns");
  if (in_cur == EMPTY) __CPROVER_assert(0, "canary: no panel available");
  if (in_cur != EMPTY && g_cur0 != EMPTY && in_cur == in_etree[g_cur0 + in_pan[g_cur0].size - 1]) __CPROVER_assert(0, "canary: parent panel handed out");
  if (in_cur != EMPTY && g_state0[in_cur] == CANGO && in_sh.taskq.head > g_head0 + 1) __CPROVER_assert(0, "canary: CANGO panel dequeued after skipping stale entries");
  if (in_cur != EMPTY && g_state0[in_cur] == CANPIPE) __CPROVER_assert(0, "canary: CANPIPE panel dequeued");
  if (in_sh.taskq.tail == g_tail0 + 1) __CPROVER_assert(0, "canary: parent enqueued as CANPIPE");
  if (in_cur != EMPTY && in_bcol < in_cur) __CPROVER_assert(0, "canary: busy descendant found");
  if (in_cur != EMPTY && in_bcol != in_fb[in_cur] && in_cur == g_J) __CPROVER_assert(0, "canary: DONE descendants skipped");
}
