/* vocabulary for pxgstrf_scheduler.  The harness owns every object (in_*).  CAP = column capacity.
 * pan_status has n+1 entries (dummy root n), queue n entries, spin_locks n, fb_cols n+1, etree n. */
#define SZ(j) in_pan[j].size
#define ST(j) in_pan[j].state
#define UK(j) in_pan[j].ukids
/* j is the leading column of a panel that lies inside 0..n-1 */
#define HEAD(j) (0 <= (j) && (j) < in_n && SZ(j) > 0 && SZ(j) <= in_n - (j))
/* ... or the dummy root n */
#define HEADN(j) (HEAD(j) || (j) == in_n)
/* parent panel of the panel led by j (the code's DADPANEL) */
#define DAD(j) in_etree[(j) + SZ(j) - 1]
#define STATE_OK(s) (DONE <= (s) && (s) <= UNREADY)
#define Q in_sh.taskq
/* pre-state views */
#define ST0(j) g_state0[j]
#define UK0(j) g_ukids0[j]
#define CUR0 g_cur0
#define DAD0 DAD(g_cur0)
/* the call hands out the parent of the finished panel (route 1 of the header comment) */
#define ROUTE_DAD (CUR0 != EMPTY && UK0(DAD0) == 1 && ST0(DAD0) > BUSY)
#define RP in_cur
/* the call enqueues the parent of the returned panel */
#define ENQ (RP != EMPTY && DAD(RP) < in_n && UK(DAD(RP)) == 1)
