/* harness of unit queue_ops: one entry per function of the task-queue family (SRC/pxgstrf_synch.c); only wires objects and calls */
#include <stdlib.h>
#include "slu_mt_ddefs.h"
/* inputs */
queue_t in_q; int_t in_n, in_item, in_out;
/* ghosts: g_k a storage slot with its pre-state value g_v0; g_i a position of the abstract FIFO with its pre-state value g_a0;
 * g_h0 pre-state head item; g_out0 pre-state of *item; allocator / printf records */
int_t g_k, g_v0, g_i, g_a0, g_h0, g_out0;
int g_n_malloc, g_n_free, g_alloc_failed; size_t g_req_size; void *g_blk, *g_freed;
int g_ret;
/* ---- trusted allocation model: libc malloc of exactly `size` bytes or NULL (any request may fail, also size 0) */
_Bool nondet_alloc_fails(void);
void *superlu_malloc(size_t size) {
  void *p;
  g_n_malloc++; g_req_size = size;
  if (nondet_alloc_fails()) { g_alloc_failed = 1; return (void *)0; }
  p = malloc(size); __CPROVER_assume(p != (void *)0);
  g_blk = p;
  return p;
}
void superlu_free(void *p) { g_n_free++; g_freed = p; free(p); }
int printf(const char *fmt, ...) { return 0; }
int fprintf(FILE *f, const char *fmt, ...) { return 0; }
int sprintf(char *s, const char *f, ...) { return 0; }
void verif_abort(char *msg) { __CPROVER_assume(0); }
static void make_slots(void) {
  __CPROVER_assume(0 <= in_n);
  in_q.queue = (qitem_t *)malloc((size_t)in_n * sizeof(qitem_t));
  __CPROVER_assume(in_q.queue != (qitem_t *)0);
}
void h_queue_init(void) {
  g_n_malloc = 0; g_alloc_failed = 0;
  g_ret = queue_init(&in_q, in_n);
  __CPROVER_assert(0, "canary: queue_init returns");
  if (g_ret == -1 && in_n > 0) __CPROVER_assert(0, "canary: allocation failure reported");
  if (g_ret == -1 && in_n < 0) __CPROVER_assert(0, "canary: negative n reported");
  if (g_ret == 0 && in_n == 0 && in_q.queue == (qitem_t *)0) __CPROVER_assert(0, "canary: order 0 with malloc(0) == NULL accepted");
  if (g_ret == 0 && in_n > 1000) { in_q.queue[in_n - 1] = 0; __CPROVER_assert(0, "canary: large queue, last slot writable"); }
  if (g_ret == 0) free(in_q.queue);
}
void h_Enqueue(void) {
  make_slots();
  g_ret = Enqueue(&in_q, in_item);
  __CPROVER_assert(0, "canary: Enqueue returns");
  if (g_ret == 1) __CPROVER_assert(0, "canary: enqueue into an empty queue");
  if (in_q.tail == in_n && in_q.head > 0 && g_ret > 1) __CPROVER_assert(0, "canary: last slot filled, queue partly consumed");
  free(in_q.queue);
}
void h_Dequeue(void) {
  make_slots();
  g_ret = Dequeue(&in_q, &in_out);
  __CPROVER_assert(0, "canary: Dequeue returns");
  if (g_ret == EMPTY) __CPROVER_assert(0, "canary: empty queue");
  if (g_ret == EMPTY && in_q.head == in_n && in_n > 0) __CPROVER_assert(0, "canary: empty queue, head one past the slots");
  if (g_ret == 0) __CPROVER_assert(0, "canary: last item taken");
  if (g_ret > 0) __CPROVER_assert(0, "canary: items remain");
  free(in_q.queue);
}
/* round trip on the real code of both routines (C17): queue_init, then queue_destroy under contract; --memory-leak-check at the end.
 * ParallelInit aborts the process when queue_init reports failure, so queue_destroy is reached only after a successful queue_init. */
void h_queue_destroy(void) {
  g_n_malloc = 0; g_n_free = 0; g_alloc_failed = 0;
  g_ret = queue_init(&in_q, in_n);
  if (g_ret != 0) { __CPROVER_assert(0, "canary: queue_init failed, nothing to release"); return; }
  g_ret = queue_destroy(&in_q);
  __CPROVER_assert(g_n_malloc == 1 && g_n_free == 1, "round trip: one request, one release");
  __CPROVER_assert(0, "canary: round trip returns");
  if (in_n > 0) __CPROVER_assert(0, "canary: round trip with slots");
  if (in_n == 0 && g_alloc_failed) __CPROVER_assert(0, "canary: round trip of an order-0 queue whose malloc(0) returned NULL");
}
