/* vocabulary for the task-queue primitives of SRC/pxgstrf_synch.c.  The harness owns the queue header in_q; the slot array is a heap
 * object of exactly in_n slots (symbolic in_n).  Abstract FIFO view: A[i] = queue[head + i] for 0 <= i < count. */
#define Q in_q
#define WFQ (0 <= Q.head && Q.head <= Q.tail && Q.tail <= in_n && Q.count == Q.tail - Q.head)
#define SLOTS(n) ((__CPROVER_size_t)(n) * sizeof(qitem_t))
