/* harness of units parallel_finalize (ROUNDTRIP=0: the shared structure is built directly, n symbolic) and parallel_finalize_rt
 * (ROUNDTRIP=1: the REAL ParallelInit builds it on a small etree, then the REAL ParallelFinalize under contract releases it) */
#include <stdlib.h>
#include <stdio.h>
#include "slu_mt_ddefs.h"
/* inputs */
int_t in_n; pxgstrf_shared_t in_sh; GlobalLU_t in_glu; Gstat_t in_gstat;
#if ROUNDTRIP
int_t in_etree[CAP]; pxgstrf_relax_t in_relax[CAP + 2]; superlumt_options_t in_opt; int_t in_histo[HC];
#endif
/* ghosts: release / mutex_destroy records */
int g_n_free, g_n_destroy, g_bad_destroy, g_destroyed[NO_GLU_LOCKS], g_n_alloc; int_t g_ret;
/* ---- trusted allocation model: libc, not failing */
void *superlu_malloc(size_t size) { void *p = malloc(size); __CPROVER_assume(p != (void *)0); g_n_alloc++; return p; }
void superlu_free(void *p) { g_n_free++; free(p); }
int_t *intMalloc(int_t n) { return (int_t *)superlu_malloc((size_t)n * sizeof(int_t)); }
int_t *intCalloc(int_t n) { int_t *p = (int_t *)calloc((size_t)n, sizeof(int_t)); __CPROVER_assume(p != (int_t *)0); g_n_alloc++; return p; }
/* ---- trusted: mutex stubs.  destroy: the argument is an element of lu_locks[] whose storage is still allocated */
int pthread_mutex_init(pthread_mutex_t *m, const pthread_mutexattr_t *a) { return 0; }
int pthread_mutex_destroy(pthread_mutex_t *m) {
  int hit = 0;
  __CPROVER_assert(__CPROVER_r_ok(m, sizeof(*m)), "pthread_mutex_destroy: the mutex storage is still allocated");
  /* loop-free on purpose (a stub loop without contract confuses the dfcc frame instrumentation of its locals) */
#define CHK(k) if (k < NO_GLU_LOCKS && m == &in_sh.lu_locks[k]) { g_destroyed[k < NO_GLU_LOCKS ? k : 0]++; hit = 1; }
  CHK(0) CHK(1) CHK(2) CHK(3) CHK(4) CHK(5) CHK(6) CHK(7) CHK(8) CHK(9)
  __CPROVER_assert(NO_GLU_LOCKS <= 10, "stub covers every lock index");
  if (!hit) g_bad_destroy = 1;
  g_n_destroy++;
  return 0;
}
int printf(const char *f, ...) { return 0; }
int fprintf(FILE *s, const char *f, ...) { return 0; }
int sprintf(char *s, const char *f, ...) { return 0; }
void verif_abort(char *msg) { __CPROVER_assert(0, "no abort when no allocation fails"); __CPROVER_assume(0); }
void h_ParallelFinalize(void) {
  g_n_alloc = 0;
#if !ROUNDTRIP
  __CPROVER_assume(0 <= in_n && in_n < 2147483647);
  in_sh.Glu = &in_glu; in_sh.Gstat = &in_gstat;
  in_sh.lu_locks = (mutex_t *)superlu_malloc(NO_GLU_LOCKS * sizeof(mutex_t));
  in_sh.spin_locks = intCalloc(in_n);
  in_sh.pan_status = (pan_status_t *)superlu_malloc(((size_t)in_n + 1) * sizeof(pan_status_t));
  in_sh.fb_cols = intMalloc(in_n + 1);
  in_sh.taskq.queue = (qitem_t *)superlu_malloc((size_t)in_n * sizeof(qitem_t));
  in_glu.map_in_sup = intCalloc(in_n + 1);
#else
  /* inputs shaped as units/parallel_init requires them (bounded harness): etree, relaxed supernodes, options, histogram */
  int_t hw;
  __CPROVER_assume(1 <= in_n && in_n <= CAP);
  __CPROVER_assume(1 <= in_opt.panel_size && in_opt.panel_size <= HC - 1 && 0 <= in_opt.relax && in_opt.relax <= HC - 1);
  hw = (in_opt.panel_size > in_opt.relax ? in_opt.panel_size : in_opt.relax) + 1;
  for (int_t c = 0; c < CAP; c++) if (c < in_n) __CPROVER_assume(c < in_etree[c] && in_etree[c] <= in_n);
  __CPROVER_assume(1 <= in_relax[0].size && in_relax[0].size <= in_n && in_relax[1].fcol == 0);
  for (int_t k = 1; k <= CAP; k++) if (k <= in_relax[0].size)
    __CPROVER_assume(0 <= in_relax[k].fcol && in_relax[k].fcol < in_n && in_relax[k].size > 0 && in_relax[k].size < hw && in_relax[k].size <= in_n && in_relax[k].fcol + in_relax[k].size <= in_relax[k + 1].fcol);
  __CPROVER_assume(in_relax[in_relax[0].size + 1].fcol == in_n);
  in_opt.etree = in_etree; in_sh.Gstat = &in_gstat; in_sh.Glu = &in_glu;
  in_gstat.panel_histo = in_histo + (HC - hw);          /* hw entries, as StatAlloc allocates them */
  g_n_alloc = 0;
  /* REAL ParallelInit: five allocations + NO_GLU_LOCKS mutex_init.  Case split on n so that every heap object has a constant size
   * (heap objects of symbolic size plus unwinding exhaust the memory limit); then what ?PresetMap does between the two calls
   * (SRC/p?memory.c: map_in_sup = intCalloc(n+1)) */
#define RUN(k) if (in_n == k) { ParallelInit(k, in_relax, &in_opt, &in_sh); in_glu.map_in_sup = intCalloc(k + 1); }
  RUN(1) RUN(2)
#if CAP >= 3
  RUN(3)
#endif
#if CAP >= 4
  RUN(4)
#endif
#if CAP >= 5
  RUN(5)
#endif
#if CAP > 5
#error "extend RUN"
#endif
  __CPROVER_assert(g_n_alloc == 6, "round trip: ParallelInit made five allocations (+ map_in_sup)");
#endif
  g_ret = ParallelFinalize(&in_sh);
  __CPROVER_assert(0, "canary: ParallelFinalize returns");
#if !ROUNDTRIP
  if (in_n == 0) __CPROVER_assert(0, "canary: order 0");
  if (in_n > 100000) __CPROVER_assert(0, "canary: large n");
#else
  if (in_n == CAP && in_relax[0].size == 1 && in_sh.tasks_remain >= 2) __CPROVER_assert(0, "canary: round trip with a relaxed supernode and regular panels");
  if (in_n == CAP && in_relax[0].size == CAP) __CPROVER_assert(0, "canary: round trip with singleton relaxed supernodes only");
#endif
}
