/* Observational witness for "a starting call (*kase == 0) leaves jump == 1" (C18 c).  The static cannot be named in a contract clause (clauses sit
 * at the function head, outside the scope of the body's statics) and DFCC allows one top-level call of the function under contract, so this unit
 * enforces no contract: it calls the REAL ?lacon_ twice from an arbitrary static state and asserts what the second call does.
 * Entry point 1 (label L20) calls no BLAS routine for n == 1 and only ?asum_ (once) otherwise, and returns kase 0 resp. 2 with x = sign vector;
 * entry points 2, 3, 4 start with i?amax_ / ?copy_, entry point 5 returns kase 0 after ?asum_; an out-of-range jump falls through to L20. */
#include "slu_mt_@p@defs.h"
extern int g_blas, g_asum, g_amax, g_copy;
extern int_t @p@lacon_(int_t *, @T@ *, @T@ *, int_t *, @R@ *, int_t *);
int_t g_i; @T@ g_x1[CAP]; @T@ nondet_val(void);
int_t in_n, in_kase, in_isgn[CAP]; @T@ in_v[CAP], in_x[CAP]; @R@ in_est;
void h_lacon_jump(void) {
  __CPROVER_assume(1 <= in_n && in_n <= CAP && in_kase == 0 && 0 <= g_i && g_i < in_n && g_blas == 0 && g_asum == 0 && g_amax == 0 && g_copy == 0);
  @p@lacon_(&in_n, in_v, in_x, in_isgn, &in_est, &in_kase);
  __CPROVER_assert(in_kase == 1 && g_blas == 0, "starting call asks for A*x and reaches no BLAS routine");
  __CPROVER_assert(0, "canary: lacon returns from the starting call");
  for (int k = 0; k < CAP; k++) g_x1[k] = in_x[k];
  @p@lacon_(&in_n, in_v, in_x, in_isgn, &in_est, &in_kase);
  __CPROVER_assert(g_amax == 0 && g_copy == 0, "second call enters at L20: no i?amax_, no ?copy_");
  __CPROVER_assert(in_n == 1 ? (g_asum == 0 && in_kase == 0) : (g_asum == 1 && in_kase == 2), "second call enters at L20: order 1 finishes at once, otherwise one ?asum_ and kase 2");
  __CPROVER_assert(in_n == 1 ? (in_v[0] == g_x1[0] && in_est == __CPROVER_fabs(g_x1[0])) : (in_x[g_i] == 1 && in_isgn[g_i] == 1), "second call enters at L20: v = x and est = |x| for order 1, otherwise x and isgn hold the sign vector of 1/n");
  __CPROVER_assert(0, "canary: lacon returns from the second call");
  /* C18: the whole estimate, from ANY static state left by earlier estimates: the caller overwrites x with A*x (resp. A'*x) -- any numbers --
   * and calls again until kase == 0.  ITMAX = 5 bounds the iterations of ONE estimate, so a fresh estimate ends within 12 further calls
   * whatever the function-static iteration counter held before the starting call (seed C18d: the counter was re-armed by a static
   * initialiser only, later estimates inherited the iterations spent by earlier ones). */
  { int calls = 0;
    for (int r = 0; r < 12; r++) if (in_kase != 0) {
      for (int k = 0; k < CAP; k++) { @T@ t = nondet_val(); __CPROVER_assume(t == t && -1e30 < t && t < 1e30); in_x[k] = t; }
      @p@lacon_(&in_n, in_v, in_x, in_isgn, &in_est, &in_kase); calls++;
    }
    __CPROVER_assert(in_kase == 0, "a fresh estimate ends within ITMAX iterations (<= 14 calls) whatever earlier estimates left in the static state");
    if (calls >= 5) __CPROVER_assert(0, "canary: an estimate with at least 7 calls");
  }
  if (in_n == 1) __CPROVER_assert(0, "canary: second call, order 1");
  if (in_n == CAP && g_i == CAP - 1) __CPROVER_assert(0, "canary: second call, full order");
}
