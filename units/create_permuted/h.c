#include <stdlib.h>
#include "slu_mt_@p@defs.h"
extern int g_n_malloc, g_n_free;
/* inputs: array arguments are arbitrary pointer VALUES, except col_to_sup whose entry [n] the supernodal constructor reads */
SuperMatrix in_A; int_t in_m, in_n, in_nnz; @T@ *in_nzval; int_t *in_rowind, *in_colbeg, *in_colend, *in_ricolbeg, *in_ricolend, *in_s2cbeg, *in_s2cend;
int_t in_col_to_sup[CAP+1]; Stype_t in_stype; Dtype_t in_dtype; Mtype_t in_mtype;
void h_CompCol(void) {
  @p@Create_CompCol_Permuted(&in_A, in_m, in_n, in_nnz, in_nzval, in_rowind, in_colbeg, in_colend, in_stype, in_dtype, in_mtype);
  __CPROVER_assert(0, "canary: Create_CompCol_Permuted returns");
  if (in_nnz == 7 && in_stype == SLU_NCP) __CPROVER_assert(0, "canary: arbitrary descriptor values reachable");
  free(in_A.Store);   /* the Store object is the only thing left allocated (cbmc --memory-leak-check) */
}
void h_SuperNode(void) {
  @p@Create_SuperNode_Permuted(&in_A, in_m, in_n, in_nnz, in_nzval, in_colbeg, in_colend, in_rowind, in_ricolbeg, in_ricolend,
                              in_col_to_sup, in_s2cbeg, in_s2cend, in_stype, in_dtype, in_mtype);
  __CPROVER_assert(0, "canary: Create_SuperNode_Permuted returns");
  if (in_n == CAP && in_col_to_sup[CAP] == 2) __CPROVER_assert(0, "canary: n = CAP with 3 supernodes reachable");
  free(in_A.Store);
}
