#include "slu_mt_ddefs.h"
#include "work_sizes.h"
/* ghost: what the ifill stub saw */
int g_ifill_calls; int_t *g_ifill_ptr; int_t g_ifill_len, g_ifill_val;
void ifill(int_t *a, int_t alen, int_t ival) {
  g_ifill_calls++; g_ifill_ptr = a; g_ifill_len = alen; g_ifill_val = ival;
#if PROBE
  if (alen > 0) { a[0] = ival; a[alen - 1] = ival; }      /* range probe under pointer checks */
#endif
}
/* inputs */
int_t in_n, in_w; int_t in_iwork[ICAP];
int_t *in_segrep, *in_parent, *in_xplore, *in_repfnz, *in_panel_lsub, *in_marker, *in_lbusy;
void h_set_iwork(void) {
  pxgstrf_SetIWork(in_n, in_w, in_iwork, &in_segrep, &in_parent, &in_xplore, &in_repfnz, &in_panel_lsub, &in_marker, &in_lbusy);
  __CPROVER_assert(0, "canary: SetIWork returns");
  if (in_n == SB && in_w == SB) {
    __CPROVER_assert(0, "canary: largest shape reachable");
#if PROBE
    in_lbusy[in_n - 1] = 0;                               /* last element of the last sub-array is inside the block */
#endif
  }
}
