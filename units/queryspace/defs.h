/* vocabulary for superlu_?QuerySpace / superlu_?TempSpace: the byte counts exactly as the code forms them */
#define NN (in_L.ncol)
#define IWI ((int_t)sizeof(int_t))
#define DWI ((int_t)sizeof(@T@))
#define FOR_L (((float)(7 * NN + 3) * (float)IWI + (float)in_nzend[NN - 1] * (float)DWI) + (float)in_rowend[NN - 1] * (float)IWI)
#define FOR_U ((float)((2 * NN + 1) * IWI) + (float)in_colend[NN - 1] * (float)(DWI + IWI))
/* exact (64-bit) value of the work-space byte count of p?TempSpace; 400 = sp_ienv(3) + sp_ienv(4) (maxsuper + rowblk) */
#define LL(x) ((long long)(x))
#define TEMPV(n_, w_) (2 * LL(n_) > 400 * LL(w_) ? 2 * LL(n_) : 400 * LL(w_))
#define PER_PROC(n_, w_) ((2 * LL(w_) + 8) * LL(n_) * IWI + (LL(n_) * LL(w_) + TEMPV(n_, w_)) * DWI)
#ifndef WFIX
#define WFIX 0
#endif
#ifndef PFIX
#define PFIX 0
#endif
/* WFIX / PFIX != 0: panel size / number of threads fixed by the variant (the float product ptmp * p with two symbolic operands does not finish) */
#define TS_RANGES(n_, w_, p_) (0 <= (n_) && (n_) <= NMAX && 1 <= (w_) && (w_) <= WMAX && 1 <= (p_) && (p_) <= PMAX && (WFIX == 0 || (w_) == WFIX) && (PFIX == 0 || (p_) == PFIX))
#define TS_FIT(n_, w_, p_) (56 * LL(n_) <= 2147483647LL && (2 * LL(w_) + 8) * LL(n_) * IWI <= 2147483647LL && (LL(n_) * LL(w_) + TEMPV(n_, w_)) * DWI <= 2147483647LL && 56 * LL(n_) + LL(p_) * PER_PROC(n_, w_) <= 2147483648LL - 4096)
/* the documented byte count as an integer (used where all sizes are small enough for the float sum to be exact) */
#define E_FOR_LU ((7 * NN + 3) * IWI + in_nzend[NN - 1] * DWI + in_rowend[NN - 1] * IWI + (2 * NN + 1) * IWI + in_colend[NN - 1] * (DWI + IWI))
