/* vocabulary for superlu_?QuerySpace: the byte counts exactly as the code forms them (float arithmetic, left to right) */
#define NN (in_L.ncol)
#define IWI ((int_t)sizeof(int_t))
#define DWI ((int_t)sizeof(@T@))
#define FOR_L (((float)(7 * NN + 3) * (float)IWI + (float)in_nzend[NN - 1] * (float)DWI) + (float)in_rowend[NN - 1] * (float)IWI)
#define FOR_U ((float)((2 * NN + 1) * IWI) + (float)in_colend[NN - 1] * (float)(DWI + IWI))
/* exact (64-bit) value of the work-space byte count of p?TempSpace for maxsuper + rowblk = 400 (sp_ienv(3) + sp_ienv(4)) */
#define LLn ((long long)NN)
#define LLw ((long long)panel_size)
#define TEMPV (2 * LLn > 400 * LLw ? 2 * LLn : 400 * LLw)
#define PER_PROC ((2 * LLw + 8) * LLn * IWI + (LLn * LLw + TEMPV) * DWI)
