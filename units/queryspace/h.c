#include <stdlib.h>
#include "slu_mt_@p@defs.h"
/* inputs: headers of L (SCP) and U (NCP) of order up to NMAX; only the three end-pointer arrays are wired (the routine must read nothing else) */
SuperMatrix in_L, in_U; SCPformat in_Lstore; NCPformat in_Ustore; superlu_memusage_t in_mu; int_t *in_nzend, *in_rowend, *in_colend;
int_t in_P, in_panel_size; int_t g_ret, g_nz0, g_ri0, g_ce0;
SuperMatrix g_L0, g_U0; SCPformat g_Ls0; NCPformat g_Us0;
int xerbla_(char *s, int *i) { __CPROVER_assert(0, "sp_ienv is called with a legal ispec"); return 0; }
void h_query(void) {
  /* the three end-pointer arrays have exactly n entries (heap objects of symbolic size; contents arbitrary) */
  { size_t len_ = in_L.ncol >= 0 && in_L.ncol <= NMAX ? (size_t)in_L.ncol : 0;
    in_nzend = malloc(len_ * sizeof(int_t)); in_rowend = malloc(len_ * sizeof(int_t)); in_colend = malloc(len_ * sizeof(int_t));
    __CPROVER_assume(in_nzend && in_rowend && in_colend); }
  in_L.Store = &in_Lstore; in_U.Store = &in_Ustore;
  in_Lstore.nzval_colend = in_nzend; in_Lstore.rowind_colend = in_rowend; in_Ustore.colend = in_colend;
  /* every other pointer of the two stores is invalid: a read through it is a pointer-check failure */
  in_Lstore.nzval = 0; in_Lstore.nzval_colbeg = 0; in_Lstore.rowind = 0; in_Lstore.rowind_colbeg = 0; in_Lstore.col_to_sup = 0; in_Lstore.sup_to_colbeg = 0; in_Lstore.sup_to_colend = 0;
  in_Ustore.nzval = 0; in_Ustore.rowind = 0; in_Ustore.colbeg = 0;
  g_L0 = in_L; g_U0 = in_U; g_Ls0 = in_Lstore; g_Us0 = in_Ustore;
  if (in_L.ncol >= 1 && in_L.ncol <= NMAX) { g_nz0 = in_nzend[in_L.ncol - 1]; g_ri0 = in_rowend[in_L.ncol - 1]; g_ce0 = in_colend[in_L.ncol - 1]; }
  g_ret = superlu_@p@QuerySpace(in_P, &in_L, &in_U, in_panel_size, &in_mu);
  /* L and U are not modified: headers, stores and the three entries the routine reads (the rest of the frame is the assigns clause) */
  __CPROVER_assert(in_L.Stype == g_L0.Stype && in_L.Dtype == g_L0.Dtype && in_L.Mtype == g_L0.Mtype && in_L.nrow == g_L0.nrow && in_L.ncol == g_L0.ncol && in_L.Store == g_L0.Store
                && in_U.Stype == g_U0.Stype && in_U.Dtype == g_U0.Dtype && in_U.Mtype == g_U0.Mtype && in_U.nrow == g_U0.nrow && in_U.ncol == g_U0.ncol && in_U.Store == g_U0.Store, "L and U headers unchanged");
  __CPROVER_assert(in_Lstore.nnz == g_Ls0.nnz && in_Lstore.nsuper == g_Ls0.nsuper && in_Lstore.nzval == g_Ls0.nzval && in_Lstore.nzval_colbeg == g_Ls0.nzval_colbeg && in_Lstore.nzval_colend == g_Ls0.nzval_colend
                && in_Lstore.rowind == g_Ls0.rowind && in_Lstore.rowind_colbeg == g_Ls0.rowind_colbeg && in_Lstore.rowind_colend == g_Ls0.rowind_colend && in_Lstore.col_to_sup == g_Ls0.col_to_sup
                && in_Lstore.sup_to_colbeg == g_Ls0.sup_to_colbeg && in_Lstore.sup_to_colend == g_Ls0.sup_to_colend, "L store (SCP) unchanged");
  __CPROVER_assert(in_Ustore.nnz == g_Us0.nnz && in_Ustore.nzval == g_Us0.nzval && in_Ustore.rowind == g_Us0.rowind && in_Ustore.colbeg == g_Us0.colbeg && in_Ustore.colend == g_Us0.colend, "U store (NCP) unchanged");
  __CPROVER_assert(in_nzend[in_L.ncol - 1] == g_nz0 && in_rowend[in_L.ncol - 1] == g_ri0 && in_colend[in_L.ncol - 1] == g_ce0, "end pointers of the last column unchanged");
  __CPROVER_assert(0, "canary: QuerySpace returns");
  if (in_L.ncol == 1) __CPROVER_assert(0, "canary: order 1");
  if (in_L.ncol > 15000000 && in_P == 1) __CPROVER_assert(0, "canary: order above 1.5e7");   /* one thread, panel 1: 120 n <= 2^31 - 2^12 allows n <= 17.89e6 */
  if (in_P == PMAX && in_panel_size == 8 && in_L.ncol >= 40000) __CPROVER_assert(0, "canary: 64 threads, order 40000");
  if (in_mu.expansions == 0) __CPROVER_assert(0, "canary: no expansion");
}
