/* executable contract of ?_abs as seen from ?sum1_: argument relation asserted, call recorded, result havocked (>= 0, not NaN) */
#include "slu_@r@complex.h"
extern int g_off, g_i, g_calls, g_hits, in_n, in_incx; extern @T@ in_cx[XCAP]; extern @R@ g_val;
@R@ nondet_real(void);
double @p@_abs(@T@ *z) {
  __CPROVER_assert(in_n >= 1 && __CPROVER_same_object(z, in_cx), "abs argument points into the vector's array");
  long d = z - (in_cx + g_off);
  __CPROVER_assert(0 <= d && d <= (long)(in_n - 1) * in_incx, "abs argument inside cx[0 .. (n-1)*incx]");
  __CPROVER_assert(d % in_incx == 0, "abs argument is on the stride");
  @R@ re = z->r, im = z->i;          /* the callee reads both parts */
  @R@ r = nondet_real();
  __CPROVER_assume(r >= 0);
  if (d == (long)g_i * in_incx) { g_hits++; r = g_val; }
  g_calls++;
  return r;
}
