/* clause vocabulary of unit dzsum1 */
#define NGOOD (1 <= in_n && 0 <= g_i && g_i < in_n)
#define HITS(k) ((0 <= g_i && g_i < (k)) ? 1 : 0)
