#include "slu_@r@complex.h"
extern double @r@@p@sum1_(int *, @T@ *, int *);
/* ghosts: offset/placement of the vector, an arbitrary element and the value ?_abs returns for it, call counters of the ?_abs stub */
int g_off, g_end, g_i, g_calls, g_hits; @R@ g_val; double g_ret;
/* inputs */
int in_n, in_incx; @T@ in_cx[XCAP];
void h_sum1(void) {
  g_ret = @r@@p@sum1_(&in_n, in_cx + g_off, &in_incx);
  __CPROVER_assert(0, "canary: sum1 returns");
  if (in_n <= 0) __CPROVER_assert(0, "canary: n <= 0");
  if (in_n == 1 && in_incx > 1) __CPROVER_assert(0, "canary: n == 1, stride > 1");
  if (in_n >= 3 && in_incx == 1 && g_i == 1 && g_end == 1) __CPROVER_assert(0, "canary: unit stride, end-aligned");
  if (in_n >= 3 && in_incx >= 2 && g_i == in_n - 1 && g_end == 0) __CPROVER_assert(0, "canary: stride > 1, last element observed");
  if (in_n >= 3 && in_incx >= 2 && g_end == 1 && g_off > 0) __CPROVER_assert(0, "canary: stride > 1, end-aligned");
  if (in_n == XCAP) __CPROVER_assert(0, "canary: full capacity");
  if (in_n >= 2 && g_ret > g_val && g_val > 0) __CPROVER_assert(0, "canary: sum exceeds a term");
}
