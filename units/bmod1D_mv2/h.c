#include "slu_mt_@p@defs.h"
#include "wf.h"
#include "defs.h"
/* ghosts: geometry; ghost panel column g_c / list position g_q / row id g_r / tempv index g_t / read-only array indices; call records */
int_t g_lptr, g_xf, g_c, g_q, g_r, g_t, g_p, g_l, g_x, g_pn; @T@ g_dense0_r, g_dense0_q, g_lu0; int_t g_lsub0, g_repfnz0, g_xlsub0, g_xlsub_end0, g_xlusup0, g_unused0[3];
struct blas_rec g_blas; @T@ g_xrec[8], g_yrec[8];       /* what the kernels returned for column g_c: solved segment, product of the rows below */
procstat_t g_stat0, g_stat_own0;
/* inputs */
int_t in_pnum, in_m, in_w, in_jcol, in_fsupc, in_krep, in_nsupc, in_nsupr, in_nrow;
int_t in_repfnz[M*W], in_panel_lsub[M*W], in_w_lsub_end[W], in_spa_marker[M*W]; @T@ in_dense[M*W], in_tempv[TVC];
GlobalLU_t in_Glu; Gstat_t in_Gstat; procstat_t in_procstat[NP];
int_t in_xlsub[M+1], in_xlsub_end[M], in_xlusup[M+1], in_lsub[LC]; @T@ in_lusup[LUC];
@T@ nondet_@T@(void);
/* bounded repetition by macro (loop-free stubs); all extents <= 8 */
#define REP8(X) X(0) X(1) X(2) X(3) X(4) X(5) X(6) X(7)
_Static_assert(W <= 8 && M <= 8 && LC <= 9 && TVC == 2*M, "REP8 covers every extent; tempv = two slots of M scalars");

/* the columns with segsze >= 4 ("BLAS columns") are processed in panel order, two at a time: the k-th of them (k = 0,1,..) uses slot k%2 */
static int_t nth_blas_col(int k) {
  int_t found = -1; int cnt = 0;
#define NTH(c) if ((c) < W && (c) < in_w && BLAS(c)) { if (cnt == k) found = (c); cnt++; }
  REP8(NTH)
  return found;
}
static int blas_index(int_t col) {       /* number of BLAS columns in front of col */
  int cnt = 0;
#define IDX(c) if ((c) < W && (c) < in_w && (c) < col && BLAS(c)) cnt++;
  REP8(IDX)
  return cnt;
}
static int blas_total(void) { return blas_index(in_w); }
#define IN_LUSUP(p) (__CPROVER_POINTER_OBJECT(p) == __CPROVER_POINTER_OBJECT(in_lusup))
#define IN_TEMPV(p) (__CPROVER_POINTER_OBJECT(p) == __CPROVER_POINTER_OBJECT(in_tempv))

/* BLAS xTRSV as an argument-recording contract: x := inv(A)*x, A n-by-n unit lower triangular, leading dimension lda */
int @p@trsv_(char *uplo, char *trans, char *diag, int *n, @T@ *A, int *lda, @T@ *x, int *incx) {
  int k = g_blas.trsv_calls; int_t c = nth_blas_col(k); long aoff = A - in_lusup, xoff = x - in_tempv; int j = k & 1;
  g_blas.trsv_calls++;
  __CPROVER_assert(*uplo == 'L' && *trans == 'N' && *diag == 'U' && *incx == 1, "trsv: lower, no transpose, unit diagonal, stride 1");
  __CPROVER_assert(c >= 0, "trsv: not more calls than columns with a U-segment of size >= 4");
  if (c < 0) __CPROVER_assume(0);
  __CPROVER_assert(g_blas.mv2_calls == k/2 && g_blas.trsv_of[c] == 0, "trsv: once per column, after the previous pair of columns is finished");
  __CPROVER_assert(IN_LUSUP(A) && IN_TEMPV(x), "trsv: A points into lusup, x into tempv");
  __CPROVER_assert(xoff == SLOT(j), "trsv: x = tri[j] = tempv + j*n, j = parity of the column among those with segsze >= 4");
  __CPROVER_assert(*n == SEGSZE(c), "trsv: order = segsze");
  __CPROVER_assert(*lda == in_nsupr, "trsv: lda = rows of the supernode");
  __CPROVER_assert(aoff == TRI_OFF(c), "trsv: A = diagonal block at row no_zeros, column no_zeros of the supernode");
  __CPROVER_assert(*n >= 0 && *lda >= 1 && g_xf <= aoff && (*n == 0 || aoff + (long)*lda*(*n - 1) + *n <= SNODE_END), "trsv: extent of A inside the supernode's block of lusup");
  __CPROVER_assert(*n <= in_m && xoff + *n <= 2*in_m, "trsv: x extent inside its slot of n scalars of tempv");
  /* C02: the right-hand side is the U-segment of THIS panel column, gathered from dense[] through the row list in order */
#if DV
#define GATHERED(i) if ((i) < *n && (i) < SEGSZE(c)) __CPROVER_assert(SAME(x[i], DENSE(c, LROW(NOZEROS(c) + (i)))), "trsv: x[i] = dense[lsub[lptr+no_zeros+i]] of this panel column (gather in list order)");
  REP8(GATHERED)
#endif
#define HAVOC_X(i) if ((i) < *n) { x[i] = nondet_@T@(); if (c == g_c) g_xrec[i] = x[i]; }
  REP8(HAVOC_X)
  g_blas.trsv_of[c]++;
  if (c == g_c) { g_blas.trsv_aoff = aoff; g_blas.trsv_n = *n; g_blas.trsv_xoff = xoff; }
  return 0;
}

/* BLAS xGEMV: y := alpha*A*x + beta*y, A m-by-n, leading dimension lda.  Two uses: (pair) the columns kfnz_small..kfnz_big-1 that only the
 * longer segment of a pair needs; (single) the whole update of a last, unpaired column. */
int @p@gemv_(char *trans, int *m, int *n, @T@ *alpha, @T@ *A, int *lda, @T@ *x, int *incx, @T@ *beta, @T@ *y, int *incy) {
  int t = g_blas.trsv_calls, v = g_blas.mv2_calls, j; int_t c, kend; long aoff = A - in_lusup, xoff = x - in_tempv, yoff = y - in_tempv;
  g_blas.gemv_calls++;
  __CPROVER_assert(*trans == 'N' && *incx == 1 && *incy == 1, "gemv: no transpose, strides 1");
  __CPROVER_assert(*alpha == 1.0 && *beta == 0.0, "gemv: alpha = 1, beta = 0 (y := A*x)");
  if (t & 1) {                      /* single: the last BLAS column has no partner */
    __CPROVER_assert(t == blas_total() && v == t/2, "gemv(single): only for the last, unpaired column, after every pair is finished");
    c = nth_blas_col(t - 1); j = 0; kend = in_krep + 1;
    if (c < 0) __CPROVER_assume(0);
  } else {                          /* pair: both segments are solved, the longer one gets its extra leading columns */
    int_t c0, c1;
    __CPROVER_assert(t >= 2 && v == t/2 - 1, "gemv(pair): after both solves of the pair, before its matvec2");
    if (t < 2) __CPROVER_assume(0);
    c0 = nth_blas_col(t - 2); c1 = nth_blas_col(t - 1);
    if (c0 < 0 || c1 < 0) __CPROVER_assume(0);      /* (trsv has reported it) */
    __CPROVER_assert(KFNZ(c0) != KFNZ(c1), "gemv(pair): only when the two segments start in different columns");
    j = KFNZ(c0) < KFNZ(c1) ? 0 : 1; c = j == 0 ? c0 : c1; kend = j == 0 ? KFNZ(c1) : KFNZ(c0);
  }
  __CPROVER_assert(g_blas.gemv_of[c] == 0 && g_blas.trsv_of[c] == 1 && g_blas.mv2_of[c] == 0, "gemv: once per column, on its solved segment, before matvec2 accumulates");
  __CPROVER_assert(IN_LUSUP(A) && IN_TEMPV(x) && IN_TEMPV(y), "gemv: A points into lusup, x and y into tempv");
  __CPROVER_assert(xoff == SLOT(j) && yoff == SLOT(j) + SEGSZE(c), "gemv: x = solved segment tri[j][0..), y = tri[j] + segsze of that column");
  __CPROVER_assert(*n == kend - KFNZ(c), "gemv: columns = from the segment's first column up to the partner's first column (single: up to krep)");
  __CPROVER_assert(*m == in_nrow, "gemv: rows = all rows below the diagonal block");
  __CPROVER_assert(*lda == in_nsupr, "gemv: lda = rows of the supernode");
  __CPROVER_assert(aoff == RECT_OFF(c, 0), "gemv: A = rows nsupc.., columns no_zeros.. of the supernode");
  __CPROVER_assert(*m >= 0 && *n >= 1 && g_xf <= aoff && aoff + (long)*lda*(*n - 1) + *m <= SNODE_END, "gemv: extent of A inside the supernode's block of lusup");
  __CPROVER_assert(SEGSZE(c) + *m <= in_m && yoff + *m <= 2*in_m, "gemv: x and y extents inside the column's slot of n scalars of tempv");
#define HAVOC_Y(i) if ((i) < *m) { y[i] = nondet_@T@(); if (c == g_c) g_yrec[i] = y[i]; }
  REP8(HAVOC_Y)
  g_blas.gemv_of[c]++;
  if (c == g_c) { g_blas.gemv_aoff = aoff; g_blas.gemv_m = *m; g_blas.gemv_n = *n; g_blas.gemv_xoff = xoff; g_blas.gemv_yoff = yoff; }
  return 0;
}

/* the library's own ?matvec2 (SRC/?myblas2.c) by contract: y0 += A*x0, y1 += A*x1, A m-by-n with leading dimension lda.  It ACCUMULATES. */
void @p@matvec2(int_t lda, int_t m, int_t n, @T@ *A, @T@ *x0, @T@ *x1, @T@ *y0, @T@ *y1) {
  int t = g_blas.trsv_calls, p = g_blas.mv2_calls; int_t c0, c1, kmax; long aoff = A - in_lusup;
  g_blas.mv2_calls++;
  __CPROVER_assert(t == 2*p + 2, "matvec2: once per pair, after both triangular solves");
  if (t != 2*p + 2) __CPROVER_assume(0);
  c0 = nth_blas_col(2*p); c1 = nth_blas_col(2*p + 1);
  if (c0 < 0 || c1 < 0) __CPROVER_assume(0);        /* (trsv has reported it) */
  kmax = MAXI(KFNZ(c0), KFNZ(c1));
  __CPROVER_assert(g_blas.trsv_of[c0] == 1 && g_blas.trsv_of[c1] == 1 && g_blas.mv2_of[c0] == 0 && g_blas.mv2_of[c1] == 0, "matvec2: both segments solved, neither updated yet");
  __CPROVER_assert(g_blas.gemv_of[c0] == (KFNZ(c0) < KFNZ(c1)) && g_blas.gemv_of[c1] == (KFNZ(c1) < KFNZ(c0)), "matvec2: the longer segment (only) has had its leading columns multiplied by gemv");
  __CPROVER_assert(IN_LUSUP(A) && IN_TEMPV(x0) && IN_TEMPV(x1) && IN_TEMPV(y0) && IN_TEMPV(y1), "matvec2: A points into lusup, x0, x1, y0, y1 into tempv");
  __CPROVER_assert(lda == in_nsupr, "matvec2: lda = rows of the supernode");
  __CPROVER_assert(m == in_nrow, "matvec2: rows = all rows below the diagonal block");
  __CPROVER_assert(n == in_krep - kmax + 1, "matvec2: columns = the common part max(kfnz0,kfnz1)..krep of the two segments");
  __CPROVER_assert(aoff == COL_OFF(kmax), "matvec2: A = rows nsupc.., columns max(kfnz0,kfnz1).. of the supernode");
  __CPROVER_assert(m >= 0 && n >= 1 && g_xf <= aoff && aoff + (long)lda*(n - 1) + m <= SNODE_END, "matvec2: extent of A inside the supernode's block of lusup");
  __CPROVER_assert(x0 - in_tempv == SLOT(0) + (kmax - KFNZ(c0)) && x1 - in_tempv == SLOT(1) + (kmax - KFNZ(c1)), "matvec2: x0, x1 = the entries of each solved segment that belong to columns max(kfnz0,kfnz1)..krep");
  __CPROVER_assert(y0 - in_tempv == SLOT(0) + SEGSZE(c0) && y1 - in_tempv == SLOT(1) + SEGSZE(c1), "matvec2: y0, y1 = tri[j] + segsze of each column");
  __CPROVER_assert(SEGSZE(c0) + m <= in_m && SEGSZE(c1) + m <= in_m, "matvec2: x and y extents inside each column's slot of n scalars of tempv");
  /* C05 (tempv zeroed where the caller relies on it): the product slot of a column that had no gemv must hold zeros */
#if DV
#define ACC0(i) if ((i) < m && g_blas.gemv_of[c0] == 0) __CPROVER_assert(y0[i] == 0.0, "matvec2 accumulates: y0 is zero on entry unless gemv has just written it");
#define ACC1(i) if ((i) < m && g_blas.gemv_of[c1] == 0) __CPROVER_assert(y1[i] == 0.0, "matvec2 accumulates: y1 is zero on entry unless gemv has just written it");
  REP8(ACC0) REP8(ACC1)
#endif
#define HAVOC_Y0(i) if ((i) < m) { y0[i] = nondet_@T@(); if (c0 == g_c) g_yrec[i] = y0[i]; }
#define HAVOC_Y1(i) if ((i) < m) { y1[i] = nondet_@T@(); if (c1 == g_c) g_yrec[i] = y1[i]; }
  REP8(HAVOC_Y0) REP8(HAVOC_Y1)
  g_blas.mv2_of[c0]++; g_blas.mv2_of[c1]++;
  if (c0 == g_c) { g_blas.mv2_aoff = aoff; g_blas.mv2_m = m; g_blas.mv2_n = n; g_blas.mv2_xoff = x0 - in_tempv; g_blas.mv2_yoff = y0 - in_tempv; }
  if (c1 == g_c) { g_blas.mv2_aoff = aoff; g_blas.mv2_m = m; g_blas.mv2_n = n; g_blas.mv2_xoff = x1 - in_tempv; g_blas.mv2_yoff = y1 - in_tempv; }
}
/* not reachable with -DUSE_VENDOR_BLAS (declared by the TU only) */
void @p@lsolve(int_t ldm, int_t ncol, @T@ *Mx, @T@ *rhs) { __CPROVER_assert(0, "lsolve: not called in a vendor-BLAS build"); }
void @p@matvec(int_t ldm, int_t nrow, int_t ncol, @T@ *Mx, @T@ *vec, @T@ *Mxvec) { __CPROVER_assert(0, "matvec: not called in a vendor-BLAS build"); }

int_t nondet_int_t(void);
#define REQ(label, c) __CPROVER_assume(c)
#define ENS(label, c) __CPROVER_assert(c, "ensures " #label)
/* BOUNDED unit (label B(n)): no contract is enforced (a loop contract would havoc the cursor pointers dense_col/repfnz_col, after
 * which symex splits every access over all assignable objects -- measured on bmod1D/bmod2D: 70M clauses, out of memory; DFCC too).  The real
 * routine is executed symbolically with all loops unwound (--unwinding-assertions), for every geometry within the capacities.
 * The clauses are the ones a contract would carry: REQ = requires (assumed), ENS = ensures (asserted), frame = ghost index per array. */
void h_bmod1D_mv2(void) {
  int bidx, btot, single; int_t partner; long slot, n1;
  /* ---------- inputs: nondeterministic ---------- */
  in_pnum = nondet_int_t(); in_m = nondet_int_t(); in_w = nondet_int_t(); in_jcol = nondet_int_t(); in_fsupc = nondet_int_t(); in_krep = nondet_int_t();
  in_nsupc = nondet_int_t(); in_nsupr = nondet_int_t(); in_nrow = nondet_int_t();
  g_lptr = nondet_int_t(); g_xf = nondet_int_t(); g_c = nondet_int_t(); g_q = nondet_int_t(); g_r = nondet_int_t(); g_t = nondet_int_t();
  g_p = nondet_int_t(); g_l = nondet_int_t(); g_x = nondet_int_t(); g_pn = nondet_int_t();
  __CPROVER_havoc_object(in_repfnz); __CPROVER_havoc_object(in_panel_lsub); __CPROVER_havoc_object(in_w_lsub_end); __CPROVER_havoc_object(in_spa_marker);
  __CPROVER_havoc_object(in_dense); __CPROVER_havoc_object(in_tempv); __CPROVER_havoc_object(in_procstat);
  __CPROVER_havoc_object(in_xlsub); __CPROVER_havoc_object(in_xlsub_end); __CPROVER_havoc_object(in_xlusup); __CPROVER_havoc_object(in_lsub); __CPROVER_havoc_object(in_lusup);
  in_Glu.lsub = in_lsub; in_Glu.xlsub = in_xlsub; in_Glu.xlsub_end = in_xlsub_end; in_Glu.lusup = in_lusup; in_Glu.xlusup = in_xlusup;
  in_Gstat.procstat = in_procstat;
  g_blas = (struct blas_rec){0};
  /* ---------- requires (the facts p?gstrf_panel_bmod has at its two call sites) ---------- */
  REQ(args, 0 <= in_pnum && in_pnum < NP && 1 <= in_m && in_m <= M && 1 <= in_w && in_w <= W && 0 <= in_jcol && in_jcol <= M);
  /* the updating supernode: columns fsupc..krep, nsupr >= nsupc rows, nrow rows below the diagonal block */
  REQ(snode, 0 <= in_fsupc && in_fsupc <= in_krep && in_krep < in_m && in_nsupc == in_krep - in_fsupc + 1 && in_nsupc <= in_nsupr && in_nsupr <= LC && in_nrow == in_nsupr - in_nsupc && in_nrow <= NRC);
  REQ(geometry, g_lptr == in_xlsub[in_fsupc] && 0 <= g_lptr && g_lptr <= LC - in_nsupr && in_xlsub_end[in_fsupc] == g_lptr + in_nsupr && g_xf == in_xlusup[in_fsupc] && 0 <= g_xf && g_xf <= LUC && in_nsupr*in_nsupc <= LUC - g_xf);
  REQ(rows_in_range, FA(q1, LC, INLIST(q1) ==> (0 <= in_lsub[q1] && in_lsub[q1] < in_m)));
  REQ(rows_distinct, FA(q2, LC, FA(q3, LC, (INLIST(q2) && q2 < q3 && INLIST(q3)) ==> in_lsub[q2] != in_lsub[q3])));
  REQ(rows_fit, in_nsupr <= in_m);      /* implied by the two clauses above (nsupr distinct ids below m); stated so that the solver need not count */
  /* each panel column's U-segment w.r.t. this supernode is empty or starts at a column of the supernode */
#if W == 1   /* (a quantifier over a single value is dropped by the back end) */
  REQ(segments, KFNZ(0) == EMPTY || (in_fsupc <= KFNZ(0) && KFNZ(0) <= in_krep));
#else
  REQ(segments, FA(c1, W, c1 < in_w ==> (KFNZ(c1) == EMPTY || (in_fsupc <= KFNZ(c1) && KFNZ(c1) <= in_krep))));
#endif
#if ONLYBLAS  /* value clauses of the BLAS path: no hand-unrolled column in the panel (their floating-point updates are the subject of the values-* variants) */
  REQ(only_blas_columns, FA(c2, W, c2 < in_w ==> (!ACTIVE(c2) || SEGSZE(c2) >= 4)));
#endif
#ifdef SEG     /* value variants: the (single) panel column has a hand-unrolled segment of exactly this size */
  REQ(unrolled_segment, ACTIVE(0) && SEGSZE(0) == SEG);
#endif
  /* tempv: NUM_TEMPV(n,w,maxsuper,rowblk) = max(2n, ..) >= 2n scalars from p?gstrf_WorkInit/SetRWork, all zero between kernel calls.
   * The harness array has 2*M scalars: with m == M an access behind the second slot leaves the object. */
  REQ(tempv_zero_on_entry, FA(t1, TVC, in_tempv[t1] == 0.0));
  /* ghost indices: panel column, list position, row id, tempv index, thread; one index per read-only array */
  REQ(ghosts, 0 <= g_c && g_c < in_w && 0 <= g_q && g_q < in_nsupr && 0 <= g_r && g_r < in_m && 0 <= g_t && g_t < TVC && 0 <= g_p && g_p < LUC && 0 <= g_l && g_l < LC && 0 <= g_x && g_x < M && 0 <= g_pn && g_pn < NP && g_pn != in_pnum);
  g_dense0_r = DENSE(g_c, g_r); g_dense0_q = DENSE(g_c, LROW(g_q));
  g_lu0 = in_lusup[g_p]; g_lsub0 = in_lsub[g_l]; g_repfnz0 = in_repfnz[g_c*in_m + g_x]; g_xlsub0 = in_xlsub[g_x]; g_xlsub_end0 = in_xlsub_end[g_x]; g_xlusup0 = in_xlusup[g_x];
  g_unused0[0] = in_panel_lsub[g_c*in_m + g_x]; g_unused0[1] = in_spa_marker[g_c*in_m + g_x]; g_unused0[2] = in_w_lsub_end[g_c];
  g_stat0 = in_procstat[g_pn]; g_stat_own0 = in_procstat[in_pnum];
#if VALS
  /* exact domain: the panel column's entries at the supernode's rows and the stored entries of the supernode are small integers */
  REQ(small_dense, FA(v1, LC, INLIST(v1) ==> SMALL(DENSE(0, in_lsub[v1]))));
  REQ(small_lusup, FA(v2, LUC, SMALL(in_lusup[v2])));
  /* reference (definition of the update, not the routine's text): u = the segment of dense[] at list positions no_zeros..nsupc-1;
   * x = inv(unit-lower(L[no_zeros.., no_zeros..])) u by forward substitution; a row at list position q >= nsupc gets dense - sum_i L[q, no_zeros+i] x_i */
  @T@ u0 = 0, u1 = 0, u2 = 0, x0, x1 = 0, x2 = 0, ref_q; int_t nz = NOZEROS(0), s = SEGSZE(0);
  u0 = DENSE(0, LROW(nz)); if (s >= 2) u1 = DENSE(0, LROW(nz + 1)); if (s >= 3) u2 = DENSE(0, LROW(nz + 2));
  x0 = u0;
  if (s >= 2) x1 = u1 - LVAL(nz + 1, nz) * x0;
  if (s >= 3) x2 = u2 - LVAL(nz + 2, nz) * x0 - LVAL(nz + 2, nz + 1) * x1;
  if (g_q < nz) ref_q = g_dense0_q;
  else if (g_q < in_nsupc) ref_q = g_q == nz ? x0 : g_q == nz + 1 ? x1 : x2;
  else {
    ref_q = g_dense0_q - LVAL(g_q, nz) * x0;
    if (s >= 2) ref_q = ref_q - LVAL(g_q, nz + 1) * x1;
    if (s >= 3) ref_q = ref_q - LVAL(g_q, nz + 2) * x2;
  }
#else
  /* the compared pre-state values are numbers (NaN != NaN would make "kept" unprovable) */
  REQ(values_numbers, g_dense0_r == g_dense0_r && g_dense0_q == g_dense0_q && in_lusup[g_p] == in_lusup[g_p]);
#endif

  p@p@gstrf_bmod1D_mv2(in_pnum, in_m, in_w, in_jcol, in_fsupc, in_krep, in_nsupc, in_nsupr, in_nrow, in_repfnz, in_panel_lsub,
                     in_w_lsub_end, in_spa_marker, in_dense, in_tempv, &in_Glu, &in_Gstat);

  /* ---------- ensures ---------- */
  bidx = blas_index(g_c); btot = blas_total(); single = (btot & 1) && bidx == btot - 1; partner = single ? -1 : nth_blas_col(bidx ^ 1); slot = SLOT(bidx & 1);
  /* C02: the triangular solve of column g_c happens once, on the segsze x segsze diagonal block at row/column no_zeros, in the column's slot */
  ENS(trsv_once_on_diagonal_block, !BLAS(g_c) || (g_blas.trsv_of[g_c] == 1 && g_blas.trsv_aoff == TRI_OFF(g_c) && g_blas.trsv_n == SEGSZE(g_c) && g_blas.trsv_xoff == slot));
  ENS(no_kernel_for_small_segments, BLAS(g_c) || (g_blas.trsv_of[g_c] == 0 && g_blas.gemv_of[g_c] == 0 && g_blas.mv2_of[g_c] == 0));
  ENS(kernel_call_totals, g_blas.trsv_calls == btot && g_blas.mv2_calls == btot/2);
  /* C02: the rows below the diagonal block times the solved segment: columns no_zeros..krep of the supernode are covered exactly once, by
   * one gemv (unpaired column), by one matvec2 (pair with equal or shorter-or-equal segment) or by gemv on the leading n1 columns followed by
   * matvec2 on the rest (longer segment of a pair); each product takes the matching entries of the solved segment and lands in slot+segsze */
  n1 = g_blas.gemv_of[g_c] == 1 ? g_blas.gemv_n : 0;
  if (BLAS(g_c)) {
    ENS(rows_below_unpaired_column_one_gemv, !single || (g_blas.gemv_of[g_c] == 1 && g_blas.mv2_of[g_c] == 0 && g_blas.gemv_n == SEGSZE(g_c)));
    ENS(rows_below_paired_column_matvec2_once, single || (g_blas.mv2_of[g_c] == 1 && partner >= 0 && g_blas.gemv_of[g_c] == (KFNZ(g_c) < KFNZ(partner))));
    ENS(rows_below_gemv_leading_columns, g_blas.gemv_of[g_c] == 0 || (g_blas.gemv_of[g_c] == 1 && g_blas.gemv_aoff == RECT_OFF(g_c, 0) && g_blas.gemv_m == in_nrow && 1 <= g_blas.gemv_n && g_blas.gemv_xoff == slot && g_blas.gemv_yoff == slot + SEGSZE(g_c)));
    ENS(rows_below_matvec2_remaining_columns, g_blas.mv2_of[g_c] == 0 || (g_blas.mv2_of[g_c] == 1 && g_blas.mv2_aoff == RECT_OFF(g_c, 0) + in_nsupr*n1 && g_blas.mv2_m == in_nrow && g_blas.mv2_n == SEGSZE(g_c) - n1 && g_blas.mv2_xoff == slot + n1 && g_blas.mv2_yoff == slot + SEGSZE(g_c)));
  }
#if ONLYBLAS && DV
  /* C02: the results are scattered back to dense[] of THAT panel column: the solved segment replaces the U-segment (list positions
   * no_zeros..nsupc-1, in order), the product is subtracted from the rows below the diagonal block (positions nsupc..nsupr-1) */
  ENS(scatter_solved_segment, !(BLAS(g_c) && NOZEROS(g_c) <= g_q && g_q < in_nsupc) || SAME(DENSE(g_c, LROW(g_q)), g_xrec[g_q - NOZEROS(g_c)]));
  ENS(scatter_rows_below, !(BLAS(g_c) && in_nsupc <= g_q) || SAME(DENSE(g_c, LROW(g_q)), g_dense0_q - g_yrec[g_q - in_nsupc]));
#endif
#if DV
  /* C05/frame: dense[] of a panel column is written only at rows of the supernode's row list, and not above the segment's first row */
  ENS(dense_outside_list_kept, EX(e1, LC, INLIST(e1) && in_lsub[e1] == g_r) || SAME(DENSE(g_c, g_r), g_dense0_r));
  ENS(dense_above_segment_kept, !(ACTIVE(g_c) && g_q < NOZEROS(g_c)) || SAME(DENSE(g_c, LROW(g_q)), g_dense0_q));
  ENS(dense_empty_segment_kept, ACTIVE(g_c) || SAME(DENSE(g_c, g_r), g_dense0_r));
#endif
#if VALS
  /* C02: the hand-unrolled cases (segsze 1,2,3) compute the same update on the right entries (exact on the small-integer domain) */
  ENS(unrolled_update_value, DENSE(0, LROW(g_q)) == ref_q);
#endif
#if DV
  /* C05: tempv is left all zero (the next kernel call, and matvec2's accumulation, rely on it) */
  ENS(tempv_zero_on_exit, in_tempv[g_t] == 0.0);
#endif
  /* frame: the supernode, the index structures and the unused SCATTER_FOUND arrays are not written; of the statistics only the flop counter of this thread */
  ENS(frame_lusup, SAME(in_lusup[g_p], g_lu0));
  ENS(frame_index_arrays, in_lsub[g_l] == g_lsub0 && in_repfnz[g_c*in_m + g_x] == g_repfnz0 && in_xlsub[g_x] == g_xlsub0 && in_xlsub_end[g_x] == g_xlsub_end0 && in_xlusup[g_x] == g_xlusup0);
  ENS(frame_unused_arrays, in_panel_lsub[g_c*in_m + g_x] == g_unused0[0] && in_spa_marker[g_c*in_m + g_x] == g_unused0[1] && in_w_lsub_end[g_c] == g_unused0[2]);
  ENS(frame_other_threads_statistics, in_procstat[g_pn].panels == g_stat0.panels && SAME(in_procstat[g_pn].fcops, g_stat0.fcops) && in_procstat[g_pn].pruned == g_stat0.pruned && in_procstat[g_pn].unpruned == g_stat0.unpruned && in_procstat[g_pn].skedwaits == g_stat0.skedwaits && SAME(in_procstat[g_pn].fctime, g_stat0.fctime));
  ENS(frame_own_statistics_but_flops, in_procstat[in_pnum].panels == g_stat_own0.panels && in_procstat[in_pnum].pruned == g_stat_own0.pruned && in_procstat[in_pnum].unpruned == g_stat_own0.unpruned && in_procstat[in_pnum].skedwaits == g_stat_own0.skedwaits && SAME(in_procstat[in_pnum].fctime, g_stat_own0.fctime));
  ENS(frame_pointers, in_Glu.lsub == in_lsub && in_Glu.xlsub == in_xlsub && in_Glu.xlsub_end == in_xlsub_end && in_Glu.lusup == in_lusup && in_Glu.xlusup == in_xlusup && in_Gstat.procstat == in_procstat);
  __CPROVER_assert(0, "canary: bmod1D_mv2 returns");
#if VALS
  if (in_nrow == 2 && g_q == in_nsupr - 1 && NOZEROS(0) > 0 && ref_q != g_dense0_q) __CPROVER_assert(0, "canary: last row below the block changed by the unrolled update");
#else
  if (BLAS(0) && NOZEROS(0) > 0) __CPROVER_assert(0, "canary: segsze >= 4 with no_zeros > 0");
  if (BLAS(0) && in_nrow == 0) __CPROVER_assert(0, "canary: no rows below the diagonal block");
  if (in_w >= 2 && BLAS(0) && BLAS(1) && KFNZ(0) < KFNZ(1) && in_nrow >= 1) __CPROVER_assert(0, "canary: pair, first segment longer");
  if (in_w >= 2 && BLAS(0) && BLAS(1) && KFNZ(0) > KFNZ(1) && in_nrow >= 1) __CPROVER_assert(0, "canary: pair, second segment longer");
  if (in_w >= 2 && BLAS(0) && BLAS(1) && KFNZ(0) == KFNZ(1) && in_nrow >= 1) __CPROVER_assert(0, "canary: pair, equal segments (matvec2 only)");
  if (BLAS(0) && in_w == W && in_nsupr == in_m && SNODE_END == LUC && g_lptr + in_nsupr == LC && btot == 2) __CPROVER_assert(0, "canary: pair with nsupr = m, lusup and lsub filled to the end");
#if !ONLYBLAS
  if (in_w >= 2 && ACTIVE(0) && SEGSZE(0) == 1 && ACTIVE(1) && SEGSZE(1) == 3 && in_nrow >= 2) __CPROVER_assert(0, "canary: unrolled cases 1 and 3");
  if (in_w >= 2 && !ACTIVE(0) && ACTIVE(1) && SEGSZE(1) == 2 && in_nrow >= 1) __CPROVER_assert(0, "canary: empty segment and unrolled case 2");
  if (in_w >= 2 && BLAS(0) && ACTIVE(1) && SEGSZE(1) == 2 && g_blas.gemv_calls == 1) __CPROVER_assert(0, "canary: unpaired BLAS column next to an unrolled one");
#endif
#if W >= 3
  if (in_w == 3 && btot == 3 && in_nrow >= 1) __CPROVER_assert(0, "canary: a pair followed by an unpaired column");
#endif
#endif
}
