/* vocabulary for p?gstrf_bmod1D_mv2 (1-D sup-panel update of the w columns of a panel by ONE updating supernode; the variant of
 * p?gstrf_bmod1D that p?gstrf_panel_bmod calls when the library is built with -DGEMV2: columns with a U-segment of size >= 4 are
 * processed in PAIRS so that the rows below the diagonal block are multiplied once for two right-hand sides, ?matvec2).
 * Capacities: M rows (= stride of the n-by-w work arrays), W panel width, LC row subscripts, LUC stored values of L, TVC = 2*M scalars
 * of tempv, NP threads.  The harness owns every array (in_*); the scalar arguments are the in_* scalars.
 * Supernode geometry (ghost scalars bound by REQ(geometry)): g_lptr = xlsub[fsupc] (start of the row list, in_nsupr rows),
 * g_xf = xlusup[fsupc] (start of the in_nsupr x in_nsupc column-major block, lda = in_nsupr).
 * Panel column c (0 <= c < w): its U-segment w.r.t. the supernode covers supernode columns KFNZ(c)..krep.
 * tempv layout of this kernel: two slots of n scalars, tri[j] = tempv + j*n (j = 0,1);
 *   slot[0..segsze) = gathered / solved segment, slot[segsze..segsze+nrow) = product of the rows below the diagonal block. */
#define KFNZ(c)    in_repfnz[(c)*in_m + in_krep]
#define ACTIVE(c)  (KFNZ(c) != EMPTY)
#define SEGSZE(c)  (in_krep - KFNZ(c) + 1)
#define NOZEROS(c) (KFNZ(c) - in_fsupc)
#define BLAS(c)    (ACTIVE(c) && SEGSZE(c) >= 4)                 /* the column goes through trsv/gemv/matvec2 (else hand-unrolled) */
#define INLIST(p)  (g_lptr <= (p) && (p) < g_lptr + in_nsupr)     /* position inside the supernode's row list */
#define DENSE(c,r) in_dense[(c)*in_m + (r)]
#define LROW(q)    in_lsub[g_lptr + (q)]                          /* row id at position q of the supernode's row list */
#define SLOT(j)    ((j)*in_m)                                     /* tri[j] - tempv */
/* offsets into lusup the update is defined on */
#define TRI_OFF(c)   (g_xf + in_nsupr*NOZEROS(c) + NOZEROS(c))               /* diagonal block: row no_zeros, column no_zeros */
#define RECT_OFF(c,r) (g_xf + in_nsupr*NOZEROS(c) + in_nsupc + (r))          /* row nsupc+r, column no_zeros */
#define COL_OFF(k)   (g_xf + in_nsupr*((k) - in_fsupc) + in_nsupc)           /* row nsupc, supernode column k (global column id) */
#define LVAL(r,k)    in_lusup[g_xf + (r) + in_nsupr*(k)]                     /* entry (row position r, local column k) of the supernode */
#define SNODE_END    (g_xf + in_nsupr*in_nsupc)
#define MINI(a,b) ((a) < (b) ? (a) : (b))
#define MAXI(a,b) ((a) > (b) ? (a) : (b))
#define ISNAN(v)  ((v) != (v))
#define SAME(a,b) ((a) == (b) || (ISNAN(a) && ISNAN(b)))
/* exact domain of the value variants: products and sums of a few such numbers are exact in float and double, in any order */
#define SMALL(v)  ((v) == -1 || (v) == 0 || (v) == 1 || (v) == 2)
/* dense-kernel call records (ONE object, so that a frame would have one target): total calls; per panel column the number of calls that
 * concern it; for the ghost panel column g_c the arguments of its calls */
#ifndef SPEC_EXPAND
struct blas_rec { int trsv_calls, gemv_calls, mv2_calls; int trsv_of[W], gemv_of[W], mv2_of[W];
                  long trsv_aoff, trsv_n, trsv_xoff, gemv_aoff, gemv_m, gemv_n, gemv_xoff, gemv_yoff, mv2_aoff, mv2_m, mv2_n, mv2_xoff, mv2_yoff; };
#endif
