#include <pthread.h>
#include "slu_mt_@p@defs.h"
extern void p@p@gstrf_StackFree();
/* ghost: log of pthread_mutex_destroy */
int g_destroys; void *g_destroy_obj;
int pthread_mutex_destroy(pthread_mutex_t *m) { if (g_destroys < 1000) g_destroys++; g_destroy_obj = m; return 0; }
void verif_abort(char *msg) { __CPROVER_assert(0, "abort hook is never reached"); __CPROVER_assume(0); }
void h_stack_free(void) {
  p@p@gstrf_StackFree();
  __CPROVER_assert(0, "canary: StackFree returns");
  if (g_destroys == 1) __CPROVER_assert(0, "canary: user-workspace mode, lock destroyed");
  if (g_destroys == 0) __CPROVER_assert(0, "canary: system mode, nothing done");
}
