#include "slu_mt_@p@defs.h"
extern float p@p@gstrf_memory_use(const int_t, const int_t, const int_t);
int_t in_nzlmax, in_nzumax, in_nzlumax; float g_ret;
void h_memory_use(void) {
  g_ret = p@p@gstrf_memory_use(in_nzlmax, in_nzumax, in_nzlumax);
  __CPROVER_assert(0, "canary: memory_use returns");
  if (in_nzlmax < 0 && g_ret < 0.0f) __CPROVER_assert(0, "canary: negative count, negative result");
  if (in_nzlmax > 100000000 && in_nzumax > 100000000 && in_nzlumax > 100000000 && g_ret > 2147483648.0f) __CPROVER_assert(0, "canary: result above INT_MAX");
  if (in_nzlmax == 0 && in_nzumax == 0 && in_nzlumax == 0 && g_ret == 0.0f) __CPROVER_assert(0, "canary: empty stores, order 0");
}
