#include "slu_mt_@p@defs.h"
extern void p@p@gstrf_WorkFree(int_t *, @T@ *, GlobalLU_t *);
/* ghosts: pre-state of the file-static user stack; lowest offset of another thread's live TAIL block */
int_t g_size0, g_used0, g_top10, g_top20, g_other_lo, g_users0;
/* inputs */
char in_work[WCAP]; GlobalLU_t in_Glu; int_t in_ioff, in_doff;
void h_work_free_user(void) {
  /* the caller's own blocks lie somewhere in the TAIL (WorkFree does not look at them in this mode) */
  __CPROVER_assume(0 <= in_doff && in_doff <= in_ioff && in_ioff < WCAP);
  p@p@gstrf_WorkFree((int_t *)(in_work + in_ioff), (@T@ *)(in_work + in_doff), &in_Glu);
  __CPROVER_assert(0, "canary: WorkFree (user workspace) returns");
  if (g_other_lo < g_size0) __CPROVER_assert(0, "canary: another thread's work block is still in use");
  if (g_other_lo == g_size0 && g_top20 < g_size0) __CPROVER_assert(0, "canary: last thread releases a non-empty tail");
}
