/* vocabulary for the top-level readers ?readhb / ?readrb.
 * File model (stubs/rdtop_stubs.c): header lines in_hdr[l][LW], line l ends ('\n') at column in_nl[l]; numeric header fields have
 * the oracle values in_l2[0..4] (TOTCRD PTRCRD INDCRD VALCRD RHSCRD) and in_l3[0..3] (NROW NCOL NNZERO NELTVL); the three edit
 * descriptors of line 4 denote (in_pn[k], in_ps[k]) = (items per line, field width), k = 0 pointers, 1 indices, 2 values.
 * Data part: section starts (line numbers, 0-based) g_s0 pointers, g_s1 indices, g_s2 values, g_end first line after the matrix;
 * the sections are PTRCRD, INDCRD, VALCRD lines long (the header's own line counts).
 * Pointwise data oracle: in_item_ptr / in_item_ptr1 = items g_i, g_i+1 of the pointer section, in_item_ind / in_item_val(_im) =
 * item g_t of the index / value section, as printed (1-based). */
#define LW 84
#define NHL 5
#define NB 500000000
#define TOTCRD in_l2[0]
#define PTRCRD in_l2[1]
#define INDCRD in_l2[2]
#define VALCRD in_l2[3]
#define RHSCRD in_l2[4]
#define F_NROW in_l3[0]
#define F_NCOL in_l3[1]
#define F_NNZ in_l3[2]
#define F_NELTVL in_l3[3]
#if RB
#define HDRLINES 4
#else
#define HDRLINES (4 + (RHSCRD != 0 ? 1 : 0))
#endif
/* complex files hold 2 numbers per entry */
#if CPLX
#define VAL_IS(x) ((x).r == (VR)in_item_val && (x).i == (VR)in_item_val_im)
#else
#define VAL_IS(x) ((x) == (VT)in_item_val)
#endif
#define SYMTYPE (in_hdr[2][1] == 'S' || in_hdr[2][1] == 's')
