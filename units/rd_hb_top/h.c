#include "slu_mt_@p@defs.h"
#define LW 84
#define NHL 5
/* inputs = the file: header lines (bytes, line ends), oracle values of the numeric header fields and of the three edit descriptors,
 * oracle values of the data items the ghost indices select */
char in_hdr[NHL][LW]; int in_nl[NHL]; int in_l2[5], in_l3[4], in_pn[3], in_ps[3];
int in_item_ptr, in_item_ptr1, in_item_ind; double in_item_val, in_item_val_im;
/* outputs */
int_t in_nrow, in_ncol, in_nonz; @T@ *in_nzval; int_t *in_rowind, *in_colptr;
/* ghosts: section starts (line numbers), universally chosen pointer index / entry index */
int g_s0, g_s1, g_s2, g_end, g_i, g_t;
#if RB
void @p@readrb(int_t *, int_t *, int_t *, @T@ **, int_t **, int_t **);
#define READER @p@readrb
#else
void @p@readhb(int_t *, int_t *, int_t *, @T@ **, int_t **, int_t **);
#define READER @p@readhb
#endif
void h_rdtop(void) {
  READER(&in_nrow, &in_ncol, &in_nonz, &in_nzval, &in_rowind, &in_colptr);
#if SYMUNIT
  if ((in_hdr[2][1] == 'S' || in_hdr[2][1] == 's') && 0 <= g_i && g_i < in_l3[1] && 0 <= g_t && g_t < in_l3[2] && in_colptr[g_i] <= g_t && g_t < in_colptr[g_i + 1] && in_rowind[g_t] != g_i)
    __CPROVER_assert(0, "canary: symmetric file with a stored off-diagonal entry");
#else
  /* (each failing canary costs a multi-megabyte trace in the json output: only the cases that select different code paths) */
  __CPROVER_assert(0, "canary: reader returns");
#if !RB && SHORTHDR != 1
  if (in_l2[4] > 0) __CPROVER_assert(0, "canary: right-hand-side header line present");
#endif
#if !RB
  if (in_l2[4] == 0) __CPROVER_assert(0, "canary: no right-hand-side header line");
#endif
  if (in_l2[3] == 0) __CPROVER_assert(0, "canary: pattern file (no value lines)");
  if (in_l3[2] == 0) __CPROVER_assert(0, "canary: no entries");
  if (in_nl[1] > 70 && in_nl[3] > 72) __CPROVER_assert(0, "canary: header lines longer than their formats");
#endif
}
