#include "slu_mt_@p@defs.h"
extern int g_seq, g_n_malloc, g_n_free;
int_t in_ispec; SuperMatrix in_A; NCformat in_Astore; int_t in_colptr[CAP+1], in_rowind[NZ]; int_t in_perm_c[CAP];
void get_perm_c(int_t, SuperMatrix *, int_t *);
void h_get_perm_c(void) {
  in_A.Store = &in_Astore; in_Astore.colptr = in_colptr; in_Astore.rowind = in_rowind;
  get_perm_c(in_ispec, &in_A, in_perm_c);
  __CPROVER_assert(0, "canary: get_perm_c returns");
  if (g_seq == 0 && in_A.ncol == 2 && in_Astore.nnz == 2) __CPROVER_assert(0, "canary: empty adjacency, order 2, two entries");
  if (g_seq == 1) __CPROVER_assert(0, "canary: genmmd reached");
}
