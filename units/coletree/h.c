#include "slu_mt_ddefs.h"
#include <stdlib.h>
/* BOUNDED unit (label B(n)): the real sp_coletree (SYM=0) / sp_symetree (SYM=1) is executed symbolically for every column structure with
 * nr, nc <= CAP and at most NZ stored subscripts (NCP format: arbitrary, possibly overlapping, unsorted or repeated column ranges), loops
 * unwound, and compared with the textbook definition computed here: parent[j] = first off-diagonal row of column j of the symbolic Cholesky
 * factor of A'*A (SYM=0) resp. of the symmetric matrix whose upper triangle is A's (SYM=1). */
int_t in_nr, in_nc, in_colbeg[CAP], in_colend[CAP], in_arow[NZ];
int_t g_parent[CAP], g_colbeg0[CAP], g_colend0[CAP], g_arow0[NZ];
/* superlu_malloc / superlu_free of SRC/util.c are malloc / free; blocks are carved end-aligned from constant-size heap objects (see units/treepost/h.c) */
#define BLOCK ((CAP + 1) * sizeof(int_t))
void *superlu_malloc(size_t size) {
  char *b;
  __CPROVER_assert(size <= BLOCK, "allocator model: request within the modelled block size");
  b = malloc(BLOCK);
  return b ? b + (BLOCK - size) : (void *) 0;
}
void superlu_free(void *addr) { free((char *) addr - __CPROVER_POINTER_OFFSET(addr)); }
int_t nondet_int_t(void);
void h_coletree(void) {
  int_t r, c, p, i, j, k, ref; int used;
  _Bool M[CAP][CAP], B[CAP][CAP];
  in_nr = nondet_int_t(); in_nc = nondet_int_t();
  for (c = 0; c < CAP; c++) { in_colbeg[c] = nondet_int_t(); in_colend[c] = nondet_int_t(); g_parent[c] = nondet_int_t(); }
  for (p = 0; p < NZ; p++) in_arow[p] = nondet_int_t();
  __CPROVER_assume(0 <= in_nc && in_nc <= CAP && 0 <= in_nr && in_nr <= CAP);
#if SYM
  __CPROVER_assume(in_nr == in_nc);
#endif
#if FIXED == 1  /* quick tier: full-size matrices only (smaller ones are the thorough tier) */
  __CPROVER_assume(in_nr == CAP && in_nc == CAP);
#elif FIXED == 2  /* quick tier, tall: more rows than columns (rows nc..nr-1 have no column of their own) */
  __CPROVER_assume(in_nr == CAP && in_nc == CAP - 1);
#endif
  for (c = 0; c < CAP; c++) if (c < in_nc) __CPROVER_assume(0 <= in_colbeg[c] && in_colbeg[c] <= in_colend[c] && in_colend[c] <= NZ && (in_nr > 0 || in_colbeg[c] == in_colend[c]));
  for (p = 0; p < NZ; p++) __CPROVER_assume(in_nr == 0 || (0 <= in_arow[p] && in_arow[p] < in_nr));
  for (c = 0; c < CAP; c++) { g_colbeg0[c] = in_colbeg[c]; g_colend0[c] = in_colend[c]; }
  for (p = 0; p < NZ; p++) g_arow0[p] = in_arow[p];
#if SYM
  sp_symetree(in_colbeg, in_colend, in_arow, in_nc, g_parent);
#else
  sp_coletree(in_colbeg, in_colend, in_arow, in_nr, in_nc, g_parent);
#endif
  /* (1) WF_ETREE: every parent is a later column or the dummy root nc */
  for (j = 0; j < CAP; j++) if (j < in_nc) __CPROVER_assert(j < g_parent[j] && g_parent[j] <= in_nc, "j < parent[j] <= nc");
  /* (2) the structure is not written */
  for (c = 0; c < CAP; c++) __CPROVER_assert(g_colbeg0[c] == in_colbeg[c] && g_colend0[c] == in_colend[c], "column pointers not written");
  for (p = 0; p < NZ; p++) __CPROVER_assert(g_arow0[p] == in_arow[p], "row subscripts not written");
  /* (3) oracle */
  for (r = 0; r < CAP; r++) for (c = 0; c < CAP; c++) {
    M[r][c] = 0;
    for (p = 0; p < NZ; p++) if (c < in_nc && in_colbeg[c] <= p && p < in_colend[c] && in_arow[p] == r) M[r][c] = 1;
  }
  for (i = 0; i < CAP; i++) for (j = 0; j < CAP; j++) {
#if SYM
    B[i][j] = (i < j && M[i][j]) || (j < i && M[j][i]);        /* only the upper triangle of A is used */
#else
    B[i][j] = 0;
    for (r = 0; r < CAP; r++) if (M[r][i] && M[r][j]) B[i][j] = 1;
#endif
  }
  for (k = 0; k < CAP; k++) for (i = k + 1; i < CAP; i++) for (j = k + 1; j < CAP; j++) if (B[i][k] && B[j][k]) B[i][j] = 1;   /* fill */
  for (j = 0; j < CAP; j++) if (j < in_nc) {
    ref = in_nc;
    for (i = CAP - 1; i > j; i--) if (i < in_nc && B[i][j]) ref = i;
    __CPROVER_assert(g_parent[j] == ref, "parent[j] is the first off-diagonal row of column j of the symbolic Cholesky factor");
  }
  __CPROVER_assert(0, "canary: etree routine returns");
#if FIXED == 2
  if (g_parent[0] == 1) __CPROVER_assert(0, "canary: tall matrix, columns connected");
  if (g_parent[0] == in_nc) __CPROVER_assert(0, "canary: tall matrix, columns independent");
#else
  if (in_nc == CAP && in_nr == CAP) __CPROVER_assert(0, "canary: full size reachable");
#if !FIXED
  if (in_nc == 0) __CPROVER_assert(0, "canary: no columns");
#endif
  if (in_nc == CAP && g_parent[0] == CAP - 1 && g_parent[1] == CAP - 1) __CPROVER_assert(0, "canary: branching tree");
  if (in_nc == CAP && g_parent[0] == CAP && g_parent[1] == CAP) __CPROVER_assert(0, "canary: forest with several roots");
#endif
}
