#include "slu_mt_@p@defs.h"
extern void *@p@user_malloc(int_t, int_t);
/* ghosts: pre-state of the file-static stack descriptor (pinned by the contract's requires), lock log */
int_t g_size0, g_used0, g_top10, g_top20;
extern int g_locks, g_unlocks; extern void *g_lock_obj, *g_unlock_obj;
/* inputs */
int_t in_bytes, in_which_end; char in_work[WCAP];
void *g_ret;
void h_user_malloc(void) {
  g_ret = @p@user_malloc(in_bytes, in_which_end);
#if PROBE
  /* the block handed out is usable memory of the caller's buffer: first and last byte are written under cbmc's pointer checks */
  if (g_ret && in_bytes > 0) { ((char*)g_ret)[0] = 1; ((char*)g_ret)[in_bytes - 1] = 1; }
#endif
  __CPROVER_assert(0, "canary: user_malloc returns");
  if (!g_ret) __CPROVER_assert(0, "canary: NULL (stack full) reachable");
  if (g_ret && in_which_end == 0 && in_bytes > 0) __CPROVER_assert(0, "canary: HEAD block handed out");
  if (g_ret && in_which_end == 1 && in_bytes > 0) __CPROVER_assert(0, "canary: TAIL block handed out");
  if (g_ret && in_bytes > 0 && g_top10 > 0 && g_top20 < g_size0) __CPROVER_assert(0, "canary: block handed out with live blocks at both ends");
}
