/* native witnesses for the two findings of unit cholnzcnt_b (the real SRC/cholnzcnt.c, nothing else from the library):
 *   gcc -g -fsanitize=address -D__PTHREAD -DAdd_ -I/repo/SRC native_repro.c /repo/SRC/cholnzcnt.c -o r && ./r && ./r 0
 * (1) ./r    : 2x2 diagonal matrix (two isolated vertices, etree = forest {0},{1}): part_super_L = [2 0], colcnt = [1 1]:
 *              the two columns are reported as ONE supernode although column 1 is not the parent of column 0
 *              (qrnzcnt.c carries a "BUG FIX" for exactly this single-vertex case, cholnzcnt.c does not).
 * (2) ./r 0  : neqns = 0 (pdgssv accepts a 0x0 matrix): part_super_L[0] = 0 is written into the 0-entry array (AddressSanitizer: heap-buffer-overflow,
 *              cholnzcnt.c:232). */
#include <stdio.h>
#include <stdlib.h>
#include "slu_mt_ddefs.h"
int_t *intMalloc(int_t n) { return (int_t *) malloc((size_t) n * sizeof(int_t)); }
int main(int argc, char **argv) {
  int_t n = argc > 1 ? atoi(argv[1]) : 2, nlnz = -1, j;
  int_t xadj[3] = {0, 0, 0}, adjncy[1] = {0}, perm[2] = {0, 1}, invp[2] = {0, 1}, etpar[2] = {2, 2};
  int_t *colcnt = intMalloc(n), *part = intMalloc(n);
  cholnzcnt(n, xadj, adjncy, perm, invp, etpar, colcnt, &nlnz, part);
  printf("n=%d nlnz=%d colcnt =", (int) n, (int) nlnz); for (j = 0; j < n; j++) printf(" %d", (int) colcnt[j]);
  printf("  part_super_L ="); for (j = 0; j < n; j++) printf(" %d", (int) part[j]);
  printf("   (fundamental supernodes of a diagonal matrix: 1 1)\n");
  free(colcnt); free(part);
  return 0; }
