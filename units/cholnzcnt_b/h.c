#include "slu_mt_ddefs.h"
#include <stdlib.h>
/* BOUNDED unit (label B(n)): the real cholnzcnt (SRC/cholnzcnt.c, Ng/Peyton FCNTHN through f2c) is executed symbolically, loops unwound,
 * for EVERY symmetric pattern of order n = CAP given as adjacency lists (0-based, lists unsorted, with or without the diagonal, repeated
 * subscripts allowed, at most LIST entries per vertex) whose elimination tree is postordered by the numbering passed in perm/invp
 * (PERM=0: identity, the shape after sp_colorder has folded the postorder into perm_c; PERM=1: any bijection, perm = new->old, invp = old->new,
 * which is what sp_colorder passes: cholnzcnt(n, b_colptr, b_rowind, invp(perm_c), perm_c, etree, ...)).
 * The elimination tree handed to the routine is the one of the renumbered matrix (root = n), as sp_symetree + TreePostorder deliver it.
 *
 * ORACLE (computed here by brute force): symbolic Cholesky of the renumbered pattern C, F = C; for k: F[i][j] |= F[i][k] & F[j][k] (i,j>k).
 *   cc[j]  = 1 + #{ i > j : F[i][j] }          column count including the diagonal
 *   par[j] = min{ i > j : F[i][j] }, else n    elimination tree
 *   FUNDAMENTAL supernodes (Liu/Ng/Peyton, "On finding supernodes for sparse matrix computations"; the routine's comment: "lownbr is the
 *   first vertex of a supernode" iff it is a leaf of some row subtree or has >= 2 children): maximal runs j..j+t of consecutive columns in
 *   which every j+i (i<t) is the ONLY child of j+i+1 and Struct(L[*,j+i]) = Struct(L[*,j+i+1]) + {j+i+1}.  As Struct(L[*,c]) - {par(c)} is
 *   always contained in Struct(L[*,par(c)]), column j STARTS a fundamental supernode iff
 *        j == 0  or  par[j-1] != j  or  j has >= 2 children  or  cc[j-1] != cc[j] + 1.
 *   part_super_L[j] = size of the supernode if j starts one, 0 elsewhere.
 * DOMAIN: 0 = every vertex except possibly vertex 0 has at least one neighbour (forests allowed, no isolated vertex after the first),
 *         1 = all patterns (isolated vertices anywhere). */
#ifndef PERM
#define PERM 0
#endif
#define D (CAP > 0 ? CAP : 1)
#define NZ (D * LIST)
int_t in_n, in_xadj[D + 1], in_adjncy[NZ], in_perm[D], in_invp[D], in_etpar[D];
int_t g_colcnt[D], g_part[D], g_nlnz, g_xadj0[D + 1], g_adjncy0[NZ], g_perm0[D], g_invp0[D], g_etpar0[D];
/* SRC/pmemory.c:intMalloc = malloc(n * sizeof(int_t)), exit(1) on NULL.  n is a constant in every run (in_n = CAP), so every block is a
 * heap object of exactly the requested constant size and the routine's own free() releases it. */
int_t *intMalloc(int_t n) {
  int_t *p;
  __CPROVER_assert(0 <= n && n <= CAP + 1, "allocator model: request within the modelled sizes");
  p = (int_t *) malloc((size_t) n * sizeof(int_t));
  __CPROVER_assume(p != (int_t *) 0);
  return p;
}
int_t nondet_int_t(void);
void h_cholnzcnt(void) {
  int_t i, j, k, p, x, size, w, *colcnt, *part;
  _Bool M[D][D], C[D][D], F[D][D], first[D];
  int_t cc[D], par[D], nch[D], sum;
  in_n = CAP;                                  /* constant: one run per order (variants) */
  for (j = 0; j <= D; j++) in_xadj[j] = nondet_int_t();
  for (p = 0; p < NZ; p++) in_adjncy[p] = nondet_int_t();
  for (j = 0; j < D; j++) { in_perm[j] = nondet_int_t(); in_invp[j] = nondet_int_t(); in_etpar[j] = nondet_int_t(); }
  /* adjacency structure */
  __CPROVER_assume(in_xadj[0] == 0);
  for (j = 0; j < CAP; j++) __CPROVER_assume(in_xadj[j] <= in_xadj[j + 1] && in_xadj[j + 1] - in_xadj[j] <= LIST);
  for (p = 0; p < NZ; p++) __CPROVER_assume(0 <= in_adjncy[p] && in_adjncy[p] < D);
  for (i = 0; i < CAP; i++) for (j = 0; j < CAP; j++) {
    M[i][j] = 0;
    for (p = 0; p < NZ; p++) if (in_xadj[j] <= p && p < in_xadj[j + 1] && in_adjncy[p] == i) M[i][j] = 1;
  }
  for (i = 0; i < CAP; i++) for (j = 0; j < i; j++) __CPROVER_assume(M[i][j] == M[j][i]);          /* symmetric */
  /* numbering */
  for (j = 0; j < CAP; j++) {
#if PERM
    __CPROVER_assume(0 <= in_perm[j] && in_perm[j] < CAP && 0 <= in_invp[j] && in_invp[j] < CAP);
#else
    __CPROVER_assume(in_perm[j] == j && in_invp[j] == j);
#endif
  }
  for (j = 0; j < CAP; j++) __CPROVER_assume(in_invp[in_perm[j]] == j);
  for (i = 0; i < CAP; i++) for (j = 0; j < CAP; j++) C[i][j] = M[in_perm[i]][in_perm[j]];
#if !DOMAIN
  for (j = 1; j < CAP; j++) { _Bool nb = 0; for (i = 0; i < CAP; i++) if (i != j && C[i][j]) nb = 1; __CPROVER_assume(nb); }
#endif
  /* oracle: symbolic Cholesky */
  for (i = 0; i < CAP; i++) for (j = 0; j < CAP; j++) F[i][j] = (i > j) && C[i][j];
  for (k = 0; k < CAP; k++) for (i = k + 1; i < CAP; i++) for (j = k + 1; j < i; j++) if (F[i][k] && F[j][k]) F[i][j] = 1;
  for (j = 0; j < CAP; j++) {
    cc[j] = 1; par[j] = CAP;
    for (i = CAP - 1; i > j; i--) if (F[i][j]) { cc[j]++; par[j] = i; }
  }
  for (j = 0; j < CAP; j++) { nch[j] = 0; for (i = 0; i < j; i++) if (par[i] == j) nch[j]++; }
  /* the tree handed over is the elimination tree, and the numbering is a postorder of it (every subtree = contiguous range ending at its root) */
  for (j = 0; j < CAP; j++) __CPROVER_assume(in_etpar[j] == par[j]);
  for (j = 0; j < CAP; j++) {
    size = 0;
    for (i = 0; i <= j; i++) { x = i; for (k = 0; k < CAP; k++) if (x < j) x = par[x]; if (x == j) size++; }
    for (i = 0; i <= j; i++) { x = i; for (k = 0; k < CAP; k++) if (x < j) x = par[x]; __CPROVER_assume((x == j) == (j - size < i)); }
  }
  for (j = 0; j <= CAP; j++) g_xadj0[j] = in_xadj[j];
  for (p = 0; p < NZ; p++) g_adjncy0[p] = in_adjncy[p];
  for (j = 0; j < CAP; j++) { g_perm0[j] = in_perm[j]; g_invp0[j] = in_invp[j]; g_etpar0[j] = in_etpar[j]; }

  colcnt = intMalloc(in_n); part = intMalloc(in_n);           /* as pdgstrf_init allocates colcnt_h / part_super_h: exactly n entries */
  g_nlnz = nondet_int_t();
  cholnzcnt(in_n, in_xadj, in_adjncy, in_perm, in_invp, in_etpar, colcnt, &g_nlnz, part);
  for (j = 0; j < CAP; j++) { g_colcnt[j] = colcnt[j]; g_part[j] = part[j]; }
  free(colcnt); free(part);                                    /* nothing else may be live (--memory-leak-check) */

  /* (a) column counts of the Cholesky factor */
  sum = 0;
  for (j = 0; j < CAP; j++) { __CPROVER_assert(g_colcnt[j] == cc[j], "colcnt[j] is the number of nonzeros of column j of the Cholesky factor"); sum += cc[j]; }
  __CPROVER_assert(g_nlnz == sum, "nlnz is the number of nonzeros of the Cholesky factor");
  /* (b1) C10: consecutive blocks: sizes at block heads, 0 inside, blocks tile 0..n-1 */
  k = 0;                                                       /* k = head of the block that should contain j */
  for (j = 0; j < CAP; j++) {
    if (j == k) { __CPROVER_assert(1 <= g_part[j] && g_part[j] <= CAP - j, "part_super: block head holds a size that fits"); k = j + g_part[j]; if (k <= j || k > CAP) k = CAP + 1; }
    else __CPROVER_assert(g_part[j] == 0 || k > CAP, "part_super: 0 inside a block");
  }
  __CPROVER_assert(CAP == 0 || k == CAP, "part_super: block sizes sum to n");
  /* (b2) the blocks are the fundamental supernodes */
  for (j = 0; j < CAP; j++) first[j] = (j == 0) || par[j - 1] != j || nch[j] >= 2 || cc[j - 1] != cc[j] + 1;
  for (j = 0; j < CAP; j++) {
    w = 0;
    if (first[j]) { _Bool open = 1; w = 1; for (i = j + 1; i < CAP; i++) { if (first[i]) open = 0; if (open) w++; } }
    __CPROVER_assert(g_part[j] == w, "part_super is the fundamental supernode partition (size at the first column, 0 elsewhere)");
  }
  /* (b3) C05/C16: the slot reserved for a block (size * colcnt[head], SRC/pdmemory.c) covers every column of the block */
  k = 0;
  for (j = 0; j < CAP; j++) {
    if (g_part[j] > 0) k = j;
    __CPROVER_assert(cc[j] <= g_colcnt[k], "no column of a block is longer than the block's first column");
  }
  /* (c) inputs are not written (memory safety: the tool's pointer checks + exactly sized heap blocks) */
  for (j = 0; j <= CAP; j++) __CPROVER_assert(g_xadj0[j] == in_xadj[j], "xadj not written");
  for (p = 0; p < NZ; p++) __CPROVER_assert(g_adjncy0[p] == in_adjncy[p], "adjncy not written");
  for (j = 0; j < CAP; j++) __CPROVER_assert(g_perm0[j] == in_perm[j] && g_invp0[j] == in_invp[j] && g_etpar0[j] == in_etpar[j], "perm, invp, etpar not written");

  __CPROVER_assert(0, "canary: cholnzcnt returns");
#if CAP >= 3
  if (par[0] == 2 && par[1] == 2) __CPROVER_assert(0, "canary: vertex with exactly two children");
  if (C[1][0] && C[2][0] && !C[2][1]) __CPROVER_assert(0, "canary: fill-in");
  if (g_part[0] == CAP) __CPROVER_assert(0, "canary: one supernode (dense)");
  if (g_part[0] == 1 && g_part[1] == 2) __CPROVER_assert(0, "canary: supernode of size 2 after a singleton");
#if CAP >= 4 || DOMAIN
  if (par[0] == 1 && par[1] == CAP) __CPROVER_assert(0, "canary: forest with several roots");
#endif
#endif
#if CAP >= 4
  if (par[0] == 1 && par[1] == 2 && g_part[1] == 1 && g_part[0] == 1) __CPROVER_assert(0, "canary: chain split by the column counts");
  if (par[0] == 3 && par[1] == 2 && par[2] == 3) __CPROVER_assert(0, "canary: least common ancestor found by path halving");
#endif
#if CAP >= 2 && PERM
  if (in_perm[0] != 0) __CPROVER_assert(0, "canary: non-identity numbering");
#endif
#if CAP >= 2 && DOMAIN
  if (par[0] == CAP && par[1] == CAP) __CPROVER_assert(0, "canary: isolated vertex after the first");
#endif
#if CAP >= 2
  if (in_xadj[1] == 2 && in_adjncy[0] == in_adjncy[1]) __CPROVER_assert(0, "canary: repeated subscript");
  if (M[0][0]) __CPROVER_assert(0, "canary: diagonal stored");
  if (!M[0][0]) __CPROVER_assert(0, "canary: diagonal not stored");
#endif
}
