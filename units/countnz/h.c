#include "slu_mt_ddefs.h"
/* ghost partial sums over supernodes (defined by the requires clause [ghost_sums]) */
int_t g_sL[CAP+2], g_sU[CAP+2];
/* inputs */
int_t in_n, in_xprune[CAP], in_nnzL, in_nnzU; GlobalLU_t in_Glu;
int_t in_xsup[CAP+1], in_xsup_end[CAP+1], in_supno[CAP+1], in_xlsub[CAP+1], in_xlsub_end[CAP+1];
void countnz(const int_t, int_t *, int_t *, int_t *, GlobalLU_t *);
void h_countnz(void) {
  in_Glu.xsup = in_xsup; in_Glu.xsup_end = in_xsup_end; in_Glu.supno = in_supno; in_Glu.xlsub = in_xlsub; in_Glu.xlsub_end = in_xlsub_end;
  countnz(in_n, in_xprune, &in_nnzL, &in_nnzU, &in_Glu);
  __CPROVER_assert(0, "canary: countnz returns");
  if (in_n == 0) __CPROVER_assert(0, "canary: order 0 quick return");
  if (in_n == CAP && in_supno[in_n] == 2 && in_nnzL == 9) __CPROVER_assert(0, "canary: three supernodes at full capacity");
  if (in_n > 0 && in_supno[in_n] == in_n - 1) __CPROVER_assert(0, "canary: all singletons");
}
