/* vocabulary for countnz (SRC/util.c).  CAP columns / supernodes, LC row subscripts, UMAX bound on nextu (no int overflow of the sums). */
#define NS in_supno[in_n]
#define W(s) (in_xsup_end[s] - in_xsup[s])                              /* columns of supernode s */
#define JL(s) (in_xlsub_end[in_xsup[s]] - in_xlsub[in_xsup[s]])         /* length of its row list */
/* entries of supernode s in L (column c of the supernode holds JL - c rows) and in the supernodal triangle of U */
#define CNTL(s) (W(s) * JL(s) - W(s) * (W(s) - 1) / 2)
#define CNTU(s) (W(s) * (W(s) + 1) / 2)
