/* same vocabulary as the Harwell-Boeing twin */
#include "../rd_vector/defs.h"
