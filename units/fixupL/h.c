#include "slu_mt_ddefs.h"
int_t g_s, g_q;   /* ghost: an arbitrary supernode and an arbitrary offset in its list */
void h_fixupL(void){ int_t n; int_t *pr; GlobalLU_t *G; fixupL(n,pr,G); __CPROVER_assert(0, "canary: fixupL returns"); }
