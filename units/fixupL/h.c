#include "slu_mt_ddefs.h"
#include <stdlib.h>
/* inputs */
int_t in_n, in_perm_r[CAP]; GlobalLU_t in_Glu;
int_t in_xsup[CAP+1], in_xsup_end[CAP], in_supno[CAP+1], in_xlsub[CAP+1], in_xlsub_end[CAP], in_lsub[LC];
/* ghosts: an arbitrary supernode g_s and an arbitrary offset g_q in its list; pre-state copies; allocation counters */
int_t g_s, g_q, g_beg0[CAP], g_end0[CAP], g_lsub0[LC]; int g_n_alloc, g_n_free;
/* the temporary of fixupL: an object of EXACTLY the requested size (cbmc wants constant sizes: case split), never NULL (the real intMalloc
 * exits the process on NULL) */
#define AL(k) if (n == (k)) p = malloc((k) * sizeof(int_t)); else
int_t *intMalloc(int_t n) {
  int_t *p = 0;
  __CPROVER_assert(0 <= n && n <= LC, "temporary: as many entries as the lists hold together");
  AL(0) AL(1) AL(2) AL(3) AL(4) AL(5) AL(6) AL(7) AL(8) AL(9) AL(10) AL(11) AL(12) AL(13) AL(14) AL(15) AL(16) p = 0;
  __CPROVER_assume(p != 0);
  g_n_alloc++; return p;
}
_Static_assert(LC <= 16, "intMalloc case split covers LC");
void superlu_free(void *p) { g_n_free++; free(p); }
void h_fixupL(void) {
  in_Glu.xsup = in_xsup; in_Glu.xsup_end = in_xsup_end; in_Glu.supno = in_supno; in_Glu.xlsub = in_xlsub; in_Glu.xlsub_end = in_xlsub_end; in_Glu.lsub = in_lsub;
  fixupL(in_n, in_perm_r, &in_Glu);
  __CPROVER_assert(0, "canary: fixupL returns");
  if (in_supno[in_n] >= 2 && g_beg0[1] < g_beg0[0] && g_beg0[2] < g_beg0[1] && g_s == 1 && g_end0[0] - g_beg0[0] > g_beg0[0])
    __CPROVER_assert(0, "canary: supernodes stored in the reverse order of their numbers, the first list longer than the room in front of it");
  if (in_supno[in_n] == CAP - 1) __CPROVER_assert(0, "canary: CAP singleton supernodes");
}
