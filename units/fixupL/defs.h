/* vocabulary of unit fixupL.  Supernode s (0..NSUP) has its row subscripts in in_lsub[BEG(s) .. END(s)).  g_beg0/g_end0/g_lsub0 are ghost
 * copies of the pre-state (the harness does not write them; `requires` ties them to the inputs), so clauses under a quantifier can name
 * pre-state values.  SUMLT0(i) = total length of the lists of supernodes 0..i-1 = where list i starts after the compaction. */
#define NSUP in_supno[n]
#define BEG(s) in_xlsub[in_xsup[s]]
#define END(s) in_xlsub_end[in_xsup[s]]
#define LEN0(t, i) ((((t) < (i)) && ((t) <= NSUP)) ? (g_end0[t] - g_beg0[t]) : 0)
#if CAP == 6
#define SUMLT0(i) (LEN0(0,i) + LEN0(1,i) + LEN0(2,i) + LEN0(3,i) + LEN0(4,i) + LEN0(5,i))
#elif CAP == 8
#define SUMLT0(i) (LEN0(0,i) + LEN0(1,i) + LEN0(2,i) + LEN0(3,i) + LEN0(4,i) + LEN0(5,i) + LEN0(6,i) + LEN0(7,i))
#elif CAP == 4
#define SUMLT0(i) (LEN0(0,i) + LEN0(1,i) + LEN0(2,i) + LEN0(3,i))
#else
#error "SUMLT0 is written out for CAP in {4,6,8}"
#endif
