#include <stdlib.h>
#include "slu_mt_@p@defs.h"
extern int g_n_malloc, g_n_free, g_free_other; extern void *g_watch[12]; extern int g_freed[12], g_free_seq[12];
/* inputs: descriptor values arbitrary */
SuperMatrix in_A, in_A0; int_t in_m, in_n, in_nnz; Stype_t in_stype; Dtype_t in_dtype; Mtype_t in_mtype;
/* ghosts: A's three arrays, AC's two column-pointer arrays (heap objects) */
@T@ *g_nzval; int_t *g_rowind, *g_colptr, *g_colbeg, *g_colend;
void h_destroy_permuted(void) {
  int k;
  g_nzval = malloc(sizeof(@T@)); g_rowind = malloc(sizeof(int_t)); g_colptr = malloc(sizeof(int_t));
  g_colbeg = malloc(sizeof(int_t)); g_colend = malloc(sizeof(int_t));
  __CPROVER_assume(g_nzval != 0 && g_rowind != 0 && g_colptr != 0 && g_colbeg != 0 && g_colend != 0);
  g_n_malloc = 0;
  @p@Create_CompCol_Matrix(&in_A0, in_m, in_n, in_nnz, g_nzval, g_rowind, g_colptr, SLU_NC, in_dtype, in_mtype);            /* REAL: A */
  @p@Create_CompCol_Permuted(&in_A, in_m, in_n, in_nnz, g_nzval, g_rowind, g_colbeg, g_colend, in_stype, in_dtype, in_mtype); /* REAL: AC shares nzval, rowind */
  __CPROVER_assert(g_n_malloc == 2, "each constructor allocates its Store object only");
  for (k = 0; k < 12; k++) g_watch[k] = (void *)0;
  g_watch[0] = in_A.Store; g_watch[1] = g_colbeg; g_watch[2] = g_colend; g_watch[3] = g_nzval; g_watch[4] = g_rowind;
  Destroy_CompCol_Permuted(&in_A);                                                                                           /* REAL destructor, under contract */
  __CPROVER_assert(0, "canary: constructors + destructor return");
  if (in_nnz == 7 && in_stype == SLU_NCP) __CPROVER_assert(0, "canary: arbitrary descriptor values reachable");
  g_nzval[0] = g_nzval[0]; g_rowind[0] = g_rowind[0];   /* A's arrays are still alive */
  Destroy_CompCol_Matrix(&in_A0);                        /* REAL: A is destroyed by its owner (double free if AC's destructor had released the shared arrays) */
  __CPROVER_assert(g_n_free == 3 + 4 && g_freed[3] == 1 && g_freed[4] == 1, "the shared arrays are released exactly once, by A's destructor");
  /* nothing is freed here: cbmc's --memory-leak-check at the end of the harness decides that nothing is left allocated */
}
