#include "slu_mt_@p@defs.h"
/* the FW-character field exactly as fscanf("%20c") leaves it: no terminator, so any read past the field is a bounds violation */
char in_buf[FW]; int_t in_num, in_size;
/* ghosts: expected values and token positions */
int_t g_n, g_w, g_k, g_hasp, g_po, g_pk, g_lk, g_pp, g_pn, g_ln, g_pe, g_pw, g_lw, g_pd, g_ret; char g_buf0[FW];
#if RB
void @p@readrb(int_t *, int_t *, int_t *, @T@ **, int_t **, int_t **);
int_t in_nrow, in_ncol, in_nonz; @T@ *in_nzval; int_t *in_rowind, *in_colptr; extern int g_fields_delivered, g_fgets_calls;
#else
int_t @p@ParseFloatFormat(char *, int_t *, int_t *);
#endif
void h_fmt(void) {
#if RB
  g_fields_delivered = 0; g_fgets_calls = 0;
  @p@readrb(&in_nrow, &in_ncol, &in_nonz, &in_nzval, &in_rowind, &in_colptr);
#else
  g_ret = @p@ParseFloatFormat(in_buf, &in_num, &in_size);
#endif
  __CPROVER_assert(0, "canary: parser returns");
#if HASP
  if (g_pk > g_po + 1 && g_pp > g_pk + g_lk && g_pn > g_pp + 1 && g_pe > g_pn + g_ln && g_pw > g_pe + 1 && g_pd > g_pw + g_lw) __CPROVER_assert(0, "canary: blanks at every legal place");
  if (g_n == 99 && g_w == 99 && g_k == 99) __CPROVER_assert(0, "canary: two-digit values");
  if (g_buf0[g_pe] == 'd' && g_buf0[g_pp] == 'p') __CPROVER_assert(0, "canary: lower case");
  if (g_k == 1 && g_n == 5 && g_w == 16 && g_po == 0 && g_pd == 7 && g_buf0[8] == '8' && g_buf0[9] == ')') __CPROVER_assert(0, "canary: (1P5E16.8)");
#else
  if (g_pn > g_po + 1 && g_pe > g_pn + g_ln && g_pw > g_pe + 1 && g_pd > g_pw + g_lw) __CPROVER_assert(0, "canary: blanks at every legal place");
  if (g_n == 99 && g_w == 99) __CPROVER_assert(0, "canary: two-digit values");
  if (g_buf0[g_pe] == 'e') __CPROVER_assert(0, "canary: lower case");
  if (g_n == 4 && g_w == 20 && g_po == 0 && g_pd == 6 && g_buf0[g_pe] == 'D') __CPROVER_assert(0, "canary: (4D20.12)");
#endif
  if (g_buf0[g_pe] == 'F' && g_buf0[g_pd] == ')') __CPROVER_assert(0, "canary: F without fraction");
  if (g_pd >= 9 && g_po == 0) __CPROVER_assert(0, "canary: long descriptor");
}
