/* vocabulary for ?ParseFloatFormat.  The field is FW = 20 characters, not NUL-terminated (fscanf("%20c")).
 * Ghost token positions (universally chosen):  [bl] ( [bl] [ k [bl] P|p [bl] ] n [bl] E|e|D|d|F|f [bl] w [bl] .|)  anything
 * g_hasp says whether a scale factor kP is present.  RB=1: the function is the static copy in ?readrb.c, reached through
 * ?readrb, and the field lives in that routine's local buf[100]. */
#if RB
#define B(k) buf[k]
#define BASE buf
#define NUM (*num)
#define SIZE (*size)
#else
#define B(k) in_buf[k]
#define BASE in_buf
#define NUM in_num
#define SIZE in_size
#endif
#define BLANKS(q,a,b) FA(q, FW, ((a) <= q && q < (b)) ==> B(q) == ' ')
#define NUMAT(p,len,v) (0 <= (v) && (v) <= 99 && (((len) == 1 && (v) <= 9 && B(p) == '0' + (v)) || ((len) == 2 && B(p) == '0' + (v) / 10 && B((p) + 1) == '0' + (v) % 10)))
#define INRANGE(p) (0 <= (p) && (p) < FW)
#define ISLETTER(c) ((c) == 'E' || (c) == 'e' || (c) == 'D' || (c) == 'd' || (c) == 'F' || (c) == 'f')
