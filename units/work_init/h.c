#include <stdlib.h>
#include "slu_mt_@p@defs.h"
#include "work_sizes.h"
extern int_t p@p@gstrf_WorkInit(int_t, int_t, int_t **, @T@ **);
_Bool nondet_bool(void);
/* ghost: allocation log of the stubs */
int g_icalloc_calls, g_malloc_calls; int_t g_icalloc_n; size_t g_malloc_bytes; void *g_icalloc_obj, *g_malloc_obj;
int_t *intCalloc(int_t n) { g_icalloc_calls++; g_icalloc_n = n; g_icalloc_obj = nondet_bool() ? (void*)0 : __CPROVER_allocate((size_t)n * sizeof(int_t), 0); return g_icalloc_obj; }
int g_free_calls; void *g_freed_obj;
void superlu_free(void *p) { g_free_calls++; g_freed_obj = p; }
void *superlu_malloc(size_t size) { g_malloc_calls++; g_malloc_bytes = size; g_malloc_obj = nondet_bool() ? (void*)0 : __CPROVER_allocate(size, 0); return g_malloc_obj; }
/* inputs */
int_t in_n, in_w, in_maxsuper, in_rowblk; int_t *in_iworkptr; @T@ *in_dworkptr;
int_t sp_ienv(int_t ispec) { int_t r; if (ispec == 3) return in_maxsuper; if (ispec == 4) return in_rowblk; return r; }
int_t g_ret;
void h_work_init(void) {
  g_ret = p@p@gstrf_WorkInit(in_n, in_w, &in_iworkptr, &in_dworkptr);
  __CPROVER_assert(0, "canary: WorkInit returns");
  if (g_ret == 0) {
    __CPROVER_assert(0, "canary: success reachable");
    /* both blocks are usable over the full size that SetIWork / SetRWork carve up */
#if PROBE
    in_iworkptr[ISIZE_INTS(in_n, in_w) - 1] = 0;
    in_dworkptr[DSIZE_REALS(in_n, in_w, in_maxsuper, in_rowblk) - 1] = in_dworkptr[0];
#endif
  }
  if (g_ret != 0 && g_icalloc_obj == 0) __CPROVER_assert(0, "canary: first allocation fails");
  if (g_ret != 0 && g_icalloc_obj != 0) __CPROVER_assert(0, "canary: second allocation fails");
}
