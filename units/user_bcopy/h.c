#include <stdlib.h>
#include "slu_mt_ddefs.h"
extern void user_bcopy(char *, char *, int_t);
/* ghosts: capacity of the buffer (bytes), offsets of the two ranges, an arbitrary byte of the range / of the buffer and their pre-state */
int_t g_cap, g_os, g_od, g_b, g_k; unsigned char g_v0, g_w0;
/* inputs */
int_t in_bytes; char *in_buf;
void h_bcopy(void) {
  size_t cap_ = (g_cap >= 0 && g_cap <= CAPMAX) ? (size_t)g_cap : 0;
  in_buf = malloc(cap_); __CPROVER_assume(in_buf != 0);
  user_bcopy(in_buf + g_os, in_buf + g_od, in_bytes);
  __CPROVER_assert(0, "canary: user_bcopy returns");
  if (in_bytes == 0) __CPROVER_assert(0, "canary: empty copy");
  if (in_bytes < 0) __CPROVER_assert(0, "canary: negative count");
  if (in_bytes >= 3 && g_os < g_od && g_od < g_os + in_bytes) __CPROVER_assert(0, "canary: overlapping ranges, destination above source (the expand shift)");
  if (in_bytes >= 3 && g_od == g_os) __CPROVER_assert(0, "canary: copy onto itself");
  if (in_bytes >= 3 && g_od + in_bytes <= g_os) __CPROVER_assert(0, "canary: disjoint, destination below");
  if (in_bytes == CAPMAX - 1) __CPROVER_assert(0, "canary: buffer of CAPMAX bytes copied onto itself from byte 1");
  if (in_bytes >= 1 && g_od == 1 && g_os == 1) __CPROVER_assert(0, "canary: ranges start at byte 1 of the object");
}
