/* offsets of the two cursors of user_bcopy inside the harness buffer */
#define DOFF ((long long)__CPROVER_POINTER_OFFSET(d_ptr))
#define SOFF ((long long)__CPROVER_POINTER_OFFSET(s_ptr))
