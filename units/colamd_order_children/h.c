/* BOUNDED unit (label B): the REAL static routine order_children of SRC/colamd.c (the translation unit is preprocessed with -Dstatic=,
 * which changes linkage only) on EVERY dead-column forest with at most NC columns that find_ordering can leave behind -- in particular
 * chains of absorbed supercolumns of any depth (c -> s1 -> s2 -> principal), which colamd_b's shapes (<= 4 columns) cannot produce.
 * State on entry (from find_ordering / init_scoring / detect_super_cols):
 *   every column is dead: start is DEAD_PRINCIPAL (-1) or DEAD_NON_PRINCIPAL (-2);
 *   a non-principal column c has order EMPTY and a parent; following parents reaches a dead principal column (ghost depth g_d);
 *   a principal column c has an order o_c >= 0 and owns the interval [o_c, o_c + t_c) of the final ordering, t_c = 1 + number of
 *   non-principal columns below it (its thickness when it was eliminated); the intervals of different principal columns are disjoint
 *   and lie inside [0, n_col).
 * Claim (C10: the ordering is a permutation): afterwards p[0..n_col) holds every column exactly once, every column's order lies in the
 * interval of its principal column, the principal column has the largest order of its group, every parent link points at the
 * principal column (collapsed tree).  The struct is declared here with the layout of colamd.c (six ints); a layout change is a
 * link-time type conflict -> exit 2. */
typedef struct Colamd_Col_struct {
  int start, length;
  union { int thickness, parent; } shared1;
  union { int score, order; } shared2;
  union { int headhash, hash, prev; } shared3;
  union { int degree_next, hash_next; } shared4;
} Colamd_Col;
void order_children(int n_col, Colamd_Col Col[], int p[]);
int nondet_int(void);

int in_n; Colamd_Col in_Col[NC + 1]; int in_p[NC];
int g_d[NC], g_root[NC], g_t[NC], g_o0[NC];

void h_order_children(void) {
  int c, k, s, r, a, b;
  __CPROVER_assume(0 <= in_n && in_n <= NC);
  for (c = 0; c < NC; c++) if (c < in_n) {
    __CPROVER_assume(in_Col[c].start == -1 || in_Col[c].start == -2);
    __CPROVER_assume(0 <= g_d[c] && g_d[c] < NC);
    if (in_Col[c].start == -1) { __CPROVER_assume(g_d[c] == 0 && 0 <= in_Col[c].shared2.order && in_Col[c].shared2.order < in_n); }
    else { int q = in_Col[c].shared1.parent;
      __CPROVER_assume(in_Col[c].shared2.order == -1 && 0 <= q && q < in_n && q != c && g_d[c] >= 1); }
  }
  for (c = 0; c < NC; c++) if (c < in_n && in_Col[c].start == -2) __CPROVER_assume(g_d[in_Col[c].shared1.parent] == g_d[c] - 1);
  /* ghost: principal column of every column, thickness of every principal column, entry orders */
  for (c = 0; c < NC; c++) if (c < in_n) { r = c; for (s = 0; s < NC; s++) if (in_Col[r].start == -2) r = in_Col[r].shared1.parent; g_root[c] = r; g_t[c] = 0; g_o0[c] = in_Col[c].shared2.order; }
  for (c = 0; c < NC; c++) if (c < in_n) g_t[g_root[c]]++;
  for (a = 0; a < NC; a++) for (b = 0; b < NC; b++) if (a < in_n && b < in_n && a != b && in_Col[a].start == -1 && in_Col[b].start == -1)
    __CPROVER_assume(g_o0[a] + g_t[a] <= g_o0[b] || g_o0[b] + g_t[b] <= g_o0[a]);
  for (a = 0; a < NC; a++) if (a < in_n && in_Col[a].start == -1) __CPROVER_assume(g_o0[a] + g_t[a] <= in_n);
  for (k = 0; k < NC; k++) in_p[k] = -7;

  order_children(in_n, in_Col, in_p);

  for (k = 0; k < NC; k++) if (k < in_n) {
    __CPROVER_assert(0 <= in_p[k] && in_p[k] < in_n, "ordering: every position holds a column (none left unset)");
    __CPROVER_assert(in_Col[in_p[k]].shared2.order == k, "ordering: position k holds the column whose order is k");
  } else __CPROVER_assert(in_p[k] == -7, "ordering: nothing written behind p[n_col-1]");
  for (a = 0; a < NC; a++) for (b = 0; b < NC; b++) if (a < b && b < in_n)
    __CPROVER_assert(in_p[a] != in_p[b], "ordering is a permutation: no column twice");
  for (c = 0; c < NC; c++) if (c < in_n) {
    r = g_root[c];
    __CPROVER_assert(g_o0[r] <= in_Col[c].shared2.order && in_Col[c].shared2.order < g_o0[r] + g_t[r], "a column is ordered inside the interval its principal column owns");
    __CPROVER_assert(in_Col[c].shared2.order <= in_Col[r].shared2.order, "the principal column comes last in its group");
    if (in_Col[c].start == -2) __CPROVER_assert(in_Col[c].shared1.parent == r, "tree collapsed: the parent link names the principal column");
    __CPROVER_assert(in_Col[c].start == (c == r ? -1 : -2), "dead marks untouched");
  }
  __CPROVER_assert(0, "canary: order_children returns");
  if (in_n == NC && g_d[0] == 2) __CPROVER_assert(0, "canary: a chain of two absorbed supercolumns (depth 2)");
  if (in_n == NC && g_d[0] == 3) __CPROVER_assert(0, "canary: depth 3");
  if (in_n == 0) __CPROVER_assert(0, "canary: no column");
}
