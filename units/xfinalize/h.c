#include "slu_mt_ddefs.h"
int g_n_free, g_freed_etree, g_freed_colcnt, g_freed_part, g_destroyed_AC; superlumt_options_t in_o; SuperMatrix in_AC;
static int_t pool_e[1], pool_c[1], pool_p[1];
void superlu_free(void *p) { g_n_free++; if (p == (void *)pool_e) g_freed_etree++; if (p == (void *)pool_c) g_freed_colcnt++; if (p == (void *)pool_p) g_freed_part++; }
void Destroy_CompCol_Permuted(SuperMatrix *A) { if (A == &in_AC) g_destroyed_AC++; }
void h_finalize(void) {
  in_o.etree = pool_e; in_o.colcnt_h = pool_c; in_o.part_super_h = pool_p;
  pxgstrf_finalize(&in_o, &in_AC);
  __CPROVER_assert(0, "canary: pxgstrf_finalize returns");
  if (in_o.refact == YES) __CPROVER_assert(0, "canary: called after a re-factorization");
}
