#define WF_USTACK (0 <= stack.top1 && stack.top1 <= stack.top2 && stack.top2 <= stack.size && stack.used == stack.top1 + (stack.size - stack.top2))
#define o_ superlumt_options
#define FILLOK(v) ((-FB <= (v) && (v) <= -1) || (0 <= (v) && (v) <= NZB))
#define GUESS(v, annz) ((v) < 0 ? -(v) * (annz) : (v))
#define VW ((int_t)sizeof(@T@))
/* bytes of the 13 first requests */
#define INT_BYTES(n) (5 * ((n) + 1) * 4 + 4 * (n) * 4)
#define TOTAL_BYTES (INT_BYTES(n) + g_nzlu_guess * VW + g_nzu_guess * VW + g_nzl_guess * 4 + g_nzu_guess * 4)
/* instantiation of specs/expand_first.spec at the call sites inside p?gstrf_MemInit (user-workspace unit) */
#define EXP_TABLE_OK __CPROVER_rw_ok(@p@expanders, 4 * sizeof(ExpHeader))
#define EXP_LEN_OK __CPROVER_rw_ok(prev_len, sizeof(int_t))
#define LWORD(t) (((t) == LSUB || (t) == USUB) ? (int_t)sizeof(int_t) : (int_t)sizeof(@T@))
#define EXP_USTACK_PRE (0 <= g_skew && g_skew <= 7 && stack.array == (void*)(in_work + g_skew) && 0 <= stack.top1 && stack.top1 <= WCAP - 16 && 0 <= stack.top2 && stack.top2 <= stack.size && stack.size <= WCAP - 16 && stack.used == stack.top1 + (stack.size - stack.top2))
#define EXP_B ((*prev_len) * LWORD(type))
#define EXP_X (stack.top1 - OLD(stack.top1) - EXP_B)
#define EXP_USTACK_POST (0 <= stack.top1 && stack.top1 <= 16777216 && -16777216 <= stack.used && stack.used <= 16777216 && EXP_B + OLD(stack.used) < stack.size && 0 <= EXP_X && EXP_X <= 7 && stack.used == OLD(stack.used) + EXP_B + EXP_X && RET == (void*)(in_work + g_skew + OLD(stack.top1) + EXP_X) && ((type == LSUB || type == USUB) ==> EXP_X == 0) && ((type == LUSUP || type == UCOL) ==> ((OLD(stack.top1) + EXP_X + g_skew) & 7) == 0) && OLD(stack.top1) + EXP_B < stack.top2)
/* array a (len elements of w bytes) ends before array b starts */
#define BEFORE(a, len, w, b) ((char*)(a) + (len) * (w) <= (char*)(b))
#define INSIDE(a, len, w) (__CPROVER_same_object((a), in_work) && (char*)(in_work + g_skew) <= (char*)(a) && (char*)(a) + (len) * (w) <= (char*)(in_work + g_skew) + stack.top1)
