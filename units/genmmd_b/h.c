#include "slu_mt_ddefs.h"
#include <stdlib.h>
/* BOUNDED unit (label B(n)): the real genmmd_ (SRC/mmd.c: Liu's multiple minimum degree, f2c output, 1-based arrays, with its callees
 * mmdint_, mmdelm_, mmdupd_, mmdnum_ -- all real) is executed by CBMC's symbolic execution for EVERY symmetric adjacency structure of
 * order n = CAP exactly as get_perm_c (SRC/get_perm_c.c:430-450) hands it over:
 *   - xadj = b_colptr + 1 (n+1 entries, xadj[0] == 1, xadj[n] == bnz + 1), adjncy = b_rowind + 1 (exactly bnz entries, bnz != 0 because
 *     get_perm_c skips the call otherwise), every list holds distinct neighbours != the vertex itself, the relation is symmetric;
 *     ORDER == 1: every arrangement of every neighbour list (getata / at_plus_a deliver the sets in an input-dependent order: units
 *     getata_b, at_plus_a_b); ORDER == 0: ascending lists and descending lists only;
 *   - perm_c (genmmd's INVP), invp (genmmd's PERM), dhead, qsize, llist, marker: n entries each (delta == 0), contents ARBITRARY (symbolic);
 *   - delta == 0, maxint == 2^31-1, nofsub uninitialised; the function-local statics of mmd.c start arbitrary (--nondet-static) and
 *     later calls see what the previous call left.
 * The graphs (edge masks MASK_LO..MASK_HI-1 of the n(n-1)/2 vertex pairs) and list arrangements are ENUMERATED by the loops below (the
 * nested goto loops of mmd.c make a single symbolic structure explode: 6 M variables at n = 2), so the control flow of each case is
 * decided during symbolic execution while the work arrays' initial contents stay symbolic.
 * Every array is an object of exactly the size get_perm_c allocates, so any access outside is a bounds violation.
 * Checked after each call: perm_c and invp are mutually inverse bijections on 1..n (so get_perm_c's `--perm_c[i]` yields a permutation
 * of 0..n-1: C10); the vertex ordered first has minimum degree; xadj, n, delta, maxint are not written. */
#define NP (CAP * (CAP - 1) / 2)
#define BZ (CAP * (CAP - 1))
#ifndef MASK_LO
#define MASK_LO 1
#endif
#ifndef MASK_HI
#define MASK_HI (1 << NP)
#endif
int_t in_n, in_xadj[CAP + 1], *in_adjncy, in_bnz, in_delta, in_maxint, in_nofsub;
int_t in_perm_c[CAP], in_invp[CAP], in_dhead[CAP], in_qsize[CAP], in_llist[CAP], in_marker[CAP];
int_t g_xadj0[CAP + 1], g_mask, g_arr;
int_t nondet_int_t(void);
extern int_t genmmd_(int_t *, int_t *, int_t *, int_t *, int_t *, int_t *, int_t *, int_t *, int_t *, int_t *, int_t *, int_t *);
static int fact(int d) { return d <= 1 ? 1 : d == 2 ? 2 : d == 3 ? 6 : d == 4 ? 24 : 120; }
void h_genmmd(void) {
  int i, j, k, b, d, r, c, ncomb, pos, deg[CAP], nb[CAP][CAP], lst[CAP], used, mindeg, ncases = 0;
  _Bool G[CAP][CAP];
  for (g_mask = MASK_LO; g_mask < MASK_HI; g_mask++) {
    b = 0;
    for (i = 0; i < CAP; i++) { G[i][i] = 0; for (j = 0; j < i; j++) { G[i][j] = G[j][i] = (g_mask >> b) & 1; b++; } }
    ncomb = 1; mindeg = CAP;
    for (j = 0; j < CAP; j++) {
      deg[j] = 0;
      for (i = 0; i < CAP; i++) if (G[i][j]) nb[j][deg[j]++] = i + 1;       /* ascending, 1-based */
      ncomb *= ORDER ? fact(deg[j]) : 1;
      if (deg[j] < mindeg) mindeg = deg[j];
    }
    if (!ORDER) ncomb = 2;
    for (g_arr = 0; g_arr < ncomb; g_arr++) {
      /* build the 1-based structure; vertex j's list is arrangement number (g_arr / prod_{j'<j} deg[j']!) % deg[j]! of its ascending list */
      in_bnz = 0; c = g_arr;
      for (j = 0; j < CAP; j++) in_bnz += deg[j];
      in_adjncy = (int_t *) malloc((size_t) in_bnz * sizeof(int_t));          /* b_rowind: exactly bnz entries */
      __CPROVER_assume(in_adjncy != (int_t *) 0);
      pos = 0;
      for (j = 0; j < CAP; j++) {
        in_xadj[j] = pos + 1;
        d = deg[j];
        if (ORDER) { r = c % fact(d); c /= fact(d); }
        for (k = 0; k < d; k++) lst[k] = nb[j][k];
        for (k = 0; k < d; k++) {
          if (ORDER) { i = r % (d - k); r /= (d - k); }                        /* Lehmer code: take the i-th remaining neighbour */
          else i = g_arr ? d - k - 1 : 0;
          in_adjncy[pos++] = lst[i];
          for (used = i; used + 1 < d - k; used++) lst[used] = lst[used + 1];
        }
      }
      in_xadj[CAP] = pos + 1;
      for (j = 0; j <= CAP; j++) g_xadj0[j] = in_xadj[j];
      in_n = CAP; in_delta = 0; in_maxint = 2147483647; in_nofsub = nondet_int_t();
      for (j = 0; j < CAP; j++) { in_perm_c[j] = nondet_int_t(); in_invp[j] = nondet_int_t(); in_dhead[j] = nondet_int_t(); in_qsize[j] = nondet_int_t(); in_llist[j] = nondet_int_t(); in_marker[j] = nondet_int_t(); }

      genmmd_(&in_n, in_xadj, in_adjncy, in_perm_c, in_invp, &in_delta, in_dhead, in_qsize, in_llist, in_marker, &in_maxint, &in_nofsub);

      for (j = 0; j < CAP; j++) {
        __CPROVER_assert(1 <= in_perm_c[j] && in_perm_c[j] <= CAP, "perm_c[j] (genmmd's INVP) is in 1..n");
        __CPROVER_assert(1 <= in_invp[j] && in_invp[j] <= CAP, "invp[j] (genmmd's PERM) is in 1..n");
      }
      for (j = 0; j < CAP; j++) {
        i = in_perm_c[j]; if (i < 1 || i > CAP) i = 1;
        __CPROVER_assert(in_invp[i - 1] == j + 1, "invp[perm_c[j]] == j: the two vectors are mutually inverse (perm_c is injective)");
        i = in_invp[j]; if (i < 1 || i > CAP) i = 1;
        __CPROVER_assert(in_perm_c[i - 1] == j + 1, "perm_c[invp[j]] == j: the two vectors are mutually inverse (perm_c is surjective)");
      }
      i = in_invp[0]; if (i < 1 || i > CAP) i = 1;
      __CPROVER_assert(deg[i - 1] == mindeg, "the vertex ordered first has minimum degree");
      for (j = 0; j <= CAP; j++) __CPROVER_assert(g_xadj0[j] == in_xadj[j], "xadj not written");
      __CPROVER_assert(in_n == CAP && in_delta == 0 && in_maxint == 2147483647, "n, delta, maxint not written");
      ncases++;
      __CPROVER_assert(0, "canary: genmmd_ returns");
#if CAP >= 3
      if (in_bnz == BZ) __CPROVER_assert(0, "canary: complete graph");
      if (deg[0] == 0) __CPROVER_assert(0, "canary: isolated vertex");
      if (G[0][1] && G[1][2] && !G[0][2]) __CPROVER_assert(0, "canary: path (fill-in when the middle vertex is eliminated)");
      if (in_perm_c[0] == CAP) __CPROVER_assert(0, "canary: vertex 1 ordered last");
      if (in_xadj[1] == 3 && in_adjncy[0] > in_adjncy[1]) __CPROVER_assert(0, "canary: unsorted neighbour list");
#endif
#if CAP >= 4 && !defined(NO_SHAPE_CANARIES)
      if (deg[0] == 1 && deg[1] == 1 && deg[2] == 1 && deg[3] == 1) __CPROVER_assert(0, "canary: two disjoint edges (multiple elimination)");
      if (deg[0] == 3 && deg[1] == 1 && deg[2] == 1 && deg[3] == 1) __CPROVER_assert(0, "canary: star (indistinguishable leaves)");
      if (deg[0] == 2 && deg[1] == 2 && deg[2] == 2 && deg[3] == 2) __CPROVER_assert(0, "canary: 4-cycle");
#endif
      free(in_adjncy);
    }
  }
  __CPROVER_assert(ncases == NCASES, "the enumeration covered the expected number of adjacency structures");
}
