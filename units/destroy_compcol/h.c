#include <stdlib.h>
#include "slu_mt_@p@defs.h"
extern int g_n_malloc, g_n_free, g_free_other; extern void *g_watch[12]; extern int g_freed[12], g_free_seq[12];
/* inputs: descriptor values arbitrary */
SuperMatrix in_A; int_t in_m, in_n, in_nnz; Stype_t in_stype; Dtype_t in_dtype; Mtype_t in_mtype;
/* ghosts: the caller's three arrays (heap objects, as ?allocateA hands them out) */
@T@ *g_nzval; int_t *g_rowind, *g_colptr;
void h_destroy_compcol(void) {
  int k;
  g_nzval = malloc(sizeof(@T@)); g_rowind = malloc(sizeof(int_t)); g_colptr = malloc(sizeof(int_t));
  __CPROVER_assume(g_nzval != 0 && g_rowind != 0 && g_colptr != 0);
  g_n_malloc = 0;
  @p@Create_CompCol_Matrix(&in_A, in_m, in_n, in_nnz, g_nzval, g_rowind, g_colptr, in_stype, in_dtype, in_mtype);   /* REAL constructor */
  __CPROVER_assert(g_n_malloc == 1, "constructor allocates the Store object only");
  for (k = 0; k < 12; k++) g_watch[k] = (void *)0;
  g_watch[0] = in_A.Store; g_watch[1] = g_nzval; g_watch[2] = g_rowind; g_watch[3] = g_colptr;
  Destroy_CompCol_Matrix(&in_A);                                                                                  /* REAL destructor, under contract */
  __CPROVER_assert(0, "canary: constructor + destructor return");
  if (in_nnz == 7 && in_stype == SLU_NC) __CPROVER_assert(0, "canary: arbitrary descriptor values reachable");
  /* nothing is freed here: cbmc's --memory-leak-check at the end of the harness decides that nothing is left allocated */
}
