#include "slu_mt_@p@defs.h"
/* BOUNDED unit (label B(n)): the real p?gstrf_column_dfs is executed symbolically on column jcol of an m x m problem, m == CAP fixed
 * (so every work array has exactly its documented size and an overrun is an out-of-bounds access), for every 1 <= fstcol <= jcol < CAP
 * and every well-formed pre-state of the L-subscript structure of the columns < jcol.  nzlmax == LC fixed, nextl symbolic.
 * Callees: NewNsuper / Glu_alloc(LSUB) / sp_ienv(3) are executable contracts below.
 *
 * Proved (C09/C05):  (a) memory safety (cbmc --bounds-check/--pointer-check/--signed-overflow-check on the real code);
 *  (b) the supernode decision, both directions; in particular super_bnd[jcol] != 0 ==> jcol starts a new supernode, whatever Glu->dynamic_snode_bound;
 *  (c) bookkeeping of supno/xsup/xsup_end/xlsub/xlsub_end/xprune/lsub/nextl/nseg/segrep/repfnz, frame of everything else. */
#define M CAP
int_t nondet_int_t(void);
/* inputs */
int_t in_pnum, in_jcol, in_fstcol, in_lsub_end, in_nseg;
int_t in_perm_r[M], in_ispruned[M], in_col_lsub[M], in_super_bnd[M], in_segrep[M], in_repfnz[M], in_xprune[M], in_marker2[M], in_parent[M], in_xplore[2*M];
pxgstrf_shared_t in_sh; GlobalLU_t in_Glu; Gstat_t in_Gstat;
int_t in_xsup[M+1], in_xsup_end[M+1], in_supno[M], in_lsub[LC], in_xlsub[M], in_xlsub_end[M];
int_t in_alloc_fails, in_memerr, in_dyn;
/* ghosts: pre-state copies and call records */
int_t g_marker0[M], g_lsub0[LC], g_xlsub0[M], g_xlsub_end0[M], g_xprune0[M], g_xsup0[M+1], g_xsup_end0[M+1], g_supno0[M], g_repfnz0[M], g_segrep0[M], g_perm0[M], g_col0[M];
int_t g_nsuper0, g_nextl0, g_nseg0, g_ret, g_alloc_num, g_alloc_prev, g_p, g_q, g_r, g_c, g_lo[M], g_hi[M];
int g_alloc_calls, g_newsup_calls, g_argbad;
void verif_abort(char *);

/* ---- callees by their sequential contracts ---- */
/* NewNsuper (SRC/pxgstrf_synch.c): i = ++(*data) under NSUPER_LOCK */
int_t NewNsuper(const int_t pnum, pxgstrf_shared_t *sh, int_t *data) {
  g_newsup_calls++;
  if (pnum != in_pnum || sh != &in_sh || data != &in_Glu.nsuper) g_argbad = 1;
  return ++(*data);
}
/* Glu_alloc(LSUB) (SRC/pmemory.c, real routine proved in unit glu_alloc): under LLOCK, *prev_next = nextl; nextl += num; a request that
 * does not fit nzlmax takes the library's abort path.  A positive return (never produced by the real routine but tested by the caller)
 * leaves everything unchanged. */
int_t Glu_alloc(const int_t pnum, const int_t jcol, const int_t num, const MemType mem_type, int_t *prev_next, pxgstrf_shared_t *sh) {
  g_alloc_calls++; g_alloc_num = num; g_alloc_prev = in_Glu.nextl;
  if (pnum != in_pnum || jcol != in_jcol || mem_type != LSUB || sh != &in_sh || num < 0) g_argbad = 1;
  if (in_alloc_fails) return in_memerr;
  if (num < 0 || num > in_Glu.nzlmax - in_Glu.nextl) verif_abort("Memory allocation failed");
  *prev_next = in_Glu.nextl; in_Glu.nextl += num;
  return 0;
}
int_t sp_ienv(int_t ispec) { if (ispec != 3) g_argbad = 1; return MAXSUPER; }

/* scan range of the DFS at supernode representative k (as coded: pruned -> [xlsub or xlsub_end (singleton), xprune), else the rows of the
 * supernode below its own columns) */
static int_t scan_lo(int_t k) {
  int_t s = in_supno[k], fs = in_xsup[s];
  if (in_ispruned[k]) return (in_xsup_end[s] - in_xsup[s] == 1) ? in_xlsub_end[k] : in_xlsub[k];
  return in_xlsub[fs] + k - fs + 1;
}
static int_t scan_hi(int_t k) {
  int_t s = in_supno[k], fs = in_xsup[s];
  return in_ispruned[k] ? in_xprune[k] : in_xlsub_end[fs];
}

void h_column_dfs(void) {
  int_t c, p, q, r, k, s, fs, cnt, joined, nested, jm1, len0, lo, hi, xj, xe;
  /* ---------- inputs: no contract is enforced in a bounded unit, so make them nondeterministic here ---------- */
  in_pnum = nondet_int_t(); in_jcol = nondet_int_t(); in_fstcol = nondet_int_t(); in_lsub_end = nondet_int_t(); in_nseg = nondet_int_t();
  in_alloc_fails = nondet_int_t(); in_memerr = nondet_int_t(); in_dyn = nondet_int_t();
  for (c = 0; c < M; c++) {
    in_perm_r[c] = nondet_int_t(); in_ispruned[c] = nondet_int_t(); in_col_lsub[c] = nondet_int_t(); in_super_bnd[c] = nondet_int_t();
    in_segrep[c] = nondet_int_t(); in_repfnz[c] = nondet_int_t(); in_xprune[c] = nondet_int_t(); in_marker2[c] = nondet_int_t();
    in_parent[c] = nondet_int_t(); in_xplore[c] = nondet_int_t(); in_xplore[M + c] = nondet_int_t();
    in_supno[c] = nondet_int_t(); in_xlsub[c] = nondet_int_t(); in_xlsub_end[c] = nondet_int_t();
  }
  for (c = 0; c <= M; c++) { in_xsup[c] = nondet_int_t(); in_xsup_end[c] = nondet_int_t(); }
  for (p = 0; p < LC; p++) in_lsub[p] = nondet_int_t();
  in_Glu.nsuper = nondet_int_t(); in_Glu.nextl = nondet_int_t();
  in_sh.Glu = &in_Glu; in_sh.Gstat = &in_Gstat;
  in_Glu.xsup = in_xsup; in_Glu.xsup_end = in_xsup_end; in_Glu.supno = in_supno; in_Glu.lsub = in_lsub; in_Glu.xlsub = in_xlsub; in_Glu.xlsub_end = in_xlsub_end;
  in_Glu.nzlmax = LC; in_Glu.dynamic_snode_bound = in_dyn ? YES : NO;

  /* ---------- well-formed pre-state ---------- */
  /* a regular panel never starts at column 0 (SRC/p?gstrf_thread.c: jcolm1 = jcol-1 is read); jcol is a column of the panel starting at fstcol */
  __CPROVER_assume(1 <= in_fstcol && in_fstcol <= in_jcol && in_jcol < M);
  /* variants split the runs by the number DEPTH = jcol - fstcol of finished panel columns the dfs can visit (the bounds of the dfs loops differ) */
#if DEPTH == 0
  __CPROVER_assume(in_fstcol == in_jcol);
#else
  __CPROVER_assume(in_jcol - in_fstcol == DEPTH || (DEPTH == M - 2 && in_jcol - in_fstcol >= DEPTH));
#endif
  __CPROVER_assume(in_memerr > 0);
  /* supernode counter: the columns < jcol.. are numbered, at most n-1 supernodes exist besides the one jcol may open */
  __CPROVER_assume(0 <= in_Glu.nsuper && in_Glu.nsuper <= M - 2);
  __CPROVER_assume(0 <= in_Glu.nextl && in_Glu.nextl <= LC);
  /* column jcol of A below the panel start, as gathered by the panel dfs: distinct rows */
  __CPROVER_assume(0 <= in_lsub_end && in_lsub_end <= ACOL);     /* ACOL <= M: bound of the variant on the entries of A(:,jcol) */
  for (c = 0; c < M; c++) if (c < in_lsub_end) {
    __CPROVER_assume(0 <= in_col_lsub[c] && in_col_lsub[c] < M);
    for (q = 0; q < c; q++) __CPROVER_assume(in_col_lsub[q] != in_col_lsub[c]);
  }
  /* pivots done so far belong to finished columns (< jcol: column etree independence); markers carry earlier column numbers */
  for (r = 0; r < M; r++) {
    __CPROVER_assume(in_perm_r[r] == EMPTY || (0 <= in_perm_r[r] && in_perm_r[r] < in_jcol));
    __CPROVER_assume(EMPTY <= in_marker2[r] && in_marker2[r] < in_jcol);
    __CPROVER_assume(in_repfnz[r] == EMPTY || (0 <= in_repfnz[r] && in_repfnz[r] < M));
  }
  /* finished columns c < jcol: supernode maps consistent, subscript extents inside the used part of lsub */
  for (c = 0; c < M; c++) if (c < in_jcol) {
    __CPROVER_assume(0 <= in_supno[c] && in_supno[c] <= in_Glu.nsuper);
    s = in_supno[c];
    __CPROVER_assume(0 <= in_xsup[s] && in_xsup[s] <= c && c < in_xsup_end[s] && in_xsup_end[s] <= in_jcol);
    __CPROVER_assume(0 <= in_xlsub[c] && in_xlsub[c] <= in_xlsub_end[c] && in_xlsub_end[c] <= in_Glu.nextl && in_xlsub_end[c] - in_xlsub[c] <= M);
    __CPROVER_assume(0 <= in_xprune[c] && in_xprune[c] <= in_Glu.nextl);
  }
  for (c = 0; c < M; c++) if (c < in_jcol) {             /* columns of one supernode agree on it */
    s = in_supno[c];
    for (q = 0; q < M; q++) if (q < in_jcol && in_xsup[s] <= q && q < in_xsup_end[s]) __CPROVER_assume(in_supno[q] == s);
  }
  for (p = 0; p < LC; p++) if (p < in_Glu.nextl) __CPROVER_assume(0 <= in_lsub[p] && in_lsub[p] < M);
  /* the supernode of jcol-1 owns the copy area behind its first column's list (2*no_lsub were allocated), later columns of it
   * live there and lose one row per column (T2 supernode): this is what the function itself re-establishes for jcol (asserted below) */
  jm1 = in_jcol - 1; s = in_supno[jm1]; fs = in_xsup[s];
  __CPROVER_assume(in_xsup_end[s] == in_jcol);
  __CPROVER_assume(in_xlsub_end[fs] - in_xlsub[fs] <= in_Glu.nextl - in_xlsub_end[fs]);
  if (jm1 > fs) __CPROVER_assume(in_xlsub[jm1] == in_xlsub_end[fs] && in_xlsub_end[jm1] - in_xlsub[jm1] == in_xlsub_end[fs] - in_xlsub[fs] - (jm1 - fs));
  /* the dfs of this column runs over the finished columns of the panel: what it scans at a representative k holds rows that were
   * unpivoted when k was finished, i.e. now unpivoted or pivoted at a column >= k; scanned ranges are short (bound of this unit) */
  for (k = 0; k < M; k++) if (in_fstcol <= k && k < in_jcol && in_xsup_end[in_supno[k]] - 1 == k) {
    lo = scan_lo(k); hi = scan_hi(k); g_lo[k] = lo; g_hi[k] = hi;
    __CPROVER_assume(hi - lo <= M - k);        /* at most n-k rows were unpivoted when column k was finished */
    for (p = 0; p < LC; p++) if (lo <= p && p < hi) __CPROVER_assume(in_perm_r[in_lsub[p]] == EMPTY || in_perm_r[in_lsub[p]] >= k);
  }
  /* segments found by the panel dfs end at representatives before the panel */
  __CPROVER_assume(0 <= in_nseg && in_nseg <= in_fstcol);

  /* ---------- ghost copies ---------- */
  for (c = 0; c < M; c++) { g_marker0[c] = in_marker2[c]; g_xlsub0[c] = in_xlsub[c]; g_xlsub_end0[c] = in_xlsub_end[c]; g_xprune0[c] = in_xprune[c];
    g_supno0[c] = in_supno[c]; g_repfnz0[c] = in_repfnz[c]; g_segrep0[c] = in_segrep[c]; g_perm0[c] = in_perm_r[c]; g_col0[c] = in_col_lsub[c]; }
  for (c = 0; c <= M; c++) { g_xsup0[c] = in_xsup[c]; g_xsup_end0[c] = in_xsup_end[c]; }
  for (p = 0; p < LC; p++) g_lsub0[p] = in_lsub[p];
  g_nsuper0 = in_Glu.nsuper; g_nextl0 = in_Glu.nextl; g_nseg0 = in_nseg; g_alloc_calls = 0; g_newsup_calls = 0; g_argbad = 0;
  len0 = in_xlsub_end[jm1] - in_xlsub[jm1];

  g_ret = p@p@gstrf_column_dfs(in_pnum, M, in_jcol, in_fstcol, in_perm_r, in_ispruned, in_col_lsub, in_lsub_end, in_super_bnd, &in_nseg, in_segrep,
                               in_repfnz, in_xprune, in_marker2, in_parent, in_xplore, &in_sh);

  /* ---------- results (pointwise: g_p, g_q positions of lsub, g_r a row, g_c a column / list slot, all arbitrary) ---------- */
  g_p = nondet_int_t(); g_q = nondet_int_t(); g_r = nondet_int_t(); g_c = nondet_int_t();
  __CPROVER_assume(0 <= g_p && g_p < LC && 0 <= g_q && g_q < LC && 0 <= g_r && g_r < M && 0 <= g_c && g_c < M);
  __CPROVER_assert(g_argbad == 0, "callees get the documented arguments");
  __CPROVER_assert(g_ret == 0 || (in_alloc_fails && g_ret == in_memerr && g_alloc_calls == 1), "return value: 0, or the allocator's error code");
  __CPROVER_assert(in_perm_r[g_r] == g_perm0[g_r], "perm_r is not modified");
  /* segments: appended behind the panel's, representatives are finished panel columns, first nonzero inside the representative's supernode */
  __CPROVER_assert(g_nseg0 <= in_nseg && in_nseg <= g_nseg0 + (in_jcol - in_fstcol) && in_nseg <= M, "nseg in range");
  if (g_c < g_nseg0) __CPROVER_assert(in_segrep[g_c] == g_segrep0[g_c], "panel segments kept");
  if (g_nseg0 <= g_c && g_c < in_nseg) {
    k = in_segrep[g_c];
    __CPROVER_assert(in_fstcol <= k && k < in_jcol && g_xsup_end0[g_supno0[k]] - 1 == k, "new segment representative: last column of a finished supernode of the panel");
    __CPROVER_assert(g_repfnz0[k] == EMPTY && g_xsup0[g_supno0[k]] <= in_repfnz[k] && in_repfnz[k] <= k, "new segment: first nonzero lies in the representative's supernode");
    if (g_nseg0 <= g_r && g_r < g_c) __CPROVER_assert(in_segrep[g_r] != k, "new segments distinct");
  }
  __CPROVER_assert(in_repfnz[g_r] == EMPTY || (0 <= in_repfnz[g_r] && in_repfnz[g_r] < M), "repfnz entries EMPTY or a column");
  __CPROVER_assert(in_marker2[g_r] == g_marker0[g_r] || in_marker2[g_r] == in_jcol, "marker2: kept or set to jcol");

  if (g_ret == 0) {
    joined = (in_supno[in_jcol] != g_nsuper0 + 1);
    /* (b) the decision */
    __CPROVER_assert(in_supno[in_jcol] == g_nsuper0 + 1 || in_supno[in_jcol] == g_supno0[jm1], "supno[jcol]: supernode of jcol-1 or the next fresh number");
    __CPROVER_assert(in_xsup_end[in_supno[in_jcol]] == in_jcol + 1, "jcol is the last column of its supernode");
    __CPROVER_assert(in_super_bnd[in_jcol] == 0 || (!joined && in_xsup[g_nsuper0 + 1] == in_jcol && in_Glu.nsuper == g_nsuper0 + 1),
                     "super_bnd[jcol] != 0 ==> jcol starts a new supernode (static and dynamic storage scheme)");
    xj = in_xlsub[in_jcol]; xe = in_xlsub_end[in_jcol]; cnt = xe - xj;
    __CPROVER_assert(0 <= xj && 0 <= cnt && cnt <= M && xe <= in_Glu.nextl && in_Glu.nextl <= LC, "row list of jcol inside the used part of lsub");
    if (xj <= g_p && g_p < xe) {
      r = in_lsub[g_p];
      __CPROVER_assert(0 <= r && r < M, "stored row index < n");
      __CPROVER_assert(in_perm_r[r] == EMPTY, "stored rows are unpivoted (L part)");
      __CPROVER_assert(in_marker2[r] == in_jcol && g_marker0[r] != in_jcol, "stored rows are marked now and were not before");
      if (xj <= g_q && g_q < g_p) __CPROVER_assert(in_lsub[g_q] != r, "stored rows distinct");
    }
    nested = 1; k = 0;
    for (p = 0; p < LC; p++) if (xj <= p && p < xe) {
      if (g_marker0[in_lsub[p]] != jm1) nested = 0;
      if (in_lsub[p] == g_col0[g_c]) k = 1;
    }
    if (g_c < in_lsub_end && in_perm_r[g_col0[g_c]] == EMPTY) __CPROVER_assert(k, "every unpivoted row of A(:,jcol) is stored");
    s = g_supno0[jm1]; fs = g_xsup0[s];
    if (joined) {
      __CPROVER_assert(in_super_bnd[in_jcol] == 0, "joined ==> not a boundary of the H partition");
      __CPROVER_assert(in_jcol - fs < MAXSUPER, "joined ==> supernode stays within maxsuper columns");
      __CPROVER_assert(nested && cnt == len0 - 1, "joined ==> rows of jcol nest in those of jcol-1 and only the pivot row is lost (T2)");
      __CPROVER_assert(g_newsup_calls == 0 && g_alloc_calls == 0 && in_Glu.nsuper == g_nsuper0 && in_Glu.nextl == g_nextl0, "joined ==> no supernode number and no storage taken");
      __CPROVER_assert(in_xsup[s] == fs, "joined ==> first column of the supernode kept");
      __CPROVER_assert(xj == g_xlsub_end0[fs] && in_xprune[fs] == g_xlsub_end0[fs] && in_xprune[in_jcol] == xe, "joined ==> jcol's rows sit in the copy area of the first column; prune bounds as documented");
      __CPROVER_assert(cnt == g_xlsub_end0[fs] - g_xlsub0[fs] - (in_jcol - fs), "joined ==> T2 shape re-established for jcol");
      if (g_p < xj || g_p >= xe) __CPROVER_assert(in_lsub[g_p] == g_lsub0[g_p], "joined ==> lsub changed only in jcol's list");
      __CPROVER_assert(xe <= g_xlsub_end0[fs] + (g_xlsub_end0[fs] - g_xlsub0[fs]), "joined ==> jcol's list inside the copy area");
    } else {
      __CPROVER_assert(in_super_bnd[in_jcol] != 0 || in_jcol - fs >= MAXSUPER || !nested || cnt != len0 - 1, "new supernode ==> one of the four reasons holds");
      __CPROVER_assert(g_newsup_calls == 1 && in_Glu.nsuper == g_nsuper0 + 1 && in_xsup[g_nsuper0 + 1] == in_jcol, "new supernode: number nsuper+1 taken once, xsup set");
      __CPROVER_assert(g_alloc_calls == 1 && g_alloc_num == 2 * cnt && g_alloc_prev == g_nextl0 && xj == g_nextl0 && in_Glu.nextl == g_nextl0 + 2 * cnt, "new supernode: exactly 2*|rows| subscripts allocated, list at the old nextl");
      __CPROVER_assert(in_xprune[in_jcol] == xe + cnt, "new supernode: prune bound behind the copy");
      if (xj <= g_p && g_p < xe) __CPROVER_assert(g_p + cnt < LC && in_lsub[g_p + cnt] == in_lsub[g_p], "new supernode: copy of the list kept behind it");
      if (g_p < g_nextl0) __CPROVER_assert(in_lsub[g_p] == g_lsub0[g_p], "new supernode: earlier lists untouched");
      if (g_c < in_jcol) __CPROVER_assert(in_xprune[g_c] == g_xprune0[g_c], "new supernode: prune bounds of earlier columns kept");
    }
    /* frame of the maps */
    if (g_c < in_jcol) {
      __CPROVER_assert(in_supno[g_c] == g_supno0[g_c] && in_xlsub[g_c] == g_xlsub0[g_c] && in_xlsub_end[g_c] == g_xlsub_end0[g_c], "maps of earlier columns kept");
      if (g_c != fs) __CPROVER_assert(in_xprune[g_c] == g_xprune0[g_c], "prune bounds of other columns kept");
    }
    if (g_c <= g_nsuper0) {
      __CPROVER_assert(in_xsup[g_c] == g_xsup0[g_c], "xsup of existing supernodes kept");
      if (!(joined && g_c == s)) __CPROVER_assert(in_xsup_end[g_c] == g_xsup_end0[g_c], "xsup_end of other supernodes kept");
    }
#if DEPTH > 0
    /* closure of the symbolic step: whatever the dfs newly visited is fully scanned (scan range in the pre-state) */
    k = g_c;
    if (in_fstcol <= k && k < in_jcol && g_xsup_end0[g_supno0[k]] - 1 == k && g_repfnz0[k] == EMPTY && in_repfnz[k] != EMPTY && g_lo[k] <= g_p && g_p < g_hi[k])
      __CPROVER_assert(in_marker2[g_lsub0[g_p]] == in_jcol, "rows below a visited representative are reached");
    r = g_col0[g_c];
    if (g_c < in_lsub_end) {
      __CPROVER_assert(in_marker2[r] == in_jcol, "rows of A(:,jcol) are reached");
      if (in_perm_r[r] >= in_fstcol) { k = g_xsup_end0[g_supno0[in_perm_r[r]]] - 1; __CPROVER_assert(in_repfnz[k] != EMPTY && in_repfnz[k] <= in_perm_r[r], "U row inside the panel: its supernode is visited, first nonzero at or above it"); }
    }
#endif
  }
  /* ---------- canaries ---------- */
  __CPROVER_assert(0, "canary: column_dfs returns");
#if DEPTH == 0
  if (g_ret != 0) __CPROVER_assert(0, "canary: allocation error returned");
  if (g_ret == 0 && joined && in_jcol - fs == 2) __CPROVER_assert(0, "canary: third column joins");
  if (g_ret == 0 && !joined && in_super_bnd[in_jcol] != 0 && !in_dyn && in_jcol - fs < MAXSUPER && nested && cnt == len0 - 1) __CPROVER_assert(0, "canary: static scheme, new supernode only because of super_bnd");
  if (g_ret == 0 && !joined && in_super_bnd[in_jcol] == 0 && in_jcol - fs >= MAXSUPER && nested && cnt == len0 - 1) __CPROVER_assert(0, "canary: new supernode only because of maxsuper");
  if (g_ret == 0 && !joined && in_super_bnd[in_jcol] == 0 && in_jcol - fs < MAXSUPER && !nested) __CPROVER_assert(0, "canary: new supernode because rows do not nest");
  if (g_ret == 0 && !joined && cnt >= 2 && in_Glu.nextl == LC && in_dyn) __CPROVER_assert(0, "canary: dynamic scheme, L subscript storage exactly filled");
#elif DEPTH == 1
  if (g_ret == 0 && joined && in_nseg == g_nseg0 + 1) __CPROVER_assert(0, "canary: jcol joins the supernode of jcol-1 after a dfs");
  if (g_ret == 0 && !joined && cnt >= 2 && in_lsub_end == 1) __CPROVER_assert(0, "canary: rows appended by the dfs");
#else
  if (g_ret == 0 && in_nseg == g_nseg0 + 2 && in_parent[in_segrep[g_nseg0]] == in_segrep[g_nseg0 + 1]) __CPROVER_assert(0, "canary: dfs of depth two");
#if ACOL >= 2
  if (g_ret == 0 && joined && in_nseg == g_nseg0 + 2 && in_parent[in_segrep[g_nseg0]] == EMPTY) __CPROVER_assert(0, "canary: two dfs roots, jcol joins");
#else
  if (g_ret == 0 && joined && in_nseg == g_nseg0 + 2) __CPROVER_assert(0, "canary: jcol joins after a dfs over two supernodes");
#endif
#endif
}
