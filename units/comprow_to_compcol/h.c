#include <stdlib.h>
#include "slu_mt_@p@defs.h"
extern int g_n_malloc, g_n_free;
/* ghosts: prefix counts per column, cumulated over columns; an arbitrary source entry g_k and its row g_i */
int_t g_pc[CAP][NZ+1], g_cum[CAP+1][NZ+1], g_k, g_i;
/* inputs */
int_t in_m, in_n, in_nnz, in_colind[NZ], in_rowptr[CAP+1]; @T@ in_a[NZ];
/* outputs */
@T@ *in_at; int_t *in_orowind, *in_ocolptr;
void h_r2c(void) {
  @p@CompRow_to_CompCol(in_m, in_n, in_nnz, in_a, in_colind, in_rowptr, &in_at, &in_orowind, &in_ocolptr);
  __CPROVER_assert(0, "canary: CompRow_to_CompCol returns");
  if (in_nnz == NZ && in_n == 2 && in_m == 2 && in_ocolptr[1] == 1) __CPROVER_assert(0, "canary: full, 2x2, one entry in column 0 reachable");
  if (in_nnz == 0) __CPROVER_assert(0, "canary: empty reachable");
  free(in_at); free(in_orowind); free(in_ocolptr);   /* the three results are the only objects left allocated (--memory-leak-check) */
}
