/* vocabulary for ?CompRow_to_CompCol.  Inputs: in_m, in_n, in_nnz, CSR arrays in_a[NZ], in_colind[NZ], in_rowptr[CAP+1]; outputs: the three
 * pointers in_at, in_orowind, in_ocolptr the routine allocates and fills.
 * Ghost functions (defined by the requires clauses [pc_def]/[cum_def]; they exist for every input, so they do not restrict it):
 *   PC(c,k)  = number of source entries k' < k with column index c        (prefix count per column)
 *   CUM(c,k) = sum over c' < c of PC(c',k)                                (entries among the first k that fall in columns before c)
 * With them the result is fully determined: colptr'[c] = CUM(c,nnz), and source entry k of column c lands at colptr'[c] + PC(c,k). */
#define RP(i) in_rowptr[i]
#define CI(k) in_colind[k]
#define OAT(p) in_at[p]
#define ORI(p) in_orowind[p]
#define OCP(c) in_ocolptr[c]
#define PC(c,k) g_pc[c][k]
#define CUM(c,k) g_cum[c][k]
#define POS(k) (OCP(CI(k)) + PC(CI(k), k))
#define LANDED(k,i) (OCP(CI(k)) <= POS(k) && POS(k) < OCP(CI(k) + 1) && ORI(POS(k)) == (i) && OAT(POS(k)) == in_a[k])
