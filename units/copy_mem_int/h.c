#include <stdlib.h>
#include "slu_mt_ddefs.h"
extern void copy_mem_int(int_t, void *, void *);
/* ghosts: capacity of the buffer (cells), cell offsets of the two ranges, an arbitrary byte of the range / of the buffer and their pre-state */
int_t g_cap, g_os, g_od, g_b, g_k; unsigned char g_v0, g_w0; int g_null;
/* inputs */
int_t in_howmany; ELT *in_buf;
void h_copy_mem(void) {
  /* one heap object of symbolic size; contents arbitrary */
  size_t cap_ = (g_cap >= 0 && g_cap <= CAPMAX) ? (size_t)g_cap : 0;
  in_buf = malloc(cap_ * sizeof(ELT)); __CPROVER_assume(in_buf != 0);
  if (in_howmany > 0) copy_mem_int(in_howmany, in_buf + g_os, in_buf + g_od);
  else copy_mem_int(in_howmany, g_null ? (void*)0 : (void*)(in_buf + cap_), (void*)0);      /* nothing may be dereferenced */
  __CPROVER_assert(0, "canary: copy_mem returns");
  if (in_howmany <= 0) __CPROVER_assert(0, "canary: empty copy");
  if (in_howmany >= 3 && g_od < g_os && g_os < g_od + in_howmany) __CPROVER_assert(0, "canary: overlapping ranges, destination below source");
  if (in_howmany >= 3 && g_od == g_os) __CPROVER_assert(0, "canary: copy onto itself");
  if (in_howmany >= 3 && g_od >= g_os + in_howmany) __CPROVER_assert(0, "canary: disjoint, destination above");
  if (in_howmany == CAPMAX) __CPROVER_assert(0, "canary: whole buffer of CAPMAX cells");
}
