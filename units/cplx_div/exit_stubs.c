/* libc callees of ?_div's error path.  exit() does not return; it records that it was reached and asserts the only legitimate reason. */
#include <stdio.h>
#include "slu_@r@complex.h"
extern @T@ g_b0; int g_exit, g_exit_code, g_msgs;
int fprintf(FILE *f, const char *fmt, ...) { g_msgs++; return 0; }
void exit(int code) {
  g_exit = 1; g_exit_code = code;
  __CPROVER_assert(g_b0.r == 0 && g_b0.i == 0, "exit is reached only for a zero divisor");
  __CPROVER_assert(g_msgs == 1 && code == -1, "exit(-1) after exactly one message");
#if FIXED == 0
  __CPROVER_assert(0, "canary: a zero divisor reaches exit(-1)");
#endif
  __CPROVER_assume(0);
}
