#include "slu_@r@complex.h"
extern int g_exit, g_exit_code, g_msgs;
/* ghosts: which of the three slots c, a, b point to (any aliasing), pre-state values of the operands */
int g_ci, g_ai, g_bi; @T@ g_a0, g_b0, g_q;
/* inputs */
@T@ in_v[3];
void h_div(void) {
  @p@_div(&in_v[g_ci], &in_v[g_ai], &in_v[g_bi]);
  __CPROVER_assert(0, "canary: div returns");
  if (g_ci == g_ai && g_ci != g_bi) __CPROVER_assert(0, "canary: c aliases a (x = x / piv)");
  if (g_ci == g_bi && g_ci != g_ai) __CPROVER_assert(0, "canary: c aliases b");
  if (g_ci == g_ai && g_ci == g_bi) __CPROVER_assert(0, "canary: c, a, b all the same object");
  if (g_ci != g_ai && g_ci != g_bi && g_ai != g_bi) __CPROVER_assert(0, "canary: no aliasing");
#if FIXED == 0
  if (g_b0.r == 0) __CPROVER_assert(0, "canary: purely imaginary divisor");
  if (g_b0.i == 0) __CPROVER_assert(0, "canary: real divisor");
#endif
#if FIXED == 0 && EXACT != 1
  if (g_b0.r == 2 && g_b0.i == -1) __CPROVER_assert(0, "canary: |b.r| > |b.i| branch");
  if (g_b0.r == -1 && g_b0.i == -1) __CPROVER_assert(0, "canary: |b.r| <= |b.i| branch, both negative");
#endif
#if EXACT == 2
  if (g_b0.r == 2 && g_b0.i == -1 && g_q.r == 1 && g_q.i == 2 && g_ci == g_ai) __CPROVER_assert(0, "canary: (4 + 3i) / (2 - i) in place");
  if (g_b0.r == -1 && g_b0.i == 2 && g_q.r == -2 && g_q.i == 1 && g_ci == g_bi) __CPROVER_assert(0, "canary: -5i / (-1 + 2i) into b");
#elif EXACT
  if (g_b0.r == 2 && g_b0.i == -2 && g_a0.r == 1 && g_a0.i == -1) __CPROVER_assert(0, "canary: exact domain, |b|^2 == 8");
#endif
}
