#include "slu_@r@complex.h"
extern int g_exit, g_exit_code, g_msgs;
/* ghosts: which of the three slots c, a, b point to (any aliasing), pre-state values of the operands */
int g_ci, g_ai, g_bi; @T@ g_a0, g_b0;
/* inputs */
@T@ in_v[3];
void h_div(void) {
  @p@_div(&in_v[g_ci], &in_v[g_ai], &in_v[g_bi]);
  __CPROVER_assert(0, "canary: div returns");
  if (g_ci == g_ai && g_ci != g_bi) __CPROVER_assert(0, "canary: c aliases a (x = x / piv)");
  if (g_ci == g_bi && g_ci != g_ai) __CPROVER_assert(0, "canary: c aliases b");
  if (g_ci == g_ai && g_ci == g_bi) __CPROVER_assert(0, "canary: c, a, b all the same object");
  if (g_ci != g_ai && g_ci != g_bi && g_ai != g_bi) __CPROVER_assert(0, "canary: no aliasing");
  if (g_b0.r == 0) __CPROVER_assert(0, "canary: purely imaginary divisor");
  if (g_b0.i == 0) __CPROVER_assert(0, "canary: real divisor");
  if (g_b0.r > g_b0.i && g_b0.i > 0) __CPROVER_assert(0, "canary: |b.r| > |b.i| branch");
  if (g_b0.i > g_b0.r && g_b0.r > 0) __CPROVER_assert(0, "canary: |b.r| <= |b.i| branch");
}
