/* clause vocabulary of unit cplx_div */
#if PREC_IS_c
#define BIGV 3.40282347e38f
#else
#define BIGV 1.7976931348623157e308
#endif
#define FIN(x) (-BIGV <= (x) && (x) <= BIGV)
#define FINC(z) (FIN((z).r) && FIN((z).i))
#define C (in_v[g_ci])
#define ISZERO(z) ((z).r == 0 && (z).i == 0)
#define ABSV(x) ((x) < 0 ? -(x) : (x))
#define SMALLINT(x) ((x) == -2 || (x) == -1 || (x) == 0 || (x) == 1 || (x) == 2)
