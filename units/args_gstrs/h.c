#include "slu_mt_@p@defs.h"
/* inputs: file-scope, nondeterministic initial values */
extern int g_seq, g_n_malloc, g_n_free, g_xerbla_calls, g_xerbla_arg;
trans_t in_trans; SuperMatrix in_L, in_U, in_B; SCPformat in_Lstore; NCPformat in_Ustore; DNformat in_Bstore;
int_t in_perm_c[CAP], in_perm_r[CAP]; @T@ in_Bval[CAP]; Gstat_t in_Gstat; flops_t in_ops[NPHASES]; int_t in_info;
void h_gstrs(void) {
  in_L.Store = &in_Lstore; in_U.Store = &in_Ustore; in_B.Store = &in_Bstore; in_Bstore.nzval = in_Bval; in_Gstat.ops = in_ops;
  @p@gstrs(in_trans, &in_L, &in_U, in_perm_r, in_perm_c, &in_B, &in_Gstat, &in_info);
  __CPROVER_assert(0, "canary: gstrs returns");
#if TYPES
  if (in_L.Dtype != DT) __CPROVER_assert(0, "canary: wrong L->Dtype reachable");
  if (in_L.Dtype == DT && in_L.Stype == SLU_SCP && in_L.Mtype == SLU_TRLU && in_U.Stype == SLU_NCP && in_U.Dtype == DT && in_U.Mtype == SLU_TRU) __CPROVER_assert(0, "canary: wrong B type alone reachable");
#elif defined(CONJ_UNIT)
  if (in_trans == CONJ && in_L.nrow == 2) __CPROVER_assert(0, "canary: CONJ with order 2 reachable");
#else
  if (in_info == -1) __CPROVER_assert(0, "canary: info -1 reachable");
  if (in_info == -6) __CPROVER_assert(0, "canary: info -6 reachable");
  if (in_L.nrow != in_L.ncol) __CPROVER_assert(0, "canary: non-square L reachable");
  if (in_L.nrow == in_L.ncol && in_L.nrow >= 0 && in_U.nrow < 0) __CPROVER_assert(0, "canary: negative order U reachable");
#endif
}
