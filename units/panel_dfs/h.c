#include "slu_mt_@p@defs.h"
/* BOUNDED oracle unit (label B(n)): the real p?gstrf_panel_dfs is executed symbolically on the panel [jcol, jcol+W) of an m x m problem,
 * m = n = CAP fixed, W and jcol fixed per variant, every work array with exactly its documented size:
 *   marker m*NO_MARKER (three sections; this routine uses the second one, marker1 = marker+m, stamp jcol), spa_marker m*W (stamp jj in the
 *   section of column jj), repfnz / panel_lsub / dense m*W, xplore 2m, parent m, segrep m, lbusy n, w_lsub_end W
 * for every well-formed L-subscript structure of the columns < jcol (arbitrary supernode partition and numbering, arbitrary -- also overlapping --
 * placement of the lists inside lsub[0..LC), at most RL subscripts in the range the search scans at a representative) and every
 * A(:, jcol..jcol+W-1) with at most ACOL entries per column (duplicates allowed).  The loops of the routine are UNWOUND (no loop contracts: cbmc
 * 6.11 cannot attach contracts to the do { while ... } while shape of the search); the unwinding assertions prove the bounds sufficient.
 * The results are compared with a brute-force reachability computation written down here (definition, not a copy of the dfs):
 *   REACH(jj) = least set of rows containing the rows of A(:,jj) and, with every pivoted row r whose column c = perm_r[r] is NOT busy for
 *   this panel (lbusy[c] != jcol), the rows the dfs scans at the representative (last column) of c's supernode
 *   (pruned: [xlsub_end (singleton) | xlsub, xprune); unpruned: the rows of the supernode below its own columns).
 * (a) memory safety; (b) panel_lsub(jj) = unpivoted rows of REACH(jj) without duplicates; repfnz(jj)[k] = smallest pivoted, non-busy column of
 * REACH(jj) in k's supernode (EMPTY if none); segrep[0..nseg) = the representatives reached by some column, once each, a representative after
 * everything it reaches; dense(jj) = A(:,jj) scattered, nothing else; (c) a pivoted row is a dead end exactly when lbusy[perm_r[row]] == jcol
 * (other lbusy values -- stale stamps, EMPTY -- do not matter); (d) arbitrary marker / spa_marker contents other than the stamps of this call;
 * (e) frame: panel_lsub beyond w_lsub_end, segrep beyond nseg, the other two marker sections, perm_r, xprune, ispruned, lbusy, A and Glu are not written;
 * parent[] and xplore[] are scratch: they enter with arbitrary contents (C18) and nothing is claimed about them afterwards. */
#define M CAP
#if @cplx@
#define VEQ(x, y) ((x).r == (y).r && (x).i == (y).i)
#else
#define VEQ(x, y) ((x) == (y))
#endif
int_t nondet_int_t(void); @T@ nondet_val(void);
int_t in_pnum, in_jcol, in_nseg;
SuperMatrix in_A; NCPformat in_Astore; @T@ in_a[NNZ]; int_t in_asub[NNZ], in_colbeg[M], in_colend[M];
int_t in_perm_r[M], in_xprune[M], in_ispruned[M], in_lbusy[M], in_panel_lsub[M*W], in_w_lsub_end[W], in_segrep[M], in_repfnz[M*W];
int_t in_marker[M*NO_MARKER], in_spa_marker[M*W], in_parent[M], in_xplore[2*M];
@T@ in_dense[M*W];
GlobalLU_t in_Glu; int_t in_xsup[M+1], in_xsup_end[M+1], in_supno[M], in_lsub[LC], in_xlsub[M], in_xlsub_end[M];
/* ghosts: pre-state copies, oracle */
int_t g_marker0[M*NO_MARKER], g_spa0[M*W], g_perm0[M], g_xprune0[M], g_ispruned0[M], g_lbusy0[M], g_asub0[NNZ], g_colbeg0[M], g_colend0[M];
int_t g_xsup0[M+1], g_xsup_end0[M+1], g_supno0[M], g_lsub0[LC], g_xlsub0[M], g_xlsub_end0[M];
@T@ g_dense0[M*W], g_a0[NNZ]; GlobalLU_t g_Glu0; int_t g_plsub0[M*W], g_segrep0[M];
int_t g_lo[M], g_hi[M], g_isrep[M], g_rep[M];     /* scan range of a representative; rep[c] = representative of column c's supernode */
int_t g_reach[W][M], g_fnz[W][M], g_repreached[M];
int_t g_t, g_r, g_k, g_p, g_q;

static int busy(int_t c) { return in_lbusy[c] == in_jcol; }
static int edge(int_t a, int_t b) {   /* the dfs at representative a scans a row that leads to representative b */
  int_t p, r; int e = 0;
  for (p = 0; p < LC; p++) if (g_lo[a] <= p && p < g_hi[a]) { r = g_lsub0[p]; if (g_perm0[r] != EMPTY && !busy(g_perm0[r]) && g_rep[g_perm0[r]] == b) e = 1; }
  return e;
}

void h_panel_dfs(void) {
  int_t c, p, q, r, k, s, fs, t, jj, rnd, cnt, found, last, ia, ib;
  /* ---------- inputs (no contract is enforced in a bounded unit: made nondeterministic here) ---------- */
  in_pnum = nondet_int_t(); in_nseg = nondet_int_t(); in_jcol = JCOL;
  for (c = 0; c < M; c++) { in_colbeg[c] = nondet_int_t(); in_colend[c] = nondet_int_t(); in_perm_r[c] = nondet_int_t(); in_xprune[c] = nondet_int_t();
    in_ispruned[c] = nondet_int_t(); in_lbusy[c] = nondet_int_t(); in_segrep[c] = nondet_int_t(); in_parent[c] = nondet_int_t();
    in_xplore[c] = nondet_int_t(); in_xplore[M + c] = nondet_int_t(); in_supno[c] = nondet_int_t(); in_xlsub[c] = nondet_int_t(); in_xlsub_end[c] = nondet_int_t(); }
  for (c = 0; c <= M; c++) { in_xsup[c] = nondet_int_t(); in_xsup_end[c] = nondet_int_t(); }
  for (c = 0; c < M * NO_MARKER; c++) in_marker[c] = nondet_int_t();
  for (c = 0; c < M * W; c++) { in_panel_lsub[c] = nondet_int_t(); in_repfnz[c] = nondet_int_t(); in_spa_marker[c] = nondet_int_t(); in_dense[c] = nondet_val(); }
  for (c = 0; c < W; c++) in_w_lsub_end[c] = nondet_int_t();
  for (p = 0; p < NNZ; p++) { in_asub[p] = nondet_int_t(); in_a[p] = nondet_val(); }
  for (p = 0; p < LC; p++) in_lsub[p] = nondet_int_t();
  in_A.Stype = SLU_NCP; in_A.nrow = M; in_A.ncol = M; in_A.Store = &in_Astore;
  in_Astore.nnz = NNZ; in_Astore.nzval = in_a; in_Astore.rowind = in_asub; in_Astore.colbeg = in_colbeg; in_Astore.colend = in_colend;
  in_Glu.xsup = in_xsup; in_Glu.xsup_end = in_xsup_end; in_Glu.supno = in_supno; in_Glu.lsub = in_lsub; in_Glu.xlsub = in_xlsub; in_Glu.xlsub_end = in_xlsub_end;
  in_Glu.nsuper = nondet_int_t(); in_Glu.nextl = nondet_int_t(); in_Glu.nzlmax = LC;

  /* ---------- well-formed pre-state ---------- */
  /* the panel's columns of A: extents inside the arrays, row indices < m (duplicates allowed), values are numbers */
  for (c = 0; c < M; c++) __CPROVER_assume(0 <= in_colbeg[c] && in_colbeg[c] <= in_colend[c] && in_colend[c] <= NNZ && in_colend[c] - in_colbeg[c] <= ACOL);
  for (p = 0; p < NNZ; p++) __CPROVER_assume(0 <= in_asub[p] && in_asub[p] < M && VEQ(in_a[p], in_a[p]));
  for (c = 0; c < M * W; c++) __CPROVER_assume(VEQ(in_dense[c], in_dense[c]));
  /* pivots done so far belong to columns before the panel ("0 <= kperm < jcol"); lbusy holds arbitrary stamps */
  for (r = 0; r < M; r++) __CPROVER_assume(in_perm_r[r] == EMPTY || (0 <= in_perm_r[r] && in_perm_r[r] < in_jcol));
  /* columns c < jcol: supernode maps consistent, subscript extents inside lsub, row indices < m */
  for (c = 0; c < M; c++) if (c < in_jcol) {
    __CPROVER_assume(0 <= in_supno[c] && in_supno[c] < M);
    s = in_supno[c];
    __CPROVER_assume(0 <= in_xsup[s] && in_xsup[s] <= c && c < in_xsup_end[s] && in_xsup_end[s] <= in_jcol);
    __CPROVER_assume(0 <= in_xlsub[c] && in_xlsub[c] <= in_xlsub_end[c] && in_xlsub_end[c] <= LC && 0 <= in_xprune[c] && in_xprune[c] <= LC);
  }
  for (c = 0; c < M; c++) if (c < in_jcol) { s = in_supno[c]; for (q = 0; q < M; q++) if (q < in_jcol && in_xsup[s] <= q && q < in_xsup_end[s]) __CPROVER_assume(in_supno[q] == s); }
  for (p = 0; p < LC; p++) __CPROVER_assume(0 <= in_lsub[p] && in_lsub[p] < M);
  /* what the dfs scans at a representative k: short (at most n-k rows were unpivoted when k was finished: bound of this unit), and these rows
   * are now unpivoted or pivoted at a column >= k (acyclic: needed only for the topological-order claim, not for safety) */
  for (k = 0; k < M; k++) { g_isrep[k] = 0; g_lo[k] = 0; g_hi[k] = 0; g_rep[k] = 0; }
  for (k = 0; k < M; k++) if (k < in_jcol) {
    s = in_supno[k]; fs = in_xsup[s]; g_rep[k] = in_xsup_end[s] - 1;
    if (in_xsup_end[s] - 1 == k) {
      g_isrep[k] = 1;
      if (in_ispruned[k]) { g_lo[k] = (in_xsup_end[s] - in_xsup[s] == 1) ? in_xlsub_end[k] : in_xlsub[k]; g_hi[k] = in_xprune[k]; }
      else { g_lo[k] = in_xlsub[fs] + k - fs + 1; g_hi[k] = in_xlsub_end[fs]; }
      __CPROVER_assume(g_hi[k] - g_lo[k] <= M - k && g_hi[k] - g_lo[k] <= RL);
      for (p = 0; p < LC; p++) if (g_lo[k] <= p && p < g_hi[k]) __CPROVER_assume(in_perm_r[in_lsub[p]] == EMPTY || in_perm_r[in_lsub[p]] >= k);
    }
  }
  /* (d) stamps.  EXCLUDED pre-state values, and only these:  repfnz[*] != EMPTY (pxgstrf_SetIWork fills EMPTY, p?gstrf_thread resets every
   * column with pxgstrf_resetrep_col after use);  spa_marker[section of jj][r] == jj and marker1[k] == jcol (the stamps of THIS call: every
   * column belongs to exactly one panel and a panel is handed to one thread once, so neither stamp can be left from an earlier call; the
   * arrays start as EMPTY and pxgstrf_super_bnd_dfs stamps marker1 with n+jcol >= n).  Everything else is arbitrary. */
  for (c = 0; c < M * W; c++) __CPROVER_assume(in_repfnz[c] == EMPTY);
  for (t = 0; t < W; t++) for (r = 0; r < M; r++) __CPROVER_assume(in_spa_marker[t * M + r] != in_jcol + t);
  for (k = 0; k < M; k++) __CPROVER_assume(in_marker[M + k] != in_jcol);

  /* ---------- ghost copies ---------- */
  for (c = 0; c < M * NO_MARKER; c++) g_marker0[c] = in_marker[c];
  for (c = 0; c < M * W; c++) { g_spa0[c] = in_spa_marker[c]; g_dense0[c] = in_dense[c]; g_plsub0[c] = in_panel_lsub[c]; }
  for (c = 0; c < M; c++) g_segrep0[c] = in_segrep[c];
  for (c = 0; c < M; c++) { g_perm0[c] = in_perm_r[c]; g_xprune0[c] = in_xprune[c]; g_ispruned0[c] = in_ispruned[c]; g_lbusy0[c] = in_lbusy[c]; g_colbeg0[c] = in_colbeg[c];
    g_colend0[c] = in_colend[c]; g_supno0[c] = in_supno[c]; g_xlsub0[c] = in_xlsub[c]; g_xlsub_end0[c] = in_xlsub_end[c]; }
  for (c = 0; c <= M; c++) { g_xsup0[c] = in_xsup[c]; g_xsup_end0[c] = in_xsup_end[c]; }
  for (p = 0; p < NNZ; p++) { g_asub0[p] = in_asub[p]; g_a0[p] = in_a[p]; }
  for (p = 0; p < LC; p++) g_lsub0[p] = in_lsub[p];
  g_Glu0 = in_Glu;
  /* ---------- oracle: brute-force reachability ---------- */
  for (k = 0; k < M; k++) g_repreached[k] = 0;
  for (t = 0; t < W; t++) {
    jj = in_jcol + t;
    for (r = 0; r < M; r++) g_reach[t][r] = 0;
    for (p = 0; p < NNZ; p++) if (in_colbeg[jj] <= p && p < in_colend[jj]) g_reach[t][in_asub[p]] = 1;
    for (rnd = 0; rnd < JCOL; rnd++)          /* a path visits at most jcol supernodes */
      for (r = 0; r < M; r++) if (g_reach[t][r] && in_perm_r[r] != EMPTY && !busy(in_perm_r[r])) {
        k = g_rep[in_perm_r[r]];
        for (p = 0; p < LC; p++) if (g_lo[k] <= p && p < g_hi[k]) g_reach[t][in_lsub[p]] = 1;
      }
    for (k = 0; k < M; k++) g_fnz[t][k] = EMPTY;
    for (r = 0; r < M; r++) if (g_reach[t][r] && in_perm_r[r] != EMPTY && !busy(in_perm_r[r])) {
      k = g_rep[in_perm_r[r]]; g_repreached[k] = 1;
      if (g_fnz[t][k] == EMPTY || in_perm_r[r] < g_fnz[t][k]) g_fnz[t][k] = in_perm_r[r];
    }
  }

  FN(in_pnum, M, W, in_jcol, &in_A, in_perm_r, in_xprune, in_ispruned, in_lbusy, &in_nseg, in_panel_lsub, in_w_lsub_end, in_segrep, in_repfnz,
       in_marker, in_spa_marker, in_parent, in_xplore, in_dense, &in_Glu);

  /* ---------- results (pointwise: g_t panel column, g_r row, g_k column, g_p > g_q list positions, all arbitrary) ---------- */
  g_t = nondet_int_t(); g_r = nondet_int_t(); g_k = nondet_int_t(); g_p = nondet_int_t(); g_q = nondet_int_t();
  __CPROVER_assume(0 <= g_t && g_t < W && 0 <= g_r && g_r < M && 0 <= g_k && g_k < M && 0 <= g_q && g_q < g_p && g_p < M);
  t = g_t; jj = in_jcol + t; cnt = in_w_lsub_end[t];
  /* (b) L part of the column */
  __CPROVER_assert(0 <= cnt && cnt <= M, "w_lsub_end in range");
  for (p = 0; p < M; p++) if (p < cnt) {
    r = in_panel_lsub[t * M + p];
    __CPROVER_assert(0 <= r && r < M && in_perm_r[r] == EMPTY && g_reach[t][r], "panel_lsub: every recorded row is an unpivoted row reachable from A(:,jj)");
  }
  if (g_p < cnt) __CPROVER_assert(in_panel_lsub[t * M + g_p] != in_panel_lsub[t * M + g_q], "panel_lsub: no duplicates");
  if (g_p >= cnt) __CPROVER_assert(in_panel_lsub[t * M + g_p] == g_plsub0[t * M + g_p], "panel_lsub: nothing written beyond w_lsub_end");
  if (g_q >= cnt) __CPROVER_assert(in_panel_lsub[t * M + g_q] == g_plsub0[t * M + g_q], "panel_lsub: nothing written beyond w_lsub_end (first slot)");
  found = 0; for (p = 0; p < M; p++) if (p < cnt && in_panel_lsub[t * M + p] == g_r) found = 1;
  if (g_reach[t][g_r] && in_perm_r[g_r] == EMPTY) __CPROVER_assert(found, "panel_lsub: every unpivoted row reachable from A(:,jj) is recorded");
  __CPROVER_assert(in_spa_marker[t * M + g_r] == (g_reach[t][g_r] ? jj : g_spa0[t * M + g_r]), "spa_marker: stamped jj exactly at the reachable rows, kept elsewhere");
  /* (b),(c) U segments of the column */
  __CPROVER_assert(in_repfnz[t * M + g_k] == g_fnz[t][g_k], "repfnz: smallest pivoted non-busy column of the segment, EMPTY if the supernode is not reached");
  /* (b) dense */
  last = -1; for (p = 0; p < NNZ; p++) if (g_colbeg0[jj] <= p && p < g_colend0[jj] && g_asub0[p] == g_r) last = p;
  if (last >= 0) __CPROVER_assert(VEQ(in_dense[t * M + g_r], g_a0[last]), "dense: A(:,jj) scattered");
  else __CPROVER_assert(VEQ(in_dense[t * M + g_r], g_dense0[t * M + g_r]), "dense: nothing else written");
  /* (b) segment list of the panel */
  __CPROVER_assert(0 <= in_nseg && in_nseg <= M, "nseg in range");
  for (p = 0; p < M; p++) if (p < in_nseg) {
    k = in_segrep[p];
    __CPROVER_assert(0 <= k && k < in_jcol && g_isrep[k] && g_repreached[k], "segrep: every entry is a supernode representative reached by some panel column");
  }
  if (g_p < in_nseg) {
    __CPROVER_assert(in_segrep[g_p] != in_segrep[g_q], "segrep: no duplicates");
    ia = in_segrep[g_p]; ib = in_segrep[g_q];
    __CPROVER_assert(!edge(ib, ia), "segrep: topological order (a representative appears after everything it reaches)");
  }
  if (g_p >= in_nseg) __CPROVER_assert(in_segrep[g_p] == g_segrep0[g_p], "segrep: nothing written beyond nseg");
  if (g_q >= in_nseg) __CPROVER_assert(in_segrep[g_q] == g_segrep0[g_q], "segrep: nothing written beyond nseg (first slot)");
  found = 0; for (p = 0; p < M; p++) if (p < in_nseg && in_segrep[p] == g_k) found = 1;
  if (g_repreached[g_k]) __CPROVER_assert(found, "segrep: every reached representative is listed");
  /* (d),(e) markers and frame */
  __CPROVER_assert(in_marker[M + g_k] == (g_repreached[g_k] ? in_jcol : g_marker0[M + g_k]), "marker1: stamped jcol exactly at the reached representatives, kept elsewhere");
  __CPROVER_assert(in_marker[g_k] == g_marker0[g_k] && in_marker[2 * M + g_k] == g_marker0[2 * M + g_k], "marker sections of factor_snode and column_dfs untouched");
  __CPROVER_assert(in_perm_r[g_k] == g_perm0[g_k] && in_xprune[g_k] == g_xprune0[g_k] && in_ispruned[g_k] == g_ispruned0[g_k] && in_lbusy[g_k] == g_lbusy0[g_k], "perm_r, xprune, ispruned, lbusy untouched");
  __CPROVER_assert(in_colbeg[g_k] == g_colbeg0[g_k] && in_colend[g_k] == g_colend0[g_k], "A column pointers untouched");
  for (p = 0; p < NNZ; p++) __CPROVER_assert(in_asub[p] == g_asub0[p] && VEQ(in_a[p], g_a0[p]), "A entries untouched");
  __CPROVER_assert(in_supno[g_k] == g_supno0[g_k] && in_xlsub[g_k] == g_xlsub0[g_k] && in_xlsub_end[g_k] == g_xlsub_end0[g_k] && in_xsup[g_k] == g_xsup0[g_k] && in_xsup_end[g_k] == g_xsup_end0[g_k] && in_xsup[M] == g_xsup0[M] && in_xsup_end[M] == g_xsup_end0[M], "Glu maps untouched");
  for (p = 0; p < LC; p++) __CPROVER_assert(in_lsub[p] == g_lsub0[p], "Glu->lsub untouched");
  __CPROVER_assert(in_Glu.nsuper == g_Glu0.nsuper && in_Glu.nextl == g_Glu0.nextl && in_Glu.nzlmax == g_Glu0.nzlmax && in_Glu.lsub == g_Glu0.lsub && in_Glu.xlsub == g_Glu0.xlsub && in_Glu.supno == g_Glu0.supno, "Glu scalars and pointers untouched");

  /* ---------- canaries (CAN: bit mask, every variant keeps the ones its shape can reach; each costs one solver call) ---------- */
  __CPROVER_assert(0, "canary: panel_dfs returns");
#if CAN & 2
  if (in_nseg >= 1 && in_w_lsub_end[0] >= 1 && g_fnz[0][in_segrep[0]] != EMPTY) __CPROVER_assert(0, "canary: a segment and L rows found");
#endif
#if CAN & 4
  if (g_reach[0][g_r] && in_perm_r[g_r] != EMPTY && busy(in_perm_r[g_r]) && in_nseg == 0) __CPROVER_assert(0, "canary: a busy descendant is skipped");
#endif
#if CAN & 8
  if (g_reach[0][g_r] && in_perm_r[g_r] != EMPTY && in_lbusy[in_perm_r[g_r]] != EMPTY && !busy(in_perm_r[g_r]) && in_nseg >= 1) __CPROVER_assert(0, "canary: stale lbusy stamp, descendant explored");
#endif
#if CAN & 16
  if (in_ispruned[g_k] && g_repreached[g_k] && g_hi[g_k] > g_lo[g_k] && in_w_lsub_end[0] >= 1) __CPROVER_assert(0, "canary: pruned supernode scanned");
#endif
#if CAN & 32
  if (in_nseg == 2 && in_parent[in_segrep[0]] == in_segrep[1] && g_fnz[0][in_segrep[0]] != EMPTY) __CPROVER_assert(0, "canary: dfs of depth two");
#endif
#if CAN & 64
  if (in_nseg == 1 && in_segrep[0] == 1 && g_fnz[0][1] == 0 && in_colend[in_jcol] - in_colbeg[in_jcol] == 2 && in_perm_r[in_asub[in_colbeg[in_jcol]]] == 1) __CPROVER_assert(0, "canary: segment of two columns, first nonzero lowered by a later entry of A's column");
#endif
#if CAN & 128
  if (in_w_lsub_end[0] >= 1 && in_w_lsub_end[1] >= 1 && in_panel_lsub[0] != in_panel_lsub[M]) __CPROVER_assert(0, "canary: two panel columns with different structures");
#endif
#if CAN & 256
  if (in_nseg == 1 && g_fnz[0][in_segrep[0]] == EMPTY) __CPROVER_assert(0, "canary: segment found by the second column only");
#endif
#if CAN & 512
  if (in_nseg == 2 && in_parent[in_segrep[0]] == in_segrep[1] && g_fnz[0][in_segrep[0]] != EMPTY && g_hi[in_segrep[1]] - g_lo[in_segrep[1]] >= 2 && g_perm0[g_lsub0[g_lo[in_segrep[1]]]] != EMPTY && in_w_lsub_end[0] >= 1) __CPROVER_assert(0, "canary: scan of the parent resumed after the child returned");
#endif
#if CAN & 1024
  if (in_colend[in_jcol] - in_colbeg[in_jcol] >= 1 && in_nseg == 2 && in_parent[in_segrep[1]] == EMPTY && in_parent[in_segrep[0]] == EMPTY && g_fnz[0][in_segrep[0]] != EMPTY && g_fnz[0][in_segrep[0]] < in_perm_r[in_asub[in_colbeg[in_jcol]]] && edge(in_segrep[1], in_segrep[0])) __CPROVER_assert(0, "canary: first nonzero lowered inside the dfs of a later entry");
#endif
#if CAN & 2048
  if (in_colend[in_jcol] - in_colbeg[in_jcol] >= 2 && in_asub[in_colbeg[in_jcol]] == in_asub[in_colbeg[in_jcol] + 1] && in_w_lsub_end[0] == 1) __CPROVER_assert(0, "canary: duplicate entry in A's column");
#endif
#if CAN & 4096
  if (in_nseg >= 1 && g_fnz[0][g_k] != EMPTY && g_lo[g_k] < g_hi[g_k] && g_perm0[g_lsub0[g_lo[g_k]]] != EMPTY && busy(g_perm0[g_lsub0[g_lo[g_k]]])) __CPROVER_assert(0, "canary: busy row met inside the dfs");
#endif
}
