#include <stdlib.h>
#include "slu_mt_@p@defs.h"
/* p?gstrf_thread (the REAL worker function) on the paths where a callee reports an ERROR.  Every callee is an executable contract
 * that may fail nondeterministically as its interface documents (0 = ok, > n = bytes obtained when storage ran out).
 * FAIL selects which callee may fail in this variant: 0 none, 1 p?gstrf_WorkInit, 2 p?gstrf_factor_snode, 3 p?gstrf_column_dfs,
 * 4 p?gstrf_column_bmod, 5 p?gstrf_copy_to_ucol, 9 any of them.
 * Checked at EVERY return of the thread function:
 *   C17  the work arrays WorkInit left allocated are released, WorkFree is called at most once and exactly once after a successful
 *        WorkInit, the arrays the thread allocates itself (spa_marker, w_lsub_end) are freed (ghost balance + --memory-leak-check);
 *   C14  the thread's info slot holds the FIRST failing callee's value (> n), not a singular-column number and not 0; no factorization
 *        step runs after a reported failure, none runs on work arrays that are not live;
 *   C04  what other threads wait on: every column spin lock this thread was given is released, no other is touched; a panel this
 *        thread was given is DONE on a normal return; a panel whose completion was never reported to the scheduler is only left
 *        behind when tasks_remain <= 0 (otherwise the parent panel never becomes ready and every other thread polls for ever).
 * Bounded: at most NPAN scheduler calls, panel width <= W (loops unwound, label B). */
#ifndef FAIL
#define FAIL 0
#endif
#define MAY(k) (FAIL == (k) || FAIL == 9)
int_t nondet_int_t(void);
/* ---- ghosts */
int_t g_min, g_calls, g_sched_calls;
int_t g_failed, g_fail_val, g_memuse, g_cur, g_c;
int g_wi_calls, g_wi_ok, g_iwork_live, g_dwork_live, g_workfree_calls, g_heap_live, g_steps_after_fail;
void *g_iwork_obj, *g_dwork_obj;
int g_took_col[CAP+1], g_took_pan[CAP+1]; int_t g_spin0[CAP+1]; pipe_state_t g_state0[CAP+1];
/* ---- inputs */
p@p@gstrf_threadarg_t in_arg; superlumt_options_t in_o; pxgstrf_shared_t in_shared; SuperMatrix in_A; GlobalLU_t in_Glu; Gstat_t in_Gstat;
pan_status_t in_pan[CAP+1]; int_t in_spin[CAP+1], in_etree[CAP+1], in_super_bnd[CAP+1], in_perm_r[CAP], in_xlsub[CAP+1], in_xlsub_end[CAP+1], in_lsub[CAP];
procstat_t in_procstat[2]; panstat_t in_panstat[CAP+1]; cp_panel_t in_cp[CAP+1];
static int_t pool_i[64]; static @T@ pool_d[64];
static int_t pool_lbusy[CAP], pool_marker[CAP * NO_MARKER];

/* the first failure that a callee reports: which callee (g_failed) and the value it returned (g_fail_val > n) */
static int_t fail(int_t k) {
  if (!MAY(k)) return 0;
  if (nondet_int_t() == 0) return 0;
  int_t v = nondet_int_t(); __CPROVER_assume(v > in_A.ncol && v <= 1000000);
  if (!g_failed) { g_failed = k; g_fail_val = v; }
  return v;
}
/* entry condition of every factorization step */
static void step(void) {
  if (g_failed) g_steps_after_fail++;
  __CPROVER_assert(!g_failed, "C14 stops_after_failure: no factorization step runs after a callee reported a memory failure");
  __CPROVER_assert(g_iwork_live && g_dwork_live, "C17 live_work: a factorization step only gets work arrays that WorkInit handed out and that are not yet released");
}

/* ---- allocation: real intMalloc/intCalloc stop the process instead of returning NULL */
int_t *intMalloc(int_t n) { int_t *p = malloc((size_t)(n > 0 ? n : 1) * sizeof(int_t)); __CPROVER_assume(p != NULL); g_heap_live++; return p; }
void superlu_free(void *p) {
  if (p != NULL) {
    if (p == g_iwork_obj && g_iwork_live) g_iwork_live = 0;       /* a repair may release the integer block directly */
    else if (p == g_dwork_obj && g_dwork_live) g_dwork_live = 0;
    else g_heap_live--;
  }
  free(p);
}
void ifill(int_t *a, int_t alen, int_t v) { }
double SuperLU_timer_(void) { double t; return t; }
/* p?gstrf_WorkInit as the real one behaves (units work_init / work_init_user): first request fails -> nothing held, *iworkptr == NULL;
 * second request fails -> the integer block is given back (fix edb781e; unit work_init [failure_holds_nothing]), *iworkptr keeps the stale address, *dworkptr == NULL; value > n in both cases */
int_t p@p@gstrf_WorkInit(int_t n, int_t w, int_t **iw, @T@ **dw) {
  g_wi_calls++;
  __CPROVER_assert(n == in_A.nrow && w == in_o.panel_size, "WorkInit is asked for the work space of this matrix and panel size");
  int_t mode = 0;
  if (MAY(1)) { mode = nondet_int_t(); __CPROVER_assume(mode >= 0 && mode <= 2); }
  if (mode == 1) { *iw = NULL; int_t v = nondet_int_t(); __CPROVER_assume(v > in_A.ncol && v <= 1000000); g_failed = 1; g_fail_val = v; return v; }
  *iw = malloc(sizeof(int_t)); __CPROVER_assume(*iw != NULL); g_iwork_obj = *iw; g_iwork_live = 1;
  if (mode == 2) { free(*iw); g_iwork_live = 0; *dw = NULL; int_t v = nondet_int_t(); __CPROVER_assume(v > in_A.ncol && v <= 1000000); g_failed = 1; g_fail_val = v; return v; }
  *dw = malloc(sizeof(@T@)); __CPROVER_assume(*dw != NULL); g_dwork_obj = *dw; g_dwork_live = 1; g_wi_ok = 1;
  return 0;
}
void pxgstrf_SetIWork(int_t n, int_t w, int_t *iwork, int_t **segrep, int_t **parent, int_t **xplore, int_t **repfnz, int_t **panel_lsub, int_t **marker, int_t **lbusy)
{ __CPROVER_assert(g_wi_ok && iwork == (int_t *)g_iwork_obj, "C14 no_use_of_failed_work: the integer work block is carved up only after a successful WorkInit");
  *segrep = *parent = *xplore = *repfnz = *panel_lsub = pool_i; *marker = pool_marker; *lbusy = pool_lbusy; }
void p@p@gstrf_SetRWork(int_t n, int_t w, @T@ *dwork, @T@ **dense, @T@ **tempv)
{ __CPROVER_assert(g_wi_ok && dwork == (@T@ *)g_dwork_obj, "C14 no_use_of_failed_work: the numeric work block is carved up only after a successful WorkInit");
  *dense = *tempv = pool_d; }
void p@p@gstrf_WorkFree(int_t *iwork, @T@ *dwork, GlobalLU_t *Glu) {
  g_workfree_calls++;
  __CPROVER_assert(g_iwork_live && iwork == (int_t *)g_iwork_obj, "C17 workfree_args: WorkFree gets the live integer block WorkInit handed out (never a stale, NULL or uninitialised pointer)");
  __CPROVER_assert(g_dwork_live ? dwork == (@T@ *)g_dwork_obj : 1, "C17 workfree_args: WorkFree gets the live numeric block WorkInit handed out");
  __CPROVER_assert(Glu == &in_Glu, "WorkFree gets the shared Glu");
  if (g_iwork_live && iwork == (int_t *)g_iwork_obj) { free(iwork); g_iwork_live = 0; }
  if (g_dwork_live && dwork == (@T@ *)g_dwork_obj) { free(dwork); g_dwork_live = 0; }
}
float p@p@gstrf_memory_use(const int_t a, const int_t b, const int_t c) { return (float)g_memuse; }

/* ---- scheduler: checks the completion report of the panel handed out before, then hands out an arbitrary startable panel (or none) */
void pxgstrf_scheduler(const int_t pnum, const int_t n, const int_t *etree, int_t *cur_pan, int_t *bcol, pxgstrf_shared_t *sh) {
  g_sched_calls++;
  if (*cur_pan != EMPTY) {
    __CPROVER_assert(*cur_pan == g_cur, "C04 report: the panel reported as finished is the one this thread was given");
    __CPROVER_assert(in_pan[g_cur].state == DONE, "C04 report: a panel is reported to the scheduler only when it is DONE");
    for (int_t c = 0; c < W; c++) if (c < in_pan[g_cur].size) __CPROVER_assert(in_spin[g_cur + c] == 0, "C04 report: every column of a reported panel is released");
  } else __CPROVER_assert(g_cur == EMPTY, "C04 report: a panel that was handed out is reported back (cur_pan not reset)");
  g_cur = EMPTY;
  int_t j = nondet_int_t();
  if (g_sched_calls >= NPAN) sh->tasks_remain = 0; else sh->tasks_remain = 1;
  if (j >= 0 && j < n && in_pan[j].size >= 1 && in_pan[j].size <= W && in_pan[j].size <= in_o.panel_size && j + in_pan[j].size <= n
      && in_pan[j].state > BUSY && (in_pan[j].type == RELAXED_SNODE || j >= 1)) {
    in_pan[j].state = BUSY; g_took_pan[j] = 1;
    for (int_t c = 0; c < W; c++) if (c < in_pan[j].size) { in_spin[j + c] = 1; g_took_col[j + c] = 1; }
    g_cur = j; *cur_pan = j; *bcol = j;
  } else *cur_pan = EMPTY;
}
static int_t report(int_t jcol) {   /* a zero pivot in column jcol (or none): tracked in the ghost minimum */
  int_t r = nondet_int_t();
  if (r != 0) { r = jcol + 1; if (g_min == 0 || r < g_min) g_min = r; }
  return r;
}
int_t p@p@gstrf_factor_snode(const int_t pnum, const int_t jcol, SuperMatrix *A, const @R@ u, yes_no_t *usepr, int_t *perm_r, int_t *inv_perm_r, int_t *inv_perm_c, int_t *xprune, int_t *marker, int_t *col_lsub, @T@ *dense, @T@ *tempv, pxgstrf_shared_t *sh, int_t *info)
{ step(); g_calls++; __CPROVER_assert(jcol == g_cur, "the relaxed supernode factored is the panel the scheduler handed out");
  int_t v = fail(2); if (v) { *info = v; return 0; }
  *info = report(jcol + (nondet_int_t() ? 0 : in_pan[jcol].size - 1)); return 0; }
void pxgstrf_mark_busy_descends(int_t pnum, int_t jcol, int_t *etree, pxgstrf_shared_t *sh, int_t *bcol, int_t *lbusy) { step(); }
void p@p@gstrf_panel_dfs(const int_t a, const int_t b, const int_t c, const int_t d, SuperMatrix *A, int_t *p1, int_t *p2, int_t *p3, int_t *p4, int_t *nseg, int_t *p6, int_t *w_lsub_end, int_t *p8, int_t *p9, int_t *p10, int_t *spa_marker, int_t *p12, int_t *p13, @T@ *dn, GlobalLU_t *G)
{ step(); *nseg = 0; w_lsub_end[0] = 0; spa_marker[0] = EMPTY;   /* the thread's own arrays must be live objects here */ }
void p@p@gstrf_panel_bmod(const int_t a, const int_t b, const int_t c, const int_t d, const int_t e, int_t *p1, int_t *p2, int_t *p3, int_t *p4, int_t *p5, int_t *p6, int_t *p7, int_t *p8, @T@ *d1, @T@ *d2, pxgstrf_shared_t *sh) { step(); }
void pxgstrf_super_bnd_dfs(const int_t a, const int_t b, const int_t c, const int_t d, const int_t e, SuperMatrix *A, int_t *p1, int_t *p2, int_t *p3, int_t *p4, int_t *p5, int_t *p6, int_t *p7, pxgstrf_shared_t *sh) { step(); }
int_t p@p@gstrf_column_dfs(const int_t a, const int_t b, const int_t c, const int_t d, int_t *p1, int_t *p2, int_t *p3, int_t e, int_t *p4, int_t *p5, int_t *p6, int_t *p7, int_t *p8, int_t *p9, int_t *p10, int_t *p11, pxgstrf_shared_t *sh) { step(); return fail(3); }
int_t p@p@gstrf_column_bmod(const int_t a, const int_t b, const int_t c, const int_t d, int_t *p1, int_t *p2, @T@ *d1, @T@ *d2, pxgstrf_shared_t *sh, Gstat_t *G) { step(); return fail(4); }
int_t p@p@gstrf_pivotL(const int_t pnum, const int_t jcol, const @R@ u, yes_no_t *usepr, int_t *perm_r, int_t *inv_perm_r, int_t *inv_perm_c, int_t *pivrow, GlobalLU_t *Glu, Gstat_t *Gs) { step(); g_calls++; *pivrow = 0; return report(jcol); }
int_t p@p@gstrf_copy_to_ucol(const int_t a, const int_t b, const int_t c, const int_t *p1, const int_t *p2, const int_t *p3, @T@ *d, pxgstrf_shared_t *sh) { step(); return fail(5); }
void pxgstrf_pruneL(const int_t a, const int_t *p1, const int_t b, const int_t c, const int_t *p2, const int_t *p3, int_t *p4, int_t *p5, GlobalLU_t *G) { step(); }
void pxgstrf_resetrep_col(const int_t a, const int_t *p1, int_t *p2) { step(); }

void h_thread(void) {
  int_t n = in_A.ncol;
  __CPROVER_assume(n >= 1 && n <= CAP && in_A.nrow == n && in_o.panel_size >= 1 && in_o.panel_size <= W);
  in_arg.pnum = 0; in_arg.superlumt_options = &in_o; in_arg.pxgstrf_shared = &in_shared;
  in_o.etree = in_etree; in_o.part_super_h = in_super_bnd; in_o.perm_r = in_perm_r;
  in_shared.A = &in_A; in_shared.Glu = &in_Glu; in_shared.Gstat = &in_Gstat; in_shared.pan_status = in_pan; in_shared.spin_locks = in_spin;
  in_shared.inv_perm_c = in_perm_r; in_shared.inv_perm_r = in_perm_r; in_shared.xprune = in_xlsub; in_shared.ispruned = in_xlsub;
  in_Glu.lsub = in_lsub; in_Glu.xlsub = in_xlsub; in_Glu.xlsub_end = in_xlsub_end; in_Glu.dynamic_snode_bound = NO;
  in_Gstat.procstat = in_procstat; in_Gstat.panstat = in_panstat; in_Gstat.cp_panel = in_cp;
  for (int_t c = 0; c <= CAP; c++) { __CPROVER_assume(in_xlsub[c] >= 0 && in_xlsub[c] < CAP && in_xlsub_end[c] == in_xlsub[c]); }
  for (int_t c = 0; c < CAP; c++) { __CPROVER_assume(in_lsub[c] >= 0 && in_lsub[c] < n); }
  /* the other threads' panels and column locks are in an arbitrary state */
  for (int_t c = 0; c <= CAP; c++) { __CPROVER_assume(in_pan[c].state >= DONE && in_pan[c].state <= UNREADY && (in_spin[c] == 0 || in_spin[c] == 1));
    g_spin0[c] = in_spin[c]; g_state0[c] = in_pan[c].state; g_took_col[c] = 0; g_took_pan[c] = 0; }
  __CPROVER_assume(g_c >= 0 && g_c <= CAP && g_memuse >= 0 && g_memuse <= 1000000);
  in_shared.tasks_remain = 1; g_min = 0; g_calls = 0; g_sched_calls = 0; g_cur = EMPTY;
  g_failed = 0; g_fail_val = 0; g_wi_calls = 0; g_wi_ok = 0; g_iwork_live = 0; g_dwork_live = 0; g_workfree_calls = 0; g_heap_live = 0; g_steps_after_fail = 0;
  g_iwork_obj = NULL; g_dwork_obj = NULL;

  p@p@gstrf_thread(&in_arg);

  /* ---- C14: the info slot of the thread */
  __CPROVER_assert(!g_failed || in_arg.info > n, "C14 info_reports_failure: after a callee reported a memory failure the thread's info is > n");
  __CPROVER_assert(g_failed != 1 || in_arg.info == g_fail_val + g_memuse, "C14 info_value_workinit: info = WorkInit's byte count + the memory in use, not overwritten");
  __CPROVER_assert(g_failed < 2 || in_arg.info == g_fail_val, "C14 info_value_callee: info = the value of the FIRST callee that failed, not overwritten by a singular column or 0");
  __CPROVER_assert(g_failed || in_arg.info == g_min, "C06 info_singular: without a failure the thread reports the smallest zero-pivot column it met (0 if none)");
  __CPROVER_assert(g_wi_calls == 1, "WorkInit is called exactly once");
  /* ---- C17: nothing the thread obtained is still held */
  __CPROVER_assert(!g_iwork_live && !g_dwork_live, "C17 work_released: the work arrays WorkInit left allocated are released on this exit path");
  __CPROVER_assert(g_heap_live == 0, "C17 own_arrays_released: every array the thread allocated itself (spa_marker, w_lsub_end) is freed exactly once");
  __CPROVER_assert(g_workfree_calls <= 1 && (!g_wi_ok || g_workfree_calls == 1) && (g_iwork_obj != NULL || g_workfree_calls == 0), "C17 workfree_once: WorkFree runs exactly once after a successful WorkInit, never when WorkInit obtained nothing");
  /* ---- C04: what other threads wait on */
  __CPROVER_assert(!g_took_col[g_c] || in_spin[g_c] == 0, "C04 spin_released: every column lock this thread was given is released at return (others spin on it in await)");
  __CPROVER_assert(g_took_col[g_c] || in_spin[g_c] == g_spin0[g_c], "C04 spin_foreign: a column lock the thread was not given is not touched");
  __CPROVER_assert(!(g_took_pan[g_c] && !g_failed) || in_pan[g_c].state == DONE, "C04 panel_done: a panel this thread was given is DONE at a normal return");
  __CPROVER_assert(g_took_pan[g_c] || in_pan[g_c].state == g_state0[g_c], "C04 panel_foreign: the state of a panel the thread was not given is not touched");
  __CPROVER_assert(g_cur == EMPTY || in_shared.tasks_remain <= 0, "C04 no_orphan_panel: a panel whose completion was never reported to the scheduler is left only when tasks_remain <= 0 (else its parent never becomes ready and the other threads poll for ever)");
  __CPROVER_assert(!(g_cur != EMPTY && g_failed) || in_pan[g_cur].state != BUSY || in_shared.tasks_remain <= 0, "C04 no_busy_orphan: the panel held when the failure was reported is not left BUSY while tasks remain");

  __CPROVER_assert(0, "canary: thread returns");
  if (g_min != 0 && g_calls >= 3 && !g_failed) __CPROVER_assert(0, "canary: several pivot steps, singular, no failure");
  if (g_sched_calls == NPAN && g_calls >= 2 && !g_failed) __CPROVER_assert(0, "canary: all panels handed out");
#if FAIL == 1 || FAIL == 9
  if (g_failed == 1 && g_iwork_obj == NULL) __CPROVER_assert(0, "canary: WorkInit fails on its first request");
  if (g_failed == 1 && g_iwork_obj != NULL) __CPROVER_assert(0, "canary: WorkInit fails on its second request");
#endif
#if FAIL >= 2
  if (g_failed >= 2 && g_cur != EMPTY && g_sched_calls >= 2) __CPROVER_assert(0, "canary: a callee fails on a later panel while a panel is held");
  if (g_failed >= 2 && g_min != 0) __CPROVER_assert(0, "canary: memory failure after a zero pivot was met");
#endif
#if FAIL == 9
  if (g_failed == 2) __CPROVER_assert(0, "canary: factor_snode fails");
  if (g_failed == 3) __CPROVER_assert(0, "canary: column_dfs fails");
  if (g_failed == 4) __CPROVER_assert(0, "canary: column_bmod fails");
  if (g_failed == 5) __CPROVER_assert(0, "canary: copy_to_ucol fails");
#endif
}
