/* Native witness (C17, reachable error exit of p?gstrf_thread): system-allocator mode (lwork = 0).  When the SECOND request of
 * p?gstrf_WorkInit (the numeric work block dwork) fails, WorkInit returns isize + dsize + n with the integer block still allocated in
 * *iworkptr (pdmemory.c:476-478), and p?gstrf_thread leaves through "*info += ...; return 0;" (pdgstrf_thread.c:179-182) without
 * releasing it: one block of (2w+8)*n*sizeof(int_t) bytes is lost per failing thread and per call.  The call itself returns normally
 * with info > n and does not hang (the failing thread holds no panel; the other threads take every panel).
 * Obligation: unit thread_errors[d,workinit], h_thread "C17 work_released" and __CPROVER__start.memory-leak.
 * The failure is injected by wrapping superlu_malloc: the request of exactly dsize bytes fails `maxfail` times.
 * build: gcc -g -fsanitize=address -D__PTHREAD -DAdd_ -I/repo/SRC native_repro.c -Wl,--wrap=superlu_malloc /repo/_build/SRC/libsuperlu_mt_PTHREAD.a -lblas -lpthread -lm -o repro
 * run:   timeout 20 ./repro <nprocs> [maxfail]      e.g. ./repro 1 ; ./repro 2 1 ; ./repro 4 4
 * expected on the current tree: "info=165560" (> n = 40) and a LeakSanitizer report "Direct leak of 7680 byte(s) ... intCalloc pmemory.c:85"
 * per failing thread, exit status 1. */
#include "slu_mt_ddefs.h"
#include <string.h>
#define NUM_TEMPV(n,w,t,b)  (SUPERLU_MAX( 2*n, (t + b)*w ))   /* as in pdmemory.c:78 */
extern void *__real_superlu_malloc(size_t);
static size_t fail_size; static int nfail, maxfail = 1;
void *__wrap_superlu_malloc(size_t size) {
  if (size == fail_size && nfail < maxfail) { nfail++; fprintf(stderr, "superlu_malloc(%zu) -> NULL (injected)\n", size); return NULL; }
  return __real_superlu_malloc(size);
}
int main(int argc, char **argv) {
  setvbuf(stdout, NULL, _IONBF, 0);
  int nprocs = argc > 1 ? atoi(argv[1]) : 1, n = 40; maxfail = argc > 2 ? atoi(argv[2]) : 1;
  int *colptr = malloc((n + 1) * sizeof(int)), *rowind = malloc(3 * n * sizeof(int)); double *val = malloc(3 * n * sizeof(double));
  int nnz = 0;
  for (int j = 0; j < n; j++) { colptr[j] = nnz; if (j > 0) { rowind[nnz] = j - 1; val[nnz++] = -1; } rowind[nnz] = j; val[nnz++] = 4; if (j < n - 1) { rowind[nnz] = j + 1; val[nnz++] = -1; } }
  colptr[n] = nnz;
  double *rhs = malloc(n * sizeof(double)); for (int i = 0; i < n; i++) rhs[i] = 1;
  int *perm_c = malloc(n * sizeof(int)), *perm_r = malloc(n * sizeof(int)), info = -99;
  SuperMatrix A, L, U, B;
  dCreate_CompCol_Matrix(&A, n, n, nnz, val, rowind, colptr, SLU_NC, SLU_D, SLU_GE);
  dCreate_Dense_Matrix(&B, n, 1, rhs, n, SLU_DN, SLU_D, SLU_GE);
  get_perm_c(0, &A, perm_c);
  int w = sp_ienv(1), maxsuper = sp_ienv(3), rowblk = sp_ienv(4);
  fail_size = (size_t)(n * w + NUM_TEMPV(n, w, maxsuper, rowblk)) * sizeof(double);   /* dsize of pdgstrf_WorkInit */
  pdgssv(nprocs, &A, perm_c, perm_r, &L, &U, &B, &info);
  printf("nprocs=%d info=%d (n=%d)%s\n", nprocs, info, n, info > n ? "  -- allocation failure reported" : "");
  /* give back everything the caller owns, so that whatever LeakSanitizer reports was lost inside the library */
  free(colptr); free(rowind); free(val); free(rhs); free(perm_c); free(perm_r);
  SUPERLU_FREE(A.Store); SUPERLU_FREE(B.Store); Destroy_SuperNode_SCP(&L); Destroy_CompCol_NCP(&U);
  return 0;
}
