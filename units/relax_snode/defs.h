/* vocabulary for pxgstrf_relax_snode: CAP columns; the result array has n+2 entries (entry 0 holds the count, entry count+1 the sentinel n) */
#define M in_relax[0].size
#define FCOL(k) in_relax[k].fcol
#define SIZE(k) in_relax[k].size
