#include <stdlib.h>
#include "slu_mt_ddefs.h"
/* inputs: the statistics structure starts arbitrary (a local of the drivers), sizes arbitrary */
Gstat_t in_Gstat; int_t in_n, in_nprocs, in_panel_size, in_relax;
/* ghost: the four blocks the requests are served from, request sizes, failure selector */
int_t pool_histo[HC]; double pool_utime[NPHASES]; flops_t pool_ops[NPHASES]; procstat_t pool_procstat[NPMAX];
int g_n_smalloc, g_n_icalloc, g_failed, g_cfg_fail, g_order_ok; size_t g_sreq[3]; int_t g_creq;
Gstat_t g_G0;
void *superlu_malloc(size_t size) {
  int k = g_n_smalloc++;
  if (k > 2) { __CPROVER_assert(0, "allocator model: at most three superlu_malloc requests"); __CPROVER_assume(0); }
  if (g_n_icalloc != 1) g_order_ok = 0;
  g_sreq[k] = size;
  if (g_cfg_fail == k) { g_failed = 1; return (void *)0; }
  return k == 0 ? (void *)pool_utime : k == 1 ? (void *)pool_ops : (void *)pool_procstat;
}
int_t *intCalloc(int_t n) {
  if (g_n_icalloc++ != 0) { __CPROVER_assert(0, "allocator model: one intCalloc request"); __CPROVER_assume(0); }
  g_creq = n; return pool_histo;
}
void superlu_free(void *p) { __CPROVER_assert(0, "StatAlloc frees nothing"); }
void verif_abort(char *msg) {
  __CPROVER_assert(g_failed, "abort hook only after a failed allocation");
  __CPROVER_assert(0, "canary: abort path reachable");
  __CPROVER_assume(0);
}
int sprintf(char *s, const char *f, ...) { return 0; }
int printf(const char *f, ...) { return 0; }
int fprintf(FILE *s, const char *f, ...) { return 0; }
void h_stat_alloc(void) {
  g_G0 = in_Gstat;
  StatAlloc(in_n, in_nprocs, in_panel_size, in_relax, &in_Gstat);
  /* no other field of Gstat is touched */
  __CPROVER_assert(in_Gstat.num_panels == g_G0.num_panels && in_Gstat.panstat == g_G0.panstat && in_Gstat.panhows == g_G0.panhows && in_Gstat.height == g_G0.height
                   && in_Gstat.flops_by_height == g_G0.flops_by_height && in_Gstat.stat_relax == g_G0.stat_relax && in_Gstat.cp_panel == g_G0.cp_panel, "other fields of Gstat untouched");
  __CPROVER_assert(0, "canary: StatAlloc returns");
  if (in_relax > in_panel_size && in_nprocs > 3) __CPROVER_assert(0, "canary: relax above panel_size, several threads");
  if (in_panel_size < 0 && in_relax < 0) __CPROVER_assert(0, "canary: nonpositive widths");
}
