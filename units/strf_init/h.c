#include <stdlib.h>
#include "slu_mt_@p@defs.h"
/* inputs (all start arbitrary): the option structure as a previous call -- or nobody -- left it, the scalar arguments */
superlumt_options_t in_o, g_snap_o; SuperMatrix in_A, in_AC; Gstat_t in_Gstat; double in_utime[NPHASES];
int_t in_perm_c[CAP], in_perm_r[CAP], in_old_etree[CAP], in_old_colcnt[CAP], in_old_part[CAP]; char in_work[8];
int_t in_nprocs, in_panel_size, in_relax, in_lwork; fact_t in_fact; trans_t in_trans; yes_no_t in_refact, in_usepr; @R@ in_u; double in_drop;
/* ghost */
int_t pool_e[CAP], pool_c[CAP], pool_p[CAP];
int g_n_imalloc, g_n_colorder, g_colorder_args_ok, g_n_timer, g_failed, g_cfg_fail; int_t g_req[3]; double g_t[2]; int_t g_k;
double g_u0;
_Bool nondet_bool(void); double nondet_double(void);
/* ---- executable contracts of the callees */
int_t *intMalloc(int_t n) {
  int k = g_n_imalloc++;
  if (k > 2) { __CPROVER_assert(0, "allocator model: at most three requests"); __CPROVER_assume(0); }
  g_req[k] = n;
  if (g_cfg_fail == k) { g_failed = 1; return (int_t *)0; }      /* this request fails */
  return k == 0 ? pool_e : k == 1 ? pool_c : pool_p;
}
void verif_abort(char *msg) {
  __CPROVER_assert(g_failed, "abort hook only after a failed allocation");
  __CPROVER_assert(0, "canary: abort path reachable");
  __CPROVER_assume(0);
}
int sprintf(char *s, const char *f, ...) { return 0; }
double SuperLU_timer_(void) { double t = nondet_double(); __CPROVER_assume(t >= 0.0 && t <= 1e12); if (g_n_timer == 0) t = 0.0;   /* the clock's origin is arbitrary: fixed to 0 so that the contract needs no FP subtraction of its own */
  if (g_n_timer < 2) g_t[g_n_timer] = t; g_n_timer++; return t; }
void sp_colorder(SuperMatrix *A, int_t *perm_c, superlumt_options_t *o, SuperMatrix *AC) {
  g_n_colorder++;
  if (A != &in_A || perm_c != in_perm_c || o != &in_o || AC != &in_AC) g_colorder_args_ok = 0;
  __CPROVER_assert(!g_failed, "sp_colorder is not reached after a failed allocation");
  __CPROVER_assert(g_n_timer == 1, "sp_colorder runs between the two timer readings");
  g_snap_o = *o;
  __CPROVER_assert(o->etree != 0 && o->colcnt_h != 0 && o->part_super_h != 0, "sp_colorder gets three existing symbolic arrays");
  AC->Stype = SLU_NCP; AC->Dtype = A->Dtype; AC->Mtype = A->Mtype; AC->nrow = A->nrow; AC->ncol = A->ncol; AC->Store = (void *)0;
  if (o->refact == NO) {   /* first time: ordering information is (re)computed */
    __CPROVER_havoc_object(o->etree); __CPROVER_havoc_object(o->colcnt_h); __CPROVER_havoc_object(o->part_super_h); __CPROVER_havoc_object(perm_c);
  }
}
void h_init(void) {
  in_Gstat.utime = in_utime;
  in_o.etree = in_old_etree; in_o.colcnt_h = in_old_colcnt; in_o.part_super_h = in_old_part;
  if (g_k < 0 || g_k >= NPHASES) g_k = 0;
  g_u0 = in_utime[g_k];
  p@p@gstrf_init(in_nprocs, in_fact, in_trans, in_refact, in_panel_size, in_relax, in_u, in_usepr, in_drop,
                 in_perm_c, in_perm_r, (void *)in_work, in_lwork, &in_A, &in_AC, &in_o, &in_Gstat);
  /* of Gstat only utime[ETREE] is written (pointwise, g_k arbitrary) */
  if (g_k != ETREE && g_u0 == g_u0) __CPROVER_assert(in_utime[g_k] == g_u0, "only utime[ETREE] is written");
  __CPROVER_assert(0, "canary: p?gstrf_init returns");
  if (in_refact == NO) __CPROVER_assert(0, "canary: first factorization");
  if (in_refact == YES && in_usepr == YES) __CPROVER_assert(0, "canary: re-factorization with usepr");
  if (in_refact == NO && in_A.ncol == 0) __CPROVER_assert(0, "canary: order 0");
}
