#include <stdlib.h>
#include "slu_mt_ddefs.h"
/* inputs: the arrays StatAlloc handed out, with ARBITRARY contents (malloc garbage / the counters of a previous factorization) */
Gstat_t in_Gstat; double in_utime[NPHASES]; flops_t in_ops[NPHASES]; procstat_t in_procstat[NPMAX]; int_t in_n, in_nprocs;
/* ghost: arbitrary phase / thread / outside-entry indices, copy of the outside entry, copy of the structure */
int_t g_i, g_p, g_q; procstat_t g_q0; Gstat_t g_G0;
int printf(const char *f, ...) { return 0; }
int sprintf(char *s, const char *f, ...) { return 0; }
int fprintf(FILE *s, const char *f, ...) { return 0; }
void verif_abort(char *msg) { __CPROVER_assert(0, "StatInit has no abort path"); __CPROVER_assume(0); }
void h_stat_init(void) {
  in_Gstat.utime = in_utime; in_Gstat.ops = in_ops;
  in_Gstat.procstat = in_procstat;
  if (g_q < 0 || g_q >= NPMAX) g_q = 0;
  g_q0 = in_procstat[g_q];          /* ghost copy of an arbitrary entry */
  g_G0 = in_Gstat;
  StatInit(in_n, in_nprocs, &in_Gstat);
  __CPROVER_assert(in_Gstat.panel_histo == g_G0.panel_histo && in_Gstat.utime == g_G0.utime && in_Gstat.ops == g_G0.ops && in_Gstat.procstat == g_G0.procstat
                   && in_Gstat.num_panels == g_G0.num_panels, "Gstat structure itself untouched");
  __CPROVER_assert(0, "canary: StatInit returns");
  if (in_nprocs == NPMAX) __CPROVER_assert(0, "canary: full capacity");
  if (in_nprocs == 0) __CPROVER_assert(0, "canary: no thread");
  if (in_nprocs == 3 && g_p == 2 && g_q == 3) __CPROVER_assert(0, "canary: last thread and last outside entry");
}
