#include "slu_mt_ddefs.h"
/* BOUNDED lemma (label B(n)), no library code involved: for every parent vector on n <= CAP columns with v < parent[v] <= n
 * (children numbered before parents = TreePostorder's guarantee (2) after sp_colorder's renumbering),
 *   TreePostorder's guarantee (3) "every subtree occupies a contiguous range of numbers ending at its root" (brute force, as in units/treepost/h.c)
 *   <==>  [postorder_nested] of units/relax_snode_tree: c < d < parent[c]  ==>  parent[d] <= parent[c]
 * and both imply [postorder_last_child] of units/parallel_init. */
int_t in_n, in_parent[CAP];
static int desc(int_t u, int_t v) {           /* u is v or a descendant of v */
  int_t k, x = u;
  for (k = 0; k <= CAP; k++) { if (x == v) return 1; if (x >= in_n) return 0; x = in_parent[x]; }
  return 0;
}
int_t nondet_int_t(void);
void h_lemma(void) {
  int_t v, u, c, d, size; int po3 = 1, nested = 1, lastchild = 1;
  in_n = nondet_int_t();
  for (v = 0; v < CAP; v++) in_parent[v] = nondet_int_t();
  __CPROVER_assume(0 <= in_n && in_n <= CAP);
  for (v = 0; v < CAP; v++) if (v < in_n) __CPROVER_assume(v < in_parent[v] && in_parent[v] <= in_n);
  for (v = 0; v < CAP; v++) if (v < in_n) {
    size = 0;
    for (u = 0; u < CAP; u++) if (u < in_n && desc(u, v)) size++;
    for (u = 0; u < CAP; u++) if (u < in_n && desc(u, v) != (v - size < u && u <= v)) po3 = 0;
  }
  for (c = 0; c < CAP; c++) for (d = 0; d < CAP; d++)
    if (c < d && d < in_n && d < in_parent[c] && !(in_parent[d] <= in_parent[c])) nested = 0;
  for (c = 0; c < CAP; c++)
    if (c < in_n && in_parent[c] < in_n && in_parent[in_parent[c] - 1] != in_parent[c]) lastchild = 0;
  __CPROVER_assert(po3 == nested, "subtrees contiguous (TreePostorder (3)) <==> postorder_nested");
  __CPROVER_assert(!nested || lastchild, "postorder_nested ==> postorder_last_child");
  __CPROVER_assert(0, "canary: lemma harness runs through");
  if (po3 && in_n == CAP && in_parent[0] == 2 && in_parent[3] == in_n) __CPROVER_assert(0, "canary: postordered forest, branching, several roots");
  if (!po3 && in_n == CAP) __CPROVER_assert(0, "canary: parent>child but not postordered");
  if (!po3 && lastchild && in_n == CAP) __CPROVER_assert(0, "canary: last-child property alone does not give a postorder");
}
