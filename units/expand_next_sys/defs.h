#define LWORD(t) (((t) == LSUB || (t) == USUB) ? (int_t)sizeof(int_t) : (int_t)sizeof(@T@))
#define ISINT(t) ((t) == LSUB || (t) == USUB)
/* length requested at the k-th attempt (k = 0: 1.5 x, then alpha <- (alpha+1)/2), exactly as the code forms it: (int_t)(alpha * *prev_len) in double */
#define NL(c) ((int_t)((c) * OLD(*prev_len)))
#define NEWLEN(k) ((k) == 0 ? NL(1.5) : (k) == 1 ? NL(1.25) : (k) == 2 ? NL(1.125) : (k) == 3 ? NL(1.0625) : (k) == 4 ? NL(1.03125) : (k) == 5 ? NL(1.015625) : (k) == 6 ? NL(1.0078125) : (k) == 7 ? NL(1.00390625) : (k) == 8 ? NL(1.001953125) : (k) == 9 ? NL(1.0009765625) : NL(1.00048828125))
