#include <stdlib.h>
#include "slu_mt_@p@defs.h"
extern void *p@p@gstrf_expand(int_t *, MemType, int_t, int_t, GlobalLU_t *);
extern ExpHeader *@p@expanders;
_Bool nondet_bool(void);
extern int g_locks, g_unlocks;
/* ghost: allocator log (requests, served requests, last block), release log, copy log, a sequence counter that orders copy and release */
int g_n_malloc, g_n_served, g_n_free, g_seq, g_copy_calls, g_copy_isint, g_copy_seq, g_free_seq; size_t g_malloc_bytes; void *g_block, *g_freed, *g_copy_old, *g_copy_new; int_t g_copy_n;
void *superlu_malloc(size_t size) {
  if (g_n_malloc < 1000) g_n_malloc++; g_malloc_bytes = size;
  if (nondet_bool()) { g_block = (void*)0; return g_block; }
  g_block = malloc(size); __CPROVER_assume(g_block != (void*)0); if (g_n_served < 1000) g_n_served++; return g_block;
}
void superlu_free(void *p) { if (g_n_free < 1000) g_n_free++; g_freed = p; if (g_seq < 1000) g_seq++; g_free_seq = g_seq; }
/* executable contract of copy_mem_int (SRC/pmemory.c, unit copy_mem_int): preconditions asserted, call recorded */
void copy_mem_int(int_t howmany, void *old, void *new) {
  __CPROVER_assert(howmany >= 0, "copy_mem_int: count >= 0");
  __CPROVER_assert(__CPROVER_r_ok(old, (size_t)howmany * sizeof(int_t)), "copy_mem_int: source readable over howmany cells");
  __CPROVER_assert(__CPROVER_w_ok(new, (size_t)howmany * sizeof(int_t)), "copy_mem_int: destination writable over howmany cells");
  __CPROVER_assert(!__CPROVER_same_object(old, new), "copy_mem_int: distinct objects");
  if (g_copy_calls < 1000) g_copy_calls++; g_copy_isint = 1; if (g_seq < 1000) g_seq++; g_copy_seq = g_seq; g_copy_old = old; g_copy_new = new; g_copy_n = howmany;
}
void user_bcopy(char *src, char *dest, int_t bytes) { __CPROVER_assert(0, "user_bcopy is not reached in system-malloc mode"); }
/* inputs */
int_t in_len, in_len_to_copy, in_keep_prev; MemType in_type; GlobalLU_t in_Glu; ExpHeader in_exp[4]; char *in_old;
void *g_ret; int_t g_len0;
void h_expand_next(void) {
  /* the existing store: a heap block of in_exp[type].size cells, contents arbitrary */
  { unsigned t_ = (unsigned)in_type <= 3u ? (unsigned)in_type : 0u; size_t lw_ = (t_ == LSUB || t_ == USUB) ? sizeof(int_t) : sizeof(@T@);
    size_t n_ = (in_exp[t_].size >= 0 && in_exp[t_].size <= NZB) ? (size_t)in_exp[t_].size : 0;
    in_old = malloc(n_ * lw_); __CPROVER_assume(in_old != 0); in_exp[t_].mem = in_old; }
  g_len0 = in_len;
  g_ret = p@p@gstrf_expand(&in_len, in_type, in_len_to_copy, in_keep_prev, &in_Glu);
  __CPROVER_assert(0, "canary: expand (later request, system) returns");
  if (g_ret) {
    __CPROVER_assert(0, "canary: store expanded");
    /* the store handed out is live memory of the advertised length */
    if (in_len > 0) { ((char*)g_ret)[0] = 0; ((char*)g_ret)[(size_t)in_len * ((in_type == LSUB || in_type == USUB) ? sizeof(int_t) : sizeof(@T@)) - 1] = 0; }
  }
  if (g_ret && g_n_malloc == 11) __CPROVER_assert(0, "canary: served at the 11th attempt");
  if (g_ret && g_n_malloc == 3 && in_len > g_len0 && g_len0 > 1000000) __CPROVER_assert(0, "canary: served at the 3rd attempt, store grew");
  if (g_ret && !in_keep_prev && in_len == g_len0 && g_len0 > 0) __CPROVER_assert(0, "canary: 'expanded' store has the old length (growth factor rounded away)");
  if (g_ret && in_keep_prev && in_len < in_len_to_copy + 2) __CPROVER_assert(0, "canary: keep_prev request served, new store barely holds the copied part");
  if (!g_ret && g_n_malloc == 11) __CPROVER_assert(0, "canary: all 11 attempts refused");
  if (!g_ret && g_n_malloc == 1) __CPROVER_assert(0, "canary: keep_prev request refused");
  if (g_ret && g_copy_isint) __CPROVER_assert(0, "canary: subscript store copied with copy_mem_int");
  if (g_ret && !g_copy_isint && g_copy_n > 0) __CPROVER_assert(0, "canary: value store copied with copy_mem_<T>");
}
