#include "slu_mt_@p@defs.h"
#define LW 82
/* inputs: the lines fgets will deliver, the numbers atoi will return, the arguments */
char in_line[NMAX][LW]; int in_val[NMAX]; double in_fval[NMAX]; int_t in_n, in_perline, in_persize; int_t in_where[NMAX]; FILE *in_fp;
/* ghost indices (universally chosen): item, column, line */
int_t g_i, g_k, g_l, g_ret;
int_t @p@ReadVector(FILE *, int_t, int_t *, int_t, int_t);
void h_vec(void) {
  g_ret = @p@ReadVector(in_fp, in_n, in_where, in_perline, in_persize);
  __CPROVER_assert(0, "canary: reader returns");
  if (in_n == NMAX) __CPROVER_assert(0, "canary: largest instance");
  if (in_perline * in_persize >= 78) __CPROVER_assert(0, "canary: fields fill the 80 columns");
#if PLFIX > 1
  if (in_n % in_perline == 1 && g_i == in_n - 1) __CPROVER_assert(0, "canary: last line holds one item");
#endif
  if (in_n == 0) __CPROVER_assert(0, "canary: empty vector");
}
