/* vocabulary for ?ReadVector / ?ReadValues: item i sits on line i / perline in field j = i % perline, columns [j*w, (j+1)*w) */
#define LW 82
#define LINE_OF(i) ((i) / perline)
#define FLD_OF(i) ((i) % perline)
#define START(i) (FLD_OF(i) * persize)
#define TERM(i) ((FLD_OF(i) + 1) * persize)
#define SNAP(i,k) g_rd.snap[k]
#define LINE(i,k) in_line[LINE_OF(i)][k]
/* what the "no D format in C" rewrite does to one character */
#define DE(c) (((c) == 'D' || (c) == 'd') ? 'E' : (c))
