#include "slu_mt_@p@defs.h"
#define LW 82
/* inputs: the lines fgets will deliver, the numbers atof will return, the arguments */
char in_line[NMAX][LW]; int in_val[NMAX]; double in_fval[NMAX]; int_t in_n, in_perline, in_persize; @T@ in_dest[NMAX]; FILE *in_fp;
/* ghost indices (universally chosen): item, column, line */
int_t g_i, g_k, g_l, g_ret;
int_t @p@ReadValues(FILE *, int_t, @T@ *, int_t, int_t);
void h_val(void) {
  g_ret = @p@ReadValues(in_fp, in_n, in_dest, in_perline, in_persize);
  __CPROVER_assert(0, "canary: reader returns");
  if (in_n == NMAX) __CPROVER_assert(0, "canary: largest instance");
  if (in_persize == (PSMAX < 80 / PLFIX ? PSMAX : 80 / PLFIX)) __CPROVER_assert(0, "canary: widest field of the instance");
#if PLFIX > 1
  if (in_n % in_perline == 1 && g_i == in_n - 1) __CPROVER_assert(0, "canary: last line holds one item");
#endif
  if (g_i < in_n && g_k < in_persize && in_line[g_i / in_perline][(g_i % in_perline) * in_persize + g_k] == 'D') __CPROVER_assert(0, "canary: D exponent in the current field");
  if (in_n == 0) __CPROVER_assert(0, "canary: empty vector");
}
