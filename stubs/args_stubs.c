/* args_stubs.c -- executable contracts (ASSUMED, listed under "trusted" in the units) for every routine the
 * computational routines ?gstrs, ?gsrfs, ?gscon, ?gsequ, sp_?trsv, sp_?gemv and get_perm_c call.
 * Used by the argument-check units (C15: args_*, conj_*) and the early-return leak units (C17: leak_*).
 *   - xerbla_ records its argument (g_xerbla_calls, g_xerbla_arg), writes nothing else.
 *   - allocators: superlu_malloc / ?Malloc / ?Calloc / intMalloc are malloc/calloc of the requested size that
 *     do not fail (the library aborts on NULL: SUPERLU_ABORT / exit), counted in g_n_malloc;
 *     superlu_free is free, counted in g_n_free.  cbmc's --memory-leak-check sees these objects.
 *   - every numerical callee (BLAS, ?lacon_, ?lamch_, and the library routines a unit does not link for real)
 *     only counts its call in g_seq: the units require g_seq == 0 on entry and prove g_seq == 0 on exit
 *     ("no computation reached").
 * A unit that links the REAL routine defines REAL_GSTRS / REAL_SPBLAS2 / REAL_GSEQU ... so that the stub of the
 * same name is left out.  Template: @p@ precision prefix, @T@ scalar type, @R@ real type, @r@ real prefix. */
#include <stdlib.h>
#include "slu_mt_@p@defs.h"

int g_seq;                          /* number of computational callees reached */
int g_n_malloc, g_n_free;           /* allocator calls */
int g_xerbla_calls, g_xerbla_arg;   /* error handler log */

void verif_abort(char *msg) { __CPROVER_assume(0); }      /* USER_ABORT: does not return */
int sprintf(char *s, const char *f, ...) { return 0; }
int printf(const char *f, ...) { return 0; }
int xerbla_(char *s, int *i) { g_xerbla_arg = *i; g_xerbla_calls++; return 0; }
double SuperLU_timer_(void) { return 0.0; }

/* ---------------- allocators ---------------- */
static void *alloc_model(size_t bytes, int zero) {
  void *p = zero ? calloc(bytes, 1) : malloc(bytes);
  __CPROVER_assume(p != NULL);
  g_n_malloc++;
  return p;
}
void *superlu_malloc(size_t size) { return alloc_model(size, 0); }
void superlu_free(void *p) { g_n_free++; free(p); }
int_t *intMalloc(int_t n) { return alloc_model((size_t)n * sizeof(int_t), 0); }
int_t *intCalloc(int_t n) { return alloc_model((size_t)n * sizeof(int_t), 1); }
@T@ *@T@Malloc(int_t n) { return alloc_model((size_t)n * sizeof(@T@), 0); }
@T@ *@T@Calloc(int_t n) { return alloc_model((size_t)n * sizeof(@T@), 1); }
#if @cplx@
@R@ *@R@Malloc(int_t n) { return alloc_model((size_t)n * sizeof(@R@), 0); }
@R@ *@R@Calloc(int_t n) { return alloc_model((size_t)n * sizeof(@R@), 1); }
#endif

/* ---------------- numerical callees: reaching one is counted ---------------- */
#define REACHED() (g_seq++)
/* the s and c headers declare slamch_ as returning double */
double @r@lamch_(char *c) { REACHED(); return 0; }
int @p@gemm_(char *ta, char *tb, int *m, int *n, int *k, @T@ *alpha, @T@ *a, int *lda, @T@ *b, int *ldb, @T@ *beta, @T@ *c, int *ldc) { REACHED(); return 0; }
int @p@trsm_(char *s, char *u, char *t, char *d, int *m, int *n, @T@ *alpha, @T@ *a, int *lda, @T@ *b, int *ldb) { REACHED(); return 0; }
int @p@trsv_(char *u, char *t, char *d, int *n, @T@ *a, int *lda, @T@ *x, int *incx) { REACHED(); return 0; }
int @p@gemv_(char *t, int *m, int *n, @T@ *alpha, @T@ *a, int *lda, @T@ *x, int *incx, @T@ *beta, @T@ *y, int *incy) { REACHED(); return 0; }
int @p@copy_(int *n, @T@ *x, int *incx, @T@ *y, int *incy) { REACHED(); return 0; }
int @p@axpy_(int *n, @T@ *a, @T@ *x, int *incx, @T@ *y, int *incy) { REACHED(); return 0; }
#if @cplx@
int_t @p@lacon_(int_t *n, @T@ *v, @T@ *x, @R@ *est, int_t *kase) { REACHED(); return 0; }
#else
int_t @p@lacon_(int_t *n, @T@ *v, @T@ *x, int_t *isgn, @R@ *est, int_t *kase) { REACHED(); return 0; }
#endif
int_t genmmd_(int_t *neqns, int_t *xadj, int_t *adjncy, int_t *invp, int_t *perm, int_t *delta, int_t *dhead,
             int_t *qsize, int_t *llist, int_t *marker, int_t *maxint, int_t *nofsub) { REACHED(); return 0; }

#ifndef REAL_LSAME
int lsame_(char *a, char *b) { char x = *a, y = *b; if (x >= 'a' && x <= 'z') x -= 32; if (y >= 'a' && y <= 'z') y -= 32; return x == y; }
#endif
#ifndef REAL_SPBLAS2
int_t sp_@p@trsv(char *uplo, char *trans, char *diag, SuperMatrix *L, SuperMatrix *U, @T@ *x, int_t *info) { REACHED(); return 0; }
int_t sp_@p@gemv(char *trans, @T@ alpha, SuperMatrix *A, @T@ *x, int_t incx, @T@ beta, @T@ *y, int_t incy) { REACHED(); return 0; }
#endif
#ifndef REAL_GSTRS
void @p@gstrs(trans_t trans, SuperMatrix *L, SuperMatrix *U, int_t *perm_r, int_t *perm_c, SuperMatrix *B, Gstat_t *G, int_t *info) { REACHED(); }
#endif
