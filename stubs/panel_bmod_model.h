/* model shared by units panel_bmod (bounded climb) and panel_bmod_pc (all loops inductive): harness objects, ghosts and the executable
 * contracts of the callees of p?gstrf_panel_bmod (sp_ienv, await, p?gstrf_bmod1D, p?gstrf_bmod2D).  Include after defs.h of the unit. */
/* ghosts: ghost segment g_s, ghost busy column g_v, ghost element (column g_c, row g_x) of the m-by-w arrays, segrep position g_q, tempv
 * index g_t; kernel call records; the busy phase's own log */
int_t g_s, g_v, g_x, g_c, g_q, g_t; struct kern_rec g_k;
int_t g_next_busy, g_busy_krep[M], g_is_busy_krep[M];      /* climb position expected next; representatives appended by the busy phase */
int_t g_onch[M];                                           /* ghost table bound by [ghost_chain] */
/* pre-state copies (bound by [ghost_segment], [ghost_copy]) */
int_t g_sd_krep, g_sd_kf, g_sd_nsupr, g_rep0, g_mark0, g_plsub0, g_wend0, g_segrep0, g_spin0;
/* inputs */
int_t in_pnum, in_m, in_w, in_jcol, in_bcol, in_nseg, in_nseg0, in_rowblk, in_colblk, in_maxsuper, in_tvlen;
int_t in_inv_perm_r[M], in_etree[M], in_segrep[M], in_repfnz[M*W], in_panel_lsub[M*W], in_w_lsub_end[W], in_spa_marker[M*W]; @T@ in_dense[M*W], in_tempv[TVC];
pxgstrf_shared_t in_sh; GlobalLU_t in_Glu; Gstat_t in_Gstat; procstat_t in_procstat[NP]; volatile int_t in_spin[M];
int_t in_xsup[M+1], in_xsup_end[M+1], in_supno[M+1], in_xlsub[M+1], in_xlsub_end[M], in_xlusup[M+1], in_lsub[LC]; @T@ in_lusup[LUC];
@T@ nondet_@T@(void); float nondet_float(void);
#define REP8(X) X(0) X(1) X(2) X(3) X(4) X(5) X(6) X(7)
_Static_assert(W <= 4 && M <= 8, "REP8 / CNT cover every extent");

/* tuning parameters: rowblk (4), colblk (5) -- symbolic */
int_t sp_ienv(int_t ispec) {
  __CPROVER_assert(ispec == 4 || ispec == 5, "sp_ienv: only rowblk and colblk are asked for");
  return ispec == 4 ? in_rowblk : in_colblk;
}
/* await(&spin_locks[c]) spins until another thread clears the flag of column c.  Contract: the argument is the flag of a column of the busy
 * range [bcol, jcol), the flag is set (the caller tests it first: never waits on a finished column); on return the flag is clear. */
int_t await(volatile int_t *status) {
  long c = status - in_spin;
  __CPROVER_assert(__CPROVER_POINTER_OBJECT(status) == __CPROVER_POINTER_OBJECT(in_spin) && in_bcol <= c && c < in_jcol, "await: waits for a column of the busy range [bcol, jcol)");
  __CPROVER_assert(*status != 0, "await: only called for a column that is still busy");
  if (g_k.awaits < 3) g_k.awaits++;            /* saturating: 0, 1, 2, "3 or more" */
  *status = 0;
  return 0;
}

/* first column of fsupc..krep whose pivot row holds a nonzero of panel column cc's dense[], -1 if none (definition of repfnz for a busy segment) */
static int_t lead_of(int_t cc, int_t fsupc, int_t krep) {
  int_t first = -1;
#define LEADCOL(i) if (first < 0 && (i) < M && fsupc <= (i) && (i) <= krep && in_dense[COLOFF(cc) + in_inv_perm_r[i]] != 0.0) first = (i);
  REP8(LEADCOL)
  return first;
}

/* p?gstrf_bmod1D / p?gstrf_bmod2D by contract.  The assertions are the PRECONDITIONS of units bmod1D / bmod2D (clause names in brackets)
 * plus the caller-side facts of this unit (which segment, which kernel); the effect is the callee's frame: dense[], flop counter. */
static void kernel(int kind, const int_t pnum, const int_t m, const int_t w, const int_t jcol, const int_t fsupc, const int_t krep,
                   const int_t nsupc, int_t nsupr, int_t nrow, int_t *repfnz, int_t *panel_lsub, int_t *w_lsub_end, int_t *spa_marker,
                   @T@ *dense, @T@ *tempv, GlobalLU_t *Glu, Gstat_t *Gstat) {
  __CPROVER_assert(pnum == in_pnum && m == in_m && w == in_w && jcol == in_jcol, "kernel: pnum, m, w, jcol passed through");
  __CPROVER_assert(repfnz == in_repfnz && panel_lsub == in_panel_lsub && w_lsub_end == in_w_lsub_end && spa_marker == in_spa_marker && dense == in_dense && tempv == in_tempv && Glu == &in_Glu && Gstat == &in_Gstat, "kernel: the panel's work arrays (column 0, stride m), Glu and Gstat passed through");
  if (g_k.calls < in_nseg0) {          /* phase 1: the segments found by the panel DFS */
    __CPROVER_assert(krep == KREP(g_k.calls), "kernel: segments in topological order (reverse of segrep[]), none skipped, none twice");
    __CPROVER_assert(0 <= krep && krep < in_m && fsupc == in_xsup[in_supno[krep]], "kernel: fsupc = first column of krep's supernode");
    __CPROVER_assert(g_k.awaits == 0 && in_nseg == in_nseg0, "kernel: no waiting, nothing appended before the finished supernodes are applied");
  } else {                             /* phase 2: busy supernodes on the etree path bcol -> jcol, bottom up */
    int_t t = g_k.calls - in_nseg0;
    __CPROVER_assert(in_bcol < in_jcol && fsupc == g_next_busy && in_bcol <= fsupc && fsupc < in_jcol, "kernel(busy): starts where the climb stands (bcol, then the parent of the previous representative)");
    __CPROVER_assert(krep == in_xsup_end[in_supno[fsupc]] - 1 && fsupc <= krep && krep < in_jcol, "kernel(busy): krep = current last column of the busy supernode");
    /* every column of the supernode on the etree chain from fsupc has been waited for (pointwise at the ghost column g_v) */
    __CPROVER_assert(!(fsupc <= g_v && g_v <= krep && g_onch[g_v] == 1) || in_spin[g_v] == 0, "kernel(busy): every column of the supernode on the etree chain from fsupc is finished (spin flag clear) when the kernel is called");
    __CPROVER_assert(0 <= t && t < M && in_nseg == in_nseg0 + t + 1 && in_segrep[in_nseg0 + t] == krep, "kernel(busy): the representative was appended to segrep[], nseg counts it");
    /* repfnz[krep] of panel column g_c: unchanged, or the first column of fsupc..krep whose pivot row holds a nonzero of dense[] (pointwise: krep == g_x) */
    if (krep == g_x) {
      int_t f = lead_of(g_c, fsupc, krep);
      __CPROVER_assert(RF(g_c, krep) == (f >= 0 ? f : g_rep0), "kernel(busy): repfnz_col[krep] = leading nonzero of the busy U-segment in dense_col (else untouched)");
    }
    __CPROVER_assert(g_is_busy_krep[krep] == 0, "kernel(busy): a busy supernode is applied once");
    g_busy_krep[t] = krep; g_is_busy_krep[krep] = 1; g_next_busy = in_etree[krep];
  }
  __CPROVER_assert(0 <= fsupc && fsupc <= krep && nsupc == krep - fsupc + 1, "kernel [snode]: 0 <= fsupc <= krep < m, nsupc = krep - fsupc + 1");
  __CPROVER_assert(nsupr == NSUPR_AT(fsupc) && nrow == nsupr - nsupc, "kernel [snode]: nsupr = length of the row list, nrow = nsupr - nsupc");
  __CPROVER_assert(nsupc <= nsupr, "kernel [snode]: nsupc <= nsupr (the supernode stores a row for each of its columns)");
  __CPROVER_assert(0 <= in_xlsub[fsupc] && in_xlsub[fsupc] <= in_Glu.nzlmax - nsupr, "kernel [geometry]: row list inside lsub");
  __CPROVER_assert(0 <= in_xlusup[fsupc] && nsupr*nsupc <= in_Glu.nzlumax - in_xlusup[fsupc], "kernel [geometry]: nsupr x nsupc block inside lusup");
  __CPROVER_assert(FA(ka, LC, INLIST_AT(fsupc, ka) ==> (0 <= in_lsub[ka] && in_lsub[ka] < in_m)), "kernel [rows_in_range]");
  /* pointwise: checked at the call for the ghost segment g_s / the ghost busy supernode starting at g_v (both arbitrary) */
  if (g_k.calls < in_nseg0 ? g_k.calls == g_s : fsupc == g_v)
    __CPROVER_assert(FA(kb, LC, FA(kc, LC, (INLIST_AT(fsupc, kb) && kb < kc && INLIST_AT(fsupc, kc)) ==> in_lsub[kb] != in_lsub[kc])), "kernel [rows_distinct]");
  __CPROVER_assert(FA(kd, W, kd < in_w ==> (RF(kd, krep) == EMPTY || (fsupc <= RF(kd, krep) && RF(kd, krep) <= krep))), "kernel [segments]: every repfnz_col[krep] is EMPTY or a column of the supernode");
  __CPROVER_assert((kind == 2) == WANT2D(nsupc, nrow), "kernel choice: 2-D iff nsupc >= colblk and nrow >= rowblk");
  if (kind == 2) __CPROVER_assert(nsupc <= in_maxsuper && 1 <= in_rowblk && in_w*(in_maxsuper + in_rowblk) <= in_tvlen, "kernel(2-D) [blocking]: nsupc <= maxsuper, tempv holds w slots of maxsuper + rowblk");
  else __CPROVER_assert(nsupr <= in_tvlen, "kernel(1-D) [tempv_size]: tempv holds nsupr scalars");
  __CPROVER_assert(in_tempv[g_t] == 0.0, "kernel [tempv_zero_on_entry]");
  if (g_k.calls == g_s) { g_k.kind_s = kind; g_k.fsupc_s = fsupc; g_k.krep_s = krep; g_k.nsupc_s = nsupc; g_k.nsupr_s = nsupr; g_k.nrow_s = nrow; }
  g_k.calls++; if (kind == 2) g_k.calls2d++; else g_k.calls1d++;
  /* effect (frame of units bmod1D/bmod2D): dense[] (rows of the supernode's list), the flop counter; tempv is zero again */
  __CPROVER_havoc_object(in_dense);
  in_procstat[in_pnum].fcops = nondet_float();
}
void p@p@gstrf_bmod1D(const int_t pnum, const int_t m, const int_t w, const int_t jcol, const int_t fsupc, const int_t krep, const int_t nsupc,
                    int_t nsupr, int_t nrow, int_t *repfnz, int_t *panel_lsub, int_t *w_lsub_end, int_t *spa_marker, @T@ *dense, @T@ *tempv,
                    GlobalLU_t *Glu, Gstat_t *Gstat) {
  kernel(1, pnum, m, w, jcol, fsupc, krep, nsupc, nsupr, nrow, repfnz, panel_lsub, w_lsub_end, spa_marker, dense, tempv, Glu, Gstat);
}
void p@p@gstrf_bmod2D(const int_t pnum, const int_t m, const int_t w, const int_t jcol, const int_t fsupc, const int_t krep, const int_t nsupc,
                    int_t nsupr, int_t nrow, int_t *repfnz, int_t *panel_lsub, int_t *w_lsub_end, int_t *spa_marker, @T@ *dense, @T@ *tempv,
                    GlobalLU_t *Glu, Gstat_t *Gstat) {
  kernel(2, pnum, m, w, jcol, fsupc, krep, nsupc, nsupr, nrow, repfnz, panel_lsub, w_lsub_end, spa_marker, dense, tempv, Glu, Gstat);
}

