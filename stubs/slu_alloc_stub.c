/* slu_alloc_stub.c -- TRUSTED allocation model for leaf-function units: the library's allocators are libc malloc/free that never
 * fail (the failure branches call SUPERLU_ABORT, i.e. do not return).  g_n_malloc / g_n_free count calls so that a contract can say
 * "exactly one object is allocated".  Template: @T@ scalar type (doubleMalloc, floatMalloc, complexMalloc, doublecomplexMalloc). */
#include <stdlib.h>
#include "slu_mt_@p@defs.h"
int g_n_malloc, g_n_free;
void *superlu_malloc(size_t size) { void *p = malloc(size); __CPROVER_assume(p != (void *)0); g_n_malloc++; return p; }
void superlu_free(void *p) { g_n_free++; free(p); }
int_t *intMalloc(int_t n) { return (int_t *)superlu_malloc((size_t)n * sizeof(int_t)); }
@T@ *@T@Malloc(int_t n) { return (@T@ *)superlu_malloc((size_t)n * sizeof(@T@)); }
int_t *intCalloc(int_t n) { int_t *p = (int_t *)calloc((size_t)n, sizeof(int_t)); __CPROVER_assume(p != (int_t *)0); g_n_malloc++; return p; }
