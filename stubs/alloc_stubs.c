/* allocation stubs: the library's typed allocators are malloc + "never NULL" here (failure paths are the
 * subject of the C14 units); superlu_free = free, so cbmc's --memory-leak-check sees every allocation. */
#include <stdlib.h>
#include "slu_mt_ddefs.h"
int_t *intMalloc(int_t n) { int_t *p = malloc((size_t)(n > 0 ? n : 1) * sizeof(int_t)); __CPROVER_assume(p != NULL); return p; }
int_t *intCalloc(int_t n) { int_t *p = calloc((size_t)(n > 0 ? n : 1), sizeof(int_t)); __CPROVER_assume(p != NULL); return p; }
void *superlu_malloc(size_t n) { void *p = malloc(n ? n : 1); __CPROVER_assume(p != NULL); return p; }
void superlu_free(void *p) { free(p); }
