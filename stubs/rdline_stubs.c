/* TRUSTED libc stand-ins for the fixed-width vector readers ?ReadVector / ?ReadValues (C20 b).
 *   fgets  delivers the next harness line in_line[l] (LW = 82 bytes: 80 columns, newline, NUL -- any bytes are allowed);
 *   atoi / atof are RECORDING stubs; the result is the harness value in_val[c] / in_fval[c] of call number c (decimal->binary
 *          conversion itself is libc and out of reach).
 * Recording is pointwise: the harness chooses (nondeterministically = universally) one item g_i and one line g_l; the stubs note
 *   for conversion call number g_i: the line number, the offset of the argument in the line buffer, and a copy of the whole
 *   line buffer as the conversion routine sees it (g_rd.snap);
 *   for line g_l: what the reader left in its buffer when it fetched the next line (g_rd.lsnap). */
typedef struct _IO_FILE FILE;
#define LW 82
extern char in_line[NMAX][LW]; extern int in_val[NMAX]; extern double in_fval[NMAX]; extern int g_i, g_l;
struct rd_ghost { int fgets_calls, calls, at_off, at_line; char snap[LW], lsnap[LW]; char *buf; } g_rd;
char *fgets(char *s, int size, FILE *fp) {
  int k, l = g_rd.fgets_calls;
  __CPROVER_assert(size == 100, "fgets: called with the size of the line buffer");
  __CPROVER_assert(l < NMAX, "fgets: not more lines read than items wanted");
  if (l >= 1 && l - 1 == g_l) for (k = 0; k < LW; k++) g_rd.lsnap[k] = g_rd.buf[k];
  if (l < NMAX) for (k = 0; k < LW; k++) s[k] = in_line[l][k];
  g_rd.buf = s; g_rd.fgets_calls = l + 1;
  return s;
}
static int record(const char *s) {
  int k, c = g_rd.calls;
  __CPROVER_assert(c < NMAX, "atoi/atof: not more conversions than items wanted");
  __CPROVER_assert(g_rd.fgets_calls >= 1 && __CPROVER_same_object(s, g_rd.buf), "atoi/atof: argument points into the line buffer");
  if (c == g_i) {
    g_rd.at_off = (int)(s - g_rd.buf); g_rd.at_line = g_rd.fgets_calls - 1;
    for (k = 0; k < LW; k++) g_rd.snap[k] = g_rd.buf[k];
  }
  g_rd.calls = c + 1;
  return c < NMAX ? c : 0;
}
int atoi(const char *s) { return in_val[record(s)]; }
double atof(const char *s) { return in_fval[record(s)]; }
