/* slu_free_record_stub.c -- TRUSTED allocation model for the Destroy_* units (C17):
 *   superlu_malloc = libc malloc that does not fail (the constructors dereference the result of SUPERLU_MALLOC without a NULL test;
 *                    allocation failure is the subject of other units), counted in g_n_malloc;
 *   superlu_free   = libc free (so cbmc's own double-free / free-of-a-non-heap-pointer checks and --memory-leak-check apply to what the
 *                    real code releases), and a RECORD of the release: the harness puts the pointers it wants to follow into
 *                    g_watch[0..NWATCH-1] before the call; the stub counts in g_freed[k] how often g_watch[k] was released, notes in
 *                    g_free_seq[k] the position (1 = first) of that release among all releases, and counts releases of pointers that
 *                    are not watched in g_free_other.  g_n_free = number of releases.
 * The watch list is written out (no loop) so that no unwinding is needed. */
#include <stdlib.h>
#define NWATCH 12
int g_n_malloc, g_n_free, g_free_other;
void *g_watch[NWATCH];
int g_freed[NWATCH], g_free_seq[NWATCH];
void *superlu_malloc(size_t size) { void *p = malloc(size); __CPROVER_assume(p != (void *)0); g_n_malloc++; return p; }
#define REC_(k) if (p == g_watch[k]) { if (g_freed[k] < 100) g_freed[k]++; g_free_seq[k] = g_n_free; hit = 1; }
void superlu_free(void *p) {
  int hit = 0;
  if (g_n_free < 100) g_n_free++;
  REC_(0) REC_(1) REC_(2) REC_(3) REC_(4) REC_(5) REC_(6) REC_(7) REC_(8) REC_(9) REC_(10) REC_(11)
  if (!hit && g_free_other < 100) g_free_other++;
  free(p);
}
