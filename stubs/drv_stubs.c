/* drv_stubs.c -- executable contracts (ASSUMED, see evidence.trusted_base) for every routine the two
 * drivers p@p@gssv / p@p@gssvx call.  Each stub (1) records that/when it was called and with which
 * arguments in ghost globals g_*, (2) checks the argument relations the property needs through
 * __CPROVER_assert, (3) havocs exactly what the real routine may write.  Template: @p@ precision
 * prefix, @T@ scalar type, @R@ real type, @P@ Dtype letter.
 * Allocation model: superlu_malloc = malloc (may fail under -DMALLOC_CAN_FAIL); StatAlloc/StatFree
 * and sp_colorder/Destroy_CompCol_Permuted allocate/free token objects so that cbmc's
 * --memory-leak-check decides C17 for the driver bodies. */
#include <stdlib.h>
#include "slu_mt_@p@defs.h"

#define LAMCH_EPS @eps@
#define LAMCH_SFMIN @sfmin@
int nondet_int(void); @R@ nondet_real(void); _Bool nondet_bool(void);
void verif_abort(char *msg) { __CPROVER_assume(0); }

#include "drv_ghost.h"
drv_ghost_t GH_;
#define LOG(at) do { g_seq++; (at) = g_seq; } while (0)

int xerbla_(char *s, int *i) { g_xerbla_arg = *i; g_xerbla_calls++; return 0; }
int lsame_(char *a, char *b) { char x = *a, y = *b; if (x >= 'a' && x <= 'z') x -= 32; if (y >= 'a' && y <= 'z') y -= 32; return x == y; }
double @r@lamch_(char *c) {
  /* values of the IEEE format; the real ?lamch is executed in unit lamch (C11) */
  if (*c == 'E' || *c == 'e') return LAMCH_EPS;
  if (*c == 'S' || *c == 's') return LAMCH_SFMIN;
  if (*c == 'P' || *c == 'p') return LAMCH_EPS * 2;
  if (*c == 'B' || *c == 'b') return 2;
  return nondet_real();
}
double SuperLU_timer_(void) { return 0.0; }   /* timings are not observable by any property */
int_t sp_ienv(int_t i) { int_t r = nondet_int(); __CPROVER_assume(r >= 1 && r <= 1000); return r; }

#ifdef STUB_POOLS
/* pool mode (for the static-frame instrumentation, which cannot follow writes into memory allocated in callees):
 * allocations are static objects; balance is tracked by the ghost counters instead of cbmc's leak check */
#define POOL(ptr, obj) (ptr) = (void *)&(obj)
#define UNPOOL(ptr) ((void)0)
void *superlu_malloc(size_t size) { LOG(g_at_malloc); g_n_malloc++; __CPROVER_assert(size <= sizeof(SuperMatrix), "pool model: only the AA header is allocated directly by the drivers"); return &pool_AA; }
void superlu_free(void *p) { LOG(g_at_free); g_n_free++; __CPROVER_assert(p == (void *)&pool_AA, "pool model: free of the AA header"); }
#else
#define POOL(ptr, obj) do { (ptr) = malloc(sizeof(obj)); __CPROVER_assume((ptr) != NULL); } while (0)
#define UNPOOL(ptr) free(ptr)
#endif
#ifndef STUB_POOLS
void *superlu_malloc(size_t size) {
  LOG(g_at_malloc); g_n_malloc++;
#ifdef MALLOC_CAN_FAIL
  if (nondet_bool()) return NULL;
#endif
  { void *p_ = malloc(size); __CPROVER_assume(p_ != NULL); return p_; }
}
void superlu_free(void *p) { LOG(g_at_free); g_n_free++; free(p); }
#endif

void StatAlloc(const int_t n, const int_t nprocs, const int_t panel_size, const int_t relax, Gstat_t *G) {
  LOG(g_at_StatAlloc);
#ifdef STUB_POOLS
  G->utime = pool_utime; G->ops = pool_ops; G->procstat = pool_procstat;
#else
  G->utime = malloc(NPHASES * sizeof(double));
  G->ops = malloc(NPHASES * sizeof(flops_t));
  G->procstat = malloc((size_t)nprocs * sizeof(procstat_t));
  __CPROVER_assume(G->utime && G->ops && G->procstat);
#endif
}
void StatInit(const int_t n, const int_t nprocs, Gstat_t *G) { g_seq++; }
#ifdef STUB_POOLS
void StatFree(Gstat_t *G) { LOG(g_at_StatFree); }
#else
void StatFree(Gstat_t *G) { LOG(g_at_StatFree); free(G->utime); free(G->ops); free(G->procstat); }
#endif
void PrintStat(Gstat_t *G) { g_seq++; }

void @p@Create_CompCol_Matrix(SuperMatrix *A, int_t m, int_t n, int_t nnz, @T@ *nzval, int_t *rowind, int_t *colptr,
                            Stype_t stype, Dtype_t dtype, Mtype_t mtype) {
  LOG(g_at_create); g_create_A = A; g_create_nzval = nzval; g_create_rowind = rowind; g_create_colptr = colptr;
  g_create_m = m; g_create_n = n; g_create_nnz = nnz; g_create_stype = stype;
  A->Stype = stype; A->Dtype = dtype; A->Mtype = mtype; A->nrow = m; A->ncol = n;
#ifdef STUB_POOLS
  A->Store = &pool_AAstore;
#else
  A->Store = malloc(sizeof(NCformat)); __CPROVER_assume(A->Store != NULL);
#endif
  ((NCformat *)A->Store)->nnz = nnz; ((NCformat *)A->Store)->nzval = nzval;
  ((NCformat *)A->Store)->rowind = rowind; ((NCformat *)A->Store)->colptr = colptr;
}
#ifdef STUB_POOLS
void Destroy_SuperMatrix_Store(SuperMatrix *A) { LOG(g_at_destroyAA); __CPROVER_assert(A->Store == (void *)&pool_AAstore, "pool model: store of the AA view"); }
#else
void Destroy_SuperMatrix_Store(SuperMatrix *A) { LOG(g_at_destroyAA); free(A->Store); }
#endif

void @p@gsequ(SuperMatrix *A, @R@ *r, @R@ *c, @R@ *rowcnd, @R@ *colcnd, @R@ *amax, int_t *info) {
  LOG(g_at_gsequ); g_n_gsequ++; g_gsequ_A = A;
  if (A->nrow > 0) { __CPROVER_havoc_slice(r, (size_t)A->nrow * sizeof(@R@)); __CPROVER_havoc_slice(c, (size_t)A->ncol * sizeof(@R@)); }
  *rowcnd = nondet_real(); *colcnd = nondet_real(); *amax = nondet_real();
  int_t i = nondet_int(); __CPROVER_assume(i >= 0 && i <= A->nrow + A->ncol); *info = i; g_gsequ_info = i;
}
void @p@laqgs(SuperMatrix *A, @R@ *r, @R@ *c, @R@ rowcnd, @R@ colcnd, @R@ amax, equed_t *equed) {
  LOG(g_at_laqgs); g_n_laqgs++; g_laqgs_A = A;
  __CPROVER_assume(g_cfg_equed == NOEQUIL || g_cfg_equed == ROW || g_cfg_equed == COL || g_cfg_equed == BOTH);
  *equed = g_cfg_equed;      /* values of A are scaled in place: A's nzval is not modelled here */
}
void sp_colorder(SuperMatrix *A, int_t *perm_c, superlumt_options_t *o, SuperMatrix *AC) {
  LOG(g_at_colorder); g_colorder_A = A;
#ifdef STUB_POOLS
  g_AC_token = &pool_ACstore;
#else
  g_AC_token = malloc(sizeof(NCPformat)); __CPROVER_assume(g_AC_token != NULL);
#endif
  AC->Stype = SLU_NCP; AC->Dtype = A->Dtype; AC->Mtype = A->Mtype; AC->nrow = A->nrow; AC->ncol = A->ncol; AC->Store = g_AC_token;
}
#ifdef STUB_POOLS
void Destroy_CompCol_Permuted(SuperMatrix *AC) { LOG(g_at_destroyAC); __CPROVER_assert(AC->Store == (void *)&pool_ACstore, "pool model: store of AC"); }
#else
void Destroy_CompCol_Permuted(SuperMatrix *AC) { LOG(g_at_destroyAC); free(AC->Store); }
#endif
void p@p@gstrf_init(int_t nprocs, fact_t fact, trans_t trans, yes_no_t refact, int_t panel_size, int_t relax,
                  @R@ u, yes_no_t usepr, double drop_tol, int_t *perm_c, int_t *perm_r, void *work, int_t lwork,
                  SuperMatrix *A, SuperMatrix *AC, superlumt_options_t *o, Gstat_t *G) {
  LOG(g_at_strf_init); g_init_trans = trans; g_colorder_A = A;
  o->nprocs = nprocs; o->fact = fact; o->trans = trans; o->refact = refact; o->lwork = lwork; o->work = work;
  o->perm_c = perm_c; o->perm_r = perm_r; o->usepr = usepr;
#ifdef STUB_POOLS
  o->etree = (int_t *)&pool_opt[0]; o->colcnt_h = (int_t *)&pool_opt[1]; o->part_super_h = (int_t *)&pool_opt[2];
#else
  o->etree = malloc(1); o->colcnt_h = malloc(1); o->part_super_h = malloc(1);
  __CPROVER_assume(o->etree && o->colcnt_h && o->part_super_h);
#endif
#ifdef STUB_POOLS
  g_AC_token = &pool_ACstore;
#else
  g_AC_token = malloc(sizeof(NCPformat)); __CPROVER_assume(g_AC_token != NULL);
#endif
  AC->Stype = SLU_NCP; AC->Dtype = A->Dtype; AC->Mtype = A->Mtype; AC->nrow = A->nrow; AC->ncol = A->ncol; AC->Store = g_AC_token;
}
void pxgstrf_finalize(superlumt_options_t *o, SuperMatrix *AC) {
  LOG(g_at_finalize);
#ifndef STUB_POOLS
  free(o->etree); free(o->colcnt_h); free(o->part_super_h); free(AC->Store);
#endif
}
void p@p@gstrf(superlumt_options_t *o, SuperMatrix *A, int_t *perm_r, SuperMatrix *L, SuperMatrix *U, Gstat_t *G, int_t *info) {
  LOG(g_at_strf); g_n_strf++; g_strf_A = A;
  __CPROVER_assume(g_cfg_strf_info >= 0);
  if (o->lwork == -1) __CPROVER_assume(g_cfg_strf_info > A->ncol);   /* size query: info = estimate + n */
  *info = g_cfg_strf_info; g_strf_info = g_cfg_strf_info;
}
@R@ @p@PivotGrowth(int_t ncols, SuperMatrix *A, int_t *perm_c, SuperMatrix *L, SuperMatrix *U) {
  LOG(g_at_growth); g_n_growth++; g_growth_A = A; g_growth_ncols = ncols; return nondet_real();
}
@R@ @p@langs(char *norm, SuperMatrix *A) { LOG(g_at_langs); g_langs_norm = *norm; g_langs_A = A; return nondet_real(); }
void @p@gscon(char *norm, SuperMatrix *L, SuperMatrix *U, @R@ anorm, @R@ *rcond, int_t *info) {
  LOG(g_at_gscon); g_n_gscon++; g_gscon_norm = *norm; g_rcond_out = nondet_real(); __CPROVER_assume(g_rcond_out == g_rcond_out); *rcond = g_rcond_out; *info = 0;
}
void @p@gstrs(trans_t trans, SuperMatrix *L, SuperMatrix *U, int_t *perm_r, int_t *perm_c, SuperMatrix *B, Gstat_t *G, int_t *info) {
  LOG(g_at_gstrs); g_n_gstrs++; g_gstrs_trans = trans; g_gstrs_B = B; g_gstrs_L = L; g_gstrs_U = U;
  g_gstrs_perm_r = perm_r; g_gstrs_perm_c = perm_c;
  *info = 0;                 /* solution overwrites B->nzval: values not modelled */
}
void @p@gsrfs(trans_t trans, SuperMatrix *A, SuperMatrix *L, SuperMatrix *U, int_t *perm_r, int_t *perm_c, equed_t equed,
            @R@ *R, @R@ *C, SuperMatrix *B, SuperMatrix *X, @R@ *ferr, @R@ *berr, Gstat_t *G, int_t *info) {
  LOG(g_at_gsrfs); g_n_gsrfs++; g_gsrfs_trans = trans; g_gsrfs_A = A; g_gsrfs_B = B; g_gsrfs_X = X; g_gsrfs_equed = equed;
  *info = 0;
}
int_t superlu_@p@QuerySpace(int_t P, SuperMatrix *L, SuperMatrix *U, int_t panel_size, superlu_memusage_t *mu) {
  LOG(g_at_query); g_n_query++;
#ifdef QUERY_NEEDS_FACTORS
  __CPROVER_assert(g_strf_info <= L->ncol || g_n_strf == 0, "QuerySpace dereferences L,U only when the factorization produced them");
#endif
  mu->for_lu = nondet_real(); mu->total_needed = nondet_real(); mu->expansions = nondet_int();
  return 0;
}
