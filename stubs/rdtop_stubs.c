/* TRUSTED libc / allocator stand-ins for the top-level file readers ?readhb / ?readrb (C20 d: header, allocation, wiring).
 * The FILE is ghost data:
 *   header  = NHL lines in_hdr[l][LW]; line l ends at column in_nl[l] (its '\n'), any bytes before that;
 *             the stream position is (g_line, g_col).
 *   fscanf("%<w>c", dst)  delivers the next w bytes of the CURRENT header line (it is an obligation that they exist: a field
 *             never straddles a line end) and remembers which field that was (g_last*);
 *   fgetc   delivers the next byte; after a '\n' the stream is at column 0 of the next line;
 *   fgets   libc semantics on the ghost file: at most size-1 bytes of the current line, through its '\n' if they fit, NUL-terminated;
 *   atoi    is an ORACLE for the numeric header fields: its argument must be the 14-column field fscanf delivered last,
 *           NUL-terminated at column 14, bytes unchanged; the result is the harness value of that field
 *           (line 2: in_l2[col/14], line 3: in_l3[col/14 - 1]); any other argument is an obligation failure.
 *           (decimal -> binary conversion itself is libc and out of reach)
 *   data part: the vector readers are replaced by contracts (see the unit's spec), only g_line moves there.
 * Allocation: superlu_malloc may fail on any request (returns NULL), logs the number of requests; exit() = diagnostic stop
 *   (reached from the real intMalloc/<type>Malloc on failure), does not return.
 * No system header: <stdio.h> would bring the variadic prototype of fscanf; the stub has the fixed signature of every call in the
 * readers (one char* argument) because the contract instrumentation inlines callees.  glibc renames fscanf to __isoc99_fscanf. */
typedef struct _IO_FILE FILE;
typedef unsigned long size_t;
void *malloc(size_t);
extern FILE *stdin;
#define LW 84
#define NHL 5
extern char in_hdr[NHL][LW]; extern int in_nl[NHL]; extern int in_l2[5], in_l3[4];
int g_line, g_col;                                         /* stream position */
int g_lastline, g_lastcol, g_lastw; char *g_lastdst;       /* the field fscanf delivered last */
int g_n_malloc, g_n_free, g_alloc_failed, g_exits, g_fclose;
int g_rvec, g_rval, g_dl;                                  /* written by the contracts of the vector readers */
_Bool nondet_bool(void); int nondet_int(void);
/* byte copies are written without loops (the legacy contract instrumentation wants loop-free callees): B8(X, b) = X(b) .. X(b+7) */
#define B8(X, b) X((b)) X((b) + 1) X((b) + 2) X((b) + 3) X((b) + 4) X((b) + 5) X((b) + 6) X((b) + 7)
#define B80(X) B8(X, 0) B8(X, 8) B8(X, 16) B8(X, 24) B8(X, 32) B8(X, 40) B8(X, 48) B8(X, 56) B8(X, 64) B8(X, 72)

int __isoc99_fscanf(FILE *fp, const char *fmt, char *dst) {
  int w, k, ok;
  __CPROVER_assert(fp == stdin, "fscanf: reads the input stream");
  __CPROVER_assert(fmt[0] == '%' && fmt[1] >= '1' && fmt[1] <= '9', "fscanf: the conversion is %<w>c");
  w = fmt[1] - '0';
  if (fmt[2] != 'c') {
    __CPROVER_assert(fmt[2] >= '0' && fmt[2] <= '9' && fmt[3] == 'c' && fmt[4] == 0, "fscanf: the conversion is %<ww>c");
    w = 10 * w + (fmt[2] - '0');
  } else __CPROVER_assert(fmt[3] == 0, "fscanf: the conversion is %<w>c only");
  ok = 0 <= g_line && g_line < NHL && 0 <= g_col && g_col + w <= in_nl[g_line];
  __CPROVER_assert(ok, "fscanf: the field lies inside the current header line");
  if (!ok) __CPROVER_assume(0);
  __CPROVER_assert(w <= 80, "fscanf: at most 80 bytes per conversion");
#define CPF(k) if ((k) < w) dst[k] = in_hdr[g_line][g_col + (k)];
  B80(CPF)
  g_lastline = g_line; g_lastcol = g_col; g_lastw = w; g_lastdst = dst;
  g_col += w;
  return 1;
}
int fgetc(FILE *fp) {
  int c, ok;
  __CPROVER_assert(fp == stdin, "fgetc: reads the input stream");
  ok = 0 <= g_line && g_line < NHL && 0 <= g_col && g_col <= in_nl[g_line];
  __CPROVER_assert(ok, "fgetc: only the rest of a header line is skipped");
  if (!ok) __CPROVER_assume(0);
  c = in_hdr[g_line][g_col];
  if (c == '\n') { g_line++; g_col = 0; } else g_col++;
  return c;
}
char *fgets(char *s, int size, FILE *fp) {
  /* libc semantics on the ghost file, from ANY header position: at most size-1 bytes, stops after the '\n', NUL-terminated.
   * (?readrb reads its title line with it; a reader that skips the rest of a header line with fgets is modelled faithfully:
   * when the buffer is too small for the rest of the line the '\n' stays in the stream.) */
  int k, ok, rest, take;
  __CPROVER_assert(fp == stdin, "fgets: reads the input stream");
  ok = 0 <= g_line && g_line < NHL && 0 <= g_col && g_col <= in_nl[g_line] && in_nl[g_line] < LW - 1 && size >= 2;
  __CPROVER_assert(ok, "fgets: called inside the header with room for at least one byte");
  if (!ok) __CPROVER_assume(0);
  rest = in_nl[g_line] - g_col + 1;                 /* bytes up to and including the newline */
  take = rest <= size - 1 ? rest : size - 1;
#define CPG(k) if ((k) < take) s[k] = in_hdr[g_line][g_col + (k)];
  B80(CPG) CPG(80) CPG(81) CPG(82)
  s[take] = 0;
  if (take == rest) { g_line++; g_col = 0; } else g_col += take;
  return s;
}
int atoi(const char *s) {
  int k, same = 1, idx;
  __CPROVER_assert(s == g_lastdst && g_lastw == 14, "atoi: the argument is the 14-column field just read");
  if (!(s == g_lastdst && g_lastw == 14)) __CPROVER_assume(0);
  __CPROVER_assert(s[14] == 0, "atoi: the field is NUL-terminated at its end");
#define CMP(k) if (s[k] != in_hdr[g_lastline][g_lastcol + (k)]) same = 0;
  B8(CMP, 0) CMP(8) CMP(9) CMP(10) CMP(11) CMP(12) CMP(13)
  __CPROVER_assert(same, "atoi: the field bytes are those of the file");
  idx = g_lastcol / 14;
  if (g_lastline == 1 && g_lastcol % 14 == 0 && idx < 5) return in_l2[idx];
  if (g_lastline == 2 && g_lastcol % 14 == 0 && 1 <= idx && idx < 5) return in_l3[idx - 1];
  __CPROVER_assert(0, "atoi: only documented numeric header fields are converted");
  return nondet_int();
}
int fputs(const char *s, FILE *fp) { return 0; }
int printf(const char *f, ...) { return 0; }
int fprintf(FILE *fp, const char *f, ...) { return 0; }
int sprintf(char *s, const char *f, ...) { return 0; }
int fclose(FILE *fp) { __CPROVER_assert(fp == stdin, "fclose: closes the input stream"); g_fclose++; return 0; }
void verif_abort(char *msg) { __CPROVER_assume(0); }
void *superlu_malloc(size_t size) {
  void *p;
  if (g_n_malloc < 1000) g_n_malloc++;
  if (nondet_bool()) { g_alloc_failed = 1; return (void *)0; }
  p = __CPROVER_allocate(size, 0);   /* directly, not through the (hidden) library malloc: the frame check then knows the object as freshly allocated */
  return p;
}
void superlu_free(void *p) { if (g_n_free < 1000) g_n_free++; }
void exit(int c) {
  __CPROVER_assert(g_alloc_failed, "exit: the diagnostic stop is taken only after a failed allocation");
  __CPROVER_assert(0, "canary: allocation failure reaches the diagnostic stop");
  g_exits++; __CPROVER_assume(0);
}
