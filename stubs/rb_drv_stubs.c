/* Driver stubs used when a *static* helper of ?readrb.c is put under contract: the harness cannot name a static function,
 * so it calls the public ?readrb and libc is replaced by the bodies below (TRUSTED: they only deliver bytes).
 *   fscanf("%16c") / fscanf("%20c") deliver the harness field in_buf to the helper under contract (FIELD_INT selects which
 *   of the two helpers that is) and a constant legal descriptor to the other helper;
 *   fscanf("%14c") delivers the header number "-1" so that the vector readers that follow have nothing to read. */
#include <stdarg.h>
#include <stdio.h>
#include "slu_mt_@p@defs.h"
extern char in_buf[FW];
int g_fields_delivered;
static void put(char *dst, const char *src, int n) { int i, e = 0; for (i = 0; i < n; i++) { if (!e && src[i] == 0) e = 1; dst[i] = e ? ' ' : src[i]; } }
int fscanf(FILE *fp, const char *fmt, ...) {
  va_list ap; char *dst; int i;
  va_start(ap, fmt); dst = va_arg(ap, char *); va_end(ap);
  if (fmt[1] == '1' && fmt[2] == '4') put(dst, "-1", 14);
  else if (fmt[1] == '1' && fmt[2] == '6') {
#if FIELD_INT
    for (i = 0; i < FW; i++) dst[i] = in_buf[i]; g_fields_delivered++;
#else
    put(dst, "(10I8)", 16);
#endif
  } else if (fmt[1] == '2' && fmt[2] == '0') {
#if FIELD_INT
    put(dst, "(1P5E16.8)", 20);
#else
    for (i = 0; i < FW; i++) dst[i] = in_buf[i]; g_fields_delivered++;
#endif
  }
  return 1;
}
char *fgets(char *s, int n, FILE *fp) { return s; }
int fputs(const char *s, FILE *fp) { return 0; }
int fgetc(FILE *fp) { return '\n'; }
int printf(const char *f, ...) { return 0; }
int fclose(FILE *fp) { return 0; }
void @p@allocateA(int_t n, int_t nnz, @T@ **a, int_t **asub, int_t **xa) { }
