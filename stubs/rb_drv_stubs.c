/* Driver stubs used when a *static* helper of ?readrb.c is put under contract: the harness cannot name a static function,
 * so it calls the public ?readrb and libc is replaced by the bodies below (TRUSTED: they only deliver bytes).
 *   fscanf("%16c") / fscanf("%20c") deliver the harness field in_buf to the helper under contract (FIELD_INT selects which
 *   of the two helpers that is) and a constant legal descriptor to the other helper;
 *   fscanf("%14c") delivers the header number "-1" so that the vector readers that follow have nothing to read. */
/* no system header here: <stdio.h> would bring the variadic prototype of the function redefined below */
typedef struct _IO_FILE FILE;
extern char in_buf[FW];
int g_fields_delivered; void rb_canaries(void);
static void put(char *dst, const char *src, int n) { int i, e = 0; for (i = 0; i < n; i++) { if (!e && src[i] == 0) e = 1; dst[i] = e ? ' ' : src[i]; } }
/* every fscanf call of ?readrb has exactly one char* argument; the stub is declared with that fixed signature because the
 * contract instrumentation cannot pass its write set through a variadic call.  glibc's <stdio.h> renames fscanf. */
int __isoc99_fscanf(FILE *fp, const char *fmt, char *dst) {
  int i;
  if (fmt[1] == '1' && fmt[2] == '4') put(dst, "-1", 14);
  else if (fmt[1] == '1' && fmt[2] == '6') {
#if FIELD_INT
    /* ?readrb parses two integer descriptors; the contract instrumentation admits one call of the function under contract
     * per run, so the run ends when the second field is requested (the first call has been checked on return) */
    if (g_fields_delivered++ > 0) { rb_canaries(); __CPROVER_assume(0); }
    for (i = 0; i < FW; i++) dst[i] = in_buf[i];
#else
    put(dst, "(10I8)", 16);
#endif
  } else if (fmt[1] == '2' && fmt[2] == '0') {
#if FIELD_INT
    put(dst, "(1P5E16.8)", 20);
#else
    for (i = 0; i < FW; i++) dst[i] = in_buf[i]; g_fields_delivered++;
#endif
  }
  return 1;
}
/* only the title line is read with fgets before the vectors; the vector readers get nothing (header says -1 entries) */
int g_fgets_calls;
char *fgets(char *s, int n, FILE *fp) { if (g_fgets_calls++ > 0) __CPROVER_assume(0); return s; }
int fputs(const char *s, FILE *fp) { return 0; }
int fgetc(FILE *fp) { return '\n'; }
int printf(const char *f, ...) { return 0; }
int fclose(FILE *fp) { return 0; }
void @p@allocateA(int n, int nnz, void **a, int **asub, int **xa) { }
