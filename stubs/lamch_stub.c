/* lamch_stub.c -- TRUSTED models of the two LAPACK-style externals the equilibration/norm routines call.
 * ?lamch_: the constants of the IEEE format (same values as stubs/drv_stubs.c); the real ?lamch.c computes them
 *          at run time with loops that probe the arithmetic.  Note: SRC/slamch.c returns double, as declared here.
 * xerbla_: records its argument.  Template: @r@ = d|s real precision letter. */
#include "slu_mt_@p@defs.h"
int g_xerbla_calls, g_xerbla_arg;
double nondet_lamch(void);
int xerbla_(char *s, int *i) { g_xerbla_arg = *i; g_xerbla_calls++; return 0; }
double @r@lamch_(char *c) {
  if (*c == 'E' || *c == 'e') return @eps@;
  if (*c == 'S' || *c == 's') return @sfmin@;
  if (*c == 'P' || *c == 'p') return @eps@ * 2;
  if (*c == 'B' || *c == 'b') return 2;
  return nondet_lamch();
}
