/* c14_stubs.c -- stubs shared by the allocator units (C05/C14/C18: glu_alloc*, user_malloc/free, set_?work, work_init*,
 * meminit_*, expand_first*, thread_init_*): the abort hook, stdio, pthread lock calls.
 * verif_abort (= USER_ABORT, the library's override point) is the only non-returning exit.
 *   -DABORT_CHECKS_FIT : assert that it is reached only when the request does not fit (g_fits pinned by the
 *                        unit's requires) and carry a reachability canary (units where every abort site is live)
 *   -DABORT_UNREACHABLE: assert that it is never reached
 *   -DABORT_ONLY_IF_FLAG: assert that it is reached only after the harness set g_abort_ok (e.g. the expander-table request
 *                        of p?gstrf_MemInit failed); with -DABORT_CANARY also a reachability canary
 * pthread_mutex_lock/unlock/init: no-ops that log the lock object (TRUSTED: the lock gives atomicity); the counters
 * saturate so that callers' contracts need not bound them. */
#include <pthread.h>
#include <stdio.h>
int g_locks, g_unlocks, g_lock_inits; void *g_lock_obj, *g_unlock_obj;
#ifdef ABORT_CHECKS_FIT
extern int g_fits;
#endif
#ifdef ABORT_ONLY_IF_FLAG
extern int g_abort_ok;
#endif
void verif_abort(char *msg) {
#ifdef ABORT_CHECKS_FIT
  __CPROVER_assert(!g_fits, "abort path only when the request does not fit");
  __CPROVER_assert(0, "canary: abort path reachable");
#endif
#ifdef ABORT_UNREACHABLE
  __CPROVER_assert(0, "abort hook is never reached");
#endif
#ifdef ABORT_ONLY_IF_FLAG
  __CPROVER_assert(g_abort_ok, "abort path only after the request that has no other failure report failed");
#ifdef ABORT_CANARY
  __CPROVER_assert(0, "canary: abort path reachable");
#endif
#endif
  __CPROVER_assume(0);
}
int sprintf(char *s, const char *f, ...) { return 0; }
int fprintf(FILE *s, const char *f, ...) { return 0; }
int printf(const char *f, ...) { return 0; }
int fflush(FILE *s) { return 0; }
int pthread_mutex_lock(pthread_mutex_t *m) { if (g_locks < 1000000) g_locks++; g_lock_obj = m; return 0; }
int pthread_mutex_unlock(pthread_mutex_t *m) { if (g_unlocks < 1000000) g_unlocks++; g_unlock_obj = m; return 0; }
int pthread_mutex_init(pthread_mutex_t *m, const pthread_mutexattr_t *a) { if (g_lock_inits < 1000000) g_lock_inits++; return 0; }
int pthread_mutex_destroy(pthread_mutex_t *m) { return 0; }
