/* slu_alloc_mayfail_stub.c -- TRUSTED allocation model in which EVERY request may fail:
 *   superlu_malloc (SRC/util.c: `return malloc(size)`) = libc malloc of exactly `size` bytes (so that an overrun of a work array is a
 *   bounds violation) or NULL, chosen nondeterministically, whatever the size (also for size 0: C allows malloc(0) == NULL);
 *   superlu_free = free.  g_n_malloc / g_n_free count the successful allocations / the releases, g_alloc_failed records that a request
 *   was refused.  verif_abort (the library's USER_ABORT hook) does not return; the canary inside it documents that the abort path is
 *   what a refused request leads to (it must be reachable = FAIL).  Harnesses assert `!g_alloc_failed` after a normal return:
 *   together with the pointer checks this is "an allocation failure ends in the abort path, never in a NULL dereference".
 * With -DALLOC_BLOCK=<bytes> (bounded units) every block is carved END-ALIGNED from a heap object of that constant size: an access
 * past the requested size is still a bounds violation (an access before it is not detected -- the code under test only indexes
 * upwards from 0), and the formulas stay small because no object has a symbolic size (as units/coletree does).
 * With -DALLOC_WORDS=<k> (bounded units) a request of w <= k ints is served by malloc(w * sizeof(int)) with w a CONSTANT in each of the
 * k+1 branches of a case split: exact at both ends and still no object of symbolic size.
 * With -DALLOC_NOFAIL=1 no request is refused (for units whose subject is not the failure path). */
#include <stdlib.h>
int g_n_malloc, g_n_free, g_alloc_failed;
_Bool nondet_alloc_fails(void);
void *superlu_malloc(size_t size) {
  char *p;
#if !ALLOC_NOFAIL
  if (nondet_alloc_fails()) { g_alloc_failed = 1; return (void *) 0; }
#endif
#ifdef ALLOC_WORDS
  __CPROVER_assert(size % sizeof(int) == 0 && size / sizeof(int) <= (size_t)(ALLOC_WORDS), "allocator model: request within the modelled sizes");
  p = (char *) 0;
  for (size_t w = 0; w <= (size_t)(ALLOC_WORDS); w++) if (size == w * sizeof(int)) p = malloc(w * sizeof(int));
  __CPROVER_assume(p != (char *) 0);
#elif defined(ALLOC_BLOCK)
  __CPROVER_assert(size <= (size_t)(ALLOC_BLOCK), "allocator model: request within the modelled block size");
  p = malloc((size_t)(ALLOC_BLOCK));
  __CPROVER_assume(p != (char *) 0);
  p += (size_t)(ALLOC_BLOCK) - size;
#else
  p = malloc(size);
  __CPROVER_assume(p != (char *) 0);
#endif
  g_n_malloc++;
  return p;
}
void superlu_free(void *p) {
  g_n_free++;
#ifdef ALLOC_BLOCK
  if (p) free((char *) p - __CPROVER_POINTER_OFFSET(p)); 
#else
  free(p);
#endif
}
void verif_abort(char *msg) {
  if (g_alloc_failed) __CPROVER_assert(0, "canary: abort path reached after a refused allocation");
  __CPROVER_assume(0);
}
int sprintf(char *s, const char *f, ...) { return 0; }
