/* TRUSTED model of libc atoi (C11 7.22.1.2 = strtol base 10 without error handling): optional white space, optional sign,
 * longest digit sequence.  It reads exactly the characters the real one has to inspect (up to and including the first
 * non-digit), each once, so CBMC's pointer checks on the caller's buffer also cover the reads atoi performs on the
 * library's behalf.  Pure (no ghost state): usable below an enforced contract without widening its frame.
 * Domain of the model: numbers of at most 4 digits (asserted) -- the digit part is written without a loop and without
 * multiplications so that the unwound formula stays small. */
int atoi(const char *s) {
  unsigned v = 0; int neg = 0; char c;
  for (;; s++) { c = *s; if (!(c == ' ' || (c >= '\t' && c <= '\r'))) break; }
  if (c == '+' || c == '-') { neg = (c == '-'); s++; c = *s; }
  if (c >= '0' && c <= '9') { v = (unsigned)(c - '0'); s++; c = *s;
    if (c >= '0' && c <= '9') { v = (v << 3) + (v << 1) + (unsigned)(c - '0'); s++; c = *s;
      if (c >= '0' && c <= '9') { v = (v << 3) + (v << 1) + (unsigned)(c - '0'); s++; c = *s;
        if (c >= '0' && c <= '9') { v = (v << 3) + (v << 1) + (unsigned)(c - '0'); s++; c = *s;
          __CPROVER_assert(!(c >= '0' && c <= '9'), "atoi model: at most 4 digits"); } } } }
  return neg ? -(int)v : (int)v;
}
