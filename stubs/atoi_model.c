/* TRUSTED model of libc atoi (C11 7.22.1.2 = strtol base 10 without error handling): optional white space, optional sign,
 * longest digit sequence.  It reads exactly the characters the real one has to inspect (up to and including the first
 * non-digit), so CBMC's pointer checks on the caller's buffer also cover the reads atoi performs on the library's behalf.
 * Pure (no ghost state): usable below an enforced contract without widening its frame. */
int atoi(const char *s) {
  int i = 0, v = 0, neg = 0;
  while (s[i] == ' ' || (s[i] >= '\t' && s[i] <= '\r')) i++;
  if (s[i] == '+' || s[i] == '-') { neg = (s[i] == '-'); i++; }
  while (s[i] >= '0' && s[i] <= '9') { v = v * 10 + (s[i] - '0'); i++; }
  return neg ? -v : v;
}
