/* USER_ABORT is the library's override point; the abort path does not return */
void verif_abort(char *msg) { __CPROVER_assume(0); }
int sprintf(char *s, const char *f, ...) { return 0; }
