/* ghost call log written by stubs/drv_stubs.c (definitions there: #define GX before including) */
#ifndef GX
#define GX extern
#endif
GX int g_seq;
GX int g_xerbla_calls, g_xerbla_arg;
GX int g_at_StatAlloc, g_at_StatFree, g_at_gsequ, g_at_laqgs, g_at_colorder, g_at_strf, g_at_growth, g_at_langs, g_at_gscon, g_at_gstrs, g_at_gsrfs, g_at_query, g_at_destroyAC, g_at_destroyAA, g_at_create, g_at_strf_init, g_at_finalize, g_at_malloc, g_at_free;
GX int g_n_gstrs, g_n_strf, g_n_gsrfs, g_n_gscon, g_n_malloc, g_n_free, g_n_gsequ, g_n_laqgs, g_n_growth, g_n_query;
GX trans_t g_gstrs_trans, g_gsrfs_trans, g_init_trans;
GX char g_langs_norm, g_gscon_norm;
GX SuperMatrix *g_gstrs_B, *g_strf_A, *g_gsrfs_A, *g_gsrfs_B, *g_gsrfs_X, *g_langs_A, *g_growth_A, *g_colorder_A, *g_gsequ_A, *g_laqgs_A, *g_create_A;
GX SuperMatrix *g_gstrs_L, *g_gstrs_U;
GX int_t *g_gstrs_perm_r, *g_gstrs_perm_c;
GX int_t g_growth_ncols;
GX equed_t g_gsrfs_equed;
GX int_t g_strf_info;
GX int_t g_gsequ_info;
GX @R@ g_rcond_out;
GX void *g_create_nzval, *g_create_rowind, *g_create_colptr;
GX int_t g_create_m, g_create_n, g_create_nnz;
GX Stype_t g_create_stype;
GX int_t g_cfg_strf_info;
GX equed_t g_cfg_equed;
GX void *g_AC_token;
