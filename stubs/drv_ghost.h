/* ghost call log written by stubs/drv_stubs.c.  All ghost variables are fields of ONE object G so that a
 * contract's frame needs a single target (the dynamic-frame instrumentation's cost grows with the number of targets). */
#ifndef DRV_GHOST_H
#define DRV_GHOST_H
typedef struct {
  int g_seq;
  int g_xerbla_calls, g_xerbla_arg;
  int g_at_StatAlloc, g_at_StatFree, g_at_gsequ, g_at_laqgs, g_at_colorder, g_at_strf, g_at_growth, g_at_langs, g_at_gscon, g_at_gstrs, g_at_gsrfs, g_at_query, g_at_destroyAC, g_at_destroyAA, g_at_create, g_at_strf_init, g_at_finalize, g_at_malloc, g_at_free;
  int g_n_gstrs, g_n_strf, g_n_gsrfs, g_n_gscon, g_n_malloc, g_n_free, g_n_gsequ, g_n_laqgs, g_n_growth, g_n_query;
  trans_t g_gstrs_trans, g_gsrfs_trans, g_init_trans;
  char g_langs_norm, g_gscon_norm;
  SuperMatrix *g_gstrs_B, *g_strf_A, *g_gsrfs_A, *g_gsrfs_B, *g_gsrfs_X, *g_langs_A, *g_growth_A, *g_colorder_A, *g_gsequ_A, *g_laqgs_A, *g_create_A;
  SuperMatrix *g_gstrs_L, *g_gstrs_U;
  int_t *g_gstrs_perm_r, *g_gstrs_perm_c;
  int_t g_growth_ncols;
  equed_t g_gsrfs_equed;
  int_t g_strf_info;
  int_t g_gsequ_info;
  @R@ g_rcond_out;
  void *g_create_nzval, *g_create_rowind, *g_create_colptr;
  int_t g_create_m, g_create_n, g_create_nnz;
  Stype_t g_create_stype;
  int_t g_cfg_strf_info;
  equed_t g_cfg_equed;
  void *g_AC_token;
  /* pool mode (STUB_POOLS): the objects the callees would allocate */
  SuperMatrix pool_AA; NCformat pool_AAstore; NCPformat pool_ACstore;
  double pool_utime[NPHASES]; flops_t pool_ops[NPHASES]; procstat_t pool_procstat[64]; char pool_opt[3];
} drv_ghost_t;
extern drv_ghost_t GH_;   /* defined in drv_stubs.c */
#define g_seq (GH_.g_seq)
#define g_xerbla_calls (GH_.g_xerbla_calls)
#define g_xerbla_arg (GH_.g_xerbla_arg)
#define g_at_StatAlloc (GH_.g_at_StatAlloc)
#define g_at_StatFree (GH_.g_at_StatFree)
#define g_at_gsequ (GH_.g_at_gsequ)
#define g_at_laqgs (GH_.g_at_laqgs)
#define g_at_colorder (GH_.g_at_colorder)
#define g_at_strf (GH_.g_at_strf)
#define g_at_growth (GH_.g_at_growth)
#define g_at_langs (GH_.g_at_langs)
#define g_at_gscon (GH_.g_at_gscon)
#define g_at_gstrs (GH_.g_at_gstrs)
#define g_at_gsrfs (GH_.g_at_gsrfs)
#define g_at_query (GH_.g_at_query)
#define g_at_destroyAC (GH_.g_at_destroyAC)
#define g_at_destroyAA (GH_.g_at_destroyAA)
#define g_at_create (GH_.g_at_create)
#define g_at_strf_init (GH_.g_at_strf_init)
#define g_at_finalize (GH_.g_at_finalize)
#define g_at_malloc (GH_.g_at_malloc)
#define g_at_free (GH_.g_at_free)
#define g_n_gstrs (GH_.g_n_gstrs)
#define g_n_strf (GH_.g_n_strf)
#define g_n_gsrfs (GH_.g_n_gsrfs)
#define g_n_gscon (GH_.g_n_gscon)
#define g_n_malloc (GH_.g_n_malloc)
#define g_n_free (GH_.g_n_free)
#define g_n_gsequ (GH_.g_n_gsequ)
#define g_n_laqgs (GH_.g_n_laqgs)
#define g_n_growth (GH_.g_n_growth)
#define g_n_query (GH_.g_n_query)
#define g_gstrs_trans (GH_.g_gstrs_trans)
#define g_gsrfs_trans (GH_.g_gsrfs_trans)
#define g_init_trans (GH_.g_init_trans)
#define g_langs_norm (GH_.g_langs_norm)
#define g_gscon_norm (GH_.g_gscon_norm)
#define g_gstrs_B (GH_.g_gstrs_B)
#define g_strf_A (GH_.g_strf_A)
#define g_gsrfs_A (GH_.g_gsrfs_A)
#define g_gsrfs_B (GH_.g_gsrfs_B)
#define g_gsrfs_X (GH_.g_gsrfs_X)
#define g_langs_A (GH_.g_langs_A)
#define g_growth_A (GH_.g_growth_A)
#define g_colorder_A (GH_.g_colorder_A)
#define g_gsequ_A (GH_.g_gsequ_A)
#define g_laqgs_A (GH_.g_laqgs_A)
#define g_create_A (GH_.g_create_A)
#define g_gstrs_L (GH_.g_gstrs_L)
#define g_gstrs_U (GH_.g_gstrs_U)
#define g_gstrs_perm_r (GH_.g_gstrs_perm_r)
#define g_gstrs_perm_c (GH_.g_gstrs_perm_c)
#define g_growth_ncols (GH_.g_growth_ncols)
#define g_gsrfs_equed (GH_.g_gsrfs_equed)
#define g_strf_info (GH_.g_strf_info)
#define g_gsequ_info (GH_.g_gsequ_info)
#define g_rcond_out (GH_.g_rcond_out)
#define g_create_nzval (GH_.g_create_nzval)
#define g_create_rowind (GH_.g_create_rowind)
#define g_create_colptr (GH_.g_create_colptr)
#define g_create_m (GH_.g_create_m)
#define g_create_n (GH_.g_create_n)
#define g_create_nnz (GH_.g_create_nnz)
#define g_create_stype (GH_.g_create_stype)
#define g_cfg_strf_info (GH_.g_cfg_strf_info)
#define g_cfg_equed (GH_.g_cfg_equed)
#define g_AC_token (GH_.g_AC_token)
#define pool_AA (GH_.pool_AA)
#define pool_AAstore (GH_.pool_AAstore)
#define pool_ACstore (GH_.pool_ACstore)
#define pool_utime (GH_.pool_utime)
#define pool_ops (GH_.pool_ops)
#define pool_procstat (GH_.pool_procstat)
#define pool_opt (GH_.pool_opt)
#endif
