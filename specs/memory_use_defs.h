/* the byte count exactly as p?gstrf_memory_use forms it (iword, dword are float variables there) */
#define IWF ((float)sizeof(int_t))
#define DWF ((float)sizeof(@T@))
#define MU_FORMULA ((float)(10. * ndim * IWF + nzlmax * IWF + nzumax * (IWF + DWF) + nzlumax * DWF))
/* exact 64-bit integer byte count */
#define LL(x) ((long long)(x))
#define MU_EXACT (10 * LL(ndim) * LL(sizeof(int_t)) + LL(nzlmax) * LL(sizeof(int_t)) + LL(nzumax) * LL(sizeof(int_t) + sizeof(@T@)) + LL(nzlumax) * LL(sizeof(@T@)))
#define MU_NONNEG (ndim >= 0 && nzlmax >= 0 && nzumax >= 0 && nzlumax >= 0)
/* box of store sizes: order <= n_, L subscripts <= b_ bytes, U (values + subscripts) <= 2 b_ bytes, L values <= 4 b_ bytes */
#define MU_BOX(n_, b_) (ndim <= (n_) && nzlmax <= (b_) / (int_t)sizeof(int_t) && nzumax <= 2 * ((b_) / (int_t)(sizeof(int_t) + sizeof(@T@))) && nzlumax <= 4 * ((b_) / (int_t)sizeof(@T@)))
