/* vocabulary of the copy_mem_* contracts: S = element size in bytes, B(k) = k-th byte of the harness buffer */
#define S ((int_t)sizeof(ELT))
#define BYTE(k) (((unsigned char*)in_buf)[k])
#define POS (howmany > 0)
