/* work_sizes.h -- size formulas of the per-thread work arrays, written from p?gstrf_WorkInit (SRC/p?memory.c:444-446)
 * and the layout comments of pxgstrf_SetIWork (SRC/pmemory.c:37-43).  Shared by units set_iwork, set_rwork, work_init
 * so that "the carved sub-arrays end inside the block WorkInit asks for" is one and the same expression. */
#ifndef WORK_SIZES_H
#define WORK_SIZES_H
#define NMARK 3                                   /* NO_MARKER */
#define ISIZE_INTS(n,w)  ((2*(w) + 5 + NMARK) * (n))                       /* isize / sizeof(int_t) */
#define MAXI(a,b) ((a) > (b) ? (a) : (b))
#define NTEMPV(n,w,t,b)  MAXI(2*(n), ((t) + (b))*(w))                      /* NUM_TEMPV */
#define DSIZE_REALS(n,w,t,b) ((n)*(w) + NTEMPV(n,w,t,b))                   /* dsize / sizeof(scalar) */
#endif
