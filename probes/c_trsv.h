#ifndef C_TRSV_H
#define C_TRSV_H
#include "slu_mt_ddefs.h"
int_t sp_dtrsv(char *uplo, char *trans, char *diag, SuperMatrix *L, SuperMatrix *U, double *x, int_t *info)
__CPROVER_requires(__CPROVER_is_fresh(uplo,2) && __CPROVER_is_fresh(trans,2) && __CPROVER_is_fresh(diag,2))
__CPROVER_requires(__CPROVER_is_fresh(L,sizeof(*L)) && __CPROVER_is_fresh(U,sizeof(*U)) && __CPROVER_is_fresh(info,sizeof(*info)))
__CPROVER_requires(__CPROVER_is_fresh(L->Store,sizeof(SCPformat)) && __CPROVER_is_fresh(U->Store,sizeof(NCPformat)))
__CPROVER_requires(L->nrow == 0 && L->ncol == 0 && U->nrow == 0 && U->ncol == 0 && uplo[0]==88)
__CPROVER_assigns(*info)
__CPROVER_ensures(__CPROVER_return_value == 0)
;
#endif
