#include "c_glu.h"
void verif_abort(char *msg) { __CPROVER_assume(0); }
int pthread_mutex_lock(pthread_mutex_t *m) { return 0; }
int pthread_mutex_unlock(pthread_mutex_t *m) { return 0; }
void h_Glu_alloc(void) {
  int_t pnum, jcol, num; MemType mt; int_t *pn; pxgstrf_shared_t *sh;
  Glu_alloc(pnum, jcol, num, mt, pn, sh);
}
