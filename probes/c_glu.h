#ifndef C_GLU_H
#define C_GLU_H
/* contract attached to a re-declaration */
#include "slu_mt_ddefs.h"
extern void verif_abort(char *msg);
int_t Glu_alloc(const int_t pnum, const int_t jcol, const int_t num, const MemType mem_type,
                int_t *prev_next, pxgstrf_shared_t *sh)
__CPROVER_requires(__CPROVER_is_fresh(sh, sizeof(*sh)))
__CPROVER_requires(__CPROVER_is_fresh(sh->Glu, sizeof(GlobalLU_t)))
__CPROVER_requires(__CPROVER_is_fresh(sh->lu_locks, NO_GLU_LOCKS*sizeof(mutex_t)))
__CPROVER_requires(__CPROVER_is_fresh(prev_next, sizeof(int_t)))
__CPROVER_requires(mem_type == UCOL || mem_type == USUB || mem_type == LSUB)
__CPROVER_requires(num >= 0)
__CPROVER_requires(0 <= sh->Glu->nextu && sh->Glu->nextu <= sh->Glu->nzumax)
__CPROVER_requires(0 <= sh->Glu->nextl && sh->Glu->nextl <= sh->Glu->nzlmax)
__CPROVER_assigns(*prev_next, sh->Glu->nextu, sh->Glu->nextl)
__CPROVER_ensures(__CPROVER_return_value == 0)
__CPROVER_ensures((mem_type == LSUB) ==> (*prev_next == __CPROVER_old(sh->Glu->nextl) && sh->Glu->nextl == *prev_next + num && sh->Glu->nextl <= sh->Glu->nzlmax && sh->Glu->nextu == __CPROVER_old(sh->Glu->nextu)))
__CPROVER_ensures((mem_type != LSUB) ==> (*prev_next == __CPROVER_old(sh->Glu->nextu) && sh->Glu->nextu == *prev_next + num && sh->Glu->nextu <= sh->Glu->nzumax && sh->Glu->nextl == __CPROVER_old(sh->Glu->nextl)))
;
#endif
