#include "c_fix.h"
int_t g_s, g_q;
void h_fixupL(void){ int_t n; int_t *pr; GlobalLU_t *G; fixupL(n,pr,G); }
