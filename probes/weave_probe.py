#!/usr/bin/env python3
"""Probe weaver: insert loop-contract text after the header of the k-th loop of a
function in a real source file.  spec file format (python dict literal):
 { 'function': name, 'loops': { ordinal(int, 1-based, in source order): 'text' } }
The woven output is the original text with only insertions (checked by unweave)."""
import re, sys, ast

def scan_tokens(src):
    """yield (kind, start, end) for identifiers/punct outside comments/strings/preproc."""
    i, n = 0, len(src)
    bol = True
    while i < n:
        c = src[i]
        if c == '\n':
            bol = True; i += 1; continue
        if c in ' \t\r':
            i += 1; continue
        if src.startswith('/*', i):
            j = src.find('*/', i + 2); i = n if j < 0 else j + 2; continue
        if src.startswith('//', i):
            j = src.find('\n', i); i = n if j < 0 else j; continue
        if c == '#' and bol:
            # preprocessor line (with continuations)
            j = i
            while True:
                k = src.find('\n', j)
                if k < 0: j = n; break
                if src[k-1] == '\\': j = k + 1; continue
                j = k; break
            yield ('pp', i, j); i = j; continue
        bol = False
        if c == '"' or c == "'":
            j = i + 1
            while j < n and src[j] != c:
                if src[j] == '\\': j += 1
                j += 1
            i = j + 1; continue
        m = re.compile(r'[A-Za-z_]\w*').match(src, i)
        if m:
            yield ('id', i, m.end()); i = m.end(); continue
        yield ('p', i, i + 1); i += 1

def find_function_body(src, name):
    toks = list(scan_tokens(src))
    for idx, (k, s, e) in enumerate(toks):
        if k == 'id' and src[s:e] == name:
            # must be followed by '(' ... ')' then '{' (definition) at depth 0
            j = idx + 1
            if j >= len(toks) or src[toks[j][1]] != '(': continue
            depth = 0
            while j < len(toks):
                ch = src[toks[j][1]] if toks[j][0] == 'p' else ''
                if ch == '(': depth += 1
                elif ch == ')':
                    depth -= 1
                    if depth == 0: break
                j += 1
            j += 1
            while j < len(toks) and toks[j][0] == 'pp': j += 1
            if j < len(toks) and toks[j][0] == 'p' and src[toks[j][1]] == '{':
                # body
                depth = 0; b = j
                while j < len(toks):
                    if toks[j][0] == 'p':
                        ch = src[toks[j][1]]
                        if ch == '{': depth += 1
                        elif ch == '}':
                            depth -= 1
                            if depth == 0: return toks, b, j
                    j += 1
    raise SystemExit(f'weave: function {name} not found')

def weave(src, spec):
    toks, b, e = find_function_body(src, spec['function'])
    inserts = []  # (pos, text)
    ordinal = 0
    do_stack = []
    j = b
    # NOTE: preprocessor conditionals are not evaluated: loops in #if 0 blocks count too.
    pending_do = []
    depth = 0
    while j <= e:
        k, s, en = toks[j]
        w = src[s:en]
        if k == 'p':
            if w == '{': depth += 1
            elif w == '}':
                depth -= 1
        if k == 'id' and w in ('for', 'while', 'do'):
            if w == 'while' and pending_do and pending_do[-1][1] == depth:
                # closing while of a do-loop
                od, _ = pending_do.pop()
                # find matching paren
                jj = j + 1; d = 0
                while True:
                    ch = src[toks[jj][1]] if toks[jj][0] == 'p' else ''
                    if ch == '(': d += 1
                    elif ch == ')':
                        d -= 1
                        if d == 0: break
                    jj += 1
                if od in spec['loops']:
                    inserts.append((toks[jj][2], '\n' + spec['loops'][od] + '\n'))
                j = jj + 1; continue
            ordinal += 1
            if w == 'do':
                pending_do.append((ordinal, depth))
            else:
                jj = j + 1; d = 0
                while True:
                    ch = src[toks[jj][1]] if toks[jj][0] == 'p' else ''
                    if ch == '(': d += 1
                    elif ch == ')':
                        d -= 1
                        if d == 0: break
                    jj += 1
                if ordinal in spec['loops']:
                    inserts.append((toks[jj][2], '\n' + spec['loops'][ordinal] + '\n'))
                j = jj + 1; continue
        j += 1
    missing = set(spec['loops']) - set(range(1, ordinal + 1))
    if missing: raise SystemExit(f'weave: loops {missing} not found (function has {ordinal})')
    out = []; last = 0
    for pos, text in sorted(inserts):
        out.append(src[last:pos]); out.append('/*@W*/' + text + '/*W@*/'); last = pos
    out.append(src[last:])
    woven = ''.join(out)
    assert re.sub(r'/\*@W\*/.*?/\*W@\*/', '', woven, flags=re.S) == src
    return woven, ordinal

if __name__ == '__main__':
    srcf, specf, outf = sys.argv[1:4]
    spec = ast.literal_eval(open(specf).read())
    woven, n = weave(open(srcf).read(), spec)
    open(outf, 'w').write(woven)
    print(f'woven {spec["function"]}: {n} loops seen, {len(spec["loops"])} annotated')
