#include "c_trsv.h"
void verif_abort(char *m){ __CPROVER_assume(0); }
int xerbla_(char *s, int *i) { return 0; }
int sprintf(char *s, const char *f, ...) { return 0; }
int dtrsv_(char*a, char*b, char*c, int*d, double*e, int*f, double*g, int*h){ __CPROVER_assert(0,"unreachable"); return 0;}
int dgemv_(char*a, int*b, int*c, double*d, double*e, int*f, double*g, int*h, double*i, double*j, int*k){ __CPROVER_assert(0,"unreachable"); return 0;}
void dlsolve(int_t a, int_t b, double*c, double*d){ __CPROVER_assert(0,"unreachable"); }
void dusolve(int_t a, int_t b, double*c, double*d){ __CPROVER_assert(0,"unreachable"); }
void dmatvec(int_t a, int_t b, int_t c, double*d, double*e, double*f){ __CPROVER_assert(0,"unreachable"); }
int main(void) {
  char *a,*b,*c; SuperMatrix *L,*U; double *x; int_t *info;
  sp_dtrsv(a,b,c,L,U,x,info);
}
