#include <math.h>
#include <float.h>
#ifdef DBL
typedef double T; 
#define SML DBL_MIN
#define EPSH 1.1102230246251565e-16
#else
typedef float T;
#define SML FLT_MIN
#define EPSH 5.9604644775390625e-8f
#endif
int main(void){
  T x; __CPROVER_assume(x >= SML && x <= (T)1.0/SML);
  T a; __CPROVER_assume(!__CPROVER_isnand(a) && (a <= x) && (a >= -x));
  T r = (T)1.0 / x;
  T p = x * r;
  __CPROVER_assert(p <= (T)1.0 && p >= (T)1.0 - (T)EPSH*2, "rowmax*R in [1-eps,1]");
  T q = a * r;
  __CPROVER_assert(q <= (T)1.0 && q >= (T)-1.0, "scaled entries bounded by 1");
}
