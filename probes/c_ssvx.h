#ifndef C_SSVX_H
#define C_SSVX_H
#include "slu_mt_ddefs.h"
extern int g_xerbla_arg, g_xerbla_calls; extern int_t g_k;
#define VALID_ENUMS(o) (((o)->fact==DOFACT||(o)->fact==EQUILIBRATE||(o)->fact==FACTORED) && \
   ((o)->trans==NOTRANS||(o)->trans==TRANS||(o)->trans==CONJ) && ((o)->refact==YES||(o)->refact==NO) && \
   ((o)->usepr==YES||(o)->usepr==NO) && (o)->lwork >= -1)
#define VALID_A(A) ((A)->nrow==(A)->ncol && (A)->nrow>=0 && ((A)->Stype==SLU_NC||(A)->Stype==SLU_NR) && (A)->Dtype==SLU_D && (A)->Mtype==SLU_GE)
void
pdgssvx(int_t nprocs, superlumt_options_t *o, SuperMatrix *A, int_t *perm_c, int_t *perm_r,
	equed_t *equed, double *R, double *C, SuperMatrix *L, SuperMatrix *U, SuperMatrix *B, SuperMatrix *X,
	double *recip_pivot_growth, double *rcond, double *ferr, double *berr,
	superlu_memusage_t *mu, int_t *info)
__CPROVER_requires(__CPROVER_is_fresh(o,sizeof(*o)) && __CPROVER_is_fresh(A,sizeof(*A)) && __CPROVER_is_fresh(B,sizeof(*B)) && __CPROVER_is_fresh(X,sizeof(*X)))
__CPROVER_requires(__CPROVER_is_fresh(A->Store,sizeof(NCformat)) && __CPROVER_is_fresh(B->Store,sizeof(DNformat)) && __CPROVER_is_fresh(X->Store,sizeof(DNformat)))
__CPROVER_requires(__CPROVER_is_fresh(equed,sizeof(*equed)) && __CPROVER_is_fresh(info,sizeof(*info)))
__CPROVER_requires(A->nrow <= 1000000)
__CPROVER_requires(__CPROVER_is_fresh(R, (A->nrow > 0 ? A->nrow : 1)*sizeof(double)) && __CPROVER_is_fresh(C, (A->nrow > 0 ? A->nrow : 1)*sizeof(double)))
/* this harness: A invalid (documented argument 3) while nprocs and options are valid */
__CPROVER_requires(nprocs > 0 && VALID_ENUMS(o) && !VALID_A(A))
__CPROVER_assigns(*info, *equed, o->perm_c, o->perm_r)
__CPROVER_ensures(*info == -3 && g_xerbla_calls == 1 && g_xerbla_arg == 3)
;
#endif
