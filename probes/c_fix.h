#ifndef C_FIX_H
#define C_FIX_H
#include "slu_mt_ddefs.h"
#define CAP 6
#define LC 12
extern int_t g_s, g_q;
#define FA(k,lim,body) __CPROVER_forall { int_t k; (0 <= k && k < (lim)) ==> (body) }
void fixupL(const int_t n, const int_t *perm_r, GlobalLU_t *Glu)
__CPROVER_requires(2 <= n && n <= CAP)
__CPROVER_requires(__CPROVER_is_fresh(perm_r, CAP*sizeof(int_t)) && __CPROVER_is_fresh(Glu, sizeof(*Glu)))
__CPROVER_requires(__CPROVER_is_fresh(Glu->xsup,(CAP+1)*sizeof(int_t)) && __CPROVER_is_fresh(Glu->xsup_end,(CAP)*sizeof(int_t)) && __CPROVER_is_fresh(Glu->supno,(CAP+1)*sizeof(int_t)))
__CPROVER_requires(__CPROVER_is_fresh(Glu->xlsub,(CAP+1)*sizeof(int_t)) && __CPROVER_is_fresh(Glu->xlsub_end,(CAP)*sizeof(int_t)) && __CPROVER_is_fresh(Glu->lsub,LC*sizeof(int_t)))
__CPROVER_requires(0 <= Glu->supno[n] && Glu->supno[n] < n)
__CPROVER_requires(FA(s_1, CAP, (s_1 <= Glu->supno[n]) ==> (0 <= Glu->xsup[s_1] && Glu->xsup[s_1] < n)))
__CPROVER_requires(FA(s_2, CAP, (s_2 < Glu->supno[n]) ==> (Glu->xsup[s_2] < Glu->xsup[s_2+1])))
__CPROVER_requires(FA(c_3, CAP, (c_3 < n) ==> (0 <= Glu->xlsub[c_3] && Glu->xlsub[c_3] <= Glu->xlsub_end[c_3] && Glu->xlsub_end[c_3] <= LC)))
/* storage order follows supernode order */
__CPROVER_requires(FA(s_4, CAP, (s_4 < Glu->supno[n]) ==> (Glu->xlsub_end[Glu->xsup[s_4]] <= Glu->xlsub[Glu->xsup[s_4+1]])))
__CPROVER_requires(FA(k_5, LC, 0 <= Glu->lsub[k_5] && Glu->lsub[k_5] < n))
__CPROVER_requires(FA(kk, CAP, 0 <= perm_r[kk] && perm_r[kk] < n))
__CPROVER_requires(0 <= g_s && g_s <= Glu->supno[n] && 0 <= g_q && g_q < Glu->xlsub_end[Glu->xsup[g_s]] - Glu->xlsub[Glu->xsup[g_s]])
__CPROVER_assigns(__CPROVER_object_whole(Glu->lsub), __CPROVER_object_whole(Glu->xlsub), __CPROVER_object_whole(Glu->xlsub_end))
__CPROVER_ensures(Glu->xlsub[Glu->xsup[0]] == 0)
__CPROVER_ensures(FA(s_6, CAP, (s_6 < Glu->supno[n]) ==> (Glu->xlsub_end[Glu->xsup[s_6]] == Glu->xlsub[Glu->xsup[s_6+1]])))
__CPROVER_ensures(Glu->xlsub[n] == Glu->xlsub_end[Glu->xsup[Glu->supno[n]]])
__CPROVER_ensures(Glu->xlsub_end[Glu->xsup[g_s]] - Glu->xlsub[Glu->xsup[g_s]] == (__CPROVER_old(Glu->xlsub_end[Glu->xsup[g_s]]) - __CPROVER_old(Glu->xlsub[Glu->xsup[g_s]])))
__CPROVER_ensures(Glu->lsub[Glu->xlsub[Glu->xsup[g_s]] + g_q] == perm_r[__CPROVER_old(Glu->lsub[Glu->xlsub[Glu->xsup[g_s]] + g_q])])
;
#endif
