#include "c_ssvx.h"
int g_xerbla_arg, g_xerbla_calls; int_t g_k;
#define UNREACH(sig) sig { __CPROVER_assert(0, "computation reached although an argument is illegal"); }
int xerbla_(char *s, int *i) { g_xerbla_arg = *i; g_xerbla_calls++; return 0; }
double dlamch_(char *c) { return 2.2250738585072014e-308; }
UNREACH(void StatAlloc(const int_t a,const int_t b,const int_t c,const int_t d,Gstat_t*e))
UNREACH(void StatInit(const int_t a,const int_t b,Gstat_t*e))
UNREACH(void StatFree(Gstat_t*e))
UNREACH(void PrintStat(Gstat_t*e))
UNREACH(void *superlu_malloc(size_t s))
UNREACH(void superlu_free(void *s))
UNREACH(void dCreate_CompCol_Matrix(SuperMatrix *a, int_t b, int_t c, int_t d, double *e, int_t *f, int_t *g, Stype_t h, Dtype_t i, Mtype_t j))
UNREACH(double SuperLU_timer_())
UNREACH(void dgsequ (SuperMatrix *a, double *b, double *c, double *d, double *e, double *f, int_t *g))
UNREACH(void dlaqgs (SuperMatrix *a, double *b, double *c, double d, double e, double f, equed_t *g))
UNREACH(void sp_colorder(SuperMatrix *a, int_t *b, superlumt_options_t *c, SuperMatrix *d))
UNREACH(void pdgstrf (superlumt_options_t *a, SuperMatrix *b, int_t *c, SuperMatrix *d, SuperMatrix *e, Gstat_t *f, int_t *g))
UNREACH(double dPivotGrowth(int_t a, SuperMatrix *b, int_t *c, SuperMatrix *d, SuperMatrix *e))
UNREACH(double dlangs(char *a, SuperMatrix *b))
UNREACH(void dgscon (char *a, SuperMatrix *b, SuperMatrix *c, double d, double *e, int_t *f))
UNREACH(void dgstrs (trans_t a, SuperMatrix *b, SuperMatrix*c, int_t*d, int_t*e, SuperMatrix*f, Gstat_t *g, int_t *h))
UNREACH(void dgsrfs (trans_t a, SuperMatrix *b, SuperMatrix *c, SuperMatrix *d, int_t *e, int_t *f, equed_t g, double *h, double *i, SuperMatrix *j, SuperMatrix *k, double *l, double *m, Gstat_t *n, int_t *o))
UNREACH(int_t superlu_dQuerySpace (int_t a, SuperMatrix *b, SuperMatrix *c, int_t d, superlu_memusage_t *e))
UNREACH(void Destroy_CompCol_Permuted(SuperMatrix *a))
UNREACH(void Destroy_SuperMatrix_Store(SuperMatrix *a))
void h_pdgssvx(void) {
  int_t nprocs; superlumt_options_t *o; SuperMatrix *A,*L,*U,*B,*X; int_t *pc,*pr,*info; equed_t *eq; double *R,*C,*rpg,*rc,*fe,*be; superlu_memusage_t *mu;
  g_xerbla_calls = 0;
  pdgssvx(nprocs,o,A,pc,pr,eq,R,C,L,U,B,X,rpg,rc,fe,be,mu,info);
}
