#include "c_piv.h"
int_t g_n, g_nzl, g_nzlu, g_k, g_nprocs, g_fsupc, g_lptr, g_nsupr, g_nsupc;
void h_pivotL(void) {
  int_t pnum, jcol; double u; yes_no_t *usepr; int_t *perm_r,*inv_perm_r,*inv_perm_c,*pivrow; GlobalLU_t *Glu; Gstat_t *Gstat;
  pdgstrf_pivotL(pnum,jcol,u,usepr,perm_r,inv_perm_r,inv_perm_c,pivrow,Glu,Gstat);
}
