#ifndef C_PIV_H
#define C_PIV_H
#include "slu_mt_ddefs.h"
extern int_t g_n, g_nzl, g_nzlu, g_k, g_nprocs, g_fsupc, g_lptr, g_nsupr, g_nsupc;
int_t
pdgstrf_pivotL(const int_t pnum, const int_t jcol, const double u, yes_no_t *usepr,
  int_t *perm_r, int_t *inv_perm_r, int_t *inv_perm_c, int_t *pivrow, GlobalLU_t *Glu, Gstat_t *Gstat)
__CPROVER_requires(1 <= g_n && g_n <= 1000000 && 0 <= g_nzl && g_nzl <= 1000000 && 0<= g_nzlu && g_nzlu <= 1000000 && 1 <= g_nprocs && g_nprocs <= 64)
__CPROVER_requires(0 <= pnum && pnum < g_nprocs && 0 <= jcol && jcol < g_n)
__CPROVER_requires(__CPROVER_is_fresh(usepr, sizeof(*usepr)) && (*usepr == YES || *usepr == NO))
__CPROVER_requires(__CPROVER_is_fresh(perm_r, g_n*sizeof(int_t)))
__CPROVER_requires(__CPROVER_is_fresh(inv_perm_r, g_n*sizeof(int_t)))
__CPROVER_requires(__CPROVER_is_fresh(inv_perm_c, g_n*sizeof(int_t)))
__CPROVER_requires(__CPROVER_is_fresh(pivrow, sizeof(int_t)))
__CPROVER_requires(__CPROVER_is_fresh(Glu, sizeof(*Glu)))
__CPROVER_requires(__CPROVER_is_fresh(Gstat, sizeof(*Gstat)))
__CPROVER_requires(__CPROVER_is_fresh(Gstat->procstat, g_nprocs*sizeof(procstat_t)))
__CPROVER_requires(__CPROVER_is_fresh(Glu->xsup, (g_n+1)*sizeof(int_t)))
__CPROVER_requires(__CPROVER_is_fresh(Glu->supno, (g_n+1)*sizeof(int_t)))
__CPROVER_requires(__CPROVER_is_fresh(Glu->xlsub, (g_n+1)*sizeof(int_t)))
__CPROVER_requires(__CPROVER_is_fresh(Glu->xlsub_end, (g_n)*sizeof(int_t)))
__CPROVER_requires(__CPROVER_is_fresh(Glu->xlusup, (g_n+1)*sizeof(int_t)))
__CPROVER_requires(__CPROVER_is_fresh(Glu->lsub, g_nzl*sizeof(int_t)))
__CPROVER_requires(__CPROVER_is_fresh(Glu->lusup, g_nzlu*sizeof(double)))
__CPROVER_requires(0 <= Glu->supno[jcol] && Glu->supno[jcol] < g_n)
__CPROVER_requires(g_fsupc == Glu->xsup[Glu->supno[jcol]] && 0 <= g_fsupc && g_fsupc <= jcol)
__CPROVER_requires(g_lptr == Glu->xlsub[g_fsupc] && 0 <= g_lptr && g_lptr <= g_nzl)
__CPROVER_requires(0 <= Glu->xlsub_end[g_fsupc] && Glu->xlsub_end[g_fsupc] <= g_nzl)
__CPROVER_requires(g_nsupr == Glu->xlsub_end[g_fsupc] - g_lptr && 0 <= g_nsupr && g_nsupr <= 64 && g_lptr + g_nsupr <= g_nzl)
__CPROVER_requires(g_nsupc == jcol - g_fsupc && g_nsupc < g_nsupr)
__CPROVER_requires(0 <= Glu->xlusup[g_fsupc] && Glu->xlusup[g_fsupc] <= g_nzlu)
__CPROVER_requires(Glu->xlusup[jcol] == Glu->xlusup[g_fsupc] + g_nsupc*g_nsupr)
__CPROVER_requires(Glu->xlusup[jcol] + g_nsupr <= g_nzlu)
__CPROVER_requires(__CPROVER_forall { int_t q; (0 <= q && q < 64) ==> (q < g_nsupr) ==> (0 <= Glu->lsub[g_lptr + q] && Glu->lsub[g_lptr + q] < g_n) })
__CPROVER_requires(0.0 <= u && u <= 1.0)
/* candidate row ids are rows */
__CPROVER_requires(0 <= inv_perm_c[jcol] && inv_perm_c[jcol] < g_n)
__CPROVER_assigns(*pivrow, *usepr, __CPROVER_object_whole(perm_r), __CPROVER_object_whole(inv_perm_r), __CPROVER_object_whole(Glu->lsub), __CPROVER_object_whole(Glu->lusup), Gstat->procstat[pnum].fcops)
__CPROVER_ensures(__CPROVER_return_value == 0 || __CPROVER_return_value == jcol+1)
;
#endif
